"""C13 — option values resolve by the documented precedence, deterministically.

Implementation side: the real binary, `delta --show-config` with a generated git config
(`--config <file>`), command-line arguments and environment (DELTA_FEATURES, DELTA_NAVIGATE,
GIT_CONFIG_PARAMETERS); every configuration is run several times in fresh processes (fresh
hash seeds).  Model side: `drv_opts` (lean/Driver/Options.lean) computing `Options.effective`
for the same configuration and the same probe options.  Direct oracle: `oracle_*` below, an
independent statement of the *documented* precedence (manual, `--help`, the comment block of
`gather_features`), sharing no code or tables with the model.

Nondeterminism: where the program iterates a HashMap (`builtin_features.keys()`), the model
takes the enumeration order as a parameter π; the correspondence asks the model for every
relevant π and demands that each run of the binary equals one of the answers (if the
extractor reports a fixed iteration order only that π is admitted).
"""
import hashlib
import itertools
import json
import os
import re
import threading

from ..core import BUILD, hx, unhxs
from ..core import parallel_map as _parallel_map


def parallel_map(fn, items):
    """core.parallel_map; VERIF_WORKERS=<n> limits the number of concurrent delta processes (shared machine)."""
    w = int(os.environ.get("VERIF_WORKERS", "0") or 0)
    return _parallel_map(fn, items, workers=w or None)

DRIVERS = ["drv_opts"]
GENERATED = ["OptionsTables", "GitParams", "ThemeChoice"]

# ------------------------------------------------------------------ probe options
# kind: how show-config renders the value. Only options that `set_options!` assigns through
# the general path and that show-config prints without further computation.
PROBES = {
    "file-modified-label": "string",
    "file-added-label": "string",
    "file-removed-label": "string",
    "file-renamed-label": "string",
    "right-arrow": "string",
    "file-style": "style",
    "commit-style": "style",
    "hunk-header-style": "style",
    "zero-style": "style",
    "keep-plus-minus-markers": "bool",
    "line-numbers": "bool",
    "navigate": "bool",
    "side-by-side": "bool",
    "hyperlinks": "bool",
    "tabs": "int",
    "diff-stat-align-width": "int",
    "line-numbers-left-format": "string",   # printed only when line-numbers is on
    "minus-style": "style",         # rewritten by the side-by-side rule when it is clap's default
    "minus-emph-style": "style",
    "width": "int",                 # Option<String> getter
    "pager": "string",              # Option<String> getter
    "max-line-distance": "float",   # f64 getter
    "max-line-length": "int",       # usize getter (side-by-side sets it to 0: probed without side-by-side only)
}
# one probe (at least) per `impl GitConfigGet for T`
GETTER_PROBES = {"String": ["file-modified-label", "file-style"], "Option<String>": ["width", "pager"],
                 "bool": ["keep-plus-minus-markers", "navigate"], "usize": ["tabs", "diff-stat-align-width"],
                 "f64": ["max-line-distance"]}
BOTH_VALUES = {  # probe -> (file value, GIT_CONFIG_PARAMETERS value, custom feature value, command line value)
    "file-modified-label": ("Vfile", "Vpar", "Va", "Vcli"), "file-style": ("green", "yellow", "blue", "red"),
    "width": ("60", "40", "50", "33"), "pager": ("pgfile", "pgpar", "pga", "pgcli"),
    "keep-plus-minus-markers": ("false", "true", "false", None), "navigate": ("false", "true", "false", None),
    "tabs": ("3", "4", "5", "2"), "diff-stat-align-width": ("42", "43", "44", "41"),
    "max-line-distance": ("0.3", "0.5", "0.7", "0.25"),
}

DYNAMIC = ("dynamic",)   # a builtin default computed from other options: the oracle does not judge it

# The oracle's own knowledge of the builtin features (from the manual / --help / reading the
# feature modules), restricted to the probe options. value: text, or ("git", key, fallback).
O_BUILTIN = {
    "navigate": {"navigate": "true", "file-modified-label": "Δ"},
    "line-numbers": {"line-numbers": "true"},
    "side-by-side": {"side-by-side": "true", "line-numbers-left-format": "│{nm:^4}│"},
    "hyperlinks": {"hyperlinks": "true"},
    "raw": {"file-style": "raw", "commit-style": "raw", "hunk-header-style": "raw", "zero-style": "normal",
            "keep-plus-minus-markers": "true", "tabs": "0",
            "minus-style": ("git", "color.diff.old", "red"), "minus-emph-style": ("git", "color.diff.old", "red")},
    "color-only": {"file-style": "raw", "commit-style": "raw", "hunk-header-style": "raw",
                   "keep-plus-minus-markers": "true", "tabs": "0"},
    "diff-highlight": {"file-style": "raw", "commit-style": ("git", "color.diff.commit", "raw"),
                       "hunk-header-style": "raw", "zero-style": "normal",
                       "minus-style": ("git", "color.diff.old", "red"),
                       "minus-emph-style": DYNAMIC},     # `<minus-style> reverse`: not judged

    "diff-so-fancy": {"file-style": ("git", "color.diff.meta", "11"), "commit-style": ("git", "color.diff.commit", "raw"),
                      "hunk-header-style": ("git", "color.diff.frag", "file line-number bold syntax"),
                      "zero-style": "normal", "minus-style": ("git", "color.diff.old", "bold red"),
                      "minus-emph-style": ("git", "color.diff-highlight.oldHighlight", "bold red 52")},
}
O_BUILTIN_CHILDREN = {"side-by-side": ["line-numbers"]}
O_BUILTIN_NAMES = sorted(O_BUILTIN)
# order in which command-line feature flags take priority (highest first) — set.rs tests them in
# this order; only the pair (diff-so-fancy before navigate) is documented, so the oracle accepts
# any order of command-line flags (see `oracle_admissible`).
O_CLI_FLAG_ORDER = ["raw", "color-only", "diff-highlight", "diff-so-fancy", "hyperlinks", "line-numbers",
                    "navigate", "side-by-side"]


def split_ws(s):
    return s.split()


# ------------------------------------------------------------------ git's reading of a value (oracle side)
# The documented meaning of a git config value read as a type (git-config(1) "Values": boolean — true/yes/on/1,
# false/no/off/0/empty, a key without "= value" is true; integer — decimal, hexadecimal or octal with an optional
# k/m/g suffix scaling by 1024, 1024^2, 1024^3). Written from the documentation, shares nothing with the model;
# cross-checked against the installed `git config --type=…` (`crosscheck_with_git`). A value is what git's file
# parser hands over (None: key without value).
class Unjudged(Exception):
    """The documentation does not say what the effective value is (git itself rejects the value, or it is not a
    value of the option's type)."""


_O_INT = re.compile(r"^[ \t\n\v\f\r]*([+-]?)(0[xX][0-9a-fA-F]+|0[0-7]*|[1-9][0-9]*)([kKmMgG]?)$")
_O_FLOAT = re.compile(r"^[+-]?(?:[0-9]+\.?[0-9]*|\.[0-9]+)(?:[eE][+-]?[0-9]+)?$")
_O_UNIT = {"": 1, "k": 1024, "m": 1024 ** 2, "g": 1024 ** 3}


def o_read_int(v):
    """git's integer, or None when git rejects the text."""
    m = _O_INT.match(v) if v is not None else None
    if not m:
        return None
    digits = m.group(2)
    n = int(digits, 16) if digits[:2] in ("0x", "0X") else int(digits, 8) if digits.startswith("0") else int(digits)
    if n >= 2 ** 63:
        return None
    n = (-n if m.group(1) == "-" else n) * _O_UNIT[m.group(3).lower()]
    return n if -2 ** 63 <= n < 2 ** 63 else None


def o_read_bool(v):
    if v is None or v.lower() in ("true", "yes", "on"):
        return "true"
    if v.lower() in ("false", "no", "off", ""):
        return "false"
    n = o_read_int(v)
    if n is None or not -2 ** 31 <= n < 2 ** 31:
        return None
    return "true" if n else "false"


def o_kind(o):
    if o in O_BUILTIN or o == "color-only":
        return "bool"
    return PROBES.get(o, "string")


def o_canon(o, v):
    """The reading of value `v` for option `o`: decimal / true|false / the text; Unjudged when git rejects it."""
    kind = o_kind(o)
    if kind == "int":
        n = o_read_int(v)
        if n is None:
            raise Unjudged("git-rejects-value")
        if n < 0:
            raise Unjudged("negative-size")
        return str(n)
    if kind == "bool":
        b = o_read_bool(v)
        if b is None:
            raise Unjudged("git-rejects-value")
        return b
    if kind == "float":
        if v is None or not (_O_FLOAT.match(v) or v.lstrip("+-").lower() in ("inf", "infinity", "nan")):
            raise Unjudged("not-a-float")
        return v
    return "" if v is None else v


# ------------------------------------------------------------------ configuration -> runs
def cfg_key(cfg):
    return hashlib.sha256(json.dumps(cfg, sort_keys=True).encode()).hexdigest()[:16]


def gitconfig_text(gc):
    """`gc["raw"]` (optional): {"m:<key>" | "s:<section>:<key>": the text that follows the key on its line, e.g.
    " = 3k ; note" or "" for a key without value}; every other value is written double-quoted."""
    raw = gc.get("raw") or {}

    def line(tag, k, v):
        if tag in raw:
            return f"    {k}{raw[tag]}"
        return f"    {k}" if v is None else f"    {k} = {quote_git(v)}"
    out = []
    if gc["main"]:
        out.append("[delta]")
        out += [line("m:" + k, k, v) for k, v in gc["main"]]
    for name, kvs in gc["sections"]:
        out.append(f'[delta "{name}"]')
        out += [line(f"s:{name}:{k}", k, v) for k, v in kvs]
    for k, v in gc["other"]:
        parts = k.split(".")
        sec, name = parts[0], parts[-1]
        sub = ".".join(parts[1:-1])
        out.append(f'[{sec} "{sub}"]' if sub else f"[{sec}]")
        out.append(f"    {name} = {quote_git(v)}")
    return "\n".join(out) + "\n"


def quote_git(v):
    return '"' + v.replace("\\", "\\\\").replace('"', '\\"') + '"'


def params_env(params, new_format):
    if new_format:
        return " ".join(f"'delta.{k}'='{v}'" for k, v in params)
    return " ".join(f"'delta.{k}={v}'" for k, v in params)


def raw_params(cfg):
    """The text of GIT_CONFIG_PARAMETERS for this configuration (None: unset): `params_raw` when the configuration
    gives the text itself (family params-raw), otherwise the pairs written in one of git's two formats."""
    if "params_raw" in cfg:
        return cfg["params_raw"]
    if cfg["params"]:
        return params_env(cfg["params"], int(cfg_key(cfg), 16) % 2 == 0)
    return None


def impl_invocation(cfg, workdir):
    args = ["--show-config"]
    for o, v in cfg["cli"]:
        args.append("--" + o)
        if v is not None:
            args.append(v)
    if cfg["features"] is not None:
        args += ["--features", cfg["features"]]
    if cfg["no_gitconfig"]:
        args.append("--no-gitconfig")
    if cfg["config"] is not None:
        path = os.path.join(workdir, cfg_key(cfg) + ".gitconfig")
        if not os.path.exists(path):          # written once, atomically (runs of one configuration are concurrent)
            tmp = f"{path}.{os.getpid()}.{threading.get_ident()}.tmp"
            with open(tmp, "w", encoding="utf-8") as f:
                f.write(gitconfig_text(cfg["config"]))
            os.replace(tmp, path)
        args += ["--config", path]
    env = {}
    if cfg["env_features"] is not None:
        env["DELTA_FEATURES"] = cfg["env_features"]
    if cfg["env_navigate"]:
        env["DELTA_NAVIGATE"] = "1"
    if raw_params(cfg) is not None:
        env["GIT_CONFIG_PARAMETERS"] = raw_params(cfg)
    if cfg.get("bat_theme") is not None:
        env["BAT_THEME"] = cfg["bat_theme"]
    return args, env


ANSI = re.compile(r"\x1b\[[0-9;]*[A-Za-z]")


def parse_show_config(out):
    vals = {}
    for line in ANSI.sub("", out.decode("utf-8", "replace")).split("\n"):
        m = re.match(r"^    ([a-z0-9-]+) +=(?: (.*))?$", line)
        if m:
            vals[m.group(1)] = canon(m.group(2) or "")
    return vals


def canon(v):
    # `bright-yellow` / `brightyellow` are printed at random (DESIGN defect #14): one spelling
    return re.sub(r"\bbright-", "bright", v.strip())


class Impl:
    def __init__(self, ctx):
        self.ctx = ctx
        self.workdir = os.path.join(BUILD, "c13-work")
        os.makedirs(self.workdir, exist_ok=True)
        self.cwd = os.path.join(BUILD, "c13-cwd")   # not inside any git repository's work tree
        os.makedirs(self.cwd, exist_ok=True)
        self.render_cache = {}

    def run_once(self, cfg):
        args, env = impl_invocation(cfg, self.workdir)
        rc, out, err = self.ctx.run_delta(args, b"", env=env, cwd=self.cwd)
        if rc != 0:
            return {"__error__": f"rc={rc} {err.decode('utf-8', 'replace')[-300:]}"}
        return parse_show_config(out)

    def calibrate(self, pairs):
        """rendering of (option, text) as show-config prints it when given on the command line."""
        todo = sorted(set(p for p in pairs if p not in self.render_cache))

        def one(p):
            o, text = p
            if PROBES[o] == "bool":
                return text
            c = base_cfg()
            c["no_gitconfig"] = True
            c["cli"] = [[o, text]]
            if o == "line-numbers-left-format":
                c["cli"].append(["line-numbers", None])
            r = self.run_once(c)
            return r.get(o, "__missing__")
        for p, r in zip(todo, parallel_map(one, todo)):
            self.render_cache[p] = r

    def render(self, o, text):
        return self.render_cache[(o, text)]


def base_cfg():
    return {"cli": [], "features": None, "env_features": None, "env_navigate": False, "no_gitconfig": False,
            "config": {"main": [], "sections": [], "other": []}, "params": [], "probes": []}


# ------------------------------------------------------------------ model side
def git_file_field(gc):
    """values are what git's file parser hands over (quotes, escapes, comments removed); None: key without value."""
    if gc is None:
        return "-"
    lines = [f"mb\t{k}" if v is None else f"m\t{k}\t{v}" for k, v in gc["main"]]
    for name, kvs in gc["sections"]:
        lines.append(f"s\t{name}")
        lines += [f"sb\t{name}\t{k}" if v is None else f"s\t{name}\t{k}\t{v}" for k, v in kvs]
    lines += [f"o\t{k}\t{v}" for k, v in gc["other"]]
    return hx("\n".join(lines))


def model_request(cfg, pi):
    cli = "\n".join(f"{o}\t{'true' if v is None else v}" for o, v in cfg["cli"])
    return " ".join([
        "opts.resolveraw", hx(" ".join(pi)), hx(cli),
        "-" if cfg["features"] is None else hx(cfg["features"]),
        "-" if cfg["env_features"] is None else hx(cfg["env_features"]),
        "1" if cfg["env_navigate"] else "0",
        "1" if cfg["no_gitconfig"] else "0",
        hx(""),                                   # the default git config: present and empty (HOME is empty)
        git_file_field(cfg["config"]),
        "-" if raw_params(cfg) is None else hx(raw_params(cfg)),   # the text of the variable: the model reads it
        hx(" ".join(cfg["probes"])),
    ])


def decode_model(resp, cfg, impl, defaults):
    """model response -> (features list, {probe: rendered value | None if not comparable})."""
    if not resp.startswith("ok "):
        return None, None
    f = resp.split(" ")
    feats = unhxs(f[1]).split()
    vals = {}
    for o, v in zip(cfg["probes"], f[2:]):
        if v == "d":
            vals[o] = defaults.get(o)
        elif v.startswith("y:"):
            vals[o] = None
        elif v.startswith("f:"):
            vals[o] = "true" if v == "f:1" else "false"
        else:
            vals[o] = ("text", unhxs(v[2:]))
    return feats, vals


def section_flag_groups(cfg, builtin_names):
    """sets of >= 2 builtin feature flags set to true within one git config section."""
    gc = cfg["config"]
    if gc is None or cfg["no_gitconfig"]:
        return []
    groups = []
    main = dict(gc["main"])
    for k, v in cfg["params"]:
        if v in ("true", "false"):
            main[k] = v
    secs = [("", main)] + [(n, dict(kvs)) for n, kvs in gc["sections"]]
    for name, kv in secs:
        fl = sorted(k for k, v in kv.items() if k in builtin_names and o_read_bool(v) == "true")
        if len(fl) >= 2:
            groups.append(fl)
    return groups


def pis_for(cfg, builtin_names, iteration):
    base = sorted(builtin_names)
    if iteration != "hashmap-keys":
        return [base]
    involved = sorted(set(x for g in section_flag_groups(cfg, builtin_names) for x in g))
    if len(involved) < 2:
        return [base]
    rest = [b for b in base if b not in involved]
    perms = list(itertools.permutations(involved))
    if len(perms) > 24:
        perms = perms[:24]
    return [list(p) + rest for p in perms]


# ------------------------------------------------------------------ direct oracle
def o_git(cfg):
    """The git config as the documentation sees it: nothing at all under --no-gitconfig; every value as git reads
    it for the option's type (`o_canon`; Unjudged when git itself rejects a value)."""
    if cfg["no_gitconfig"] or cfg["config"] is None:
        return {"main": {}, "sections": {}, "other": {}}
    main = {}
    for k, v in cfg["config"]["main"]:
        main[k] = o_canon(k, v)
    for k, v in cfg["params"]:         # `git -c delta.k=v` overrides the file
        main[k] = o_canon(k, v)
    return {"main": main, "sections": {n: {k: o_canon(k, v) for k, v in kvs} for n, kvs in cfg["config"]["sections"]},
            "other": dict(cfg["config"]["other"])}


def o_children(f, git, inert, sec_order):
    kids = []
    if f in O_BUILTIN and f not in inert:
        kids += O_BUILTIN_CHILDREN.get(f, [])
    sec = git["sections"].get(f, {})
    if "features" in sec:
        kids += list(reversed(split_ws(sec["features"])))
    kids += [b for b in sec_order(f) if sec.get(b) == "true"]
    return kids


def o_feature_order(cfg, cli_flag_order, env_first, env_perm, sec_perm):
    """Enabled features, highest priority first (set.rs comment block, manual: 'last one wins')."""
    git = o_git(cfg)
    inert = {"side-by-side"} if any(o == "color-only" for o, _ in cfg["cli"]) else set()
    cli_feats = list(reversed(split_ws(cfg["features"]))) if cfg["features"] is not None else []
    envf = cfg["env_features"]
    features_given = cfg["features"] is not None
    if envf is not None and envf.startswith("+"):
        e = split_ws(envf[1:])
        e = [e[i] for i in env_perm] if env_perm and len(env_perm) == len(e) else e
        roots = (e + cli_feats) if env_first else (cli_feats + e)
    elif envf is not None:
        roots = list(reversed(split_ws(envf)))       # replaces --features and [delta] features
        features_given = True
    else:
        roots = cli_feats
    flags_on = set(o for o, _ in cfg["cli"] if o in O_BUILTIN)
    if cfg["env_navigate"]:
        flags_on.add("navigate")
    roots = roots + [b for b in cli_flag_order if b in flags_on]
    if not features_given and "features" in git["main"]:
        roots = roots + list(reversed(split_ws(git["main"]["features"])))

    def sec_order(secname):
        names = [b for b in O_BUILTIN_NAMES if b not in inert]
        p = sec_perm.get(secname)
        if p:
            names = list(p) + [b for b in names if b not in p]
        return names
    roots = roots + [b for b in sec_order("") if git["main"].get(b) == "true"]
    order, seen = [], set()

    def visit(f):
        if f in seen:
            return
        seen.add(f)
        order.append(f)
        for c in o_children(f, git, inert, sec_order):
            visit(c)
    for r in roots:
        visit(r)
    return order, inert


def o_value(cfg, o, order, inert, defaults, impl):
    """(source kind, rendered value) of option o by the documented precedence."""
    for co, cv in cfg["cli"]:
        if co == o:
            return "cli", impl.render(o, "true" if cv is None else cv)
    git = o_git(cfg)
    if o in git["main"]:
        return "main", impl.render(o, git["main"][o])
    for f in order:
        sec = git["sections"].get(f, {})
        if o in sec:
            return "custom", impl.render(o, sec[o])
        if f in O_BUILTIN and f not in inert and o in O_BUILTIN[f]:
            v = O_BUILTIN[f][o]
            if v is DYNAMIC:
                return "builtin-dynamic", None
            if isinstance(v, tuple):
                v = git["other"].get(v[1], v[2])
            return "builtin", impl.render(o, v)
    return "default", defaults.get(o)


SBS_DEFAULT = {"minus-style": "syntax auto", "minus-emph-style": "syntax auto"}   # built-in default under side-by-side


def o_raw(cfg, o, order, inert):
    """(source kind, raw text) of option o by the documented precedence, no rendering."""
    for co, cv in cfg["cli"]:
        if co == o:
            return "cli", ("true" if cv is None else cv)
    git = o_git(cfg)
    if o in git["main"]:
        return "main", git["main"][o]
    for f in order:
        sec = git["sections"].get(f, {})
        if o in sec:
            return "custom", sec[o]
    return "default", None


def o_final(cfg, o, order, inert, defaults, impl):
    """Documented precedence plus the two documented built-in rules of set_options: under the
    side-by-side feature the *built-in default* of minus-style / minus-emph-style is `syntax auto`
    (any configured value stands), and color-only forces side-by-side off."""
    kind, val = o_value(cfg, o, order, inert, defaults, impl)
    if kind == "default" and o in SBS_DEFAULT and "side-by-side" in order:
        return "default-sbs", impl.render(o, SBS_DEFAULT[o])
    if o == "side-by-side" and o_raw(cfg, "color-only", order, inert)[1] == "true":
        return "color-only-reset", "false"
    return kind, val


def oracle_variants(cfg, lenient_sections):
    """Tie-break choices the documentation leaves open (and, if `lenient_sections`, the order of
    several builtin flags inside one section — documented only by example)."""
    flags_on = [b for b in O_CLI_FLAG_ORDER if any(o == b for o, _ in cfg["cli"]) or (b == "navigate" and cfg["env_navigate"])]
    rest = [b for b in O_CLI_FLAG_ORDER if b not in flags_on]
    cli_orders = [list(p) + rest for p in itertools.permutations(flags_on)] if 2 <= len(flags_on) <= 3 else [O_CLI_FLAG_ORDER]
    envf = cfg["env_features"]
    n_env = len(split_ws(envf[1:])) if envf is not None and envf.startswith("+") else 0
    env_perms = list(itertools.permutations(range(n_env))) if 2 <= n_env <= 3 else [None]
    env_first = [True, False] if (n_env and cfg["features"] is not None) else [True]
    sec_perms = [{}]
    if lenient_sections:
        git = o_git(cfg)
        secs = [("", git["main"])] + list(git["sections"].items())
        choices = []
        for name, kv in secs:
            fl = [b for b in O_BUILTIN_NAMES if kv.get(b) == "true"]
            if len(fl) >= 2:
                choices.append([(name, p) for p in itertools.permutations(fl)])
        sec_perms = [dict(c) for c in itertools.product(*choices)] if choices else [{}]
    for co in cli_orders:
        for ef in env_first:
            for ep in env_perms:
                for sp in sec_perms:
                    yield co, ef, ep, sp


def oracle_expected(cfg, defaults, impl, lenient_sections=False, primary_only=False):
    """Set of admissible {probe: rendered value} assignments (as tuples), primary first."""
    res = []
    for co, ef, ep, sp in oracle_variants(cfg, lenient_sections):
        order, inert = o_feature_order(cfg, co, ef, ep, sp)
        vals = {}
        kinds = {}
        for o in cfg["probes"]:
            kinds[o], vals[o] = o_final(cfg, o, order, inert, defaults, impl)
        res.append((vals, kinds, order))
        if primary_only:
            break
    return res


def visible(cfg_probes, vals):
    """show-config prints line-numbers-left-format only when line-numbers is on."""
    return vals


# ------------------------------------------------------------------ lattice of configurations
CUSTOM = ["a", "b", "c"]
SRC_VALUES = {  # probe -> {source: text}
    "file-modified-label": {"cli": "Vcli", "main": "Vmain", "params": "Vpar", "a": "Va", "b": "Vb", "c": "Vc"},
    "file-style": {"cli": "red", "main": "green", "params": "yellow", "a": "blue", "b": "magenta", "c": "cyan"},
    "keep-plus-minus-markers": {"cli": None, "main": "false", "params": "true", "a": "false", "b": "true", "c": "false"},
    "tabs": {"cli": "2", "main": "3", "params": "4", "a": "5", "b": "6", "c": "7"},
    "diff-stat-align-width": {"cli": "41", "main": "42", "params": "43", "a": "44", "b": "45", "c": "46"},
    "line-numbers": {"cli": None, "main": "false", "params": "true", "a": "false", "b": "true", "c": "false"},
    "navigate": {"cli": None, "main": "false", "params": "true", "a": "false", "b": "true", "c": "false"},
}
PROBE_BUILTIN = {"file-modified-label": "navigate", "file-style": "raw", "keep-plus-minus-markers": "raw",
                 "tabs": "raw", "diff-stat-align-width": None}


def add_section(cfg, name, kvs):
    for s in cfg["config"]["sections"]:
        if s[0] == name:
            s[1].extend([list(kv) for kv in kvs])
            return
    cfg["config"]["sections"].append([name, [list(kv) for kv in kvs]])


def family_sources(tier_thorough):
    """One probe x every subset of {cli, main, params, custom feature, builtin feature} x ways
    of enabling the two features x --no-gitconfig."""
    out = []
    for probe, builtin in PROBE_BUILTIN.items():
        kinds = ["cli", "main", "params", "custom"] + (["builtin"] if builtin else [])
        vals = SRC_VALUES[probe]
        for mask in range(1 << len(kinds)):
            on = {k for i, k in enumerate(kinds) if mask >> i & 1}
            modes = ["cli-ab", "cli-ba", "main-feat", "env-plus+flag", "env-replace", "flag-main"]
            if not tier_thorough and probe not in ("file-modified-label", "file-style"):
                modes = ["cli-ab", "main-feat", "flag-main"]      # quick: all 6 ways for two probes only
            for mode in modes:
                if not ({"custom", "builtin"} & on) and mode != "cli-ab":
                    continue
                if mode == "cli-ba" and not {"custom", "builtin"} <= on:
                    continue
                if mode == "flag-main" and "builtin" not in on:
                    continue
                for ng in (False, True):
                    if ng and mode not in ("cli-ab", "main-feat"):
                        continue
                    c = base_cfg()
                    c["probes"] = [probe]
                    c["no_gitconfig"] = ng
                    if "cli" in on:
                        c["cli"].append([probe, vals["cli"]])
                    if "main" in on:
                        c["config"]["main"].append([probe, vals["main"]])
                    if "params" in on:
                        c["params"].append([probe, vals["params"]])
                    feats = []
                    if "custom" in on:
                        add_section(c, "a", [(probe, vals["a"])])
                        feats.append("a")
                    if "builtin" in on:
                        feats.append(builtin)
                    if mode == "cli-ab":
                        if feats:
                            c["features"] = " ".join(feats)
                    elif mode == "cli-ba":
                        c["features"] = " ".join(reversed(feats))
                    elif mode == "main-feat":
                        c["config"]["main"].append(["features", " ".join(feats)])
                    elif mode == "env-replace":
                        c["env_features"] = " ".join(feats)
                        c["config"]["main"].append(["features", "zz"])      # must be replaced
                        add_section(c, "zz", [(probe, vals["c"])])
                    elif mode == "env-plus+flag":
                        if "custom" in on:
                            c["env_features"] = "+a"
                        if "builtin" in on:
                            c["cli"].append([builtin, None])
                    elif mode == "flag-main":
                        c["config"]["main"].append([builtin, "true"])
                        if "custom" in on:
                            c["features"] = "a"
                    c["family"] = f"sources/{probe}/{mode}"
                    out.append(c)
    return out


PAIR_PROBE = {("a", "b"): "file-added-label", ("a", "c"): "file-removed-label", ("b", "c"): "file-renamed-label"}
ALL_PROBE = "right-arrow"


def graph_cfg(edges, flags=None, extra_sections=None):
    """custom features a, b, c with tournament probes; edges: {node: 'features value'}."""
    c = base_cfg()
    for f in CUSTOM:
        kvs = []
        for (x, y), p in PAIR_PROBE.items():
            if f in (x, y):
                kvs.append((p, "P" + f))
        kvs.append((ALL_PROBE, "A" + f))
        kvs.append(("file-modified-label", "M" + f))
        if f in edges:
            kvs.append(("features", edges[f]))
        for b in (flags or {}).get(f, []):
            kvs.append((b, "true"))
        add_section(c, f, kvs)
    for name, kvs in (extra_sections or []):
        add_section(c, name, kvs)
    c["probes"] = list(PAIR_PROBE.values()) + [ALL_PROBE, "file-modified-label", "navigate", "line-numbers",
                                                "side-by-side"]
    return c


def place_roots(c, roots, how):
    """how: cli | env | env+ | main | cli+main (first root by --features, rest in [delta]) |
    env++main (first root by +DELTA_FEATURES, rest in [delta])"""
    c = json.loads(json.dumps(c))
    words = roots.split()
    if how == "cli":
        c["features"] = roots
    elif how == "env":
        c["env_features"] = roots
    elif how == "env+":
        c["env_features"] = "+" + roots
    elif how == "main":
        c["config"]["main"].append(["features", roots])
    elif how == "cli+main":
        c["features"] = words[-1]
        c["config"]["main"].append(["features", " ".join(words[:-1]) or words[-1]])
    elif how == "env++main":
        c["env_features"] = "+" + words[-1]
        c["config"]["main"].append(["features", " ".join(words[:-1]) or words[-1]])
    elif how == "params":
        c["params"].append(["features", roots])
    c["family"] = c.get("family", "graph") + "/" + how
    return c


def family_graphs(thorough):
    shapes = []   # (name, edges, flags, extra sections, roots)
    for roots in ["a", "a b", "b a", "a b c", "c a b", "b c a", "a b a", "a a"]:
        shapes.append(("flat", {}, None, None, roots))
    shapes += [
        ("nest1", {"a": "b"}, None, None, "a"),
        ("nest2", {"a": "b c"}, None, None, "a"),
        ("nest2r", {"a": "c b"}, None, None, "a"),
        ("chain", {"a": "b", "b": "c"}, None, None, "a"),
        ("rep-top-nested", {"a": "b"}, None, None, "a b"),
        ("rep-top-nested-r", {"a": "b"}, None, None, "b a"),
        ("shared-child", {"a": "b", "c": "b"}, None, None, "a c"),
        ("shared-child-r", {"a": "b", "c": "b"}, None, None, "c a"),
        ("cycle", {"a": "b", "b": "a"}, None, None, "a"),
        ("cycle-r", {"a": "b", "b": "a"}, None, None, "b c"),
        ("self-loop", {"a": "a"}, None, None, "a b"),
        ("custom->builtin-feat", {"a": "navigate"}, None, None, "a"),
        ("custom->builtin-feat2", {"a": "navigate b"}, None, None, "a"),
        ("custom->builtin-flag", {}, {"a": ["navigate"]}, None, "a b"),
        ("custom->sbs-flag", {}, {"b": ["side-by-side"]}, None, "a b"),
        ("custom->sbs-feat", {"c": "side-by-side"}, None, None, "c"),
        ("builtin+custom", {}, None, None, "navigate a"),
        ("custom+builtin", {}, None, None, "a navigate"),
        ("builtin-named-section", {}, None, [("navigate", [("file-modified-label", "Mnav")])], "navigate"),
        ("builtin-named-section+custom", {}, None, [("navigate", [("file-modified-label", "Mnav")])], "a navigate"),
        ("sbs", {}, None, None, "side-by-side"),
        ("sbs+ln-section", {}, None, [("line-numbers", [("line-numbers", "false")])], "side-by-side"),
        ("sbs+custom", {"a": "b"}, None, None, "side-by-side a"),
    ]
    hows = ["cli", "env", "env+", "main", "cli+main", "env++main", "params"]
    out = []
    for name, edges, flags, extra, roots in shapes:
        g = graph_cfg(edges, flags, extra)
        g["family"] = "graph/" + name
        for how in hows:
            if how == "params" and name not in ("flat", "nest1", "custom->builtin-feat"):
                continue
            out.append(place_roots(g, roots, how))
    # repeated feature over two sources, main-section value above all features
    g = graph_cfg({"a": "b"})
    g["family"] = "graph/main-over-features"
    g["config"]["main"].append(["file-added-label", "Pmain"])
    out.append(place_roots(g, "a b", "cli"))
    out.append(place_roots(g, "a b", "main"))
    return out


def family_flags(thorough):
    out = []
    probes = ["file-style", "commit-style", "hunk-header-style", "zero-style", "keep-plus-minus-markers", "tabs",
              "file-modified-label", "navigate", "line-numbers", "hyperlinks"]

    def mk(name):
        c = base_cfg()
        c["probes"] = list(probes)
        c["family"] = "flags/" + name
        return c
    pairs = [("raw", "diff-so-fancy"), ("diff-highlight", "raw"), ("navigate", "raw"), ("color-only", "diff-so-fancy"),
             ("line-numbers", "hyperlinks"), ("diff-highlight", "diff-so-fancy")]
    for x, y in pairs:
        c = mk(f"cli/{x}+{y}")
        c["cli"] += [[x, None], [y, None]]
        out.append(c)
        c = mk(f"main/{x}+{y}")                      # defect #13 class
        c["config"]["main"] += [[x, "true"], [y, "true"]]
        out.append(c)
        c = mk(f"main+cli/{x}+{y}")
        c["config"]["main"] += [[x, "true"]]
        c["cli"] += [[y, None]]
        out.append(c)
        c = mk(f"main+custom/{x}+{y}")
        c["config"]["main"] += [[x, "true"], ["features", "a"]]
        add_section(c, "a", [(y, "true")])
        out.append(c)
        c = mk(f"custom/{x}+{y}")                    # both flags inside one custom section
        c["features"] = "a"
        add_section(c, "a", [(x, "true"), (y, "true")])
        out.append(c)
        c = mk(f"main-false/{x}+{y}")
        c["config"]["main"] += [[x, "true"], [y, "false"]]
        out.append(c)
        c = mk(f"params/{x}+{y}")
        c["config"]["main"] += [[x, "true"]]
        c["params"] += [[y, "true"]]
        out.append(c)
    # git keys consulted by builtin tables
    for feat in ("diff-so-fancy", "diff-highlight"):
        c = mk(f"gitkey/{feat}")
        c["features"] = feat
        c["config"]["other"] += [["color.diff.meta", "magenta"], ["color.diff.commit", "green"]]
        out.append(c)
        c = mk(f"gitkey-ng/{feat}")
        c["features"] = feat
        c["no_gitconfig"] = True
        c["config"]["other"] += [["color.diff.meta", "magenta"], ["color.diff.commit", "green"]]
        out.append(c)
        c = mk(f"gitkey+raw/{feat}")                 # the documented example pair (diff-highlight above raw)
        c["config"]["main"] += [[feat, "true"], ["raw", "true"]]
        c["config"]["other"] += [["color.diff.meta", "magenta"], ["color.diff.commit", "green"]]
        out.append(c)
    # DELTA_NAVIGATE, params turning a flag off/on, a flag that is also a value
    c = mk("env-navigate")
    c["env_navigate"] = True
    out.append(c)
    c = mk("env-navigate+main-false")
    c["env_navigate"] = True
    c["config"]["main"] += [["navigate", "false"]]
    out.append(c)
    c = mk("params-flag-off")
    c["config"]["main"] += [["navigate", "true"]]
    c["params"] += [["navigate", "false"]]
    out.append(c)
    c = mk("main-flag-false+feature")
    c["config"]["main"] += [["line-numbers", "false"]]
    c["features"] = "line-numbers"
    out.append(c)
    c = mk("color-only+sbs")
    c["cli"] += [["color-only", None]]
    c["config"]["main"] += [["side-by-side", "true"]]
    c["probes"] = [p for p in probes if p != "side-by-side"]
    out.append(c)
    c = mk("color-only+sbs-cli")
    c["cli"] += [["color-only", None], ["side-by-side", None]]
    out.append(c)
    return out


def family_nogitconfig(thorough):
    out = []
    probes = ["line-numbers", "side-by-side", "navigate", "file-modified-label", "file-style", "tabs"]
    for with_config in (False, True):
        for name, setup in [
            ("features-sbs", lambda c: c.update(features="side-by-side")),
            ("flag-sbs", lambda c: c["cli"].append(["side-by-side", None])),
            ("features-navigate", lambda c: c.update(features="navigate")),
            ("features-raw-a", lambda c: c.update(features="raw a")),
            ("env-plus-sbs", lambda c: c.update(env_features="+side-by-side")),
            ("env-sbs", lambda c: c.update(env_features="side-by-side")),
            ("nothing", lambda c: None),
        ]:
            c = base_cfg()
            setup(c)
            c["no_gitconfig"] = True
            c["probes"] = list(probes)
            if with_config:
                c["config"]["main"] += [["file-style", "green"], ["features", "a"], ["navigate", "true"]]
                add_section(c, "a", [("tabs", "5"), ("file-modified-label", "Ma")])
                c["params"] += [["tabs", "4"]]
            else:
                c["config"] = None
                c["params"] += [["tabs", "4"]]
            c["family"] = "no-gitconfig/" + name + ("/config" if with_config else "/bare")
            out.append(c)
    return out


def family_env(thorough):
    """DELTA_FEATURES without '+' replaces --features and [delta] features; with '+' adds."""
    out = []
    for env in ("a", "", "+", "+a", "navigate", "+navigate"):
        for where in ("cli", "main", "both", "params"):
            c = base_cfg()
            c["env_features"] = env
            add_section(c, "a", [("file-added-label", "Pa"), ("right-arrow", "Aa")])
            add_section(c, "zz", [("file-renamed-label", "Rzz"), ("right-arrow", "Azz")])
            add_section(c, "yy", [("file-removed-label", "Ryy"), ("right-arrow", "Ayy")])
            if where in ("cli", "both"):
                c["features"] = "zz"
            if where in ("main", "both"):
                c["config"]["main"].append(["features", "yy"])
            if where == "params":
                c["params"].append(["features", "yy"])
            c["probes"] = ["file-added-label", "file-renamed-label", "file-removed-label", "right-arrow",
                           "file-modified-label", "navigate"]
            c["family"] = f"env/{env or 'empty'}/{where}"
            out.append(c)
    return out


def family_both(thorough):
    """The same key in the `[delta]` section of the file and in GIT_CONFIG_PARAMETERS (different values),
    for options of every getter type; alone, under a command-line value, above a custom feature that
    sets it too, under --no-gitconfig; the `features` key and a feature flag in both places; and both
    bool polarities."""
    out = []
    for ty, probes in GETTER_PROBES.items():
        for probe in probes:
            vfile, vpar, va, vcli = BOTH_VALUES[probe]
            for variant in ("plain", "swapped", "+cli", "+feature", "+feature-main", "no-gitconfig", "params-only",
                            "file-only"):
                c = base_cfg()
                c["probes"] = [probe]
                f, q = (vpar, vfile) if variant == "swapped" else (vfile, vpar)
                if variant != "params-only":
                    c["config"]["main"].append([probe, f])
                if variant != "file-only":
                    c["params"].append([probe, q])
                if variant == "+cli":
                    c["cli"].append([probe, vcli])
                if variant in ("+feature", "+feature-main"):
                    add_section(c, "a", [(probe, va)])
                    if variant == "+feature":
                        c["features"] = "a"
                    else:
                        c["config"]["main"].append(["features", "a"])
                if variant == "no-gitconfig":
                    c["no_gitconfig"] = True
                c["family"] = f"both/{ty}/{probe}/{variant}"
                out.append(c)
    # all getter types at once
    c = base_cfg()
    c["probes"] = [p for ps in GETTER_PROBES.values() for p in ps]
    for p in c["probes"]:
        c["config"]["main"].append([p, BOTH_VALUES[p][0]])
        c["params"].append([p, BOTH_VALUES[p][1]])
    c["family"] = "both/all-types"
    out.append(c)
    # the `features` key (String getter inside gather_features) and a feature flag (bool getter) in both places
    for ffile, fpar in (("b", "a"), ("a", "b"), ("a b", "b")):
        c = base_cfg()
        add_section(c, "a", [("file-added-label", "Pa"), ("width", "50")])
        add_section(c, "b", [("file-added-label", "Pb"), ("file-removed-label", "Rb"), ("width", "55")])
        c["config"]["main"].append(["features", ffile])
        c["params"].append(["features", fpar])
        c["probes"] = ["file-added-label", "file-removed-label", "width"]
        c["family"] = f"both/features-key/{ffile.replace(' ', '+')}/{fpar}"
        out.append(c)
    for vf, vp in (("true", "false"), ("false", "true")):
        for flag in ("navigate", "line-numbers", "raw"):
            c = base_cfg()
            c["config"]["main"].append([flag, vf])
            c["params"].append([flag, vp])
            c["probes"] = ["navigate", "line-numbers", "file-modified-label", "file-style", "keep-plus-minus-markers",
                           "tabs"]
            c["family"] = f"both/flag/{flag}/{vf}-{vp}"
            out.append(c)
    return out


def enable_sbs(c, how):
    if how == "cli":
        c["cli"].append(["side-by-side", None])
    elif how == "main-flag":
        c["config"]["main"].append(["side-by-side", "true"])
    elif how == "features-cli":
        c["features"] = ((c["features"] or "") + " side-by-side").strip()
    elif how == "features-main":
        c["config"]["main"].append(["features", "side-by-side"])
    elif how == "custom-flag":
        add_section(c, "s", [("side-by-side", "true")])
        c["features"] = ((c["features"] or "") + " s").strip()


def family_post(thorough):
    """The statements of set_options around the macro: side-by-side x minus-style / minus-emph-style
    starting with `normal ` (or not) set nowhere / in [delta] / in GIT_CONFIG_PARAMETERS / in a custom
    feature / on the command line; color-only x side-by-side."""
    out = []
    for sbs in ("none", "cli", "main-flag", "features-cli", "features-main", "custom-flag"):
        for opt in ("minus-style", "minus-emph-style"):
            placements = [("nowhere", None)]
            for value in ('normal "#3f0001"', "normal red"):
                placements += [(w, value) for w in ("main", "params", "custom", "cli")]
            placements += [("main", "red bold"), ("custom", "syntax red")]
            for where, value in placements:
                c = base_cfg()
                c["probes"] = ["minus-style", "minus-emph-style", "side-by-side"]
                if where == "main":
                    c["config"]["main"].append([opt, value])
                elif where == "params":
                    c["params"].append([opt, value])
                elif where == "custom":
                    add_section(c, "b", [(opt, value)])
                    c["features"] = "b"
                elif where == "cli":
                    c["cli"].append([opt, value])
                enable_sbs(c, sbs)
                c["family"] = f"post/sbs-{sbs}/{opt}/{where}/{(value or '-').split()[0]}"
                out.append(c)
    for co in ("cli", "main", "custom-key", "feature-name"):
        for sbs in ("cli", "main-flag", "features-cli"):
            c = base_cfg()
            c["probes"] = ["side-by-side", "keep-plus-minus-markers", "minus-style"]
            enable_sbs(c, sbs)
            if co == "cli":
                c["cli"].append(["color-only", None])
            elif co == "main":
                c["config"]["main"].append(["color-only", "true"])
            elif co == "custom-key":
                add_section(c, "k", [("color-only", "true")])
                c["features"] = ((c["features"] or "") + " k").strip()
            else:
                c["features"] = ((c["features"] or "") + " color-only").strip()
            c["family"] = f"post/color-only-{co}/sbs-{sbs}"
            out.append(c)
    return out


# ------------------------------------------------------------------ value spellings
# type -> [(class, what follows the key on its line in the file, the value git's file parser hands over)]
SPELLINGS = {
    "usize": [
        ("plain", " = 12", "12"), ("unit-suffix-k", " = 3k", "3k"), ("unit-suffix-K", " = 2K", "2K"),
        ("unit-suffix-m", " = 1m", "1m"), ("hex", " = 0x1F", "0x1F"), ("octal", " = 017", "017"),
        ("plus-sign", " = +9", "+9"), ("quoted", ' = "13"', "13"), ("comment", " = 14 ; note", "14"),
        ("comment-hash", " = 19 # note", "19"), ("leading-space", ' = " 16"', " 16"), ("zero-with-unit", " = 0k", "0k"),
        ("no-blanks", "=18", "18"),
        # git: "fatal: bad numeric config value"
        ("empty", " =", ""), ("bare-key", "", None), ("unit-kb", " = 1kb", "1kb"), ("word", " = abc", "abc"),
        ("fraction", " = 1.5", "1.5"), ("trailing-space", ' = "7 "', "7 "),
        # an integer for git, not a size
        ("negative", " = -1", "-1"),
    ],
    "bool": [
        ("true", " = true", "true"), ("true-upper", " = TRUE", "TRUE"), ("yes", " = yes", "yes"), ("yes-mixed", " = Yes", "Yes"),
        ("on", " = on", "on"), ("on-upper", " = ON", "ON"), ("one", " = 1", "1"), ("two", " = 2", "2"),
        ("minus-one", " = -1", "-1"), ("bare-key", "", None), ("quoted-yes", ' = "yes"', "yes"),
        ("comment", " = yes ; note", "yes"), ("hex-one", " = 0x1", "0x1"), ("one-with-unit", " = 1k", "1k"),
        ("false", " = false", "false"), ("no", " = no", "no"), ("no-upper", " = NO", "NO"), ("off", " = off", "off"),
        ("zero", " = 0", "0"), ("double-zero", " = 00", "00"), ("empty", " =", ""),
        # git: "fatal: bad boolean config value"
        ("letter-t", " = t", "t"), ("word", " = maybe", "maybe"), ("too-big", " = 2147483648", "2147483648"),
    ],
    "f64": [
        ("plain", " = 0.3", "0.3"), ("no-int-part", " = .5", ".5"), ("no-frac-part", " = 5.", "5."),
        ("exponent", " = 5e-1", "5e-1"), ("exponent-upper", " = 25E-2", "25E-2"), ("plus-sign", " = +0.25", "+0.25"),
        ("quoted", ' = "0.75"', "0.75"), ("comment", " = 0.5 ; note", "0.5"), ("integer", " = 1", "1"),
        # not in the float syntax
        ("unit", " = 1k", "1k"), ("hex", " = 0x1", "0x1"), ("empty", " =", ""), ("bare-key", "", None),
        ("leading-space", ' = " 0.5"', " 0.5"), ("suffix-f", " = 0.5f", "0.5f"),
    ],
    "string": [
        ("plain", " = abc", "abc"), ("quoted-blank", ' = "a b"', "a b"), ("part-quoted", ' = a "b c" d', "a b c d"),
        ("escaped-backslash", " = a\\\\b", "a\\b"), ("escaped-quote", ' = a\\"b', 'a"b'), ("comment-hash", " = a # c", "a"),
        ("comment-semicolon", " = a ; c", "a"), ("quoted-hash", ' = "a # c"', "a # c"), ("empty", " =", ""),
        ("bare-key", "", None), ("quoted-trailing-blanks", ' = "a   "', "a   "), ("non-ascii", " = é", "é"),
        ("no-blanks", "=xyz", "xyz"),
    ],
}
SPELLING_PROBES = {   # type -> probe options (option, builtin feature that sets it or None)
    "usize": [("max-line-length", None), ("tabs", "raw"), ("diff-stat-align-width", None)],
    "bool": [("navigate", "navigate"), ("keep-plus-minus-markers", "raw"), ("line-numbers", "line-numbers"),
             ("hyperlinks", "hyperlinks")],
    "f64": [("max-line-distance", None)],
    "string": [("file-modified-label", "navigate"), ("right-arrow", None), ("pager", None)],
}
SPELLING_PLAIN = {   # type -> plain values of the other sources
    "usize": {"main": "33", "a": "44", "b": "55"}, "f64": {"main": "0.11", "a": "0.22", "b": "0.33"},
    "string": {"main": "Vmain", "a": "Va", "b": "Vb"},
}
SPELLING_PLACEMENTS = ["main>custom", "main-only", "custom>custom", "custom>builtin", "custom-by-main-features>custom",
                       "params>main", "params>custom"]


def spelling_cfg(ty, cls, raw, value, probe, builtin, placement):
    """One configuration: the spelled value in the highest-priority source that sets `probe`, plain values below."""
    if ty == "bool":
        b = o_read_bool(value)
        other = "false" if b == "true" else "true"
        plain = {"main": other, "a": other, "b": other}
    else:
        plain = SPELLING_PLAIN[ty]
    c = base_cfg()
    c["probes"] = [probe]
    c["config"]["raw"] = {}
    src, _, below = placement.partition(">")
    if src == "params":
        c["params"].append([probe, value])
        if below == "main":
            c["config"]["main"].append([probe, plain["main"]])
        else:
            add_section(c, "a", [(probe, plain["a"])])
            c["features"] = "a"
        c["spelling"] = dict(type=ty, cls=cls, source="params", option=probe, value=value)
    elif src in ("main", "main-only"):
        c["config"]["main"].append([probe, value])
        c["config"]["raw"]["m:" + probe] = raw
        if below == "custom":
            add_section(c, "a", [(probe, plain["a"])])
            c["features"] = "a"
        c["spelling"] = dict(type=ty, cls=cls, source="main", option=probe, value=value)
    else:
        add_section(c, "a", [(probe, value)])
        c["config"]["raw"][f"s:a:{probe}"] = raw
        if below == "builtin":
            c["features"] = builtin + " a"
        else:
            add_section(c, "b", [(probe, plain["b"])])
            if src == "custom-by-main-features":
                c["config"]["main"].append(["features", "b a"])
            else:
                c["features"] = "b a"
        c["spelling"] = dict(type=ty, cls=cls, source="custom", section="a", option=probe, value=value)
    c["family"] = f"spelling/{ty}/{cls}/{placement}/{probe}"
    return c


def family_spellings(thorough, rng):
    """Value *spellings* per getter type (git's integer syntax with unit suffixes / hex / octal / sign, the boolean
    words in any case, numbers as booleans, a key without value, the empty value, float syntax, quotes / escapes /
    inline comments) placed in every kind of git config source: the main [delta] section of the file, a custom
    feature (enabled by --features or by [delta] features, above another custom feature or a builtin one),
    GIT_CONFIG_PARAMETERS — each time as the highest-priority source that sets the option, with plain, different
    values in the sources below, so that a source which "does not count" because of its spelling is visible."""
    out = []
    for ty, rows in SPELLINGS.items():
        seen_params = set()
        for cls, raw, value in rows:
            for placement in SPELLING_PLACEMENTS:
                probes = list(SPELLING_PROBES[ty])
                if placement == "custom>builtin":
                    probes = [p for p in probes if p[1]]
                if placement.startswith("params"):
                    # the text travels in an environment variable: no file syntax; delta's regex wants [^']+
                    if value is None or value == "" or "'" in value or raw.lstrip(" =") != value:
                        continue
                    if (value, placement) in seen_params:
                        continue
                    seen_params.add((value, placement))
                if cls == "negative":
                    probes = [p for p in probes if p[0] != "tabs"]     # `tabs = -1`: capacity overflow (not C13)
                if ty == "bool" and cls in ("letter-t", "word", "too-big") and placement == "custom>builtin":
                    continue
                if not probes:
                    continue
                if not thorough:
                    probes = [rng.choice(probes)]
                for probe, builtin in probes:
                    out.append(spelling_cfg(ty, cls, raw, value, probe, builtin, placement))
    # feature flags spelled: `[delta] navigate = on`, `[delta "a"] line-numbers` (no value), `side-by-side = 1` …
    for cls, raw, value in SPELLINGS["bool"]:
        b = o_read_bool(value)
        if b is None:
            continue
        for where in ("main", "custom", "custom-by-main-features"):
            flags = ["navigate", "line-numbers", "side-by-side", "raw"]
            for flag in (flags if thorough else [rng.choice(flags)]):
                c = base_cfg()
                c["config"]["raw"] = {}
                c["probes"] = ["navigate", "file-modified-label", "line-numbers", "side-by-side", "keep-plus-minus-markers",
                               "file-style"]
                if where == "main":
                    c["config"]["main"].append([flag, value])
                    c["config"]["raw"]["m:" + flag] = raw
                    if b == "false":
                        c["features"] = flag          # the main section switches the option off again
                    c["spelling"] = dict(type="bool", cls=cls, source="main", option=flag, value=value)
                else:
                    add_section(c, "a", [(flag, value)])
                    c["config"]["raw"][f"s:a:{flag}"] = raw
                    if where == "custom":
                        c["features"] = (flag + " a") if b == "false" else "a"
                    else:
                        c["config"]["main"].append(["features", (flag + " a") if b == "false" else "a"])
                    c["spelling"] = dict(type="bool", cls=cls, source="custom", section="a", option=flag, value=value)
                c["family"] = f"spelling/flag/{cls}/{where}/{flag}"
                out.append(c)
    # the `features` key itself, unquoted / partly quoted / with a comment
    for cls, raw in (("unquoted", " = a b"), ("part-quoted", ' = "a" b'), ("comment", " = a b # c"), ("tabs", " =\ta \t b")):
        for where in ("main", "custom"):
            g = graph_cfg({})
            g["config"]["raw"] = {}
            if where == "main":
                g["config"]["main"].append(["features", "a b"])
                g["config"]["raw"]["m:features"] = raw
            else:
                add_section(g, "c", [("features", "a b")])
                g["config"]["raw"]["s:c:features"] = raw
                g["features"] = "c"
            g["family"] = f"spelling/features-key/{cls}/{where}"
            out.append(g)
    return out

# ------------------------------------------------------------------ family (9): the text of GIT_CONFIG_PARAMETERS
def o_sq(s):
    """git's sq_quote_buf (quote.c): the text in single quotes, `'` and `!` written as `'\''` and `'\!'`."""
    return "'" + s.replace("'", "'\\''").replace("!", "'\\!'") + "'"


def o_params_text(entries, new_format=True):
    """What `git -c k[=v] …` leaves in GIT_CONFIG_PARAMETERS (config.c git_config_push_parameter): since git 2.31
    `'key'='value'` (`'key'=` without value), before `'key=value'` (`'key'`); entries separated by a blank."""
    out = []
    for k, v in entries:
        if new_format:
            out.append(o_sq(k) + "=" + (o_sq(v) if v is not None else ""))
        else:
            out.append(o_sq(k if v is None else k + "=" + v))
    return " ".join(out)


def o_params_view(entries):
    """git's reading of the entries, restricted to the main [delta] section: section and variable names are
    case-insensitive (git-config(1) "Syntax"), a later entry overrides an earlier one, no value = boolean true."""
    view = []
    for k, v in entries:
        parts = k.split(".")
        if len(parts) == 2 and parts[0].lower() == "delta":
            view.append([parts[1].lower(), v])
    return view


PARAMS_FILE_MAIN = [["file-modified-label", "FILE"], ["tabs", "3"], ["navigate", "false"], ["pager", "filepager"]]
PARAMS_PROBES = ["file-modified-label", "tabs", "navigate", "pager"]
# class -> list of `-c` entries (key, value | None)
PARAMS_ENTRIES = {
    "plain": [("delta.file-modified-label", "M"), ("delta.tabs", "5")],
    "value-with-blanks": [("delta.file-modified-label", "a b  c")],
    "value-with-equals": [("delta.file-modified-label", "a=b=c")],
    "value-with-double-quotes-hash": [("delta.file-modified-label", 'red "#067a00" ; x')],
    "value-non-ascii": [("delta.file-modified-label", "Δ → ✓")],
    "value-with-tab-newline": [("delta.file-modified-label", "a\tb\nc")],
    "value-backslash": [("delta.file-modified-label", "a\\b\\")],
    "last-wins-2": [("delta.tabs", "5"), ("delta.tabs", "6")],
    "last-wins-3-interleaved": [("delta.tabs", "5"), ("user.name", "A B"), ("delta.file-modified-label", "M"),
                                ("delta.tabs", "6"), ("diff.renames", None), ("delta.tabs", "7")],
    "last-wins-bool": [("delta.navigate", "true"), ("delta.navigate", "false"), ("delta.navigate", "yes")],
    "foreign-around": [("user.name", "A B"), ("delta.tabs", "5"), ("color.ui", "auto"), ("core.quotepath", None)],
    "foreign-with-bang-and-quote": [("alias.x", "!echo 'hi'"), ("delta.tabs", "5")],
    "foreign-key-delta-like": [("deltax.tabs", "9"), ("xdelta.tabs", "9"), ("delta.tabs", "5")],
    "git-unit-value": [("delta.tabs", "2k"), ("delta.navigate", "on")],
    # ---- entries delta reads differently from git (each a hypothesis of `params_parse_format`)
    "value-with-quote": [("delta.file-modified-label", "it's")],
    "value-with-bang": [("delta.file-modified-label", "hi! there")],
    "empty-value": [("delta.pager", "")],
    "bare-key": [("delta.navigate", None)],
    "key-uppercase": [("Delta.Tabs", "5")],
    "key-mixed-case-bool": [("delta.Navigate", "true")],
    "foreign-value-injection": [("user.name", "delta.file-modified-label=y")],
    "quote-value-injection": [("delta.pager", "x' 'delta.tabs=9")],
}
# texts git never writes (or rejects): only model and implementation are compared
PARAMS_MALFORMED = {
    "empty-text": "",
    "blank-text": "   ",
    "unquoted": "delta.tabs=5",
    "unterminated": "'delta.tabs'='5",
    "no-separator": "'delta.tabs'='5''delta.navigate'='true'",
    "blanks-around-equals": "'delta.tabs' = '5'",
    "empty-key-tail": "'delta.'='5' 'delta.=6'",
    "underscore-key": "'delta.ta_bs'='5'",
    "digit-key": "'delta.tabs2'='5'",
    "both-formats-mixed-up": "'delta.tabs=5'='6'",
    "nested-old-in-new": "'delta.tabs'=''delta.tabs=9''",
    "subsection-key": "'delta.a.tabs'='5'",
    "double-quotes": "\"delta.tabs\"=\"5\"",
    "newline-separated": "'delta.tabs'='5'\n'delta.navigate'='true'",
    "old-then-new-same-key": "'delta.tabs=5' 'delta.tabs'='6'",
    "only-quotes": "'" * 6,
    "quote-then-entry": "''delta.tabs=5'",
}


def params_cfg(cls, raw, view, judged, mode):
    c = base_cfg()
    c["probes"] = list(PARAMS_PROBES)
    c["config"]["main"] = [list(kv) for kv in PARAMS_FILE_MAIN]
    if mode == "over-feature":              # the values below come from a custom feature instead of [delta]
        c["config"]["main"] = []
        add_section(c, "a", [tuple(kv) for kv in PARAMS_FILE_MAIN])
        c["features"] = "a"
    c["params"] = view
    c["params_raw"] = raw
    c["params_class"] = dict(cls=cls, judged=judged)
    c["family"] = f"params-raw/{cls}/{mode}"
    return c


def family_params_raw(thorough, rng):
    """The text of GIT_CONFIG_PARAMETERS itself: (a) `-c` entries written as git writes them, in both formats
    (`o_params_text`, cross-checked against the installed git), judged against git's reading of them; (b) texts git
    does not write, (c) seeded single-character edits of well-formed texts: model against implementation only."""
    out = []
    for cls, entries in PARAMS_ENTRIES.items():
        view = o_params_view(entries)
        for new in (True, False):
            raw = o_params_text(entries, new)
            for mode in (("over-main", "over-feature") if thorough or cls in ("plain", "last-wins-2") else ("over-main",)):
                out.append(params_cfg(cls + (":new" if new else ":old"), raw, view, True, mode))
    for cls, raw in PARAMS_MALFORMED.items():
        out.append(params_cfg("malformed:" + cls, raw, [], False, "over-main"))
    base = [o_params_text(e, n) for e in PARAMS_ENTRIES.values() for n in (True, False)]
    for i in range(200 if thorough else 40):
        t = list(rng.choice(base))
        for _ in range(rng.choice([1, 1, 2, 3])):
            pos = rng.randrange(len(t) + 1)
            op = rng.choice(["del", "ins", "sub"])
            ch = rng.choice("'= \\!d.-a\"")
            if op == "del" and t:
                del t[min(pos, len(t) - 1)]
            elif op == "ins":
                t.insert(pos, ch)
            elif t:
                t[min(pos, len(t) - 1)] = ch
        out.append(params_cfg(f"edited:{i}", "".join(t), [], False, "over-main"))
    return out


def crosscheck_params_with_git(rep, cfgs):
    """The oracle's formatter and reading against the installed git: for every entry list of family params-raw,
    `git -c … ` must leave exactly the text the oracle wrote (the format of the installed git) and `git config --list`
    under the oracle's text (either format) must give the oracle's view. A disagreement is a harness defect."""
    import shutil
    import subprocess
    git = shutil.which("git")
    if not git:
        rep.notes["git_params_crosscheck"] = "no git executable: skipped"
        return
    env = {"PATH": os.environ.get("PATH", ""), "HOME": os.path.join(BUILD, "home"), "GIT_CONFIG_NOSYSTEM": "1",
           "LC_ALL": "C"}
    cwd = os.path.join(BUILD, "c13-cwd")
    os.makedirs(cwd, exist_ok=True)
    ver = subprocess.run([git, "--version"], capture_output=True).stdout.decode()
    m = re.search(r"(\d+)\.(\d+)", ver)
    new_git = bool(m) and (int(m.group(1)), int(m.group(2))) >= (2, 31)
    bad, n = [], 0
    for cls, entries in PARAMS_ENTRIES.items():
        n += 1
        args = [git]
        for k, v in entries:
            args += ["-c", k if v is None else f"{k}={v}"]
        p = subprocess.run(args + ["-c", "alias.zz=!printenv GIT_CONFIG_PARAMETERS", "zz"], env=env, cwd=cwd,
                           capture_output=True)
        got = p.stdout.decode("utf-8", "replace")
        got = got[:-1] if got.endswith("\n") else got
        want = o_params_text(list(entries) + [("alias.zz", "!printenv GIT_CONFIG_PARAMETERS")], new_git)
        if p.returncode != 0 or got != want:
            bad.append(dict(check="text-git-writes", cls=cls, oracle=want, git=got))
        for new in (True, False):
            e = dict(env, GIT_CONFIG_PARAMETERS=o_params_text(entries, new))
            p = subprocess.run([git, "config", "-z", "--list"], env=e, cwd=cwd, capture_output=True)
            seen = {}
            for item in p.stdout.decode("utf-8", "replace").split("\0"):
                if not item:
                    continue
                k, sep, v = item.partition("\n")
                parts = k.split(".")
                if len(parts) == 2 and parts[0] == "delta":
                    seen[parts[1]] = v if sep else None
            mine = {}
            for k, v in o_params_view(entries):
                mine[k] = v
            if p.returncode != 0 or seen != mine:
                bad.append(dict(check="reading", cls=cls, new_format=new, oracle=mine, git=seen))
    rep.corr_case("opts.oracle-params-text-vs-git", not bad, dict(
        what="the oracle's writing / reading of GIT_CONFIG_PARAMETERS disagrees with the installed git (harness "
             "defect, not a finding about delta)", disagreements=bad[:10]))
    rep.notes["git_params_crosscheck"] = f"{n} entry lists checked against {ver.strip()}"


# ------------------------------------------------------------------ family (10): theme and colour mode (T11 (ii))
# Observed through `--show-config`: `syntax-theme` (the theme in use) and the built-in default of `minus-style`
# (`normal 224` in light mode, `normal 52` in dark mode); a fatal error is exit status 1 with the message below.
THEME_FATAL = "--light and --dark cannot be used together."
O_LIGHT_THEMES = ["Catppuccin Latte", "GitHub", "gruvbox-light", "gruvbox-white", "Monokai Extended Light", "OneHalfLight",
                  "Solarized (light)"]          # manual / --list-syntax-themes: the themes delta treats as light
O_DEFAULT_THEME = {"light": "GitHub", "dark": "Monokai Extended"}


def theme_cfg(cli_mode, light_src, dark_src, cli_theme, git_theme, bat):
    c = base_cfg()
    c["probes"] = ["syntax-theme", "minus-style"]
    c["cli"] = [["detect-dark-light", "never"]]
    if cli_mode in ("light", "both"):
        c["cli"].append(["light", None])
    if cli_mode in ("dark", "both"):
        c["cli"].append(["dark", None])
    if cli_theme:
        c["cli"].append(["syntax-theme", cli_theme])
    sec = {}
    for key, src in (("light", light_src), ("dark", dark_src), ("syntax-theme", git_theme)):
        if not src:
            continue
        where, v = src
        if where == "main":
            c["config"]["main"].append([key, v])
        elif where == "params":
            c["params"].append([key, v])
        else:
            sec.setdefault(where, []).append((key, v))
    for name in sorted(sec):
        add_section(c, name, sec[name])
    if sec:
        c["features"] = " ".join(sorted(sec))        # the last listed feature has the highest priority
    c["bat_theme"] = bat
    c["family"] = f"theme/{cli_mode}/{light_src}/{dark_src}/{cli_theme}/{git_theme}/{bat}"
    return c


def family_theme(thorough, rng):
    cli_modes = [None, "light", "dark", "both"]
    lights = [None, ("main", "true"), ("a", "true"), ("main", "false"), ("params", "yes")]
    darks = [None, ("main", "true"), ("a", "true"), ("b", "true")]
    cli_themes = [None, "Nord", "GitHub", "none"]
    git_themes = [None, ("main", "OneHalfLight"), ("a", "zenburn"), ("b", "Coldark-Cold"), ("params", "Solarized (light)")]
    bats = [None, "Monokai Extended Light", "Dracula"]
    allc = list(itertools.product(cli_modes, lights, darks, cli_themes, git_themes, bats))
    core = [t for t in allc if sum(x is not None for x in t) <= 2]
    rest = [t for t in allc if t not in set(core)]
    picked = core + (rest if thorough else rng.sample(rest, 120))
    return [theme_cfg(*t) for t in picked]


def o_theme(cfg):
    """The documented outcome (manual "Choosing colors (styles)" / --help of --light, --dark, --syntax-theme, theme.rs
    module comment): the theme is the first of command line, git config (main section, then enabled features, last
    listed first), BAT_THEME, else the default of the mode; the mode is given by --light / --dark, else `light` / `dark`
    of the git config, else (no terminal asked) inferred from the theme, else dark. Both modes at once is an error."""
    cli = {o: v for o, v in cfg["cli"]}
    gc = cfg["config"]
    order = list(reversed(split_ws(cfg["features"] or "")))
    secs = {n: dict(kvs) for n, kvs in gc["sections"]}
    main = dict(gc["main"])
    main.update({k: v for k, v in cfg["params"]})

    def git(key):
        if key in main:
            return main[key]
        for f in order:
            if key in secs.get(f, {}):
                return secs[f][key]
        return None
    if "light" in cli and "dark" in cli:
        return "fatal"
    if "light" in cli or "dark" in cli:
        light, dark = "light" in cli, "dark" in cli
    else:
        light = o_read_bool(git("light")) == "true" if git("light") is not None else False
        dark = o_read_bool(git("dark")) == "true" if git("dark") is not None else False
    if light and dark:
        return "fatal"
    theme = cli.get("syntax-theme") or git("syntax-theme") or cfg.get("bat_theme")
    if light or dark:
        mode = "light" if light else "dark"
    elif theme is not None:
        mode = "light" if (theme in O_LIGHT_THEMES or "light" in theme.lower()) else "dark"
    else:
        mode = "dark"
    return mode, (theme if theme is not None else O_DEFAULT_THEME[mode])


def evaluate_theme(ctx, rep, cfgs):
    impl = Impl(ctx)
    mdl = ctx.model("drv_opts") if ctx.drivers_ok else None
    bnames = list(O_BUILTIN_NAMES)

    def one(c):
        args, env = impl_invocation(c, impl.workdir)
        rc, out, err = ctx.run_delta(args, b"", env=env, cwd=impl.cwd)
        if rc != 0:
            return "fatal" if THEME_FATAL in err.decode("utf-8", "replace") else {"__error__": f"rc={rc} {err[-200:]!r}"}
        v = parse_show_config(out)
        mode = {"normal 224": "light", "normal 52": "dark"}.get(v.get("minus-style"), "?" + str(v.get("minus-style")))
        return (mode, v.get("syntax-theme"))
    outs = parallel_map(one, cfgs)
    answers = []
    if mdl:
        reqs = []
        for c in cfgs:
            r = model_request(c, bnames).split(" ")
            reqs.append(" ".join(["opts.theme"] + r[1:-1] + ["-" if c.get("bat_theme") is None else hx(c["bat_theme"]), "0", "-"]))
        answers = mdl.ask(reqs)
    for i, c in enumerate(cfgs):
        ob = outs[i]
        rep.count("family:theme")
        rep.case(key=cfg_key(c), nontrivial=sum(1 for o, _ in c["cli"] if o != "detect-dark-light") + len(c["params"])
                 + len(c["config"]["main"]) + len(c["config"]["sections"]) + (c.get("bat_theme") is not None) >= 2,
                 sample=dict(family=c["family"], observed=ob))
        replay = dict(cfg=c, theme_family=True)
        if isinstance(ob, dict):
            rep.violation("delta-failed:theme", "delta --show-config failed: " + ob["__error__"], replay)
            continue
        exp = o_theme(c)
        rep.count("theme:" + ("fatal" if exp == "fatal" else exp[0]))
        if ob != exp:
            replay.update(expected=exp, observed=ob)
            what = "mode" if (ob == "fatal") != (exp == "fatal") or ob[0] != exp[0] else "theme"
            src = "cli" if any(o in ("light", "dark", "syntax-theme") for o, _ in c["cli"]) else "git" if (
                c["config"]["main"] or c["config"]["sections"] or c["params"]) else "bat" if c.get("bat_theme") else "default"
            rep.violation(f"theme-choice:{what}:highest-source-{src}",
                          f"observed (mode, theme) {ob}, the documented order of the sources gives {exp}", replay)
        if mdl:
            a = answers[i].split(" ")
            mv = "fatal" if a[:2] == ["ok", "fatal"] else (a[3], unhxs(a[4])) if len(a) == 5 and a[0] == "ok" else answers[i]
            rep.corr_case("opts.theme", mv == ob, dict(cfg=c, impl=ob, model=mv))


def random_cfg(rng):
    """thorough tier: a random configuration over the same vocabulary (up to 4 custom nodes)."""
    names = ["a", "b", "c", "d"]
    builtins = ["navigate", "raw", "line-numbers", "side-by-side", "diff-so-fancy", "diff-highlight", "hyperlinks"]
    probes = ["file-modified-label", "file-style", "keep-plus-minus-markers", "tabs", "diff-stat-align-width",
              "file-added-label", "navigate", "line-numbers", "side-by-side", "hyperlinks", "commit-style",
              "width", "pager", "max-line-distance", "minus-style"]
    texts = {"string": ["T1", "T2", "T3", "T4"], "style": ["red", "green", "blue", "yellow", "normal magenta"],
             "bool": ["true", "false"], "int": ["31", "32", "33", "35"], "float": ["0.1", "0.2", "0.4", "0.9"]}
    c = base_cfg()
    c["family"] = "random"
    c["probes"] = list(probes)

    def val(o):
        return rng.choice(texts[PROBES[o]])

    spelled = {"int": ["1k", "0x21", "+34", "040", "2K"], "bool": ["yes", "on", "1", "no", "off", "0", "TRUE", None],
               "float": ["1e-1", ".2", "3."]}

    def fval(o):
        """a value for a source of the file: now and then in another spelling git accepts for the type"""
        if PROBES[o] in spelled and o != "width" and rng.random() < 0.3:      # width: an Option<String>, validated later
            return rng.choice(spelled[PROBES[o]])
        return val(o)

    def feat_list(k):
        pool = names + builtins
        return " ".join(rng.choice(pool) for _ in range(rng.randint(1, k)))
    for f in names:
        kvs = [(o, fval(o)) for o in probes if rng.random() < 0.35]
        if rng.random() < 0.4:
            kvs.append(("features", feat_list(2)))
        if rng.random() < 0.2:
            b = rng.choice(builtins)
            if b not in [k for k, _ in kvs]:
                kvs.append((b, rng.choice(["true", "true", "yes", "1", None])))
        add_section(c, f, kvs)
    for o in probes:
        if rng.random() < 0.12:
            c["config"]["main"].append([o, fval(o)])
        if rng.random() < (0.5 if any(k == o for k, _ in c["config"]["main"]) else 0.06) \
                and o not in [k for k, _ in c["params"]]:
            c["params"].append([o, val(o)])
        if rng.random() < 0.08:
            c["cli"].append([o, None if PROBES[o] == "bool" else val(o)])
    if rng.random() < 0.5:
        c["config"]["main"].append(["features", feat_list(3)])
    if rng.random() < 0.4:
        c["features"] = feat_list(3)
    r = rng.random()
    if r < 0.2:
        c["env_features"] = "+" + rng.choice(names + builtins)
    elif r < 0.35:
        c["env_features"] = feat_list(2)
    elif r < 0.4:
        c["env_features"] = "+"
    if rng.random() < 0.15:
        b = rng.choice(builtins)
        if b not in [k for k, _ in c["config"]["main"]]:
            c["config"]["main"].append([b, "true"])
    if rng.random() < 0.1:
        c["no_gitconfig"] = True
    if rng.random() < 0.15:
        c["config"]["other"].append(["color.diff.meta", "cyan"])
    # a main-section key appears once
    seen, main = set(), []
    for k, v in c["config"]["main"]:
        if k not in seen:
            seen.add(k)
            main.append([k, v])
    c["config"]["main"] = main
    return c


def irregular(cfg):
    """Corners the documentation does not cover and the oracle therefore does not judge:
    a `[delta "<builtin name>"]` section that itself enables features."""
    gc = cfg["config"]
    if gc is None:
        return False
    for name, kvs in gc["sections"]:
        if name in O_BUILTIN:
            for k, v in kvs:
                if k == "features" or (k in O_BUILTIN and o_read_bool(v) == "true"):
                    return True
    return False


# ------------------------------------------------------------------ the check
def needed_renderings(cfgs):
    pairs = set()
    for c in cfgs:
        texts = {}
        for o, v in c["cli"]:
            texts.setdefault(o, set()).add("true" if v is None else v)
        gc = c["config"] or {"main": [], "sections": [], "other": []}

        def add_git(k, v):
            try:
                texts.setdefault(k, set()).add(o_canon(k, v))
            except Unjudged:
                pass
        for k, v in gc["main"] + c["params"]:
            add_git(k, v)
        for _, kvs in gc["sections"]:
            for k, v in kvs:
                add_git(k, v)
        other = [v for _, v in gc["other"]]
        for o in c["probes"]:
            if o in SBS_DEFAULT:
                pairs.add((o, SBS_DEFAULT[o]))
            for t in texts.get(o, ()):
                pairs.add((o, t))
            for b, tbl in O_BUILTIN.items():
                if o in tbl:
                    v = tbl[o]
                    if v is DYNAMIC:
                        continue
                    if isinstance(v, tuple):
                        pairs.add((o, v[2]))
                        for t in other:
                            pairs.add((o, t))
                    else:
                        pairs.add((o, v))
    return pairs


def sources_setting(cfg, o):
    n = 0
    n += any(co == o for co, _ in cfg["cli"])
    gc = cfg["config"] or {"main": [], "sections": [], "other": []}
    n += any(k == o for k, _ in gc["main"])
    n += any(k == o for k, _ in cfg["params"])
    n += sum(1 for _, kvs in gc["sections"] if any(k == o for k, _ in kvs))
    return n


def evaluate(ctx, rep, cfgs, runs):
    impl = Impl(ctx)
    mdl = ctx.model("drv_opts") if ctx.drivers_ok else None
    info = mdl.ask(["opts.info"])[0] if mdl else None
    if info and info.startswith("ok "):
        iteration, bnames = unhxs(info.split(" ")[1]), unhxs(info.split(" ")[2]).split()
    else:
        iteration, bnames = "hashmap-keys", list(O_BUILTIN_NAMES)
        mdl = None
    rep.notes["flag_iteration"] = iteration
    if sorted(bnames) != O_BUILTIN_NAMES:
        rep.corr_case("opts.builtin-names", False, dict(model=bnames, oracle=O_BUILTIN_NAMES))
    # guard against an incomplete oracle table (run #24: `minus-style` became a probe, the oracle's builtin
    # tables did not list it): for every probe option, the oracle must know of exactly the builtin features whose
    # generated table has that key. Only key presence is compared, never a value.
    if mdl:
        tk = mdl.ask(["opts.tablekeys"])[0]
        if tk.startswith("ok "):
            keys = {}
            for part in unhxs(tk.split(" ")[1]).split(";"):
                if ":" in part:
                    f, ks = part.split(":", 1)
                    keys[f] = set(ks.split(","))
            used = {o for c in cfgs for o in c["probes"]}
            gaps = sorted((f, o) for f in keys for o in used
                          if (o in keys[f]) != (o in O_BUILTIN.get(f, {})))
            rep.corr_case("opts.oracle-table-keys", not gaps, dict(
                what="the oracle's builtin tables and the generated ones disagree on which builtin features set a "
                     "probe option (harness defect, not a finding about delta)", gaps=gaps))
            if gaps:
                rep.notes["oracle_table_gaps"] = gaps

    # defaults and renderings, from the binary itself (command-line path)
    d = base_cfg()
    d["no_gitconfig"] = True
    defaults = impl.run_once(d)
    dl = base_cfg()
    dl["no_gitconfig"] = True
    dl["cli"] = [["line-numbers", None]]
    defaults["line-numbers-left-format"] = impl.run_once(dl).get("line-numbers-left-format")
    impl.calibrate(needed_renderings(cfgs))

    # implementation runs
    jobs = [(i, r) for i in range(len(cfgs)) for r in range(runs)]
    outs = parallel_map(lambda j: impl.run_once(cfgs[j[0]]), jobs)
    by_cfg = {}
    for (i, _), o in zip(jobs, outs):
        by_cfg.setdefault(i, []).append(o)

    # model answers
    reqs, owner = [], []
    for i, c in enumerate(cfgs):
        for pi in pis_for(c, bnames, iteration):
            reqs.append(model_request(c, pi))
            owner.append(i)
    answers = mdl.ask(reqs) if mdl else []
    model_by_cfg = {}
    for i, a in zip(owner, answers):
        model_by_cfg.setdefault(i, []).append(a)

    for i, c in enumerate(cfgs):
        probes = c["probes"]
        runs_out = by_cfg[i]
        fam = c.get("family", "?")
        rep.count("family:" + fam.split("/")[0])
        groups = section_flag_groups(c, O_BUILTIN_NAMES)
        conflict = max((sources_setting(c, o) for o in probes), default=0)
        nontrivial = conflict >= 2 or bool(c["features"] or c["env_features"]) or c["no_gitconfig"]
        replay = dict(cfg=c)
        errs = [r for r in runs_out if "__error__" in r]
        if errs:
            rep.case(key=cfg_key(c), nontrivial=nontrivial)
            rep.violation("delta-failed:" + fam.split("/")[0], "delta --show-config failed: " + errs[0]["__error__"], replay)
            continue

        def shown(r):
            ln = r.get("line-numbers") == "true"
            return {o: r.get(o) for o in probes if not (o == "line-numbers-left-format" and not ln)}
        obs = [shown(r) for r in runs_out]
        rep.case(key=cfg_key(c), nontrivial=nontrivial,
                 sample=dict(family=fam, cli=c["cli"], features=c["features"], env_features=c["env_features"],
                             no_gitconfig=c["no_gitconfig"], config=c["config"], params=c["params"], observed=obs[0]))
        rep.count("no-gitconfig" if c["no_gitconfig"] else "gitconfig")
        rep.count(f"conflicting-sources:{min(conflict, 4)}")

        # --- direct oracle 1: determinism
        deterministic = all(o == obs[0] for o in obs)
        if not deterministic:
            diff = sorted(o for o in probes if len({json.dumps(x.get(o)) for x in obs}) > 1)
            sig = ("nondeterministic:builtin-flags-in-gitconfig-section:" + "+".join(groups[0])) if groups else "nondeterministic:other"
            replay["observed_runs"] = obs
            rep.violation(sig, f"the same configuration gave different values of {diff} in different runs "
                               f"(several builtin feature flags {groups} true in one git config section)", replay)
            rep.count("nondeterministic")

        # --- direct oracle 2: the documented precedence
        primary = None
        pc = c.get("params_class")
        if pc:
            rep.count("params-raw:" + ("judged" if pc["judged"] else "model-only"))
        if pc and not pc["judged"]:
            rep.count("oracle:not-judged-text-git-does-not-write")
        elif not irregular(c):
            try:
                primary = oracle_expected(c, defaults, impl, primary_only=True)[0]
            except Unjudged as u:
                rep.count("oracle:not-judged-" + str(u))
        if c.get("spelling"):
            sp = c["spelling"]
            rep.count(f"spelling:{sp['type']}:{sp['source']}:{'judged' if primary else 'git-rejects'}")
        if primary is not None:
            admissible = None
            for ob in obs:
                unjudged = {o for o, k in primary[1].items() if k == "builtin-dynamic"}
                if unjudged:
                    rep.count("oracle:probe-not-judged-dynamic-builtin-default")
                    ob = {o: v for o, v in ob.items() if o not in unjudged}
                exp = {o: v for o, v in primary[0].items() if o in ob}
                if ob == exp:
                    continue
                if admissible is None:
                    admissible = oracle_expected(c, defaults, impl)
                if any(ob == {o: v for o, v in a[0].items() if o in ob} for a in admissible):
                    rep.count("oracle:undocumented-tiebreak-other-order")
                    continue
                bad = sorted(o for o in ob if ob[o] != exp.get(o))
                replay.update(expected=exp, observed=ob, oracle_feature_order=primary[2], differing=bad)
                lenient = oracle_expected(c, defaults, impl, lenient_sections=True) if groups else []
                if any(ob == {o: v for o, v in a[0].items() if o in ob} for a in lenient):
                    sig = "hashmap-order:builtin-flags-in-gitconfig-section:" + "+".join(groups[0])
                    what = (f"{bad}: value follows an enumeration order of the builtin flags {groups} other than the "
                            f"documented one")
                elif c["no_gitconfig"] and c["config"] is None and unexpanded_matches(c, ob, defaults, impl):
                    sig = "no-gitconfig-bare:builtin-feature-children-not-gathered"
                    what = (f"{bad}: with --no-gitconfig (and no --config) the features named by --features / "
                            f"DELTA_FEATURES are not expanded (a builtin feature's own sub-features are lost)")
                elif pc:
                    sig = "params-entry:" + pc["cls"]
                    what = (f"GIT_CONFIG_PARAMETERS={c['params_raw']!r} (what git writes for the -c entries of class "
                            f"{pc['cls']}): {bad}: observed {[ob[o] for o in bad]}, git's reading of the entries by the "
                            f"documented precedence gives {[exp.get(o) for o in bad]}")
                elif c.get("spelling"):
                    sp = c["spelling"]
                    gone = without_spelled(c)
                    try:
                        alt = oracle_expected(gone, defaults, impl, primary_only=True)[0][0]
                    except Unjudged:
                        alt = {}
                    ignored = ob == {o: v for o, v in alt.items() if o in ob}
                    sig = f"spelling-{'ignored' if ignored else 'misread'}:{sp['source']}:{sp['type']}:{sp['cls']}"
                    what = (f"{sp['option']} = {sp['value']!r} ({sp['cls']}) in source `{sp['source']}` is "
                            + ("treated as if the source did not set the option: a lower-priority source / the default decides"
                               if ignored else "not read as git reads it")
                            + f"; {bad}: observed {[ob[o] for o in bad]}, git's reading by the documented precedence gives "
                              f"{[exp.get(o) for o in bad]}")
                else:
                    kinds = sorted({primary[1][o] for o in bad})
                    sig = f"wrong-value:{fam.split('/')[0]}:expected-from-{'+'.join(kinds)}"
                    what = f"{bad}: observed {[ob[o] for o in bad]} but the documented precedence gives {[exp.get(o) for o in bad]}"
                rep.violation(sig, what, replay)
                rep.count("oracle-mismatch")
                break
        elif irregular(c) and not pc:
            rep.count("oracle:skipped-irregular")

        # --- correspondence with the model
        if mdl:
            mvals = []
            for a in model_by_cfg.get(i, []):
                feats, vals = decode_model(a, c, impl, defaults)
                if vals is None:
                    mvals.append(None)
                    continue
                rendered = {}
                for o, v in vals.items():
                    if isinstance(v, tuple):
                        if (o, v[1]) not in impl.render_cache:
                            impl.calibrate([(o, v[1])])
                        rendered[o] = impl.render(o, v[1])
                    else:
                        rendered[o] = v
                mvals.append((feats, rendered))
            for ob in obs:
                ok = False
                for mv in mvals:
                    if mv is None:
                        continue
                    cmpv = {o: v for o, v in mv[1].items() if o in ob and v is not None}
                    if all(ob[o] == v for o, v in cmpv.items()):
                        ok = True
                        break
                rep.corr_case("opts.resolve", ok, dict(cfg=c, impl=ob, model=[m and dict(features=m[0], values=m[1]) for m in mvals]))
            if len(mvals) > 1:
                rep.count("model:several-enumeration-orders")
                if len({json.dumps(m, sort_keys=True) for m in mvals if m}) > 1:
                    rep.count("model:order-dependent")


def without_spelled(c):
    """The configuration with the spelled entry (c["spelling"]) removed."""
    g = json.loads(json.dumps(c))
    sp = g.pop("spelling")
    o = sp["option"]
    if sp["source"] == "params":
        g["params"] = [kv for kv in g["params"] if kv[0] != o]
    elif sp["source"] == "main":
        g["config"]["main"] = [kv for kv in g["config"]["main"] if kv[0] != o]
    else:
        for sec in g["config"]["sections"]:
            if sec[0] == sp["section"]:
                sec[1] = [kv for kv in sec[1] if kv[0] != o]
    return g


def crosscheck_with_git(rep):
    """The oracle's tables against the installed git (when there is one): (1) every raw spelling of SPELLINGS parses
    to the value the table says (`git config --file … -z --list`); (2) `o_read_int` / `o_read_bool` agree with
    `git config --type=int|bool` on every value of the tables (a GIT_CONFIG_PARAMETERS pair, no file syntax
    involved). A disagreement is a defect of this harness (reported as a broken tie, never as a finding about delta)."""
    import shutil
    import subprocess
    import tempfile
    git = shutil.which("git")
    if not git:
        rep.notes["git_crosscheck"] = "no git executable: skipped"
        return
    bad = []
    n = 0
    env = {"PATH": os.environ.get("PATH", ""), "HOME": os.path.join(BUILD, "home"), "GIT_CONFIG_NOSYSTEM": "1",
           "LC_ALL": "C"}
    with tempfile.TemporaryDirectory() as d:
        f = os.path.join(d, "c")
        for ty, rows in SPELLINGS.items():
            for cls, raw, value in rows:
                n += 1
                with open(f, "w", encoding="utf-8") as fh:
                    fh.write("[x]\n    k%s\n" % raw)
                p = subprocess.run([git, "config", "--file", f, "-z", "--list"], env=env, capture_output=True)
                got = p.stdout.decode("utf-8", "replace")
                want = "x.k\0" if value is None else f"x.k\n{value}\0"
                if p.returncode != 0 or got != want:
                    bad.append(dict(check="raw-spelling", type=ty, cls=cls, raw=raw, table=value, git=got))
                if value is None or "'" in value or not value:
                    continue
                for gty, reader in (("int", o_read_int), ("bool", o_read_bool)):
                    if (ty, gty) not in (("usize", "int"), ("bool", "bool")):
                        continue
                    e = dict(env, GIT_CONFIG_PARAMETERS=f"'x.k'='{value}'")
                    p = subprocess.run([git, "config", "--type=" + gty, "--get", "x.k"], env=e, capture_output=True, cwd=d)
                    g = p.stdout.decode().strip() if p.returncode == 0 else None
                    mine = reader(value)
                    mine = None if mine is None else str(mine)
                    if g != mine:
                        bad.append(dict(check="reading", type=gty, value=value, table=mine, git=g))
    rep.corr_case("opts.oracle-readings-vs-git", not bad, dict(
        what="the oracle's reading of git config values disagrees with the installed git (harness defect, not a "
             "finding about delta)", disagreements=bad[:10]))
    rep.notes["git_crosscheck"] = f"{n} spellings checked against {git}"


def unexpanded_matches(c, ob, defaults, impl):
    """Does the observation equal what the documented order gives when the features named by
    --features / DELTA_FEATURES are taken without their children?"""
    saved = dict(O_BUILTIN_CHILDREN)
    try:
        O_BUILTIN_CHILDREN.clear()
        alt = oracle_expected(c, defaults, impl, primary_only=True)[0][0]
    finally:
        O_BUILTIN_CHILDREN.update(saved)
    return ob == {o: v for o, v in alt.items() if o in ob}


def run(ctx, rep):
    rep.rule = ("exhaustive small-scope lattice: (1) one probe option of each type x every subset of {command line, "
                "[delta], GIT_CONFIG_PARAMETERS, custom feature, builtin feature} x 6 ways of enabling the features (quick: 6 ways for the string and the style probe, 3 for the others) x "
                "--no-gitconfig; (2) feature graphs over <= 3 custom nodes + builtins (flat, nested, repeated, shared, "
                "cyclic, builtin-named sections) x 7 placements of the roots, observed through pairwise 'tournament' "
                "probe options; (3) pairs of builtin feature flags on the command line / in [delta] / in custom "
                "sections / GIT_CONFIG_PARAMETERS; (4) --no-gitconfig with and without --config; (5) DELTA_FEATURES (empty, '+', with and without '+') against "
                "--features / [delta] features / GIT_CONFIG_PARAMETERS delta.features; (6) the same key in the [delta] section of the file and in "
                "GIT_CONFIG_PARAMETERS with different values, for two options of every getter type (String, Option<String>, "
                "bool, usize, f64; one for f64) alone / under a command-line value / above a feature / under --no-gitconfig, "
                "the `features` key and feature flags in both places; (7) side-by-side (6 ways of enabling it) x minus-style / "
                "minus-emph-style starting with `normal ` set nowhere / [delta] / GIT_CONFIG_PARAMETERS / custom feature / "
                "command line, and color-only x side-by-side (the statements of set_options around the macro); (8) value spellings per "
                "getter type (git integers with k/m/g suffix, hex, octal, sign, quotes, comments; boolean words in any case, numbers, "
                "a key without value, the empty value; float syntax; strings with quotes / escapes / comments; values git rejects) x "
                "7 placements as the highest-priority source ([delta] over a feature / alone, custom feature over a custom / builtin "
                "feature, enabled by --features or [delta] features, GIT_CONFIG_PARAMETERS over [delta] / over a feature) x the probe "
                "options of the type (quick: one drawn from ctx.rng), feature flags and the `features` key spelled likewise; the oracle "
                "reads every value as git does (own reader, cross-checked against the installed git); (9) the text of GIT_CONFIG_PARAMETERS "
                "itself: -c entries as git writes them in both formats (values with blanks, =, quotes, !, tab / newline, non-ASCII, "
                "empty, no value; repeated keys; other sections around; keys in another letter case) judged against git's reading, "
                "texts git never writes and seeded 1-3 character edits of well-formed texts (model against binary); (10) theme and colour "
                "mode: {--light, --dark, both, neither} x light / dark / syntax-theme in [delta] / GIT_CONFIG_PARAMETERS / one of two "
                "custom features x --syntax-theme x BAT_THEME (all combinations of at most two sources, the others sampled), "
                "observed through syntax-theme and the default of minus-style; one run each. Every other configuration "
                "is run in >= 3 fresh processes. non-trivial = at least two sources set a probe, or features are "
                "enabled, or --no-gitconfig; distinct by configuration hash")
    thorough = not ctx.quick()
    cfgs = (family_sources(thorough) + family_graphs(thorough) + family_flags(thorough) + family_nogitconfig(thorough)
            + family_env(thorough) + family_both(thorough) + family_post(thorough)
            + family_spellings(thorough, ctx.rng) + family_params_raw(thorough, ctx.rng))
    if thorough:
        cfgs += [random_cfg(ctx.rng) for _ in range(6000)]
    rep.exhaustive = dict(lattice_configs=len(cfgs), runs_per_config=ctx.n(3, 6))
    rep.extra_trusted += [
        "clap (which options count as supplied), libgit2's file syntax (quotes, escapes, comments, continuation "
        "lines -> value; the harness passes the value and checks its own tables against the installed git), "
        "split_whitespace: inputs of the model; the GIT_CONFIG_PARAMETERS reader is modelled (the model is given the text of "
        "the variable: lean/DeltaModel/GitParams.lean; the regex engine itself is compared, not verified); the typed readers (git integer / boolean "
        "syntax, Rust parse::<usize|f64>) are modelled (lean/DeltaModel/OptionsValues.lean)",
        "run-to-run determinism of the real process is validated by repetition only (hash seeds are runtime)",
        "show-config rendering of a value is taken from the binary itself (same value given on the command line)",
    ]
    crosscheck_with_git(rep)
    crosscheck_params_with_git(rep, cfgs)
    evaluate(ctx, rep, cfgs, ctx.n(3, 6))
    evaluate_theme(ctx, rep, family_theme(thorough, ctx.rng))


def replay(ctx, rep, obj):
    case = obj.get("case") or {}
    cfg = case.get("cfg")
    if cfg is None:
        bc = obj.get("broken_correspondence") or []
        cfgs = [b["case"]["cfg"] for b in bc if b.get("case") and "cfg" in b["case"]]
    else:
        cfgs = [cfg]
    if not cfgs:
        return run(ctx, rep)
    rep.rule = "replay of recorded configuration(s)"
    if obj.get("case", {}).get("theme_family") or any(c.get("family", "").startswith("theme/") for c in cfgs):
        return evaluate_theme(ctx, rep, cfgs)
    evaluate(ctx, rep, cfgs, 12)
