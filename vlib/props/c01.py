"""C01 — every hunk line shown exactly once, in order, text intact (unified view)."""
from .. import machine as M
from ..core import hx

DRIVERS = ["drv_machine"]
GENERATED = ["Handlers", "Markers"]


def expected_rows(cfg, f):
    """The hunk rows the property demands for one generated file section."""
    exp = []
    tab = cfg.d["tab"]
    for h in f["hunks"]:
        for k, body in h["lines"]:
            text = body.replace("\t", " " * tab) if tab else body
            pre = {"-": "-", "+": "+", " ": " "}[k] if cfg.d["keepMarkers"] else ""
            if pre + text == "":
                continue  # an empty painted line is an empty output row: not attributable to a kind
            exp.append(({"-": "minus", "+": "plus", " ": "zero"}[k], (pre + text).rstrip(" ")))
    return exp


def gen_case(ctx, i):
    rng = ctx.rng
    r = rng.random()
    cfg = M.gen_cfg(rng, color_only=False)
    if r < 0.6:
        lines, files = M.gen_git_diff(rng)
        src = "git"
    elif r < 0.8:
        lines, files = M.gen_plain_diff(rng)
        src = "plain"
    else:
        lines, files = M.gen_combined_diff(rng)
        src = "combined"
    return cfg, lines, files, src


def combined_oracle(cfg, lines, impl, rep, case):
    """Two-parent combined diff, independent reading of the display rule: ordinary lines once, in order, prefix columns
    kept; a conflict region (when conflict handling is on) as two comparisons, ancestor lines before ours, then ancestor
    lines before theirs, nothing of an earlier region repeated."""
    tab = cfg.d["tab"]
    ex = lambda t: t.replace("\t", " " * tab) if tab else t
    mark = (lambda k: {"minus": "-", "plus": "+"}[k]) if cfg.d["keepMarkers"] else (lambda k: "")
    try:
        start = next(i for i, l in enumerate(lines) if l.startswith("@@@")) + 1
    except StopIteration:
        return
    exp, mode, bufs = [], None, None
    heads, names = [], None
    for l in lines[start:]:
        if cfg.d["mergeConflicts"] and mode is None and l.startswith("++<<<<<<<") and l[9:].strip():
            mode, bufs = "ours", dict(ours=[], anc=[], theirs=[])
            names = dict(ours=l[9:].strip(), anc=None)
        elif mode in ("ours",) and l.startswith("++|||||||") and l[9:].strip():
            mode = "anc"
            names["anc"] = l[9:].strip()
        elif mode in ("ours", "anc") and l.startswith("++======="):
            mode = "theirs"
        elif mode and l.startswith("++>>>>>>>") and l[9:].strip():
            # the two comparisons are headed by the commit names; "ancestor ⟶ name" only if THIS region has an ancestral section
            for nm in (names["ours"], l[9:].strip()):
                heads.append(("ancestor " + cfg.d["rightArrow"] + " " + nm) if names["anc"] is not None else nm)
            for side in ("ours", "theirs"):
                exp += [("minus", mark("minus") + ex(x[2:])) for x in bufs["anc"]]
                exp += [("plus", mark("plus") + ex(x[2:])) for x in bufs[side]]
            mode = None
        elif mode:
            bufs[mode].append(l)
        else:
            pre = l[:2]
            first = next((ch for ch in pre if ch in "+-"), None)
            kind = {"-": "minus", "+": "plus", None: "zero"}[first]
            if first is None and pre.strip(" "):
                return                              # not a line of a two-parent combined hunk: out of the oracle's domain
            exp.append((kind, pre + ex(l[2:])))
    if mode:
        return                                      # unterminated region: out of the oracle's domain
    got_heads = [" ".join(t.split()) for k, t in impl.rows if k == "mcHeader"]
    if got_heads != [" ".join(h.split()) for h in heads]:
        rep.violation("conflict-region-headers", f"conflict region headers: got {got_heads!r}, want {heads!r}", case)
    norm = lambda rows: [(k, t.rstrip(" ")) for k, t in rows if t.strip(" ")]
    got = norm([(k, t) for k, t in impl.rows if k in ("minus", "plus", "zero")])
    exp = norm(exp)
    if got != exp:
        j = next((j for j, (a, b) in enumerate(zip(got, exp)) if a != b), min(len(got), len(exp)))
        rep.violation("hunk-rows-differ:combined",
                      f"combined diff rows differ at {j}: got {got[j] if j < len(got) else None!r}, want {exp[j] if j < len(exp) else None!r}", case)


def oracle(cfg, lines, files, src, impl, rep, case):
    """Direct check of the C01 statement on the implementation's rows."""
    if src == "combined":
        return combined_oracle(cfg, lines, impl, rep, case)
    rows = impl.rows
    hunk_rows = [(k, t) for k, t in rows if k in ("minus", "plus", "zero")]
    exp = []
    for f in files:
        if f.get("submodule"):
            exp.append(("minus", "0123456789ab..76543210fedc"))
            continue
        exp += expected_rows(cfg, f)
    # placement: the hunk rows of a file section stand between that section's header row and the next one's
    if hunk_rows == exp and src == "git" and not cfg.d["fileRaw"] and not cfg.d["fileOmit"]:
        chunks, cur = [], None
        for k, t in rows:
            if k == "file":
                cur = []; chunks.append(cur)
            elif k in ("minus", "plus", "zero") and cur is not None:
                cur.append((k, t))
        per_file = []
        for f in files:
            per_file.append([("minus", "0123456789ab..76543210fedc")] if f.get("submodule") else expected_rows(cfg, f))
        if len(chunks) == len(files) and chunks != per_file:
            j = next(j for j, (a, b) in enumerate(zip(chunks, per_file)) if a != b)
            rep.violation("hunk-rows-misplaced:" + files[j]["kind"],
                          f"section {j} ({files[j]['kind']}): rows under its header {chunks[j][:3]!r}…, its hunk lines {per_file[j][:3]!r}…", case)
    if hunk_rows != exp:
        j = next((j for j, (a, b) in enumerate(zip(hunk_rows, exp)) if a != b), min(len(hunk_rows), len(exp)))
        got = hunk_rows[j] if j < len(hunk_rows) else None
        want = exp[j] if j < len(exp) else None
        body = (want or got or ("", ""))[1]
        sig = "hunk-rows-differ:" + src
        if src == "plain" and want and want[1].startswith("++ "):
            sig = "plain-diff-plusplus-body-taken-as-header"
        rep.violation(sig, f"hunk rows differ at {j}: got {got!r}, want {want!r}", case)


def run(ctx, rep):
    rep.rule = ("structured diffs (git unified with every file-event kind, plain diff -u, combined with conflict regions; "
                "bodies from an alphabet with marker look-alikes, tabs, Unicode) x random unified-view configurations; "
                "non-trivial = has >= 1 hunk with a changed line; distinct by (config, input)")
    n = ctx.n(300, 6000)
    cases, meta = [], []
    for i in range(n):
        cfg, lines, files, src = gen_case(ctx, i)
        if ctx.rng.random() < 0.15:
            lines = M.mutate_lines(ctx.rng, lines); src2 = src + "+mutated"
        else:
            src2 = src
        lb = [l.encode("utf-8") for l in lines]
        cases.append((cfg, lb)); meta.append((cfg, lines, files, src2))
    res = M.observe(ctx, cases)
    for (cfg, lines, files, src), (impl, model) in zip(meta, res):
        case = dict(args=cfg.args(), model_cfg=cfg.d, input="\n".join(lines), source=src)
        nontrivial = any(k in "-+" for f in files for h in f["hunks"] for k, _ in h["lines"]) or src.startswith("combined")
        rep.case(key=(cfg.key(), tuple(lines)), nontrivial=nontrivial,
                 sample=dict(source=src, args=" ".join(cfg.args()[:6]) + " …", input_head=lines[:6], n_lines=len(lines)))
        rep.count("source:" + src)
        if impl.panic:
            rep.count("impl-panic")
            rep.violation("panic:" + impl.msg[:60], "implementation panicked/exited: " + impl.msg[:200], case)
            continue
        if not impl.ok:
            rep.count("impl-error"); continue
        dis = M.compare(cfg, impl, model)
        rep.corr_case("machine.run", not dis, dict(case, disagreement=dis[:2]))
        if model is not None and model.ok and not all(o["orderOk"] for o in model.obs):
            rep.count("model:orderOk=false")
        if "mutated" not in src:
            oracle(cfg, lines, files, src, impl, rep, case)


def replay(ctx, rep, obj):
    c = obj["case"]
    cfg = M.VCfg(**c["model_cfg"])
    lines = c["input"].split("\n")
    res = M.observe(ctx, [(cfg, [l.encode() for l in lines])])
    impl, model = res[0]
    print("impl:", impl.resp[:300]); print("model:", model.resp[:300] if model else None)
    print("disagreements:", M.compare(cfg, impl, model) if impl.ok else "n/a")
