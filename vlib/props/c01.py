"""C01 — every hunk line shown exactly once, in order, text intact (unified view)."""
import re

from .. import machine as M
from ..core import hx, unhx

DRIVERS = ["drv_machine"]
GENERATED = ["Handlers", "Markers", "IngestMachine", "Ingest", "HeaderState"]


def expected_rows(cfg, f):
    """The hunk rows the property demands for one generated file section."""
    exp = []
    tab = cfg.d["tab"]
    for h in f["hunks"]:
        for k, body in h["lines"]:
            text = body.replace("\t", " " * tab) if tab else body
            pre = {"-": "-", "+": "+", " ": " "}[k] if cfg.d["keepMarkers"] else ""
            if pre + text == "":
                continue  # an empty painted line is an empty output row: not attributable to a kind
            exp.append(({"-": "minus", "+": "plus", " ": "zero"}[k], (pre + text).rstrip(" ")))
    return exp


def gen_case(ctx, i):
    rng = ctx.rng
    r = rng.random()
    cfg = M.gen_cfg(rng, color_only=False)
    if r < 0.6:
        lines, files = M.gen_git_diff(rng)
        src = "git"
    elif r < 0.8:
        lines, files = M.gen_plain_diff(rng)
        src = "plain"
    else:
        lines, files = M.gen_combined_diff(rng)
        src = "combined"
    return cfg, lines, files, src


def combined_oracle(cfg, lines, impl, rep, case):
    """Two-parent combined diff, independent reading of the display rule: ordinary lines once, in order, prefix columns
    kept; a conflict region (when conflict handling is on) as two comparisons, ancestor lines before ours, then ancestor
    lines before theirs, nothing of an earlier region repeated."""
    tab = cfg.d["tab"]
    ex = lambda t: t.replace("\t", " " * tab) if tab else t
    mark = (lambda k: {"minus": "-", "plus": "+"}[k]) if cfg.d["keepMarkers"] else (lambda k: "")
    try:
        start = next(i for i, l in enumerate(lines) if l.startswith("@@@")) + 1
    except StopIteration:
        return
    exp, mode, bufs = [], None, None
    heads, names = [], None
    for l in lines[start:]:
        if cfg.d["mergeConflicts"] and mode is None and l.startswith("++<<<<<<<") and l[9:].strip():
            mode, bufs = "ours", dict(ours=[], anc=[], theirs=[])
            names = dict(ours=l[9:].strip(), anc=None)
        elif mode in ("ours",) and l.startswith("++|||||||") and l[9:].strip():
            mode = "anc"
            names["anc"] = l[9:].strip()
        elif mode in ("ours", "anc") and l.startswith("++======="):
            mode = "theirs"
        elif mode and l.startswith("++>>>>>>>") and l[9:].strip():
            # the two comparisons are headed by the commit names; "ancestor ⟶ name" only if THIS region has an ancestral section
            for nm in (names["ours"], l[9:].strip()):
                heads.append(("ancestor " + cfg.d["rightArrow"] + " " + nm) if names["anc"] is not None else nm)
            for side in ("ours", "theirs"):
                exp += [("minus", mark("minus") + ex(x[2:])) for x in bufs["anc"]]
                exp += [("plus", mark("plus") + ex(x[2:])) for x in bufs[side]]
            mode = None
        elif mode:
            bufs[mode].append(l)
        else:
            pre = l[:2]
            first = next((ch for ch in pre if ch in "+-"), None)
            kind = {"-": "minus", "+": "plus", None: "zero"}[first]
            if first is None and pre.strip(" "):
                return                              # not a line of a two-parent combined hunk: out of the oracle's domain
            exp.append((kind, pre + ex(l[2:])))
    if mode:
        return                                      # unterminated region: out of the oracle's domain
    got_heads = [" ".join(t.split()) for k, t in impl.rows if k == "mcHeader"]
    if got_heads != [" ".join(h.split()) for h in heads]:
        rep.violation("conflict-region-headers", f"conflict region headers: got {got_heads!r}, want {heads!r}", case)
    norm = lambda rows: [(k, t.rstrip(" ")) for k, t in rows if t.strip(" ")]
    got = norm([(k, t) for k, t in impl.rows if k in ("minus", "plus", "zero")])
    exp = norm(exp)
    if got != exp:
        j = next((j for j, (a, b) in enumerate(zip(got, exp)) if a != b), min(len(got), len(exp)))
        rep.violation("hunk-rows-differ:combined",
                      f"combined diff rows differ at {j}: got {got[j] if j < len(got) else None!r}, want {exp[j] if j < len(exp) else None!r}", case)


def oracle(cfg, lines, files, src, impl, rep, case):
    """Direct check of the C01 statement on the implementation's rows."""
    if src == "combined":
        return combined_oracle(cfg, lines, impl, rep, case)
    rows = impl.rows
    hunk_rows = [(k, t) for k, t in rows if k in ("minus", "plus", "zero")]
    exp = []
    for f in files:
        if f.get("submodule"):
            exp.append(("minus", "0123456789ab..76543210fedc"))
            continue
        exp += expected_rows(cfg, f)
    # placement: the hunk rows of a file section stand between that section's header row and the next one's
    if hunk_rows == exp and src == "git" and not cfg.d["fileRaw"] and not cfg.d["fileOmit"]:
        chunks, cur = [], None
        for k, t in rows:
            if k == "file":
                cur = []; chunks.append(cur)
            elif k in ("minus", "plus", "zero") and cur is not None:
                cur.append((k, t))
        per_file = []
        for f in files:
            per_file.append([("minus", "0123456789ab..76543210fedc")] if f.get("submodule") else expected_rows(cfg, f))
        if len(chunks) == len(files) and chunks != per_file:
            j = next(j for j, (a, b) in enumerate(zip(chunks, per_file)) if a != b)
            rep.violation("hunk-rows-misplaced:" + files[j]["kind"],
                          f"section {j} ({files[j]['kind']}): rows under its header {chunks[j][:3]!r}…, its hunk lines {per_file[j][:3]!r}…", case)
    if hunk_rows != exp:
        j = next((j for j, (a, b) in enumerate(zip(hunk_rows, exp)) if a != b), min(len(hunk_rows), len(exp)))
        got = hunk_rows[j] if j < len(hunk_rows) else None
        want = exp[j] if j < len(exp) else None
        body = (want or got or ("", ""))[1]
        sig = "hunk-rows-differ:" + src
        if src == "plain" and want and want[1].startswith("++ "):
            sig = "plain-diff-plusplus-body-taken-as-header"
        rep.violation(sig, f"hunk rows differ at {j}: got {got!r}, want {want!r}", case)


# ------------------------------------------------------------------ session 4 (T4): ingest_line inside the model
#
# `machine.runraw` (drv_machine): the model ingests the RAW input lines itself (`IngestMachine.toL`: CR step, truncation to
# `--max-line-length` under the regenerated guard, stripping) and runs the state machine on the result; compared with the
# hooked implementation (a) line by line: raw_line / line after `ingest_line`, (b) as whole runs (states, buffers, rows).
# Unicode enters as usual: the partition of a line into text and escape sequences (`ansi.elements`), clusters and widths
# (`text.graphemes`) and the CR test (`ansi.measure` of the tail) come from the implementation.

LIMITS_ORACLE = [0, 512, 200, 120, 80, 60]
LIMITS_SMALL = [40, 30, 20, 10, 5, 3, 2, 1]
LONG_PIECES = ["abc", "x\ty", "日本語", "é", "é", "→", "  ", "0123456789", "\t", "ｗｉｄｅ", "a​b", "-- ", "++", "@@", "{}"]
SYM = [("e", "\x1b[7m"), ("t", "→"), ("e", "\x1b[0m")]
SGR_OR_OSC = re.compile(r"\x1b\[[0-9;]*m|\x1b\[[0-9;]*K")


# candidates for ONE grapheme cluster wider than 2 columns (Hangul jamo sequences, emoji + modifiers / ZWJ sequences): what
# the implementation's tables make of them is read per line and counted (`raw:cut-at-cluster-width=N`)
WIDE_CLUSTERS = ["\u1100\uac00", "\u1100\u1100\u1161", "\u1100\uac00\u11a8", "\U0001f44d\U0001f3fd",
                 "\U0001f468\u200d\U0001f469\u200d\U0001f467", "\U0001f926\U0001f3fc\u200d\u2642\ufe0f",
                 "\u2764\u200d\U0001f525"]


def long_body(rng, body, limit, keep=0):
    """`body` lengthened beyond `limit` bytes (1-3 times; 60-180 bytes when there is no limit). Under a limit, in a
    third of the cases the body is (its first `keep` characters: the marker columns of a combined diff, then) one-column
    characters up to 0-2 columns before the cut, then a cluster wider than 2 columns: the cut falls inside that cluster
    (the `width_of_grapheme > 2` arm of `truncate_str_impl`)."""
    target = (limit if limit else 60) * rng.uniform(1.05, 3.0) + 2
    target = min(target, 700)
    out = body
    if limit and rng.random() < 0.34:
        k = max(0, limit - 1 - (keep if keep else 1) - rng.randint(0, 2))
        out = body[:keep] + "".join(rng.choice("abcxyz01_") for _ in range(k)) + rng.choice(WIDE_CLUSTERS)
    while len(out.encode()) < target:
        out += rng.choice(LONG_PIECES)
    return out


def lengthen(rng, lines, files, src, limit):
    """Make some hunk lines longer than the limit, in `lines` and in the generator's record `files` alike.
    Returns (lines, indices of the lines changed)."""
    lines = list(lines)
    changed = []
    if src == "combined":
        try:
            start = next(i for i, l in enumerate(lines) if l.startswith("@@@")) + 1
        except StopIteration:
            return lines, changed
        for i in range(start, len(lines)):
            if not lines[i].startswith(("++<<<<<<<", "++|||||||", "++=======", "++>>>>>>>")) and rng.random() < 0.3:
                lines[i] = long_body(rng, lines[i], limit, keep=3); changed.append(i)
        return lines, changed
    cur = 0
    for f in files:
        for h in f["hunks"]:
            try:
                hi = lines.index(h["header"], cur)
            except ValueError:
                return lines, changed
            body = h["lines"]
            if [k + b for k, b in body] != lines[hi + 1:hi + 1 + len(body)]:
                return lines, changed
            for j, (k, b) in enumerate(body):
                if rng.random() < 0.35:
                    nb = long_body(rng, b, limit)
                    body[j] = (k, nb); lines[hi + 1 + j] = k + nb; changed.append(hi + 1 + j)
            cur = hi + 1 + len(body)
    return lines, changed


def colour_like_git(rng, lines, files, src):
    """git's own colouring of removed / added lines (the default colours, which delta ignores) and CRLF remnants:
    the CR stands before the closing sequence. Visible text unchanged."""
    if src == "combined":
        return lines
    lines = list(lines)
    cur = 0
    crlf = rng.random() < 0.5
    for f in files:
        for h in f["hunks"]:
            try:
                hi = lines.index(h["header"], cur)
            except ValueError:
                return lines
            for j, (k, b) in enumerate(h["lines"]):
                i = hi + 1 + j
                if lines[i] != k + b:
                    return lines
                if k == "-":
                    lines[i] = "\x1b[31m" + lines[i] + ("\r" if crlf else "") + "\x1b[m"
                elif k == "+":
                    lines[i] = "\x1b[32m" + lines[i] + ("\r" if crlf else "") + "\x1b[m"
            cur = hi + 1 + len(h["lines"])
    return lines


def source_has_width_assert():
    import os
    from ..core import REPO
    try:
        return "debug_assert!(width_of_grapheme <= 2" in open(os.path.join(REPO, "src", "ansi", "mod.rs"), encoding="utf-8").read()
    except OSError:
        return True


class Uni:
    """clusters / widths / partition / measured width from the implementation, cached"""

    def __init__(self, ctx):
        self.hook = ctx.hook()
        self.g, self.el, self.ms = {}, {}, {}

    def graphemes(self, texts):
        todo = sorted(set(t for t in texts if t not in self.g))
        for t, r in zip(todo, self.hook.ask(["text.graphemes " + hx(t) for t in todo]) if todo else []):
            gs = []
            for fld in (r.split(" ")[1:] if r.startswith("ok") else []):
                if fld:
                    g, w, _ = fld.split(":")
                    gs.append((unhx(g).decode("utf-8", "replace"), int(w)))
            self.g[t] = gs

    def elements(self, strings):
        todo = sorted(set(x for x in strings if x not in self.el))
        for x, r in zip(todo, self.hook.ask(["ansi.elements " + hx(x) for x in todo]) if todo else []):
            b = x.encode()
            its = []
            for fld in (r.split(" ")[1:] if r.startswith("ok") else []):
                if fld:
                    p = fld.split(":")
                    its.append(("t" if p[0] == "T" else "e", b[int(p[1]):int(p[2])].decode("utf-8", "replace")))
            self.el[x] = its

    def measure(self, strings):
        todo = sorted(set(x for x in strings if x not in self.ms))
        for x, r in zip(todo, self.hook.ask(["ansi.measure " + hx(x) for x in todo]) if todo else []):
            self.ms[x] = int(r.split(" ")[1]) if r.startswith("ok ") else -1


def items_field(uni, items):
    if not items:
        return "-"
    out = []
    for k, x in items:
        if k == "e":
            out.append("E" + hx(x))
        else:
            out.append("T" + ";".join("%s,%d" % (hx(g), w) for g, w in uni.g[x]))
    return "|".join(out)


def observe_raw(ctx, uni, cases):
    """cases: [(VCfg, limit, [str])] -> [(ImplRun, ModelRun | None, ingested by the model | None, additive)]"""
    hook = uni.hook
    reqs, sticky = [], []
    for cfg, limit, lines in cases:
        sticky.append(len(reqs))
        reqs += ["cfg " + " ".join(hx(a) for a in cfg.args() + ["--max-line-length=%d" % limit]),
                 "machine.run " + " ".join(hx(l.encode()) for l in lines)]
    resp = hook.ask(reqs, sticky=sticky)
    impls = [M.ImplRun(resp[2 * i + 1]) for i in range(len(cases))]
    tails = [l[l.rfind("\r") + 1:] for _, _, lines in cases for l in lines if "\r" in l]
    uni.measure(tails)
    r1s = []
    for _, _, lines in cases:
        row = []
        for l in lines:
            if "\r" in l and uni.ms[l[l.rfind("\r") + 1:]] == 0:
                i = l.rfind("\r")
                row.append((1, l[:i] + l[i + 1:]))
            else:
                row.append((1 if "\r" not in l else 0, l))
        r1s.append(row)
    uni.elements([r1 for row in r1s for _, r1 in row])
    uni.graphemes([x for row in r1s for _, r1 in row for k, x in uni.el[r1] if k == "t"] + ["→"] +
                  [o["text"].decode("utf-8", "replace") for im in impls if im.ok for o in im.obs[:-1]])
    uni.measure([r1 for row in r1s for _, r1 in row])
    sym = items_field(uni, SYM)
    mdl = ctx.model("drv_machine") if ctx.drivers_ok else None
    out = [(im, None, None, True) for im in impls]
    if not mdl:
        return out
    mreqs, midx = [], []
    for i, ((cfg, limit, lines), im, row) in enumerate(zip(cases, impls, r1s)):
        if not im.ok or len(im.obs) != len(lines) + 1:
            continue
        flds, additive = [], True
        for l, (tz, r1), o in zip(lines, row, im.obs):
            items = uni.el[r1]
            if sum(w for k, x in items if k == "t" for _, w in uni.g[x]) != uni.ms[r1]:
                additive = False            # domain condition of DESIGN.md 3: width additive over clusters
            gs = ".".join(hx(g) for g, _ in uni.g[o["text"].decode("utf-8", "replace")])
            flds.append("/".join([hx(l), str(tz), items_field(uni, items), gs, o["commitRe"], o["blame"], o["grep"], o["submodule"]]))
        mreqs.append("machine.runraw %s %d %s %s" % (cfg.model_field(), limit, sym, " ".join(flds)))
        midx.append((i, additive))
    mresp = mdl.ask(mreqs) if mreqs else []
    for (i, additive), r in zip(midx, mresp):
        ing = None
        parts = r.split(" ")
        if r.startswith("ok ") and len(parts) >= 5:
            ing = [] if parts[3] == "-" else [tuple(unhx(x) for x in p.split("/")) for p in parts[3].split(";")]
            if parts[4] != "wf":
                ing = "notwf"
        out[i] = (impls[i], M.ModelRun(r), ing, additive)
    return out


def cut_line(line, limit, clusters):
    """Independent reading of the property's clause on long lines: kept whole unless longer than the limit (bytes) and
    wider than it (columns); otherwise the longest prefix of clusters that leaves one column for the mark, a blank for
    a split two-column cluster (for a split cluster wider than two columns: blanks up to the mark - the fallback of
    `truncate_str_impl`, reached since fix d6cf9d0), and the mark."""
    if limit == 0 or len(line.encode()) <= limit or sum(w for _, w in clusters) <= limit:
        return line
    room, used, out = limit - 1, 0, ""
    for g, w in clusters:
        if used + w > room:
            if w == 2 and used < room:
                out += " "
            elif w > 2:
                out += " " * max(0, room - used)
            break
        out += g; used += w
    return out + "→"


def expected_rows_limit(cfg, f, limit, uni):
    exp = []
    tab = cfg.d["tab"]
    for h in f["hunks"]:
        for k, body in h["lines"]:
            shown = cut_line(k + body, limit, uni.g[k + body])[1:]
            text = shown.replace("\t", " " * tab) if tab else shown
            pre = k if cfg.d["keepMarkers"] else ""
            if pre + text == "":
                continue
            exp.append(({"-": "minus", "+": "plus", " ": "zero"}[k], (pre + text).rstrip(" ")))
    return exp


def limit_oracle(cfg, limit, lines, files, src, impl, rep, case, uni):
    """C01 on the implementation's rows under `--max-line-length`: every hunk line once, in order, whole unless it
    exceeds the limit, then cut at the limit and marked."""
    plain = [SGR_OR_OSC.sub("", l).replace("\r", "") for l in lines]
    hunk_idx = set()
    cur = 0
    for f in files:
        for h in f["hunks"]:
            try:
                hi = plain.index(h["header"], cur)
            except ValueError:
                return False
            hunk_idx.update(range(hi + 1, hi + 1 + len(h["lines"])))
            cur = hi + 1 + len(h["lines"])
    if limit == 1 or any(limit and len(l.encode()) > limit and not l.startswith(("@@", "{")) and i not in hunk_idx
                         for i, l in enumerate(lines)):
        return False        # header lines are cut too: the input is no longer the diff the generator wrote
    if any(f.get("submodule") for f in files):
        return False
    uni.graphemes([k + b for f in files for h in f["hunks"] for k, b in h["lines"]])
    exp = [r for f in files for r in expected_rows_limit(cfg, f, limit, uni)]
    got = [(k, t) for k, t in impl.rows if k in ("minus", "plus", "zero")]
    if got != exp:
        j = next((j for j, (a, b) in enumerate(zip(got, exp)) if a != b), min(len(got), len(exp)))
        g = got[j] if j < len(got) else None
        w = exp[j] if j < len(exp) else None
        cls = "cut" if (w and w[1].endswith("→")) or (g and g[1].endswith("→")) else "whole"
        rep.violation("hunk-rows-differ:max-line-length:%s:%s" % (src, cls),
                      f"--max-line-length {limit}: hunk rows differ at {j}: got {g!r}, want {w!r}", case)
    return True


def gen_raw_case(ctx):
    rng = ctx.rng
    cfg, lines, files, src = gen_case(ctx, 0)
    if cfg.d["colorOnly"]:
        cfg = M.gen_cfg(rng, color_only=False)
    limit = rng.choice(LIMITS_ORACLE if rng.random() < 0.6 else LIMITS_SMALL)
    lines, changed = lengthen(rng, lines, files, src, limit)
    coloured = src != "combined" and rng.random() < 0.25
    if coloured:
        lines = colour_like_git(rng, lines, files, src)
    return cfg, limit, lines, files, src + ("+coloured" if coloured else ""), changed


def check_raw(ctx, rep, uni, metas):
    res = observe_raw(ctx, uni, [(cfg, limit, lines) for cfg, limit, lines, _, _, _ in metas])
    for (cfg, limit, lines, files, src, changed), (impl, model, ing, additive) in zip(metas, res):
        case = dict(args=cfg.args() + ["--max-line-length=%d" % limit], model_cfg=cfg.d, limit=limit,
                    input="\n".join(lines), source=src, files=files)
        ncut = 0
        if impl.ok:
            ncut = sum(1 for l, o in zip(lines, impl.obs) if o["raw"].replace(b"\r", b"") != l.encode().replace(b"\r", b""))
        rep.case(key=("raw", cfg.key(), limit, tuple(lines)), nontrivial=bool(changed),
                 sample=dict(op="machine.runraw", source=src, limit=limit, n_lines=len(lines), long_lines=len(changed), cut=ncut))
        rep.count("raw:source:" + src)
        rep.count("raw:limit:" + ("0" if limit == 0 else "1-5" if limit <= 5 else "10-40" if limit <= 40 else ">=60"))
        rep.count("raw:lines-cut", ncut) if ncut else rep.count("raw:no-line-cut")
        if impl.ok and limit:
            for l, o in zip(lines, impl.obs):
                if "\r" in l or l not in uni.el or o["raw"] == l.encode():
                    continue
                used, cw = 0, None     # the walk of `truncate_str_impl` next to the one-column mark
                for k, x in uni.el[l]:
                    for _, w in (uni.g.get(x, []) if k == "t" and cw is None else []):
                        if used + w > limit - 1:
                            cw = w
                            break
                        used += w
                if cw is not None:
                    rep.count("raw:cut-at-cluster-width=%s" % (cw if cw < 5 else "5+"))
                    if cw > 2:
                        rep.count("raw:cut-at-cluster-wider-than-2")
        if impl.panic:
            rep.violation("panic:max-line-length:" + impl.msg[:50], "implementation panicked/exited: " + impl.msg[:200], case)
            continue
        if not impl.ok:
            rep.count("raw:impl-error"); continue
        if not additive:
            rep.count("raw:skipped-width-not-additive")
        elif model is not None:
            if ing == "notwf":
                rep.corr_case("ingest.compose", False, dict(case, disagreement="items are not a partition of the CR-processed line"))
            elif ing is not None:
                bad = [(i, a, (o["raw"], o["text"])) for i, (a, o) in enumerate(zip(ing, impl.obs)) if a != (o["raw"], o["text"])]
                rep.corr_case("ingest.compose", not bad and len(ing) == len(lines),
                              dict(case, disagreement=[(i, repr(a), repr(b)) for i, a, b in bad[:2]]))
            skip = None
            if model.panic and "strange grapheme" in model.msg:
                rep.count("raw:model-debug-assert")
                if not source_has_width_assert():
                    # the model's error branch IS the `debug_assert!` of truncate_str_impl; the model follows the source
                    # (generated flag `truncateAssertsWideCluster`): on a tree without the assertion it takes the fallback
                    # and this branch is not reached
                    skip = "raw:skipped-debug-assert-branch-not-in-source"
            if "coloured" in src and any(o["raw"][:1] == b"\x1b" and o["text"][:1] not in (b"-", b"+") and l[:1] == "\x1b"
                                         and o["state"].startswith("Hunk") for l, o in zip(lines, impl.obs)):
                # a coloured line that is no longer a removed / added line after the cut (its marker cluster did not fit):
                # delta keeps such a line's own colouring (`maybe_raw_line`) - raw hunk lines are outside the machine model
                skip = "raw:skipped-coloured-line-lost-its-marker(raw hunk line: out of the model)"
            if skip:
                rep.count(skip)
            else:
                dis = M.compare(cfg, impl, model)
                rep.corr_case("machine.runraw", not dis, dict(case, disagreement=dis[:2]))
        if src.split("+")[0] in ("git", "plain") and "mutated" not in src:
            if limit_oracle(cfg, limit, lines, files, src.split("+")[0], impl, rep, case, uni):
                rep.count("raw:oracle-evaluated")
                if ncut:
                    rep.count("raw:oracle-evaluated-with-cut-lines")


def run_raw(ctx, rep):
    uni = Uni(ctx)
    n = ctx.n(120, 2500)
    metas = [gen_raw_case(ctx) for _ in range(n)]
    for i in range(0, n, 60):
        check_raw(ctx, rep, uni, metas[i:i + 60])


# ------------------------------------------------------------------ session 4 (strengthening): combined-diff file sections
#
# A combined diff of several file sections, each with the header lines git emits between `diff --cc` / `diff --combined`
# and the hunks (`index a,b..c`, `mode a,b..c`, `new file mode`, `deleted file mode a,b`, one `--- ` per parent with
# --combined-all-paths, `Binary files differ`), two or three parents. The oracle reads the property off the generator's
# record: every hunk line of every section once, in order, kind by the first `-` / `+` among its n prefix columns, text =
# the prefix columns (a combined diff always keeps them) followed by the rest with tabs expanded.

SECTION_CLASS = {"cc_modified": "plain-section", "cc_all_paths": "all-paths-section", "cc_mode": "mode-line-section",
                 "cc_mode_all_paths": "mode-line-section", "cc_added": "new-file-section", "cc_deleted": "deleted-file-section",
                 "cc_mode_only": "mode-line-section", "cc_binary": "binary-section", "cc_mode_binary": "mode-line-section"}

# `git show --cc` of a real merge (git 2.x): an added file, a deleted file, a file whose mode and content changed
REAL_MERGE = [
    "commit baf2155a86c71cf712653ecdc45a7ce868688231", "Merge: 1111111 2222222", "Author: A U Thor <a@example.com>",
    "Date:   Mon Jan 1 00:00:00 2024 +0000", "", "    merge", "",
    "diff --cc added.txt", "index 0000000,0000000..2fe4df4", "new file mode 100644", "--- /dev/null", "+++ b/added.txt",
    "@@@ -1,0 -1,0 +1,2 @@@", "++n1", "++n2",
    "diff --cc gone.txt", "index b77b4eb,b77b4eb..0000000", "deleted file mode 100644,100644", "--- a/gone.txt", "+++ /dev/null",
    "@@@ -1,2 -1,2 +1,0 @@@", "--x", "--y",
    "diff --cc tool.sh", "index 5922773,94235ab..ffad8be", "mode 100644,100644..100755", "--- a/tool.sh", "+++ b/tool.sh",
    "@@@ -1,5 -1,5 +1,6 @@@", "  a", "- b", " -B1", "++B1x", "  c", "- D2", " -d", "++D2x", "  e", "++new"]


def files_of_stream(lines):
    """The generator's record for a literal combined-diff stream (sections, parents, hunk lines)."""
    files, f, h = [], None, None
    for l in lines:
        if l.startswith(("diff --cc ", "diff --combined ")):
            f = dict(kind="cc_modified", nparents=2, hunks=[], header=[]); files.append(f); h = None
        elif f is None:
            continue
        elif l.startswith("@@@"):
            n = len(l) - len(l.lstrip("@")) - 1
            f["nparents"] = n
            h = dict(header=l, lines=[]); f["hunks"].append(h)
        elif h is not None:
            h["lines"].append((None, l) if l.startswith("\\") else (l[:f["nparents"]], l[f["nparents"]:]))
        else:
            if l.startswith("mode "):
                f["kind"] = "cc_mode"
            elif l.startswith("new file mode "):
                f["kind"] = "cc_added"
            elif l.startswith("deleted file mode "):
                f["kind"] = "cc_deleted"
    return files


def combined_section_rows(cfg, f):
    """what C01 demands for one section of a combined diff: [(kind, text)]"""
    tab = cfg.d["tab"]
    ex = lambda t: t.replace("\t", " " * tab) if tab else t
    out = []
    for h in f["hunks"]:
        for pre, body in h["lines"]:
            if pre is None:
                continue            # `\ No newline at end of file`: not a hunk line
            first = next((ch for ch in pre if ch in "+-"), None)
            out.append(({"-": "minus", "+": "plus", None: "zero"}[first], pre + ex(body)))
    return out


def combined_sections_oracle(cfg, lines, files, impl, rep, case):
    norm = lambda rows: [(k, t.rstrip(" ")) for k, t in rows if t.strip(" ")]
    got = norm([(k, t) for k, t in impl.rows if k in ("minus", "plus", "zero")])
    per = [norm(combined_section_rows(cfg, f)) for f in files]
    exp = [r for rows in per for r in rows]
    if got == exp:
        return
    j = next((j for j, (a, b) in enumerate(zip(got, exp)) if a != b), min(len(got), len(exp)))
    # the section the first wrong row belongs to
    sec, acc = len(files) - 1, 0
    for i, rows in enumerate(per):
        if j < acc + len(rows):
            sec = i; break
        acc += len(rows)
    f = files[sec] if files else dict(kind="?", nparents=0)
    cls = SECTION_CLASS.get(f["kind"], f["kind"])
    rep.violation("hunk-rows-differ:combined:" + cls,
                  f"combined diff, section {sec} ({f['kind']}, {f['nparents']} parents): hunk rows differ at {j}: "
                  f"got {got[j] if j < len(got) else None!r}, want {exp[j] if j < len(exp) else None!r}", case)


def gen_sections_case(ctx, i):
    rng = ctx.rng
    cfg = M.gen_cfg(rng, color_only=False)
    cells = [(k, n) for k in M.COMBINED_KINDS for n in (2, 3)]
    if i == 0:
        return cfg, list(REAL_MERGE), files_of_stream(REAL_MERGE), "combined-sections:real-merge"
    if i <= len(cells):
        # every (section kind, number of parents) once per run: alone, or after / before another section
        kind, n = cells[i - 1]
        shape = rng.choice(["alone", "after", "before", "between"])
        kinds = {"alone": [kind], "after": [None, kind], "before": [kind, None], "between": [None, kind, None]}[shape]
        files = [M.gen_combined_file(rng, kind=k, nparents=(n if k == kind else None)) for k in kinds]
        lines = [l for f in files for l in f["lines"]]
        if rng.random() < 0.5:
            c = M.gen_commit(rng)
            lines = [c[0], "Merge: 1111111 2222222"] + c[1:] + lines
        return cfg, lines, files, "combined-sections:family"
    lines, files = M.gen_combined_sections(rng)
    return cfg, lines, files, "combined-sections"


def run_combined_sections(ctx, rep):
    n = ctx.n(90, 1800)
    meta = [gen_sections_case(ctx, i) for i in range(n)]
    res = M.observe(ctx, [(cfg, [l.encode("utf-8") for l in lines]) for cfg, lines, _, _ in meta])
    for (cfg, lines, files, src), (impl, model) in zip(meta, res):
        case = dict(args=cfg.args(), model_cfg=cfg.d, input="\n".join(lines), source=src, files=files)
        nontrivial = any(pre is not None and pre.strip(" ") for f in files for h in f["hunks"] for pre, _ in h["lines"])
        rep.case(key=("sections", cfg.key(), tuple(lines)), nontrivial=nontrivial,
                 sample=dict(source=src, kinds=[f["kind"] for f in files], parents=[f["nparents"] for f in files],
                             input_head=lines[:6], n_lines=len(lines)))
        rep.count("source:" + src)
        for f in files:
            rep.count("sections:kind:%s:%d-parents" % (f["kind"], f["nparents"]))
            rep.count("sections:class:" + SECTION_CLASS.get(f["kind"], f["kind"]))
        if impl.panic:
            rep.count("impl-panic")
            rep.violation("panic:combined-sections:" + impl.msg[:50], "implementation panicked/exited: " + impl.msg[:200], case)
            continue
        if not impl.ok:
            rep.count("impl-error"); continue
        # per line: the state after every header line of a combined section is still a combined header state
        dis = M.compare(cfg, impl, model)
        rep.corr_case("machine.run", not dis, dict(case, disagreement=dis[:2]))
        combined_sections_oracle(cfg, lines, files, impl, rep, case)
        rep.count("sections:oracle-evaluated")


def run(ctx, rep):
    rep.rule = ("structured diffs (git unified with every file-event kind, plain diff -u, combined with conflict regions, "
                "combined with 1-3 file sections of every header shape git emits (index / mode a,b..c / new file mode / deleted "
                "file mode a,b / one --- per parent / Binary files differ; 2 or 3 parents; --cc and --combined); "
                "bodies from an alphabet with marker look-alikes, tabs, Unicode) x random unified-view configurations; "
                "non-trivial = has >= 1 hunk with a changed line; distinct by (config, input)")
    n = ctx.n(300, 6000)
    cases, meta = [], []
    for i in range(n):
        cfg, lines, files, src = gen_case(ctx, i)
        if ctx.rng.random() < 0.15:
            lines = M.mutate_lines(ctx.rng, lines); src2 = src + "+mutated"
        else:
            src2 = src
        lb = [l.encode("utf-8") for l in lines]
        cases.append((cfg, lb)); meta.append((cfg, lines, files, src2))
    res = M.observe(ctx, cases)
    for (cfg, lines, files, src), (impl, model) in zip(meta, res):
        case = dict(args=cfg.args(), model_cfg=cfg.d, input="\n".join(lines), source=src)
        nontrivial = any(k in "-+" for f in files for h in f["hunks"] for k, _ in h["lines"]) or src.startswith("combined")
        rep.case(key=(cfg.key(), tuple(lines)), nontrivial=nontrivial,
                 sample=dict(source=src, args=" ".join(cfg.args()[:6]) + " …", input_head=lines[:6], n_lines=len(lines)))
        rep.count("source:" + src)
        if impl.panic:
            rep.count("impl-panic")
            rep.violation("panic:" + impl.msg[:60], "implementation panicked/exited: " + impl.msg[:200], case)
            continue
        if not impl.ok:
            rep.count("impl-error"); continue
        dis = M.compare(cfg, impl, model)
        rep.corr_case("machine.run", not dis, dict(case, disagreement=dis[:2]))
        if model is not None and model.ok and not all(o["orderOk"] for o in model.obs):
            rep.count("model:orderOk=false")
        if "mutated" not in src:
            oracle(cfg, lines, files, src, impl, rep, case)
    run_raw(ctx, rep)
    run_combined_sections(ctx, rep)


def replay(ctx, rep, obj):
    c = obj["case"]
    cfg = M.VCfg(**c["model_cfg"])
    lines = c["input"].split("\n")
    if "limit" in c:
        uni = Uni(ctx)
        check_raw(ctx, rep, uni, [(cfg, c["limit"], lines, c.get("files", []), c.get("source", "git"), [])])
        (impl, model, ing, additive), = observe_raw(ctx, uni, [(cfg, c["limit"], lines)])
        print("impl:", impl.resp[:300]); print("model:", model.resp[:300] if model else None)
        print("disagreements:", M.compare(cfg, impl, model) if impl.ok else "n/a")
        return
    res = M.observe(ctx, [(cfg, [l.encode() for l in lines])])
    impl, model = res[0]
    print("impl:", impl.resp[:300]); print("model:", model.resp[:300] if model else None)
    print("disagreements:", M.compare(cfg, impl, model) if impl.ok else "n/a")
    if str(c.get("source", "")).startswith("combined-sections") and impl.ok:
        combined_sections_oracle(cfg, lines, c.get("files", []), impl, rep, c)
        print("hunk rows:", [(k, t) for k, t in impl.rows if k in ("minus", "plus", "zero")][:12])
