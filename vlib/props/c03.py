"""C03 — delta never crashes or hangs, whatever bytes and options it is given.

Proof side: Props/C03.lean (machine_total …). Correspondence: machine.run on well-formed, mutated
and hostile inputs (a panic of the implementation where the model finishes is a disagreement).
Search: structured mutation fuzzing of the real binary (overflow checks on) across presentation
modes, tiny widths and zero limits: exit status 0, no panic text, no hang.
"""
import os

from .. import machine as M
from ..core import parallel_map, b64

DRIVERS = ["drv_machine"]
GENERATED = ["Handlers", "Markers", "PanicInventory"]

HOSTILE = ["@@ foo @@", "@@ -1 +99999999999999999999999 @@", "@@ -٣ +1 @@", "diff --git ", "--- \"", "+++ \"", "@@", "@@@", "@@ @@",
           "@@ -1,2 @@", "@@ -0,0 +0,0 @@", "@@ -18446744073709551615,1 +1 @@", "diff --git a b", "diff --git a/ b/", "diff --cc ",
           "diff --combined x", "@@@ -1 -1 +1 @@@", "@@@@ -1 -1 -1 +1 @@@@", " é…x", "-é", "+​", "++<<<<<<< ", "++<<<<<<< HEAD", "++=======",
           "++>>>>>>> x", "++||||||| base", "-Subproject commit " + "a" * 40, "+Subproject commit " + "b" * 40, "Submodule x",
           "Binary files  differ", "Binary files a and b differ", "rename from ", "rename to ", "copy from \t", "new file mode",
           "new file mode 100644", "deleted file mode 100644", "old mode ", "new mode ", "old mode 100644", "new mode 100755",
           "Only in ", "index ", "\x1b[", "\x1b[31", "\x1b[!!m", "\x1b]8;;http://x\x1b\\link\x1b]8;;\x1b\\", "\x1b[0K", "\x1b(B",
           "\x1b[38;5;300m", "\x1b[38;2;1;2m", "\r", "a\rb", "\t\t\t", "", " ", "\\ No newline at end of file", "commit ", "commit abc",
           "{\"type\":\"match\"}", "{", "abcd1234 (Author 2020-01-01 00:00:00 +0000 1) x", "src/a.rs:1:fn x", "a.rs-1-ctx", "--",
           "日本語" * 30, "a" * 600, "́́́", "﻿", "x\x00y",
           # hunk lines whose marker columns are not ASCII (cut points of the byte-indexed prefix removal)
           "+é y", "é+ y", " é x", "é", "-é-", "+​+", "日本", " 日",
           # rg --json records with numbers at the edge of u64 and tabs in the text
           '{"type":"match","data":{"path":{"text":"a.rs"},"lines":{"text":"a\\tb foo\\n"},"line_number":18446744073709551615,"absolute_offset":0,'
           '"submatches":[{"match":{"text":"foo"},"start":18446744073709551615,"end":18446744073709551615}]}}',
           '{"type":"match","data":{"path":{"text":"a.rs"},"lines":{"text":"\\tfoo\\n"},"line_number":1,"absolute_offset":0,'
           '"submatches":[{"match":{"text":"foo"},"start":9223372036854775808,"end":3}]}}']

MODES = [
    [], ["--side-by-side"], ["--line-numbers"], ["--side-by-side", "--line-numbers"], ["--color-only"], ["--raw"],
    ["--diff-so-fancy"], ["--diff-highlight"], ["--navigate"], ["--hyperlinks"], ["--keep-plus-minus-markers"],
    ["--side-by-side", "--wrap-max-lines", "0"], ["--side-by-side", "--wrap-max-lines", "1"], ["--max-line-length", "10"],
    ["--side-by-side", "--wrap-max-lines", "unlimited"], ["--side-by-side", "--wrap-max-lines", "unlimited"],
    ["--side-by-side", "--wrap-max-lines", "unlimited", "--line-numbers-left-format", "", "--line-numbers-right-format", ""],
    ["--side-by-side", "--wrap-max-lines", "7", "--wrap-right-percent", "1"],
    ["--max-line-length", "0"], ["--line-buffer-size", "0"], ["--tabs", "0"], ["--no-gitconfig", "--relative-paths"],
    ["--side-by-side", "--line-fill-method", "spaces"], ["--line-fill-method", "ansi"], ["--syntax-theme", "none"],
    ["--word-diff-regex", "."], ["--max-line-distance", "0"], ["--max-line-distance", "1"], ["--inspect-raw-lines", "false"],
    ["--hunk-header-style", "omit"], ["--hunk-header-style", "raw"], ["--file-style", "omit"], ["--commit-style", "raw"],
    ["--hunk-header-style", "file line-number syntax"], ["--grep-output-type", "classic"], ["--grep-output-type", "ripgrep"],
    ["--line-numbers", "--line-numbers-left-format", "{nm:^1}", "--line-numbers-right-format", "{np:>12}|"],
    ["--zero-style", "syntax #222222", "--line-fill-method", "spaces"],
    # raw styles for hunk lines: the raw line (with its escape sequences) is sliced instead of the stripped one
    ["--zero-style", "raw", "--plus-style", "raw", "--minus-style", "raw"], ["--plus-style", "raw"], ["--minus-style", "raw"],
    ["--zero-style", "raw", "--side-by-side"], ["--plus-style", "raw", "--minus-style", "raw", "--line-numbers"],
]
WIDTHS = [None, "1", "2", "3", "4", "5", "6", "7", "8", "9", "10", "11", "12", "13", "14", "15", "16", "17", "18", "19", "20", "40",
          "79", "80", "200", "variable"]


AUTHORS = ["Ann", "K", "日本語の名前がとても長い人物です", "Kangwook Lee (이강욱)", "a b c", "x" * 40, "éé", "Dan  Davison"]
GREP_PATHS = ["src/a.rs", "Makefile", "a b/c.txt", "x-1.y", "日本/f.py", "README"]


OPTION_VALUES = [
    ("--file-transformation", ["s§a§b§", "§", "s", "sx", "", "s/(/x/", "s/a/b", "s/src\\/(.*)/$1/g", "é/a/b/", "s//x/g", "s/./日/g"]),
    ("--navigate-regex", ["", "(", "^", "日"]),
    ("--wrap-left-symbol", ["", "日", "\u200b", "ab", "\t"]), ("--wrap-right-symbol", ["", "日", "ab"]),
    ("--wrap-right-prefix-symbol", ["", "日"]), ("--wrap-right-percent", ["0", "100", "-1", "1e9", "nan", "x"]),
    ("--line-numbers-left-format", ["{", "}", "{nm", "{nm:^}", "{nm:>999999}", "{xx}", "{nm:日^4}", "{nm:0}", "{np:^4}{nm:<0}", "%s"]),
    ("--line-numbers-right-format", ["{np:>18446744073709551616}", "{np:-1}", "{np:^4.9}"]),
    ("--hunk-label", ["", "日本語" * 20, "\x1b[31m"]), ("--right-arrow", ["", "\n"]), ("--tabs", ["0", "1", "200", "-1", "x"]),
    ("--width", ["0", "-1", "variable", "18446744073709551615", "x", ""]), ("--max-line-length", ["0", "1", "-1", "x"]),
    ("--max-line-distance", ["-1", "2", "nan", "inf", "x"]), ("--line-buffer-size", ["0", "-1", "x"]),
    ("--minus-style", ["", "x", "red red red", "#", "#12345", "256", "-1", "syntax syntax", "raw omit", "bold " * 50]),
    ("--map-styles", ["", "=>", "a=>b", "bold purple =>", "=> red", "bold purple => syntax magenta, x", ",,,"]),
    ("--blame-palette", ["", "x", "#", "red blue " * 30]), ("--blame-format", ["{", "{x}", "{author:<-1}", "{timestamp:^999999}", ""]),
    ("--blame-timestamp-format", ["%", "%Q", ""]), ("--blame-timestamp-output-format", ["%", "%Q"]),
    ("--grep-separator-symbol", ["", "日本"]), ("--inline-hint-style", ["x y z w"]),
    ("--features", ["", "x", "a b c", "side-by-side line-numbers decorations navigate"]),
    ("--syntax-theme", ["", "x", "none"]), ("--default-language", ["", "x", "../../etc/passwd", "rs"]),
    ("--paging", ["x"]), ("--true-color", ["x"]), ("--diff-stat-align-width", ["0", "-1", "x", "18446744073709551615"]),
    ("--merge-conflict-begin-symbol", ["", "日", "ab", "\u200b", "\u0301", "\t", "\u200b\u200d"]),
    ("--merge-conflict-end-symbol", ["", "日", "\u200b", "\u0301", "\t"]), ("--hyperlinks-file-link-format", ["", "{", "{path", "{x}", "%"]),
    ("--hyperlinks-commit-link-format", ["", "{commit", "{x}"]), ("--word-diff-regex", ["", "(", "\\", "(?=x)", "."]),
    ("--tokenization-regex", ["", "("]),
]

SWEEP_DIFFS = [
    ("paired-ascii", "diff --git a/foo.txt b/foo.txt\nindex 1111111..2222222 100644\n--- a/foo.txt\n+++ b/foo.txt\n@@ -1,3 +1,3 @@\n"
                     " context line\n-old text here\n+new text here\n tail\n"),
    ("paired-rs-wide", "diff --git a/src/m.rs b/src/m.rs\n--- a/src/m.rs\n+++ b/src/m.rs\n@@ -98,4 +98,5 @@ fn main() {\n"
                       "     let x = \"日本語\"; // c\n-    let y = f(a, b);\n+    let y = f(a, b, c);\n+\tlet z = 1;\n }\n"),
    ("unpaired-long", "diff --git a/a.py b/a.py\n--- a/a.py\n+++ b/a.py\n@@ -1,2 +1,3 @@ class X:\n-" + "x = 1; " * 12 + "\n+y\n+"
                      + "é" * 30 + "\n ctx\n"),
]


def gen_blame(rng):
    out = []
    for i in range(rng.randint(1, 12)):
        h = rng.choice(["abcd1234", "^bcd1234", "0123456789abcdef", "ffff0000"])
        f = rng.choice(["", "", "src/old name.rs "])
        a = rng.choice(AUTHORS)
        line = f"{h} {f}({a} {rng.choice(['2021-08-22 18:20:19 -0700', '2001-01-01 00:00:00 +1345'])} {rng.choice([1, 9, 10, 120, 99999])}) {rng.choice(M.BODIES)}"
        if rng.random() < 0.2:
            line = "\x1b[33m" + line + "\x1b[m"
        out.append(line)
    return out


def gen_grep(rng):
    out = []
    import json as _json
    js = rng.random() < 0.4
    for i in range(rng.randint(1, 10)):
        p, n, code = rng.choice(GREP_PATHS), rng.choice([0, 1, 7, 7, 120, 18446744073709551615]), rng.choice(M.BODIES)
        if js:
            k = len(code.encode())
            if rng.random() < 0.3:
                code = rng.choice(["\t", "a\tb ", "\t\t"]) + code
            edge = lambda v: rng.choice([2 ** 64 - 1, 2 ** 64 - 2, 2 ** 63, 2 ** 32]) if rng.random() < 0.15 else v
            sub = [{"match": {"text": "x"}, "start": edge(rng.randint(0, k + 3)), "end": edge(rng.randint(0, k + 6))}] if rng.random() < 0.7 else []
            out.append(_json.dumps({"type": rng.choice(["match", "context"]), "data": {"path": {"text": p}, "lines": {"text": code + "\n"},
                                    "line_number": n, "absolute_offset": 0, "submatches": sub}}))
        else:
            sep = rng.choice([":", "-", "="])
            out.append(rng.choice([f"{p}{sep}{n}{sep}{code}", f"{p}{sep}{code}", f"\x1b[35m{p}\x1b[m\x1b[36m{sep}\x1b[m\x1b[32m{n}\x1b[m\x1b[36m{sep}\x1b[m{code}", "--"]))
    return out


def gen_diffstat(rng):
    """`git log --stat -p` shape: commit, diff-stat block (paths of any length), then the diff"""
    out = M.gen_commit(rng)
    for _ in range(rng.randint(1, 5)):
        p = rng.choice(["a.rs", "src/lib/" + "deep/" * rng.randint(0, 14) + "file.rs", "日本/ファイル.txt", "a b/c d.txt", "x" * rng.randint(40, 90),
                        "sub/dir/f.c", "{old => new}/f.c", "a/{b => c}/d.rs"])
        out.append(f" {p} | {rng.choice(['3 ++-', 'Bin 0 -> 12 bytes', '0', '120 ' + '+' * 30])}")
    out += [f" {rng.randint(1, 9)} files changed, 3 insertions(+), 1 deletion(-)", ""]
    return out + M.gen_git_diff(rng, with_commit=False)[0]


def gen_input(rng):
    r = rng.random()
    if r < 0.04:
        lines = gen_diffstat(rng)
        return lines, ("\n".join(lines) + "\n").encode("utf-8", "surrogateescape")
    if r < 0.07:
        lines = gen_blame(rng)
        return lines, ("\n".join(lines) + "\n").encode("utf-8", "surrogateescape")
    if r < 0.14:
        lines = gen_grep(rng)
        return lines, ("\n".join(lines) + "\n").encode("utf-8", "surrogateescape")
    if r < 0.30:
        lines, _ = M.gen_git_diff(rng)
    elif r < 0.40:
        lines, _ = M.gen_plain_diff(rng)
    elif r < 0.52:
        lines, _ = M.gen_combined_diff(rng)
    elif r < 0.60:
        lines = [rng.choice(HOSTILE) for _ in range(rng.randint(1, 12))]
    else:
        lines, _ = M.gen_git_diff(rng) if rng.random() < 0.7 else M.gen_combined_diff(rng)
        for _ in range(rng.randint(1, 4)):
            lines = M.mutate_lines(rng, lines)
        for _ in range(rng.randint(0, 3)):
            lines.insert(rng.randrange(len(lines) + 1), rng.choice(HOSTILE))
    data = "\n".join(lines).encode("utf-8", "surrogateescape") + b"\n"
    if rng.random() < 0.08:       # raw damage: invalid UTF-8, NUL, truncation inside a character
        ba = bytearray(data)
        for _ in range(rng.randint(1, 4)):
            if ba:
                ba[rng.randrange(len(ba))] = rng.choice([0xff, 0xc3, 0x00, 0x80, 0x1b, 0x0d])
        data = bytes(ba)
    return lines, data


def gen_args(rng):
    a = ["--no-gitconfig"] + [x for x in rng.choice(MODES) if x != "--no-gitconfig"]
    if rng.random() < 0.35:
        extra = list(rng.choice(MODES))
        flags = {x for x in a if x.startswith("--")}
        if not any(x in flags for x in extra if x.startswith("--")):     # clap rejects repeated options
            a += extra
    w = rng.choice(WIDTHS)
    if w:
        a += ["--width", w]
    return a


def classify_failure(rc, err):
    e = err.decode("utf-8", "replace")
    if rc == "timeout":
        return "hang"
    site = ""
    import re
    m = re.search(r"panicked at ([^:\n]+):(\d+)", e)
    if m:
        site = "panic:" + m.group(1)
    elif "This should not be possible" in e or "delta_unreachable" in e:
        site = "unreachable:" + e.strip().split(".")[0][:60]
    elif rc not in (0,):
        site = f"exit{rc}:" + e.strip()[:60]
    return site


def run(ctx, rep):
    rep.rule = ("(1) machine.run correspondence on well-formed / mutated / hostile line sequences under random unified configurations; "
                "(2) the real binary (debug build, overflow checks on) on git / plain / combined diffs, structured mutations of them, hostile "
                "marker lines and raw byte damage x presentation modes x widths 1..200: exit 0, no panic, no hang; non-trivial = mutated or "
                "hostile input or a non-default mode; distinct by (args, input)")
    rng = ctx.rng
    # (1) hook level: implementation panic vs model (which provably never errs)
    cases, meta = [], []
    for _ in range(ctx.n(300, 6000)):
        cfg = M.gen_cfg(rng)
        lines, _ = gen_input(rng)
        lines = [l for l in "\n".join(lines).split("\n")]
        cases.append((cfg, [l.encode("utf-8", "surrogateescape") for l in lines])); meta.append((cfg, lines))
    res = M.observe(ctx, cases)
    for (cfg, lines), (impl, model) in zip(meta, res):
        case = dict(args=cfg.args(), model_cfg=cfg.d, input="\n".join(lines))
        rep.case(key=("hook", cfg.key(), tuple(lines)), nontrivial=True, sample=dict(level="hook", head=lines[:4], n=len(lines)))
        if impl.panic:
            rep.count("hook:panic")
            rep.violation("panic:machine:" + impl.msg[:50], "the state machine panicked / exited: " + impl.msg[:200], case)
            rep.corr_case("machine.run", False, dict(case, disagreement=["implementation panicked, model finishes (machine_total)"]))
            continue
        if impl.ok:
            # the model's domain excludes non-ASCII digits in hunk headers (Unicode \d); skip those for the row comparison
            if any(ord(ch) > 127 and ch.isdigit() for l in lines if l.startswith("@@") for ch in l):
                rep.count("hook:skipped-unicode-digit"); continue
            dis = M.compare(cfg, impl, model)
            rep.corr_case("machine.run", not dis, dict(case, disagreement=dis[:2]))
    # (2) the real binary
    jobs = []
    for _ in range(ctx.n(700, 40000)):
        lines, data = gen_input(rng)
        jobs.append((gen_args(rng), data))

    # (2b) geometry sweep: small fixed diffs x every width 1..44 x wrap limits, side-by-side (panel text widths 0, 1, 2, …
    # are where wrapping, truncation and padding have their boundary cases; random widths hit each of them rarely)
    for name, diff in SWEEP_DIFFS:
        for w in range(1, ctx.n(45, 90)):
            for wrap in (["--wrap-max-lines", "unlimited"], ["--wrap-max-lines", "2"], ["--wrap-max-lines", "0"]):
                for extra in ([], ["--line-numbers-left-format", "", "--line-numbers-right-format", ""]):
                    jobs.append((["--no-gitconfig", "--side-by-side", "--width", str(w)] + wrap + extra, diff.encode()))

    # (2b') every hostile line as a line of a hunk (unified, 2- and 3-parent combined) x the modes that treat hunk lines
    #       differently (raw styles slice the raw line by bytes, side-by-side wraps it, line numbers count it)
    frames = [("diff --git a/x.rs b/x.rs\n--- a/x.rs\n+++ b/x.rs\n@@ -1,3 +1,3 @@\n ctx\n", "+z\n"),
              ("diff --cc x.rs\nindex 1,2..3\n--- a/x.rs\n+++ b/x.rs\n@@@ -1,2 -1,2 +1,3 @@@\n  a\n", "++z\n"),
              ("diff --cc x.rs\nindex 1,2,3..4\n--- a/x.rs\n+++ b/x.rs\n@@@@ -1,2 -1,2 -1,2 +1,3 @@@@\n   a\n", "+++z\n")]
    line_modes = [[], ["--zero-style", "raw", "--plus-style", "raw", "--minus-style", "raw"], ["--side-by-side"], ["--line-numbers"],
                  ["--color-only"], ["--side-by-side", "--zero-style", "raw", "--plus-style", "raw", "--minus-style", "raw"],
                  ["--keep-plus-minus-markers"]]
    for hl in HOSTILE:
        for pre, post in frames:
            for lm in line_modes:
                jobs.append((["--no-gitconfig"] + lm, (pre + hl + "\n" + post).encode("utf-8", "surrogateescape")))

    # (2c) hostile option values: a clean refusal (exit 2 with a message) is fine, a panic / unreachable / hang is not
    optjobs = []
    small = SWEEP_DIFFS[1][1].encode()
    # a complete conflict region (the merge-conflict symbols and styles are used only there), a commit and a grep line
    small += ("diff --cc m.rs\nindex 1,2..0\n--- a/m.rs\n+++ b/m.rs\n@@@ -1,3 -1,3 +1,7 @@@\n  ctx\n++<<<<<<< HEAD\n+ ours\n++||||||| base\n"
              "++anc\n++=======\n +theirs\n++>>>>>>> br\n").encode()
    for opt, vals in OPTION_VALUES:
        for v in vals:
            for extra in ([], ["--side-by-side"], ["--navigate", "--paging=never"]):
                optjobs.append((["--no-gitconfig"] + extra + [opt + "=" + v], small))
    for (args, data), (rc, out, err) in zip(optjobs, parallel_map(lambda j: ctx.run_delta(j[0], j[1], timeout=20), optjobs)):
        rep.case(key=("opt", tuple(args)), nontrivial=True, sample=dict(level="option-value", args=args))
        rep.count("optval:" + args[-1].split("=")[0])
        site = classify_failure(rc, err)
        e = err.decode("utf-8", "replace")
        if site and not (rc == 2 and "panicked" not in e and "should not be possible" not in e and "unreachable" not in e):
            rep.violation(site, f"delta {' '.join(args)} -> rc={rc} stderr={err[-300:].decode('utf-8', 'replace')!r}",
                          dict(args=args, input_b64=b64(data)))

    # (2d) diff-stat blocks under --relative-paths (delta as git's pager from a subdirectory): every generated block x
    #      align widths x prefixes
    for _ in range(ctx.n(12, 150)):
        data = ("\n".join(gen_diffstat(rng)) + "\n").encode("utf-8", "surrogateescape")
        for aw in ("0", "5", "48", "200"):
            jobs.append((["--no-gitconfig", "--relative-paths", "--diff-stat-align-width", aw] + rng.choice([[], ["--hyperlinks"], ["--side-by-side"]]), data))

    def one(j):
        args, data = j
        # delta as git's pager from a subdirectory: GIT_PREFIX is set whenever relative paths are asked for
        env = {"GIT_PREFIX": ["sub/", "sub/dir/", "a b/", "日本/"][len(data) % 4]} if "--relative-paths" in args else None
        return ctx.run_delta(args, data, timeout=20, env=env)
    for (args, data), (rc, out, err) in zip(jobs, parallel_map(one, jobs)):
        rep.case(key=("bin", tuple(args), data), nontrivial=True,
                 sample=dict(level="binary", args=args, input_head=data[:80].decode("utf-8", "replace")))
        rep.count("mode:" + (args[1] if len(args) > 1 else "default"))
        site = classify_failure(rc, err)
        if site:
            rep.count("fail:" + site)
            rep.violation(site, f"delta {' '.join(args)} -> rc={rc} stderr={err[-300:].decode('utf-8', 'replace')!r}",
                          dict(args=args, input_b64=b64(data),
                               env=({"GIT_PREFIX": ["sub/", "sub/dir/", "a b/", "日本/"][len(data) % 4]} if "--relative-paths" in args else None)))


def replay(ctx, rep, obj):
    import base64
    c = obj["case"]
    if "input_b64" in c:
        rc, out, err = ctx.run_delta(c["args"], base64.b64decode(c["input_b64"]), timeout=20, env=c.get("env"))
        print("rc", rc, err[-400:].decode("utf-8", "replace"))
        site = classify_failure(rc, err)
        if site:
            rep.violation(site, "replayed", c)
    else:
        cfg = M.VCfg(**c["model_cfg"])
        impl, model = M.observe(ctx, [(cfg, [l.encode("utf-8", "surrogateescape") for l in c["input"].split("\n")])])[0]
        print(impl.resp[:300])
