"""C03 — delta never crashes or hangs, whatever bytes and options it is given.

Proof side: Props/C03.lean (machine_total …). Correspondence: machine.run on well-formed, mutated
and hostile inputs (a panic of the implementation where the model finishes is a disagreement).
Search: structured mutation fuzzing of the real binary (overflow checks on) across presentation
modes, tiny widths and zero limits: exit status 0, no panic text, no hang.
"""
import os

from .. import machine as M
from ..core import parallel_map, b64, hx, unhxs, LEAN, LineProc

DRIVERS = ["drv_machine"]
GENERATED = ["Handlers", "Markers", "PanicInventory", "Startup", "FeatureGather"]

HOSTILE = ["@@ foo @@", "@@ -1 +99999999999999999999999 @@", "@@ -٣ +1 @@", "diff --git ", "--- \"", "+++ \"", "@@", "@@@", "@@ @@",
           "@@ -1,2 @@", "@@ -0,0 +0,0 @@", "@@ -18446744073709551615,1 +1 @@", "diff --git a b", "diff --git a/ b/", "diff --cc ",
           "diff --combined x", "@@@ -1 -1 +1 @@@", "@@@@ -1 -1 -1 +1 @@@@", " é…x", "-é", "+​", "++<<<<<<< ", "++<<<<<<< HEAD", "++=======",
           "++>>>>>>> x", "++||||||| base", "-Subproject commit " + "a" * 40, "+Subproject commit " + "b" * 40, "Submodule x",
           "Binary files  differ", "Binary files a and b differ", "rename from ", "rename to ", "copy from \t", "new file mode",
           "new file mode 100644", "deleted file mode 100644", "old mode ", "new mode ", "old mode 100644", "new mode 100755",
           "Only in ", "index ", "\x1b[", "\x1b[31", "\x1b[!!m", "\x1b]8;;http://x\x1b\\link\x1b]8;;\x1b\\", "\x1b[0K", "\x1b(B",
           "\x1b[38;5;300m", "\x1b[38;2;1;2m", "\r", "a\rb", "\t\t\t", "", " ", "\\ No newline at end of file", "commit ", "commit abc",
           "{\"type\":\"match\"}", "{", "abcd1234 (Author 2020-01-01 00:00:00 +0000 1) x", "src/a.rs:1:fn x", "a.rs-1-ctx", "--",
           "日本語" * 30, "a" * 600, "́́́", "﻿", "x\x00y",
           # hunk lines whose marker columns are not ASCII (cut points of the byte-indexed prefix removal)
           "+é y", "é+ y", " é x", "é", "-é-", "+​+", "日本", " 日",
           # rg --json records with numbers at the edge of u64 and tabs in the text
           '{"type":"match","data":{"path":{"text":"a.rs"},"lines":{"text":"a\\tb foo\\n"},"line_number":18446744073709551615,"absolute_offset":0,'
           '"submatches":[{"match":{"text":"foo"},"start":18446744073709551615,"end":18446744073709551615}]}}',
           '{"type":"match","data":{"path":{"text":"a.rs"},"lines":{"text":"\\tfoo\\n"},"line_number":1,"absolute_offset":0,'
           '"submatches":[{"match":{"text":"foo"},"start":9223372036854775808,"end":3}]}}']

MODES = [
    [], ["--side-by-side"], ["--line-numbers"], ["--side-by-side", "--line-numbers"], ["--color-only"], ["--raw"],
    ["--diff-so-fancy"], ["--diff-highlight"], ["--navigate"], ["--hyperlinks"], ["--keep-plus-minus-markers"],
    ["--side-by-side", "--wrap-max-lines", "0"], ["--side-by-side", "--wrap-max-lines", "1"], ["--max-line-length", "10"],
    ["--side-by-side", "--wrap-max-lines", "unlimited"], ["--side-by-side", "--wrap-max-lines", "unlimited"],
    ["--side-by-side", "--wrap-max-lines", "unlimited", "--line-numbers-left-format", "", "--line-numbers-right-format", ""],
    ["--side-by-side", "--wrap-max-lines", "7", "--wrap-right-percent", "1"],
    ["--max-line-length", "0"], ["--line-buffer-size", "0"], ["--tabs", "0"], ["--no-gitconfig", "--relative-paths"],
    ["--side-by-side", "--line-fill-method", "spaces"], ["--line-fill-method", "ansi"], ["--syntax-theme", "none"],
    ["--word-diff-regex", "."], ["--max-line-distance", "0"], ["--max-line-distance", "1"], ["--inspect-raw-lines", "false"],
    ["--hunk-header-style", "omit"], ["--hunk-header-style", "raw"], ["--file-style", "omit"], ["--commit-style", "raw"],
    ["--hunk-header-style", "file line-number syntax"], ["--grep-output-type", "classic"], ["--grep-output-type", "ripgrep"],
    ["--line-numbers", "--line-numbers-left-format", "{nm:^1}", "--line-numbers-right-format", "{np:>12}|"],
    ["--zero-style", "syntax #222222", "--line-fill-method", "spaces"],
    # raw styles for hunk lines: the raw line (with its escape sequences) is sliced instead of the stripped one
    ["--zero-style", "raw", "--plus-style", "raw", "--minus-style", "raw"], ["--plus-style", "raw"], ["--minus-style", "raw"],
    ["--zero-style", "raw", "--side-by-side"], ["--plus-style", "raw", "--minus-style", "raw", "--line-numbers"],
]
WIDTHS = [None, "1", "2", "3", "4", "5", "6", "7", "8", "9", "10", "11", "12", "13", "14", "15", "16", "17", "18", "19", "20", "40",
          "79", "80", "200", "variable"]


AUTHORS = ["Ann", "K", "日本語の名前がとても長い人物です", "Kangwook Lee (이강욱)", "a b c", "x" * 40, "éé", "Dan  Davison"]
GREP_PATHS = ["src/a.rs", "Makefile", "a b/c.txt", "x-1.y", "日本/f.py", "README"]


OPTION_VALUES = [
    ("--file-transformation", ["s§a§b§", "§", "s", "sx", "", "s/(/x/", "s/a/b", "s/src\\/(.*)/$1/g", "é/a/b/", "s//x/g", "s/./日/g"]),
    ("--navigate-regex", ["", "(", "^", "日"]),
    ("--wrap-left-symbol", ["", "日", "\u200b", "ab", "\t"]), ("--wrap-right-symbol", ["", "日", "ab"]),
    ("--wrap-right-prefix-symbol", ["", "日"]), ("--wrap-right-percent", ["0", "100", "-1", "1e9", "nan", "x"]),
    ("--line-numbers-left-format", ["{", "}", "{nm", "{nm:^}", "{nm:>999999}", "{xx}", "{nm:日^4}", "{nm:0}", "{np:^4}{nm:<0}", "%s"]),
    ("--line-numbers-right-format", ["{np:>18446744073709551616}", "{np:-1}", "{np:^4.9}"]),
    ("--hunk-label", ["", "日本語" * 20, "\x1b[31m"]), ("--right-arrow", ["", "\n"]), ("--tabs", ["0", "1", "200", "-1", "x"]),
    ("--width", ["0", "-1", "variable", "18446744073709551615", "x", ""]), ("--max-line-length", ["0", "1", "-1", "x"]),
    ("--max-line-distance", ["-1", "2", "nan", "inf", "x"]), ("--line-buffer-size", ["0", "-1", "x"]),
    ("--minus-style", ["", "x", "red red red", "#", "#12345", "256", "-1", "syntax syntax", "raw omit", "bold " * 50]),
    ("--map-styles", ["", "=>", "a=>b", "bold purple =>", "=> red", "bold purple => syntax magenta, x", ",,,"]),
    ("--blame-palette", ["", "x", "#", "red blue " * 30]), ("--blame-format", ["{", "{x}", "{author:<-1}", "{timestamp:^999999}", ""]),
    ("--blame-timestamp-format", ["%", "%Q", ""]), ("--blame-timestamp-output-format", ["%", "%Q"]),
    ("--grep-separator-symbol", ["", "日本"]), ("--inline-hint-style", ["x y z w"]),
    ("--features", ["", "x", "a b c", "side-by-side line-numbers decorations navigate"]),
    ("--syntax-theme", ["", "x", "none"]), ("--default-language", ["", "x", "../../etc/passwd", "rs"]),
    ("--paging", ["x"]), ("--true-color", ["x"]), ("--diff-stat-align-width", ["0", "-1", "x", "18446744073709551615"]),
    ("--merge-conflict-begin-symbol", ["", "日", "ab", "\u200b", "\u0301", "\t", "\u200b\u200d"]),
    ("--merge-conflict-end-symbol", ["", "日", "\u200b", "\u0301", "\t"]), ("--hyperlinks-file-link-format", ["", "{", "{path", "{x}", "%"]),
    ("--hyperlinks-commit-link-format", ["", "{commit", "{x}"]), ("--word-diff-regex", ["", "(", "\\", "(?=x)", "."]),
    ("--tokenization-regex", ["", "("]),
]

SWEEP_DIFFS = [
    ("paired-ascii", "diff --git a/foo.txt b/foo.txt\nindex 1111111..2222222 100644\n--- a/foo.txt\n+++ b/foo.txt\n@@ -1,3 +1,3 @@\n"
                     " context line\n-old text here\n+new text here\n tail\n"),
    ("paired-rs-wide", "diff --git a/src/m.rs b/src/m.rs\n--- a/src/m.rs\n+++ b/src/m.rs\n@@ -98,4 +98,5 @@ fn main() {\n"
                       "     let x = \"日本語\"; // c\n-    let y = f(a, b);\n+    let y = f(a, b, c);\n+\tlet z = 1;\n }\n"),
    ("unpaired-long", "diff --git a/a.py b/a.py\n--- a/a.py\n+++ b/a.py\n@@ -1,2 +1,3 @@ class X:\n-" + "x = 1; " * 12 + "\n+y\n+"
                      + "é" * 30 + "\n ctx\n"),
]


def gen_blame(rng):
    out = []
    for i in range(rng.randint(1, 12)):
        h = rng.choice(["abcd1234", "^bcd1234", "0123456789abcdef", "ffff0000"])
        f = rng.choice(["", "", "src/old name.rs "])
        a = rng.choice(AUTHORS)
        line = f"{h} {f}({a} {rng.choice(['2021-08-22 18:20:19 -0700', '2001-01-01 00:00:00 +1345'])} {rng.choice([1, 9, 10, 120, 99999])}) {rng.choice(M.BODIES)}"
        if rng.random() < 0.2:
            line = "\x1b[33m" + line + "\x1b[m"
        out.append(line)
    return out


def gen_grep(rng):
    out = []
    import json as _json
    js = rng.random() < 0.4
    for i in range(rng.randint(1, 10)):
        p, n, code = rng.choice(GREP_PATHS), rng.choice([0, 1, 7, 7, 120, 18446744073709551615]), rng.choice(M.BODIES)
        if js:
            k = len(code.encode())
            if rng.random() < 0.3:
                code = rng.choice(["\t", "a\tb ", "\t\t"]) + code
            edge = lambda v: rng.choice([2 ** 64 - 1, 2 ** 64 - 2, 2 ** 63, 2 ** 32]) if rng.random() < 0.15 else v
            sub = [{"match": {"text": "x"}, "start": edge(rng.randint(0, k + 3)), "end": edge(rng.randint(0, k + 6))}] if rng.random() < 0.7 else []
            out.append(_json.dumps({"type": rng.choice(["match", "context"]), "data": {"path": {"text": p}, "lines": {"text": code + "\n"},
                                    "line_number": n, "absolute_offset": 0, "submatches": sub}}))
        else:
            sep = rng.choice([":", "-", "="])
            out.append(rng.choice([f"{p}{sep}{n}{sep}{code}", f"{p}{sep}{code}", f"\x1b[35m{p}\x1b[m\x1b[36m{sep}\x1b[m\x1b[32m{n}\x1b[m\x1b[36m{sep}\x1b[m{code}", "--"]))
    return out


def gen_diffstat(rng):
    """`git log --stat -p` shape: commit, diff-stat block (paths of any length), then the diff"""
    out = M.gen_commit(rng)
    for _ in range(rng.randint(1, 5)):
        p = rng.choice(["a.rs", "src/lib/" + "deep/" * rng.randint(0, 14) + "file.rs", "日本/ファイル.txt", "a b/c d.txt", "x" * rng.randint(40, 90),
                        "sub/dir/f.c", "{old => new}/f.c", "a/{b => c}/d.rs"])
        out.append(f" {p} | {rng.choice(['3 ++-', 'Bin 0 -> 12 bytes', '0', '120 ' + '+' * 30])}")
    out += [f" {rng.randint(1, 9)} files changed, 3 insertions(+), 1 deletion(-)", ""]
    return out + M.gen_git_diff(rng, with_commit=False)[0]


def gen_input(rng):
    r = rng.random()
    if r < 0.04:
        lines = gen_diffstat(rng)
        return lines, ("\n".join(lines) + "\n").encode("utf-8", "surrogateescape")
    if r < 0.07:
        lines = gen_blame(rng)
        return lines, ("\n".join(lines) + "\n").encode("utf-8", "surrogateescape")
    if r < 0.14:
        lines = gen_grep(rng)
        return lines, ("\n".join(lines) + "\n").encode("utf-8", "surrogateescape")
    if r < 0.30:
        lines, _ = M.gen_git_diff(rng)
    elif r < 0.40:
        lines, _ = M.gen_plain_diff(rng)
    elif r < 0.52:
        lines, _ = M.gen_combined_diff(rng)
    elif r < 0.60:
        lines = [rng.choice(HOSTILE) for _ in range(rng.randint(1, 12))]
    else:
        lines, _ = M.gen_git_diff(rng) if rng.random() < 0.7 else M.gen_combined_diff(rng)
        for _ in range(rng.randint(1, 4)):
            lines = M.mutate_lines(rng, lines)
        for _ in range(rng.randint(0, 3)):
            lines.insert(rng.randrange(len(lines) + 1), rng.choice(HOSTILE))
    data = "\n".join(lines).encode("utf-8", "surrogateescape") + b"\n"
    if rng.random() < 0.08:       # raw damage: invalid UTF-8, NUL, truncation inside a character
        ba = bytearray(data)
        for _ in range(rng.randint(1, 4)):
            if ba:
                ba[rng.randrange(len(ba))] = rng.choice([0xff, 0xc3, 0x00, 0x80, 0x1b, 0x0d])
        data = bytes(ba)
    return lines, data


def gen_args(rng):
    a = ["--no-gitconfig"] + [x for x in rng.choice(MODES) if x != "--no-gitconfig"]
    if rng.random() < 0.35:
        extra = list(rng.choice(MODES))
        flags = {x for x in a if x.startswith("--")}
        if not any(x in flags for x in extra if x.startswith("--")):     # clap rejects repeated options
            a += extra
    w = rng.choice(WIDTHS)
    if w:
        a += ["--width", w]
    return a


# ---------------------------------------------------------------------------------------------------------------------
# (2e) start-up: the values of --width / --wrap-max-lines / --max-line-length / --tabs / the line-number formats, model
#      (DeltaModel/Startup.lean through Driver/Startup.lean: ok | fatal | PANIC, and the computed width, max_line_length,
#      tab width) against the real debug binary (`--show-config`: exit status 0 / clean refusal / panic, and the printed values),
#      then the same option set on a small diff (the property's oracle: exit 0 or a clean refusal, never a crash).

U64 = 2 ** 64
WS = [" ", "  ", "\t", "\u00a0", "\u3000", "\u2003", "\u0085", "\u2028", "\n", "\u1680", "\u205f"]
NOT_WS = ["\u200b", "\ufeff", "\u180e"]
WIDTH_GARBAGE = ["", " ", "-", "--1", "1-", "1--1", "1-2-3", "-1-1", "+-1", "-+1", "５", "1e3", "0x10", "1_000", "١٠", "9" * 40, "-" + "9" * 40,
                 "--", "- 5", " -5 ", "5 - 5", "5-5", "80-81", "-80", "-81", "-0", "0-0", "+0", "+", "Variable", " variable", "variable ", "5-",
                 "9223372036854775807-9223372036854775808", "9223372036854775807--1", "0-9223372036854775808", "-9223372036854775808",
                 "9223372036854775808-1", "1-9223372036854775809", "−10", "10−" + "3", "4 0", "4 0"]
WRAP_MAX = ["unlimited", "∞", "inf", "infinity", "infx", "in", "Unlimited", " unlimited", "∞ ", "", "0", "1", "2", "+3", "-1", "+", " 1", "1 ", "١",
            "1e3", "007", str(U64 - 1), str(U64 - 2), str(U64), "000" + str(U64 - 1), "+" + str(U64 - 1), str(10 ** 17), str(10 ** 12 - 1),
            str(10 ** 12), str(10 ** 12 + 1), str(2 ** 40), str(2 ** 41), str(2 ** 56), str(2 ** 63), "4611686018427387904"]
LN_FORMATS = ["{nm:>999999}", "{np:>18446744073709551616}", "{nm:^4.9}", "{nm", "{nm:٣}", "{nm:^4}⋮", "", "{np:.99999999999999999999}", "{xx}", "{nm:日^4}"]
SAFE_ALLOC = 1000          # a width / tab width the harness lets the real binary render with
NO_BT = {"RUST_BACKTRACE": "0"}   # a panic is recognised by its message; symbolising the backtrace of the debug binary takes seconds
HUGE_ALLOC = 2 ** 50       # an allocation of this many bytes fails at once (nothing is touched)


def gen_width_value(rng):
    edge = [0, 1, 2, 3, 7, 8, 9, 10, 40, 79, 80, 81, 200, 2 ** 15, 2 ** 16 - 1, 2 ** 31, 2 ** 62, 2 ** 63 - 2, 2 ** 63 - 1, 2 ** 63, 2 ** 63 + 1,
            U64 - 1, U64, 10 ** 30]

    def dec():
        n = rng.choice(edge) if rng.random() < 0.45 else rng.randint(0, 300)
        t, r = str(n), rng.random()
        if r < 0.10:
            t = "+" + t
        elif r < 0.16:
            t = "0" * rng.randint(1, 3) + t
        elif r < 0.22 and len(t) > 1:
            t = t[:1] + " " + t[1:]
        return t
    k = rng.random()
    if k < 0.08:
        return None
    if k < 0.13:
        return "variable"
    if k < 0.35:
        v = dec()
    elif k < 0.55:
        v = "-" + rng.choice(["", " "]) + dec()
    elif k < 0.80:
        v = dec() + rng.choice(["", " ", "  "]) + "-" + rng.choice(["", " "]) + dec()
    else:
        v = rng.choice(WIDTH_GARBAGE)
    if rng.random() < 0.25:
        v = rng.choice(WS + NOT_WS) + v
    if rng.random() < 0.25:
        v = v + rng.choice(WS + NOT_WS)
    return v


def gen_startup_case(rng):
    c = dict(width=gen_width_value(rng),
             wml=rng.choice(WRAP_MAX) if rng.random() < 0.7 else str(rng.choice([rng.randint(0, 9), rng.randint(0, 10 ** 13), rng.randint(0, U64 - 1)])),
             mll=rng.choice([0, 1, 10, 100, 3000, 3000, 2 ** 63, U64 - 1, rng.randint(0, U64 - 1)]),
             tabs=rng.choice([0, 1, 2, 4, 8, 8, 8, rng.randint(0, 40)]),
             sbs=rng.random() < 0.6, fill=rng.choice([None, None, "ansi", "spaces"]), lnl=None, lnr=None)
    if rng.random() < 0.08:
        c["tabs"] = rng.choice([2 ** 63 - 1, 2 ** 63, U64 - 1, 2 ** 62, HUGE_ALLOC])
    if rng.random() < 0.12:
        c["lnl"] = rng.choice(LN_FORMATS)
    if rng.random() < 0.12:
        c["lnr"] = rng.choice(LN_FORMATS)
    return c


def startup_args(c):
    a = ["--no-gitconfig", "--wrap-max-lines=" + c["wml"], "--max-line-length=" + str(c["mll"]), "--tabs=" + str(c["tabs"])]
    if c["width"] is not None:
        a.append("--width=" + c["width"])
    if c["sbs"]:
        a.append("--side-by-side")
    if c["fill"]:
        a.append("--line-fill-method=" + c["fill"])
    if c["lnl"] is not None:
        a.append("--line-numbers-left-format=" + c["lnl"])
    if c["lnr"] is not None:
        a.append("--line-numbers-right-format=" + c["lnr"])
    return a


def startup_request(c, tw):
    return " ".join(["startup.run", "-" if c["width"] is None else hx(c["width"]), hx(c["wml"]), str(c["mll"]), str(c["tabs"]),
                     "1" if c["sbs"] else "0", "0" if c["fill"] == "spaces" else "1", hx(c["lnl"] or ""), hx(c["lnr"] or ""), str(tw)])


def outcome_of(rc, err):
    e = err.decode("utf-8", "replace")
    if rc == "timeout":
        return "hang"
    if "panicked at" in e or rc == 101:
        return "panic"
    if "memory allocation of" in e or rc in (134, -6):
        return "abort"
    if rc == 0:
        return "ok"
    if rc == 2 and "should not be possible" not in e:
        return "fatal"
    return f"exit{rc}"


def show_config_fields(out):
    d = {}
    for ln in out.decode("utf-8", "replace").splitlines():
        if "=" in ln:
            k, v = ln.split("=", 1)
            d[k.strip()] = v.strip()
    return d


def startup_sweep(ctx, rep):
    rng = ctx.rng
    if not ctx.lean_ok:
        rep.notes["startup-driver"] = "Lean did not build: start-up correspondence not run"
        return
    rc, out, err = ctx.run_delta(["--no-gitconfig", "--show-config"], b"")
    tw = show_config_fields(out).get("width")
    if rc != 0 or not (tw or "").isdigit():
        rep.corr_case("startup.run", False, dict(disagreement=["cannot read the terminal width from --show-config"]))
        return
    tw = int(tw)
    cases = [gen_startup_case(rng) for _ in range(ctx.n(260, 5000))]
    # the boundary values the theorems name, always
    for wml, sbs in ((str(U64 - 1), False), (str(U64 - 1), True), (str(U64 - 2), True), (str(10 ** 17), True), (str(10 ** 12 - 1), True),
                     (str(10 ** 12 - 1), False), ("unlimited", True)):
        cases.append(dict(width=None, wml=wml, mll=3000, tabs=8, sbs=sbs, fill=None, lnl=None, lnr=None))
    for w in ("9223372036854775807", "-0", " 50 - 3 ", "80-81", "-81", str(2 ** 62)):
        cases.append(dict(width=w, wml="2", mll=3000, tabs=8, sbs=True, fill=None, lnl=None, lnr=None))
    for t in (2 ** 63 - 1, 2 ** 63, U64 - 1):
        cases.append(dict(width=None, wml="2", mll=3000, tabs=t, sbs=False, fill=None, lnl=None, lnr=None))
    drv = LineProc(["lake", "env", "lean", "--run", "Driver/Startup.lean"], cwd=LEAN)
    try:
        mresp = drv.ask([startup_request(c, tw) for c in cases], timeout=ctx.n(240, 1500))
        parts = drv.ask([x for c in cases for x in ("startup.wrapmax " + hx(c["wml"]), "startup.tabs " + str(c["tabs"]))], timeout=ctx.n(240, 1500))
    except Exception as ex:      # noqa
        rep.corr_case("startup.run", False, dict(disagreement=["model driver failed: " + repr(ex)[:200]]))
        return
    if len(mresp) != len(cases) or any(r.startswith("error") for r in mresp):
        rep.corr_case("startup.run", False, dict(disagreement=["unusable model answers: " + repr([r for r in mresp if r.startswith("error")][:1])]))
        return
    shows = parallel_map(lambda c: ctx.run_delta(startup_args(c) + ["--show-config"], b"", timeout=20, env=NO_BT), cases, workers=4)
    small = SWEEP_DIFFS[1][1].encode()

    def full(cms):
        c, m, sh = cms
        if outcome_of(sh[0], sh[2]) != "ok":
            return None            # start-up already refused (or crashed): the same code runs before any input is read
        mv = dict(f.split("=", 1) for f in m.split(" ")[1:]) if m.startswith("ok ") else {}
        wv = mv.get("width", "0")
        if m.startswith("ok ") and wv != "variable" and SAFE_ALLOC < int(wv) < HUGE_ALLOC:
            return "skipped"       # the real binary would really allocate that much per line
        if SAFE_ALLOC < c["tabs"] < HUGE_ALLOC:
            return "skipped"
        return ctx.run_delta(startup_args(c), small, timeout=20, env=NO_BT)
    fulls = parallel_map(full, list(zip(cases, mresp, shows)), workers=4)
    for i, (c, m, (rc, out, err), fr) in enumerate(zip(cases, mresp, shows, fulls)):
        args = startup_args(c)
        case = dict(args=args, model=m, terminal_width=tw)
        mclass = "ok" if m.startswith("ok ") else "fatal" if m.startswith("fatal") else "panic"
        iclass = outcome_of(rc, err)
        rep.case(key=("startup", tuple(args)), nontrivial=True, sample=dict(level="start-up", args=args, model=m[:60], impl=iclass))
        rep.count("startup:model-" + mclass)
        rep.count("startup:width-kind:" + ("absent" if c["width"] is None else "relative" if c["width"].strip().startswith("-") else
                                           "expr" if "-" in c["width"] else "plain"))
        mv = dict(f.split("=", 1) for f in m.split(" ")[1:]) if mclass == "ok" else {}
        alloc = mclass == "ok" and int(mv["tabbytes"]) >= HUGE_ALLOC
        if alloc:
            rep.count("startup:corr-skipped-allocation")        # whether an allocation of 2^50.. bytes succeeds is the allocator's business
        else:
            dis = []
            if mclass != iclass:
                dis.append(f"outcome: implementation {iclass} (rc={rc}) vs model {mclass}")
            elif mclass == "ok":
                sc = show_config_fields(out)
                for mk, sk in (("width", "width"), ("mll", "max-line-length"), ("tabbytes", "tabs")):
                    if mv.get(mk) != sc.get(sk):
                        dis.append(f"{sk}: implementation {sc.get(sk)} vs model {mv.get(mk)}")
            rep.corr_case("startup.run", not dis, dict(case, disagreement=dis[:3], stderr=err[-200:].decode("utf-8", "replace")))
        # the property itself: no crash, at start-up or while rendering
        if iclass not in ("ok", "fatal"):
            pw, pt = parts[2 * i], parts[2 * i + 1]
            if pw.startswith("PANIC"):
                sig = "startup:panic:wrap-max-lines=usize-max"
            elif pt.startswith("PANIC"):
                sig = "startup:panic:tabs:capacity-overflow"
            elif alloc:
                sig = "startup:crash:tabs:allocation"
            elif mclass == "panic" and c["sbs"]:
                big = pw.startswith("ok ") and int(pw.split()[1]) > 10 ** 12
                sig = "startup:panic:side-by-side:" + ("wrap-max-lines-huge" if big else "width-huge") + ":max-line-length-overflow"
            else:
                sig = "startup:" + iclass + ":unexplained:" + classify_failure(rc, err)
            rep.count("fail:" + sig)
            rep.violation(sig, f"delta {' '.join(args)} --show-config -> rc={rc} stderr={err[-300:].decode('utf-8', 'replace')!r}",
                          dict(args=args + ["--show-config"], input_b64=b64(b"")))
        elif fr == "skipped":
            rep.count("startup:full-run-skipped-allocation")
        elif fr is not None:
            frc, fout, ferr = fr
            fclass = outcome_of(frc, ferr)
            rep.count("startup:full-run-" + fclass)
            if fclass != iclass:
                wv = mv.get("width", "0")
                if wv != "variable" and int(wv) >= HUGE_ALLOC:
                    sig = "render:crash:width-huge:allocation"
                else:
                    sig = "render-after-startup:" + (classify_failure(frc, ferr) or fclass)
                    if sig.endswith(":hang") and "--side-by-side" in args and any(
                            a.startswith("--wrap-max-lines") and a.split("=")[-1].isdigit() and int(a.split("=")[-1]) >= 10 ** 6
                            for a in args):
                        sig += ":wrap-max-lines-huge"   # rows holding only the wrap symbol, until the (huge) limit
                rep.count("fail:" + sig)
                rep.violation(sig, f"delta {' '.join(args)} -> rc={frc} stderr={ferr[-300:].decode('utf-8', 'replace')!r}",
                              dict(args=args, input_b64=b64(small)))


# ---------------------------------------------------------------------------------------------------------------------
# (2f) hostile-but-accepted *configurations*: feature graphs in a gitconfig. `[delta "a"] features = b` makes feature a
#      enable feature b (src/options/set.rs gather_features_recursively); the graph of these edges is the user's to write and
#      may contain self-loops and cycles. Every such file is a valid configuration (unknown / repeated / blank feature names
#      are ignored by delta), so the oracle expects exit status 0 — not even a `fatal` refusal — no signal, no panic text and
#      termination within the time limit, both on a tiny diff and for --show-config. The configuration reaches delta as
#      `--config FILE`, as $HOME/.gitconfig, and the entry point of the graph is named by `[delta] features`, `--features` or
#      DELTA_FEATURES. Proof side: C03.Components.feature_gathering_terminates / recursion_guarded_by_membership
#      (Generated/FeatureGather.lean: where the membership guard of the recursion stands).

TINY_DIFF = (b"diff --git a/src/x.rs b/src/x.rs\nindex 1111111..2222222 100644\n--- a/src/x.rs\n+++ b/src/x.rs\n@@ -1,3 +1,3 @@ fn top()\n"
             b" fn unchanged() {}\n-fn removed_function() {}\n+fn added_function() {}\n fn tail_marker_line() {}\n")
BUILTIN_FEATURES = ["line-numbers", "side-by-side", "navigate", "diff-so-fancy", "diff-highlight", "hyperlinks", "raw", "color-only"]
CHAIN_DEPTHS_OK = [3, 40, 200]          # depths the unchanged delta is required to pass (see known_findings for the rest)
CHAIN_DEPTHS_DEEP = [2000]
# The recursion of gather_features_recursively is as deep as the chain is long: the unchanged debug build overflows its 8 MiB
# main-thread stack on an *acyclic* chain of about 11 800 sections (passes at 11 796, aborts at 11 854; known finding
# C03-feature-chain-stack). The depths above are required to pass; this one is generated to keep the finding on record.
CHAIN_DEPTHS_BEYOND = [20000]


def fg_text(main, sections):
    """gitconfig text: main = value of `[delta] features` (None: no such key), sections = [(name, [children], {key: value})]"""
    out = []
    if main is not None:
        out.append("[delta]\n    features = " + main + "\n")
    for name, kids, extra in sections:
        out.append('[delta "' + name + '"]\n')
        if kids is not None:
            out.append("    features = " + (kids if isinstance(kids, str) else " ".join(kids)) + "\n")
        for k, v in (extra or {}).items():
            out.append(f"    {k} = {v}\n")
    return "".join(out)


def fg_named_graphs(rng):
    """(class, is_cyclic, root words, sections)"""
    sty = {"file-style": "bold yellow"}
    ln = {"line-numbers": "true"}
    g = [
        ("self-loop", True, "mine", [("mine", ["mine"], sty)]),
        ("self-loop-among-others", True, "mine", [("mine", ["other", "mine", "other"], sty), ("other", None, ln)]),
        ("two-cycle", True, "base", [("base", ["decorations"], ln), ("decorations", ["base"], sty)]),
        ("two-cycle-both-roots", True, "a b", [("a", ["b"], ln), ("b", ["a"], sty)]),
        ("three-cycle", True, "a", [("a", ["b"], None), ("b", ["c"], None), ("c", ["a"], sty)]),
        ("cycle-below-top", True, "top", [("top", ["x"], None), ("x", ["y"], None), ("y", ["z", "side-by-side"], None), ("z", ["x"], sty)]),
        ("cycle-below-top-deep", True, "t0", [(f"t{i}", [f"t{i + 1}"], None) for i in range(12)] + [("t12", ["t7"], sty)]),
        ("cycle-through-builtin", True, "x", [("x", ["line-numbers"], sty), ("line-numbers", ["x"], None)]),
        ("cycle-through-builtin-2", True, "side-by-side", [("side-by-side", ["y"], None), ("y", ["navigate", "side-by-side"], None),
                                                             ("navigate", ["y"], None)]),
        ("builtin-self-loop", True, "diff-so-fancy", [("diff-so-fancy", ["diff-so-fancy"], sty)]),
        ("two-cycles-sharing-a-node", True, "a", [("a", ["b", "c"], None), ("b", ["a"], None), ("c", ["a"], sty)]),
        ("complete-graph-4", True, "k0", [(f"k{i}", [f"k{j}" for j in range(4)], None) for i in range(4)]),
        ("diamond", False, "a b", [("a", ["c"], None), ("b", ["c"], ln), ("c", None, sty)]),
        ("diamond-deep", False, "r", [("r", ["a", "b"], None), ("a", ["c"], None), ("b", ["c"], None), ("c", ["d", "e"], None),
                                      ("d", ["f"], None), ("e", ["f"], None), ("f", None, sty)]),
        ("acyclic-chain", False, "base", [("base", ["decorations"], None), ("decorations", None, sty)]),
        ("duplicated-names", False, "a a b a", [("a", ["b", "b", "b"], None), ("b", None, sty)]),
        ("duplicated-names-cyclic", True, "a a", [("a", ["b", "a", "b"], None), ("b", ["a", "a"], sty)]),
        ("empty-list", False, "", [("a", "", sty)]),
        ("blank-list", False, "   ", [("a", "  \t ", sty)]),
        ("blank-separated", False, "  a   b  ", [("a", "   b   ", None), ("b", None, sty)]),
        ("blank-separated-cyclic", True, "  a  ", [("a", "  b  \t a ", None), ("b", "\ta\t", sty)]),
        ("unknown-names", False, "nosuch a", [("a", ["nosuch", "neither"], sty)]),
        # the same feature through different spellings: subsection names are case-sensitive for git, the key `features` is not
        ("spelling-case", True, "Mine", [("Mine", ["mine"], None), ("mine", ["Mine", "MINE"], sty), ("MINE", ["Mine"], None)]),
        ("spelling-key-case", True, "a", [("a", None, {"Features": "b"}), ("b", None, {"FEATURES": "a"})]),
        ("spelling-quoted-value", True, "a", [("a", '"b"', None), ("b", '"a" "b"', sty)]),
        ("spelling-plus-prefix", True, "a", [("a", "+b", None), ("+b", "a +b", None), ("b", "a", sty)]),
        ("spelling-unicode", True, "é", [("é", ["é"], None), ("é", ["é"], sty)]),
        ("spelling-dotted", True, "a.b", [("a.b", ["a.b", "c"], None), ("c", ["a.b"], sty)]),
        ("features-key-repeated", True, "a", [("a", ["b"], {"features": "a"}), ("b", ["a"], {"features": "b"})]),
    ]
    return g


def fg_chain(depth, close):
    secs = [(f"n{i}", [f"n{i + 1}"], None) for i in range(depth)]
    secs.append((f"n{depth}", ["n0"] if close else None, {"file-style": "bold yellow"}))
    return secs


def fg_wide(w, cyclic):
    """a hub section whose `features` value has w words (and the same w words at the top level); cyclic: the last one names the hub"""
    kids = [f"w{i}" for i in range(w)]
    if cyclic:
        return True, "hub", [("hub", kids, None), (f"w{w - 1}", ["hub"], {"file-style": "bold yellow"})]
    return False, "hub " + " ".join(kids), [("hub", kids, {"file-style": "bold yellow"}), ("w1", ["w2", "w0"], None)]


def fg_random(rng):
    k = rng.randint(2, 7)
    names = [rng.choice(["a", "b", "c", "d", "e", "f", "g", "h"]) + str(i) for i in range(k)]
    pool = names + rng.sample(BUILTIN_FEATURES, 2)
    secs = []
    for n in pool if rng.random() < 0.5 else names:
        kids = [rng.choice(pool) for _ in range(rng.randint(0, 4))]
        extra = {}
        if rng.random() < 0.3:
            extra[rng.choice(BUILTIN_FEATURES[:4])] = "true"
        if rng.random() < 0.3:
            extra["file-style"] = "bold yellow"
        secs.append((n, kids, extra))
    # cyclic? (depth-first search over the section graph)
    adj = {n: [x for x in (kids or [])] for n, kids, _ in secs}
    state = {}

    def dfs(u):
        state[u] = 1
        for v in adj.get(u, []):
            if state.get(v) == 1 or (state.get(v) is None and dfs(v)):
                return True
        state[u] = 2
        return False
    roots = [rng.choice(pool) for _ in range(rng.randint(1, 3))]
    cyc = any(state.get(r) is None and dfs(r) for r in roots)
    return ("random-cyclic" if cyc else "random-acyclic"), cyc, " ".join(roots), secs


def fg_cases(ctx):
    rng = ctx.rng
    graphs = fg_named_graphs(rng)
    for d in CHAIN_DEPTHS_OK:
        graphs.append((f"chain-depth-{d}", False, "n0", fg_chain(d, False)))
        graphs.append((f"chain-depth-{d}-closed", True, "n0", fg_chain(d, True)))
    for d in CHAIN_DEPTHS_DEEP + CHAIN_DEPTHS_BEYOND:
        graphs.append((f"chain-depth-{d}", False, "n0", fg_chain(d, False)))
    for w in (300, 3000):
        graphs.append((f"wide-list-{w}",) + fg_wide(w, False))
        graphs.append((f"wide-list-{w}-cyclic",) + fg_wide(w, True))
    for _ in range(ctx.n(24, 400)):
        graphs.append(fg_random(rng))
    cases = []
    for cls, cyc, root, secs in graphs:
        big = cls.startswith(("chain-depth-2000", "wide-list-3000"))
        deliveries = ["config+main", "home+main", "config+cli", "config+env", "home+env-plus"]
        if cls.startswith("random") or big:
            deliveries = [rng.choice(deliveries)]
        for dl in deliveries:
            runs = ["diff", "show-config"] if not big else [rng.choice(["diff", "show-config"])]
            for r in runs:
                cases.append(dict(cls=cls, cyclic=cyc, root=root, delivery=dl, run=r,
                                  gitconfig=fg_text(root if dl.endswith("+main") else None, secs)))
    return cases


def fg_materialise(c):
    """write the configuration; returns (args, env, stdin)"""
    import hashlib
    from ..core import BUILD
    h = hashlib.sha256(c["gitconfig"].encode()).hexdigest()[:16]
    base = os.path.join(BUILD, "c03-gitconfig", h)
    os.makedirs(os.path.join(base, "home"), exist_ok=True)
    os.makedirs(os.path.join(base, "empty-home"), exist_ok=True)
    where, entry = c["delivery"].split("+", 1)
    args, env = [], {"RUST_BACKTRACE": "0"}
    if where == "config":
        path = os.path.join(base, "gitconfig")
        env["HOME"] = os.path.join(base, "empty-home")
        args += ["--config", path]
    else:
        path = os.path.join(base, "home", ".gitconfig")
        env["HOME"] = os.path.join(base, "home")
    if not os.path.exists(path):
        import threading
        tmp = path + f".{os.getpid()}.{threading.get_ident()}.tmp"
        with open(tmp, "w") as f:
            f.write(c["gitconfig"])
        os.replace(tmp, path)
    if entry == "cli":
        args += ["--features", c["root"]]
    elif entry == "env":
        env["DELTA_FEATURES"] = c["root"]
    elif entry == "env-plus":
        env["DELTA_FEATURES"] = "+" + c["root"]
    if c["run"] == "show-config":
        return args + ["--show-config"], env, b""
    return args, env, TINY_DIFF


def fg_outcome(rc, err):
    """(kind, detail): kind in ok | fatal | crash | hang"""
    e = err.decode("utf-8", "replace")
    if rc == "timeout":
        return "hang", "timeout"
    if isinstance(rc, int) and rc < 0:
        import signal
        try:
            return "crash", signal.Signals(-rc).name
        except ValueError:
            return "crash", f"signal{-rc}"
    if "overflowed its stack" in e or rc == 134:
        return "crash", "SIGABRT"
    if "panicked at" in e or rc == 101:
        return "crash", "panic"
    if "should not be possible" in e:
        return "crash", "unreachable"
    if rc == 0:
        return "ok", ""
    if rc == 2:
        return "fatal", e.strip()[:60]
    return "crash", f"exit{rc}"


def fg_signature(c, kind, detail):
    group = "feature-cycle" if c["cyclic"] else "feature-graph"
    return f"{kind}:gitconfig:{group}:{c['cls']}:{detail}" if kind != "fatal" else f"refused:gitconfig:{group}:{c['cls']}"


FG_TIMEOUT = 60


def feature_graph_sweep(ctx, rep):
    cases = fg_cases(ctx)

    def one(c):
        args, env, data = fg_materialise(c)
        return ctx.run_delta(args, data, timeout=FG_TIMEOUT, env=env)
    for c, (rc, out, err) in zip(cases, parallel_map(one, cases, workers=4)):
        kind, detail = fg_outcome(rc, err)
        rep.case(key=("gitconfig", c["cls"], c["delivery"], c["run"], c["gitconfig"]), nontrivial=True,
                 sample=dict(level="gitconfig-feature-graph", cls=c["cls"], delivery=c["delivery"], run=c["run"], outcome=kind,
                             gitconfig_head=c["gitconfig"][:160]))
        rep.count("gitconfig:" + ("cyclic" if c["cyclic"] else "acyclic") + ":" + kind)
        rep.count("gitconfig:delivery:" + c["delivery"])
        if kind == "ok" and c["run"] == "diff" and b"added_function" not in out:
            kind, detail = "crash", "no-output"          # exit 0 without having rendered the diff is not "works" either
        if kind != "ok":
            # every generated configuration is valid: a clean `fatal` refusal (exit 2) is reported too, under its own signature
            sig = fg_signature(c, kind, detail)
            rep.count("fail:" + sig)
            small = dict(c, gitconfig=c["gitconfig"] if len(c["gitconfig"]) < 4000 else None)
            if small["gitconfig"] is None:
                small["regenerate"] = c["cls"]
            rep.violation(sig, f"delta with the {c['cls']} feature graph ({c['delivery']}, {c['run']}) -> rc={rc} "
                               f"stderr={err[-300:].decode('utf-8', 'replace')!r}", dict(feature_graph=small))


def fg_regenerate(cls):
    import re as _re
    m = _re.fullmatch(r"chain-depth-(\d+)(-closed)?", cls)
    if m:
        return "n0", fg_chain(int(m.group(1)), bool(m.group(2)))
    m = _re.fullmatch(r"wide-list-(\d+)(-cyclic)?", cls)
    if m:
        _, root, secs = fg_wide(int(m.group(1)), bool(m.group(2)))
        return root, secs
    raise SystemExit("replay: cannot regenerate " + cls)


def classify_failure(rc, err):
    e = err.decode("utf-8", "replace")
    if rc == "timeout":
        return "hang"
    site = ""
    import re
    m = re.search(r"panicked at ([^:\n]+):(\d+)", e)
    if m:
        site = "panic:" + m.group(1)
        if "String mismatch encountered while superimposing style sections" in e:
            site += ":superimpose-string-mismatch"      # call site paint.rs superimpose(): a narrower signature
    elif "This should not be possible" in e or "delta_unreachable" in e:
        site = "unreachable:" + e.strip().split(".")[0][:60]
    elif rc not in (0,):
        site = f"exit{rc}:" + e.strip()[:60]
    return site


def run(ctx, rep):
    rep.rule = ("(1) machine.run correspondence on well-formed / mutated / hostile line sequences under random unified configurations; "
                "(2) the real binary (debug build, overflow checks on) on git / plain / combined diffs, structured mutations of them, hostile "
                "marker lines and raw byte damage x presentation modes x widths 1..200: exit 0, no panic, no hang; non-trivial = mutated or "
                "hostile input or a non-default mode; distinct by (args, input); (3) start-up: generated texts for --width (N, -N, A-B, signs, "
                "spaces, Unicode blanks, numbers at the edges of isize/usize, garbage), --wrap-max-lines (spellings of no-limit, numbers up to "
                "and beyond usize::MAX), --max-line-length, --tabs, line-number formats x side-by-side x fill method: the Lean start-up model "
                "(ok | fatal | panic and the computed width / max_line_length / tab width) against `delta --show-config`, then the same "
                "options on a small diff (no crash)")
    rng = ctx.rng
    # (1) hook level: implementation panic vs model (which provably never errs)
    cases, meta = [], []
    for _ in range(ctx.n(300, 6000)):
        cfg = M.gen_cfg(rng)
        lines, _ = gen_input(rng)
        lines = [l for l in "\n".join(lines).split("\n")]
        cases.append((cfg, [l.encode("utf-8", "surrogateescape") for l in lines])); meta.append((cfg, lines))
    res = M.observe(ctx, cases)
    for (cfg, lines), (impl, model) in zip(meta, res):
        case = dict(args=cfg.args(), model_cfg=cfg.d, input="\n".join(lines))
        rep.case(key=("hook", cfg.key(), tuple(lines)), nontrivial=True, sample=dict(level="hook", head=lines[:4], n=len(lines)))
        if impl.panic:
            rep.count("hook:panic")
            rep.violation("panic:machine:" + impl.msg[:50], "the state machine panicked / exited: " + impl.msg[:200], case)
            rep.corr_case("machine.run", False, dict(case, disagreement=["implementation panicked, model finishes (machine_total)"]))
            continue
        if impl.ok:
            # the model's domain excludes non-ASCII digits in hunk headers (Unicode \d); skip those for the row comparison
            if any(ord(ch) > 127 and ch.isdigit() for l in lines if l.startswith("@@") for ch in l):
                rep.count("hook:skipped-unicode-digit"); continue
            dis = M.compare(cfg, impl, model)
            rep.corr_case("machine.run", not dis, dict(case, disagreement=dis[:2]))
    # (2) the real binary
    jobs = []
    for _ in range(ctx.n(700, 40000)):
        lines, data = gen_input(rng)
        jobs.append((gen_args(rng), data))

    # (2b) geometry sweep: small fixed diffs x every width 1..44 x wrap limits, side-by-side (panel text widths 0, 1, 2, …
    # are where wrapping, truncation and padding have their boundary cases; random widths hit each of them rarely)
    for name, diff in SWEEP_DIFFS:
        for w in range(1, ctx.n(45, 90)):
            for wrap in (["--wrap-max-lines", "unlimited"], ["--wrap-max-lines", "2"], ["--wrap-max-lines", "0"]):
                for extra in ([], ["--line-numbers-left-format", "", "--line-numbers-right-format", ""]):
                    jobs.append((["--no-gitconfig", "--side-by-side", "--width", str(w)] + wrap + extra, diff.encode()))

    # (2b') every hostile line as a line of a hunk (unified, 2- and 3-parent combined) x the modes that treat hunk lines
    #       differently (raw styles slice the raw line by bytes, side-by-side wraps it, line numbers count it)
    frames = [("diff --git a/x.rs b/x.rs\n--- a/x.rs\n+++ b/x.rs\n@@ -1,3 +1,3 @@\n ctx\n", "+z\n"),
              ("diff --cc x.rs\nindex 1,2..3\n--- a/x.rs\n+++ b/x.rs\n@@@ -1,2 -1,2 +1,3 @@@\n  a\n", "++z\n"),
              ("diff --cc x.rs\nindex 1,2,3..4\n--- a/x.rs\n+++ b/x.rs\n@@@@ -1,2 -1,2 -1,2 +1,3 @@@@\n   a\n", "+++z\n")]
    line_modes = [[], ["--zero-style", "raw", "--plus-style", "raw", "--minus-style", "raw"], ["--side-by-side"], ["--line-numbers"],
                  ["--color-only"], ["--side-by-side", "--zero-style", "raw", "--plus-style", "raw", "--minus-style", "raw"],
                  ["--keep-plus-minus-markers"]]
    for hl in HOSTILE:
        for pre, post in frames:
            for lm in line_modes:
                jobs.append((["--no-gitconfig"] + lm, (pre + hl + "\n" + post).encode("utf-8", "surrogateescape")))

    # (2c) hostile option values: a clean refusal (exit 2 with a message) is fine, a panic / unreachable / hang is not
    optjobs = []
    small = SWEEP_DIFFS[1][1].encode()
    # a complete conflict region (the merge-conflict symbols and styles are used only there), a commit and a grep line
    small += ("diff --cc m.rs\nindex 1,2..0\n--- a/m.rs\n+++ b/m.rs\n@@@ -1,3 -1,3 +1,7 @@@\n  ctx\n++<<<<<<< HEAD\n+ ours\n++||||||| base\n"
              "++anc\n++=======\n +theirs\n++>>>>>>> br\n").encode()
    for opt, vals in OPTION_VALUES:
        for v in vals:
            for extra in ([], ["--side-by-side"], ["--navigate", "--paging=never"]):
                optjobs.append((["--no-gitconfig"] + extra + [opt + "=" + v], small))
    for (args, data), (rc, out, err) in zip(optjobs, parallel_map(lambda j: ctx.run_delta(j[0], j[1], timeout=20), optjobs)):
        rep.case(key=("opt", tuple(args)), nontrivial=True, sample=dict(level="option-value", args=args))
        rep.count("optval:" + args[-1].split("=")[0])
        site = classify_failure(rc, err)
        e = err.decode("utf-8", "replace")
        if site and not (rc == 2 and "panicked" not in e and "should not be possible" not in e and "unreachable" not in e):
            rep.violation(site, f"delta {' '.join(args)} -> rc={rc} stderr={err[-300:].decode('utf-8', 'replace')!r}",
                          dict(args=args, input_b64=b64(data)))

    # (2e) start-up / option-value model against the binary
    startup_sweep(ctx, rep)

    # (2d) diff-stat blocks under --relative-paths (delta as git's pager from a subdirectory): every generated block x
    #      align widths x prefixes
    for _ in range(ctx.n(12, 150)):
        data = ("\n".join(gen_diffstat(rng)) + "\n").encode("utf-8", "surrogateescape")
        for aw in ("0", "5", "48", "200"):
            jobs.append((["--no-gitconfig", "--relative-paths", "--diff-stat-align-width", aw] + rng.choice([[], ["--hyperlinks"], ["--side-by-side"]]), data))

    def one(j):
        args, data = j
        # delta as git's pager from a subdirectory: GIT_PREFIX is set whenever relative paths are asked for
        env = {"GIT_PREFIX": ["sub/", "sub/dir/", "a b/", "日本/"][len(data) % 4]} if "--relative-paths" in args else None
        return ctx.run_delta(args, data, timeout=20, env=env)
    for (args, data), (rc, out, err) in zip(jobs, parallel_map(one, jobs)):
        rep.case(key=("bin", tuple(args), data), nontrivial=True,
                 sample=dict(level="binary", args=args, input_head=data[:80].decode("utf-8", "replace")))
        rep.count("mode:" + (args[1] if len(args) > 1 else "default"))
        site = classify_failure(rc, err)
        if site:
            rep.count("fail:" + site)
            rep.violation(site, f"delta {' '.join(args)} -> rc={rc} stderr={err[-300:].decode('utf-8', 'replace')!r}",
                          dict(args=args, input_b64=b64(data),
                               env=({"GIT_PREFIX": ["sub/", "sub/dir/", "a b/", "日本/"][len(data) % 4]} if "--relative-paths" in args else None)))

    # (2f) feature graphs in a gitconfig (cycles, self-loops, deep chains, wide lists …)
    feature_graph_sweep(ctx, rep)


def replay(ctx, rep, obj):
    import base64
    c = obj["case"]
    if "feature_graph" in c:
        fg = dict(c["feature_graph"])
        if fg.get("gitconfig") is None:
            root, secs = fg_regenerate(fg["regenerate"])
            fg["gitconfig"] = fg_text(root if fg["delivery"].endswith("+main") else None, secs)
        args, env, data = fg_materialise(fg)
        rc, out, err = ctx.run_delta(args, data, timeout=FG_TIMEOUT, env=env)
        print("delta", " ".join(args), {k: v for k, v in env.items() if k != "RUST_BACKTRACE"})
        print("rc", rc, err[-400:].decode("utf-8", "replace"))
        kind, detail = fg_outcome(rc, err)
        if kind == "ok" and fg["run"] == "diff" and b"added_function" not in out:
            kind, detail = "crash", "no-output"
        if kind != "ok":
            rep.violation(fg_signature(fg, kind, detail), "replayed", c)
    elif "input_b64" in c:
        rc, out, err = ctx.run_delta(c["args"], base64.b64decode(c["input_b64"]), timeout=20, env=c.get("env"))
        print("rc", rc, err[-400:].decode("utf-8", "replace"))
        site = classify_failure(rc, err)
        if site:
            # keep the class the sweep that found it gave it (e.g. `render-after-startup:hang:wrap-max-lines-huge`)
            osig = obj.get("signature", "")
            if osig and osig.split(":")[-1] == site.split(":")[-1] or (site == "hang" and ":hang" in osig):
                site = osig
            rep.violation(site, "replayed", c)
    else:
        cfg = M.VCfg(**c["model_cfg"])
        impl, model = M.observe(ctx, [(cfg, [l.encode("utf-8", "surrogateescape") for l in c["input"].split("\n")])])[0]
        print(impl.resp[:300])
