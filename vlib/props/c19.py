"""C19 — hyperlinks are well-formed, transparent, and point at the right target.

Correspondence (hook ops `ansi.osc8`, `ansi.format_file_link`, `ansi.format_commit_line`,
`ansi.format_line_number`, `ansi.file_path_with_line_number`, `ansi.diff_stat_line`,
`ansi.file_change`, `ansi.absolute_path` against the Lean `Links` model in `drv_ansi`), with link
formats from a small template grammar, odd paths, many hashes per line.

Direct oracle (real binary): each diff / `rg --json` input is rendered with and without
`--hyperlinks` in several modes, link formats, working directories and `--relative-paths`
settings; an independent OSC 8 scanner strips the links and the result must be byte-identical to
the run without hyperlinks; every link is closed on the line it was opened on; file links must
carry the absolute path of the section's file (and, where the format has `{line}`, the number
displayed in the link text), commit links the hash they wrap.

Note: `format_raw_line` (raw-styled commit lines, blame hashes) only links when stdout is a
terminal; those sites are exercised through a pty (`pty_cases`).

Remote-derived commit links (`remote_cases`): delta is run *inside* scratch git repositories (`.git/config` written by
hand under .build/c19-remote/, no `--no-gitconfig`) whose `origin` is built from parts (form x user x host x port x path):
the four forges in https / scp-like / ssh:// forms, look-alike hosts, nested GitLab groups, ports, a second remote;
hyperlinks and the commit-link format from the command line or from the repository's `[delta]` section. Oracle: a
commit link is the configured format applied to the hash it wraps, else it is on the host the origin names, under the
origin's path, with the forge's commit path, and ends with exactly the hash; the documented forms of the four forges
must be linked. Correspondence `remote.commit_url`: the Lean model of `GitRemoteRepo::from_str` / `format_commit_url`
(`DeltaModel/Remote.lean` over `Generated/Remote.lean`, run with `lean --run Driver/Remote.lean`) against the binary on
those origins and on 1-2 character mutations of them.
"""
import os
import re
import socket

from ..core import hx, unhx, parallel_map, sha, BUILD, LEAN, LineProc, lake_build

DRIVERS = ["drv_ansi"]
_SEEN = {}


def report(rep, signature, what, replay):
    """rep.violation, at most 3 times per signature (core keeps only the first 50 violations of a run:
    one noisy signature must not crowd out the others)."""
    n = _SEEN.get(signature, 0)
    _SEEN[signature] = n + 1
    if os.environ.get("VERIF_DEBUG"):
        import sys
        print("report:", signature, {k: replay.get(k) for k in ("origin", "url", "fmt", "mode")}, file=sys.stderr)
    if n < 3:
        rep.violation(signature, what, replay)


GENERATED = ["VteTable", "AnsiSgr", "LinkSites", "LinkTargets", "RawLine", "Remote"]
ESC = "\x1b"

# ------------------------------------------------------------------ independent OSC 8 scanner

OSC_ANY = re.compile(rb"\x1b\]([^\x07\x1b]*)(?:\x07|\x1b\\)")
SGR_ANY = re.compile(rb"\x1b\[[0-9;:]*[A-Za-z]")


def scan_links(line):
    """One output line -> (text with OSC strings removed, [(url, linked bytes)], balanced?)."""
    out = bytearray()
    links = []
    cur = None  # (url, start offset in out)
    ok = True
    i = 0
    for m in OSC_ANY.finditer(line):
        out += line[i:m.start()]
        i = m.end()
        p = m.group(1)
        if p.startswith(b"8;"):
            uri = p.split(b";", 2)[2] if p.count(b";") >= 2 else b""
            if uri:
                if cur is not None:
                    ok = False  # opened while open
                cur = (uri, len(out))
            else:
                if cur is not None:  # closing with no link open is harmless (empty URL)
                    links.append((cur[0], bytes(out[cur[1]:])))
                cur = None
    out += line[i:]
    if cur is not None:
        ok = False  # still open at the end of the line
    if b"\x1b]" in bytes(out):
        ok = False  # an unterminated OSC string
    return bytes(out), links, ok


def visible(b):
    return SGR_ANY.sub(b"", b).decode("utf-8", "replace")


# ------------------------------------------------------------------ templates

LITS = ["file://", "file-line://", "vscode://file", ":", "#L", "?l=", "/", "x-", "%20", "", "{", "}", "{x}", "line", "é"]


def gen_template(rng, need_path=True):
    segs = []
    for _ in range(rng.randint(1, 5)):
        k = rng.random()
        if k < 0.45:
            segs.append(("lit", rng.choice(LITS)))
        elif k < 0.7:
            segs.append(("path", None))
        elif k < 0.85:
            segs.append(("line", None))
        else:
            segs.append(("host", None))
    if need_path and not any(s[0] == "path" for s in segs):
        segs.insert(rng.randint(0, len(segs)), ("path", None))
    return segs


def template_text(segs):
    return "".join(t if k == "lit" else "{%s}" % k for k, t in segs)


def clean_template(rng):
    """Templates the oracle can invert: literals without braces, exactly one {path}, optional
    {line} / {host} separated from the path by a literal."""
    pre = rng.choice(["file://", "file-line://", "vscode://file", "x://"])
    host = rng.random() < 0.3
    tail = rng.choice(["", ":{line}", "#L{line}", "?line={line}&x=1"])
    return pre + ("{host}" if host else "") + "{path}" + tail


def invert_template(fmt, host, url):
    """-> (path, line str | None) or None if `url` does not have the shape of `fmt`."""
    rx = re.escape(fmt).replace(re.escape("{path}"), "(?P<path>.*?)")
    rx = rx.replace(re.escape("{line}"), r"(?P<line>\d*)").replace(re.escape("{host}"), re.escape(host or "{host}"))
    m = re.fullmatch(rx, url, re.S)
    if not m:
        return None
    return m.group("path"), (m.groupdict().get("line"))


PATHS = ["/tmp/x/a.rs", "/home/u/my file.txt", "/r/é/日本.md", "/r/{line}.txt", "/r/{host}/x", "/r/a{b}c", "/", "/r/%41", "/r/x#y?z"]
TEXTS = ["a.rs", " 12 ", ESC + "[34msrc/a.rs" + ESC + "[0m:" + ESC + "[34m10" + ESC + "[0m", "", "日本", "x" + ESC + "[0K", "  7"]


def ask_cfg(hook, cfg_args, reqs, cwd=None):
    """Send `ansi.cfg_env` + requests; returns the answers to `reqs`."""
    lines = ["ansi.cfg_env " + " ".join(hx(a) for a in cfg_args)] + reqs
    return hook.ask(lines, sticky=[0])[1:]


def corr_hook(ctx, rep, mdl):
    rng = ctx.rng
    hook = ctx.hook()
    host = None
    # (a) osc8
    reqs, mreqs = [], []
    for _ in range(ctx.n(150, 3000)):
        u = "".join(rng.choice(["file://", "/a", "é", " ", ";", "x", "%"]) for _ in range(rng.randint(0, 4)))
        t = rng.choice(TEXTS)
        reqs.append(f"ansi.osc8 {hx(u)} {hx(t)}")
        mreqs.append(f"links.osc8 {hx(u)} {hx(t)}")
    impl = hook.ask(reqs)
    model = mdl.ask(mreqs) if mdl else [None] * len(reqs)
    for r, i, m in zip(reqs, impl, model):
        rep.case(key=r, nontrivial=True, sample=dict(op="ansi.osc8", request=r, impl=i))
        if m is not None:
            rep.corr_case("ansi.osc8", i == m, dict(request=r, impl=i, model=m))
        # oracle: the scanner gets the text back and the link is balanced
        b = unhx(i[3:]) if i.startswith("ok x") else None
        if b is not None:
            txt, links, ok = scan_links(b)
            want = unhx(r.split()[2])
            if txt != want or not ok:
                report(rep, "osc8:not-transparent", "format_osc8_hyperlink is not transparent / balanced",
                              dict(kind="hook", request=r, got=i))
    # (b) file links and (d) sites, per configuration
    for _ in range(ctx.n(24, 400)):
        segs = gen_template(rng, need_path=rng.random() < 0.8)
        fmt = template_text(segs)
        cfgs = {True: ["--hyperlinks", "--hyperlinks-file-link-format", fmt], False: ["--hyperlinks-file-link-format", fmt]}
        env = ask_cfg(hook, cfgs[True], ["ansi.link_env"])[0].split()
        if len(env) < 6:
            rep.corr_case("ansi.link_env", False, dict(answer=" ".join(env)))
            return
        host = None if env[1] == "-" else unhx(env[1]).decode()
        hfield = "-" if host is None else hx(host)
        cwd = None if env[2] == "-" else unhx(env[2]).decode()
        reqs, mreqs = [], []
        for _ in range(ctx.n(6, 12)):
            p, ln, t = rng.choice(PATHS), rng.choice(["-", "0", "7", "12345"]), rng.choice(TEXTS)
            reqs.append(f"ansi.format_file_link {hx(p)} {ln} {hx(t)}")
            mreqs.append(f"links.file_link {hx(fmt)} {hfield} {hx(p)} {ln} {hx(t)}")
        impl = ask_cfg(hook, cfgs[True], reqs)
        model = mdl.ask(mreqs) if mdl else [None] * len(reqs)
        for r, i, m in zip(reqs, impl, model):
            rep.case(key=(fmt, r), nontrivial="{" in fmt, sample=dict(op="ansi.format_file_link", fmt=fmt, request=r, impl=i))
            if m is not None:
                rep.corr_case("ansi.format_file_link", i == m, dict(fmt=fmt, host=host, request=r, impl=i, model=m))
        # sites: ask the implementation with links off (the displayed text) and on; the model gets the
        # displayed text, the absolute path the implementation forms, and must reproduce both
        files = [rng.choice(["a.rs", "src/b c.rs", "é/日.md", "../up.txt", "{line}.txt", "x/./y/../z.rs"]) for _ in range(3)]
        absr = ask_cfg(hook, cfgs[True], [f"ansi.absolute_path {hx(f)}" for f in files])
        absf = {f: ("-" if a == "ok none" else a.split()[1]) for f, a in zip(files, absr)}
        for f, a in absf.items():
            # oracle for absolute_path: cwd of the delta process joined with the path, normalised
            if cwd is not None and a != "-":
                want = os.path.normpath(os.path.join(cwd, f))
                if unhx(a).decode() != want:
                    report(rep, "absolute-path:not-cwd-joined", "absolute_path is not cwd/path normalised",
                                  dict(kind="hook", file=f, got=unhx(a).decode(), want=want))
        sreqs = []
        for f in files:
            n = rng.choice(["-", "3", "42", "1234"])
            w = rng.randint(1, 6)
            sreqs.append(("line_number", f"ansi.format_line_number {n} {w} {hx(f)}", f, n))
            sreqs.append(("line_number", f"ansi.format_line_number {n} {w} -", None, n))
            ln = rng.choice(["-", "5", "120"])
            pad, term = rng.randint(0, 1), rng.randint(0, 1)
            fst = rng.choice(["-", "00000000,n4,_", "10000000,_,_"])
            nst = rng.choice(["-", "00000000,n2,_"])
            sreqs.append(("file_path", f"ansi.file_path_with_line_number {ln} {hx(f)} {pad} {hx(':')} {term} {fst} {nst}", f, ln))
            stat = f" {f}   | {rng.randint(1, 99)} ++--"
            sreqs.append(("diff_stat", f"ansi.diff_stat_line {hx(stat)} {hx(rng.choice(['', 'src', 'é']))}", f, stat))
        g = rng.choice(files)
        for minus, plus, me, pe in [(files[0], files[0], "change", "change"), (files[0], "/dev/null", "change", "change"),
                                    ("/dev/null", files[1], "change", "change"), (files[0], g, "rename", "rename")]:
            sreqs.append(("file_change", f"ansi.file_change {hx(minus)} {hx(plus)} {me} {pe}", (minus, plus), None))
        on = ask_cfg(hook, cfgs[True], [r for _, r, _, _ in sreqs])
        off = ask_cfg(hook, cfgs[False], [r for _, r, _, _ in sreqs])
        extra_abs = {}
        need = {x for kind, _, f, _ in sreqs if kind == "file_change" for x in f if x not in absf}
        if need:
            need = sorted(need)
            for f, a in zip(need, ask_cfg(hook, cfgs[True], [f"ansi.absolute_path {hx(f)}" for f in need])):
                extra_abs[f] = "-" if a == "ok none" else a.split()[1]
        allabs = dict(absf, **extra_abs)
        for (kind, r, f, aux), a, b in zip(sreqs, on, off):
            rep.case(key=(fmt, r), nontrivial=a != b, sample=dict(op="site:" + kind, fmt=fmt, request=r, links_on=a, links_off=b))
            rep.count("site:" + kind)
            if not (a.startswith("ok") and b.startswith("ok")):
                continue
            if a == "ok none" or b == "ok none":
                if a != b:
                    report(rep, "site:" + kind + ":none-differs", "site result differs in kind", dict(kind="hook", request=r, on=a, off=b))
                continue
            ab, bb = unhx(a[3:]) if len(a) > 3 else b"", unhx(b[3:]) if len(b) > 3 else b""
            # direct oracle: transparency and balance of the site's result
            txt, links, ok = scan_links(ab)
            if txt != bb or not ok:
                report(rep, "site:" + kind + ":not-transparent",
                              "a call site's result with links is not its result without links plus OSC 8 strings",
                              dict(kind="hook", fmt=fmt, request=r, on=a, off=b))
            if mdl is None:
                continue
            # model
            if kind == "line_number":
                p = r.split()
                mq = [f"links.line_number {l} {hx(fmt)} {hfield} {allabs.get(f, '-') if f else '-'} {p[1]} "
                      f"{hx(f) if f is not None else '-'} {hx(bb)} {hx(bb)}" for l in (1, 0)]
            elif kind == "file_path":
                mq = [f"links.file_path {l} {hx(fmt)} {hfield} {allabs[f]} {hx(f)} {aux} {hx(bb)}" for l in (1, 0)]
            elif kind == "diff_stat":
                m = re.match(r" (.*?) +(\| +[0-9]+ .+)", aux)
                rel = os.path.relpath(m.group(1), unhx(r.split()[2]).decode() or ".") if m else ""
                # relative path and alignment width come from the implementation's own plain result
                mm = re.match(rb" (.*?)( *)(\| .*)", bb, re.S)
                if not mm:
                    continue
                relb, padb, suf = mm.group(1), mm.group(2), mm.group(3)
                ar = ask_cfg(hook, cfgs[True], [f"ansi.absolute_path {hx(relb)}"])[0]
                ar = "-" if ar == "ok none" else ar.split()[1]
                mq = [f"links.diff_stat {l} {hx(fmt)} {hfield} {allabs[f]} {ar} {hx(f)} {hx(relb)} {hx(suf)} {len(relb) + len(padb)}"
                      for l in (1, 0)]
            else:
                minus, plus = f
                k = "same" if minus == plus else "removed" if plus == "/dev/null" else "added" if minus == "/dev/null" else "renamed"
                label = "" if k != "renamed" else "renamed: "
                # labels: defaults are empty except `renamed:`; read them off the plain result
                arrow = "⟶"
                if k == "renamed":
                    label = bb.decode().split(minus)[0]
                    mid = bb.decode()[len(label) + len(minus):]
                    arrow = mid[1:len(mid) - len(plus) - 1]
                else:
                    label = bb.decode()[: len(bb.decode()) - len(minus if k != "added" else plus)]
                mq = [f"links.file_change {l} {hx(fmt)} {hfield} {k} {hx(label)} {hx(arrow)} {hx(minus)} {allabs.get(minus, '-')} "
                      f"{hx(plus)} {allabs.get(plus, '-')}" for l in (1, 0)]
            ma, mb = mdl.ask(mq)
            rep.corr_case("site:" + kind, (ma, mb) == (a if a != "ok" else "ok x", b if b != "ok" else "ok x"),
                          dict(fmt=fmt, request=r, impl_on=a, impl_off=b, model_on=ma, model_off=mb))
    # (c) commit lines
    for _ in range(ctx.n(20, 300)):
        cfmt = rng.choice(["https://x/{commit}", "HERE:{commit}", "{commit}", "u/{commit}/{commit}", "no-placeholder", "é{commit}é", "{commit"])
        lines = []
        for _ in range(ctx.n(8, 20)):
            toks = []
            for _ in range(rng.randint(0, 16)):
                k = rng.random()
                if k < 0.45:
                    n = rng.choice([6, 7, 8, 12, 40, 41])
                    toks.append("".join(rng.choice("0123456789abcdef") for _ in range(n)))
                elif k < 0.55:
                    toks.append("".join(rng.choice("0123456789") for _ in range(rng.choice([7, 9]))))
                else:
                    toks.append(rng.choice(["commit", "é", "(HEAD)", "Merge:", ESC + "[33m", ESC + "[m", "x", "deadbeefg", "日本"]))
            lines.append(rng.choice([" ", " ", "", ","]).join(toks))
        spans = ask_cfg(hook, ["--hyperlinks", "--hyperlinks-commit-link-format", cfmt], [f"ansi.commit_hash_spans {hx(l)}" for l in lines])
        impl = ask_cfg(hook, ["--hyperlinks", "--hyperlinks-commit-link-format", cfmt], [f"ansi.format_commit_line {hx(l)}" for l in lines])
        mreqs = [f"links.commit_line template {hx(cfmt)} {hx(l)} " + " ".join(s.split()[1:]) for l, s in zip(lines, spans)]
        model = mdl.ask([m.strip() for m in mreqs]) if mdl else [None] * len(lines)
        for l, s, i, m in zip(lines, spans, impl, model):
            nsp = len(s.split()) - 1
            rep.case(key=(cfmt, l), nontrivial=nsp > 0, sample=dict(op="ansi.format_commit_line", fmt=cfmt, line=l, impl=i))
            rep.count("commit-line:spans=%s" % (nsp if nsp < 14 else "14+"))
            if m is not None:
                rep.corr_case("ansi.format_commit_line", i == m or (i == "ok" and m == "ok x"), dict(fmt=cfmt, line=l, spans=s, impl=i, model=m))
            b = (unhx(i[3:]) if len(i) > 3 else b"") if i.startswith("ok") else None
            if b is not None:
                txt, links, ok = scan_links(b)
                if txt != l.encode() or not ok:
                    report(rep, "commit-line:not-transparent", "commit line with links is not the line plus OSC 8 strings",
                                  dict(kind="hook", fmt=cfmt, line=l, got=i))
                for url, text in links:
                    if url.decode("utf-8", "replace") != cfmt.replace("{commit}", text.decode("utf-8", "replace")):
                        report(rep, "commit-line:wrong-target", "a commit link does not carry the hash it wraps",
                                      dict(kind="hook", fmt=cfmt, line=l, url=url.decode("utf-8", "replace"), text=text.decode("utf-8", "replace")))
    # (f) absolute_path case analysis: cwd / GIT_PREFIX / --relative-paths / calling process
    base = os.path.join(BUILD, "c19-cwd")
    os.makedirs(os.path.join(base, "sub dir"), exist_ok=True)
    for prefix in (None, "sub dir/", ""):
        for rel in (False, True):
            for caller in (None, "git diff --relative", "rg foo", "git diff"):
                envx = {}
                if prefix is not None:
                    envx["GIT_PREFIX"] = prefix
                if caller:
                    envx["DELTA_VERIF_HOOK_CALLER"] = caller
                import subprocess
                e = dict(os.environ, DELTA_VERIF_HOOK="1", **envx)
                if prefix is None:
                    e.pop("GIT_PREFIX", None)
                args = ["--hyperlinks"] + (["--relative-paths"] if rel else [])
                reqs = ["ansi.cfg_env " + " ".join(hx(a) for a in args), "ansi.link_env"] + \
                       [f"ansi.absolute_path {hx(f)}" for f in ("a.rs", "x/../b.rs", "../c.rs")]
                p = subprocess.run([ctx.delta], input=("\n".join(reqs) + "\n").encode(), stdout=subprocess.PIPE, env=e, cwd=base)
                out = p.stdout.decode().split("\n")
                envl = out[1].split()
                d = "-" if envl[2] == "-" else envl[2]
                u = "-" if envl[3] == "-" else envl[3]
                relcwd = 1 if (envl[4] == "1" or envl[5] == "1") else 0
                m = mdl.ask([f"links.absolute_path {d} {u} {relcwd}"])[0] if mdl else None
                for f, a in zip(("a.rs", "x/../b.rs", "../c.rs"), out[2:5]):
                    rep.case(key=("abs", prefix, rel, caller, f), nontrivial=True,
                             sample=dict(op="ansi.absolute_path", git_prefix=prefix, relative_paths=rel, caller=caller, file=f, impl=a))
                    if m is not None:
                        if m == "ok none":
                            agree = a == "ok none"
                        else:
                            agree = a.startswith("ok x") and unhx(a[3:]).decode() == os.path.normpath(os.path.join(unhx(m[3:]).decode(), f))
                        rep.corr_case("ansi.absolute_path", agree, dict(git_prefix=prefix, relative_paths=rel, caller=caller, file=f, impl=a, model=m))


# ------------------------------------------------------------------ binary level

def gen_input(rng):
    """-> (lines, files) ; files = the paths (relative to the repo root = cwd of delta) in order."""
    kind = rng.random()
    files = []
    lines = []
    if kind < 0.12:
        # plain `diff -u` / svn-style streams: file sections follow each other without a `diff --git` line.
        # Section k's hunks start at line 1000*(k+1)+…, so a line number tells which section a link belongs to.
        names = rng.sample(["one.txt", "sub/two.txt", "three.rs", "dir/four.py", "five.md"], rng.randint(2, 4))
        for k, name in enumerate(names):
            files.append(name)
            style = rng.random()
            if style < 0.5:
                lines += [f"--- {name}", f"+++ {name}"]
            elif style < 0.7:
                lines += [f"--- {name}\t2024-01-01 00:00:00.000000000 +0000", f"+++ {name}\t2024-01-02 00:00:00.000000000 +0000"]
            elif style < 0.9:
                lines += [f"Index: {name}", "=" * 67, f"--- {name}\t(revision 1)", f"+++ {name}\t(working copy)"]
            else:
                lines += [f"diff -u {name} {name}", f"--- {name}", f"+++ {name}"]
            start = 1000 * (k + 1) + rng.randint(1, 800)
            for _ in range(rng.randint(1, 2)):
                body = [rng.choice(" -+") + rng.choice(["let x = 1;", "foo(bar)", "text"]) for _ in range(rng.randint(1, 4))]
                nm = sum(1 for b in body if b[0] in " -")
                npl = sum(1 for b in body if b[0] in " +")
                lines.append(f"@@ -{start},{nm} +{start},{npl} @@")
                lines += body
                start += nm + rng.randint(3, 40)
        return lines, files
    if kind < 0.8:
        if rng.random() < 0.6:
            h = "".join(rng.choice("0123456789abcdef") for _ in range(40))
            cl = "commit " + h
            if rng.random() < 0.5:
                cl = ESC + "[33m" + cl + ESC + "[m"       # as git colours it for a pager
            lines += [cl, "Author: A U Thor <a@example.com>", "Date:   Thu Jan 1 00:00:00 1970 +0000", "",
                      "    fix " + "".join(rng.choice("0123456789abcdef") for _ in range(rng.choice([7, 10]))) + " again", ""]
            if rng.random() < 0.4:
                lines += [" sub/a.rs | 2 +-", " 1 file changed, 1 insertion(+), 1 deletion(-)", ""]
                files.append("sub/a.rs")
        for _ in range(rng.randint(1, 3)):
            name = rng.choice(["sub/a.rs", "b.txt", "dir/c d.py", "é.txt", "sub/deep/x.md", "Makefile", "other/z.rs"])
            files.append(name)
            ev = rng.random()
            if ev < 0.7:
                lines += [f"diff --git a/{name} b/{name}", "index 1111111..2222222 100644", f"--- a/{name}", f"+++ b/{name}"]
            elif ev < 0.8:
                lines += [f"diff --git a/{name} b/{name}", "new file mode 100644", "index 0000000..2222222", "--- /dev/null", f"+++ b/{name}"]
            elif ev < 0.9:
                new = name + ".new"
                lines += [f"diff --git a/{name} b/{new}", "similarity index 90%", f"rename from {name}", f"rename to {new}",
                          "index 1111111..2222222 100644", f"--- a/{name}", f"+++ b/{new}"]
                files[-1] = new
                files.append(name)
            elif ev < 0.93:
                lines += [f"diff --git a/{name} b/{name}", "old mode 100644", "new mode 100755"]
                continue
            elif ev < 0.96:
                # binary sections: modified, added, and two different paths
                b = rng.choice(["img/x.png", "sub/y.bin", "z.dat"])
                k = rng.random()
                if k < 0.4:
                    lines += [f"diff --git a/{b} b/{b}", "index 1111111..2222222 100644", f"Binary files a/{b} and b/{b} differ"]
                    files[-1] = b
                elif k < 0.7:
                    lines += [f"diff --git a/{b} b/{b}", "new file mode 100644", "index 0000000..2222222", f"Binary files /dev/null and b/{b} differ"]
                    files[-1] = b
                else:
                    b2 = "moved/" + os.path.basename(b)
                    lines += [f"diff --git a/{b} b/{b2}", "similarity index 90%", f"rename from {b}", f"rename to {b2}",
                              "index 1111111..2222222 100644", f"Binary files a/{b} and b/{b2} differ"]
                    files[-1] = b
                    files.append(b2)
                continue
            elif ev < 0.98:
                # an empty added or deleted file: no ---/+++ lines at all
                e = rng.choice(["sub/e.txt", "empty.md", "dir/e e.txt"])
                if rng.random() < 0.5:
                    lines += [f"diff --git a/{e} b/{e}", "new file mode 100644", "index 0000000..e69de29"]
                else:
                    lines += [f"diff --git a/{e} b/{e}", "deleted file mode 100644", "index e69de29..0000000"]
                files[-1] = e
                continue
            else:
                # combined diff whose first hunk line opens a conflict region
                lines += [f"diff --cc {name}", "index 1111111,2222222..0000000", f"--- a/{name}", f"+++ b/{name}",
                          "@@@ -50,6 -50,6 +50,10 @@@", "++<<<<<<< HEAD", " +ours", "++=======", "+ theirs", "++>>>>>>> branch", "  tail"]
                continue
            start = rng.randint(1, 900)
            for _ in range(rng.randint(1, 2)):
                body = []
                for _ in range(rng.randint(1, 5)):
                    body.append(rng.choice(" -+") + rng.choice(["let x = 1;", "foo(bar)", "日本語 text", "", "a very long line " * rng.randint(1, 6), "\tindented"]))
                nm = sum(1 for b in body if b[0] in " -")
                npl = sum(1 for b in body if b[0] in " +")
                lines.append(f"@@ -{start},{nm} +{start + 2},{npl} @@" + rng.choice(["", " fn main() {"]))
                lines += body
                start += nm + rng.randint(3, 40)
    elif kind < 0.88:
        # classic grep output (`path:line:code`, `path-line-context`); needs a grep caller (binary_case pins it)
        for _ in range(rng.randint(1, 3)):
            name = rng.choice(["sub/a.rs", "b.txt", "dir/c.py", "other/z.rs", "sub/deep/x.md"])
            if name not in files:
                files.append(name)
            ln = rng.randint(1, 900)
            lines.append(f"{name}:{ln}:{rng.choice(['let x = foo;', '  foo(bar)', 'foo'])}")
            if rng.random() < 0.5:
                lines.append(f"{name}-{ln + 1}-context line")
    else:
        import json
        for _ in range(rng.randint(1, 2)):
            name = rng.choice(["sub/a.rs", "b.txt", "dir/c d.py", "é.txt"])
            files.append(name)
            lines.append(json.dumps({"type": "begin", "data": {"path": {"text": name}}}))
            for _ in range(rng.randint(1, 3)):
                ln = rng.randint(1, 5000)
                txt = rng.choice(["let x = foo;", "  foo(bar)", "日本 foo"])
                i = txt.index("foo")
                lines.append(json.dumps({"type": "match", "data": {"path": {"text": name}, "lines": {"text": txt + "\n"},
                             "line_number": ln, "absolute_offset": 1, "submatches": [{"match": {"text": "foo"}, "start": len(txt[:i].encode()), "end": len(txt[:i].encode()) + 3}]}}))
            lines.append(json.dumps({"type": "end", "data": {"path": {"text": name}, "binary_offset": None, "stats": {}}}))
    return lines, files


BIN_MODES = [[], ["--line-numbers"], ["--side-by-side", "--width", "120"], ["--side-by-side", "--width", "56"],
             ["--navigate"], ["--hunk-header-style", "file line-number syntax"],
             ["--commit-style", "yellow", "--hunk-header-style", "file line-number syntax", "--line-numbers"],
             ["--line-numbers", "--relative-paths"], ["--side-by-side", "--relative-paths", "--width", "100"],
             ["--color-only"], ["--diff-so-fancy"], ["--file-style", "omit", "--line-numbers"],
             ["--commit-style", "raw", "--commit-decoration-style", "bold yellow box ul"],
             ["--commit-style", "raw", "--commit-decoration-style", "ul", "--line-numbers"]]


def binary_case(ctx, rep, case):
    lines, files = case["lines"], case["files"]
    fmt, cfmt, mode, prefix = case["fmt"], case["cfmt"], case["mode"], case["prefix"]
    root = os.path.join(BUILD, "c19-root")
    os.makedirs(os.path.join(root, "sub"), exist_ok=True)
    env = {"GIT_PREFIX": prefix} if prefix is not None else {}
    data = ("\n".join(lines) + "\n").encode()
    largs = ["--hyperlinks", "--hyperlinks-file-link-format", fmt]
    if cfmt:
        largs += ["--hyperlinks-commit-link-format", cfmt]
    xform = case.get("xform")
    if xform:
        mode = mode + ["--file-transformation", xform]
    if case.get("caller"):
        env["DELTA_VERIF_FORCE_GUESS"] = case["caller"]
    rc1, o1, e1 = ctx.run_delta(["--no-gitconfig"] + mode, data, env=env, cwd=root)
    rc2, o2, e2 = ctx.run_delta(["--no-gitconfig"] + mode + largs, data, env=env, cwd=root)
    nlinks = o2.count(b"\x1b]8;;")
    rep.case(key=("bin", sha(repr(lines))[:12], fmt, cfmt, tuple(mode), prefix), nontrivial=nlinks > 0,
             sample=dict(op="binary with/without --hyperlinks", mode=mode, fmt=fmt, commit_fmt=cfmt, git_prefix=prefix, first_lines=lines[:6]))
    rep.count("binary:mode=" + " ".join(mode)[:36])
    rep.count("binary:links=%s" % ("0" if nlinks == 0 else "1-9" if nlinks < 20 else "10+"))
    if rc1 != 0:
        # the run *without* hyperlinks already fails: not a hyperlink matter (noted for C03)
        rep.count("binary:baseline-failed:" + (re.findall(rb"panicked at ([^:]+:\d+)", e1) or [b"?"])[0].decode())
        return
    if rc2 != 0:
        report(rep, "binary:exit-status", f"delta exit status {rc2} with --hyperlinks (0 without)",
                      dict(kind="binary", stderr=e2[:600].decode("utf-8", "replace"), **case))
        return
    host = socket.gethostname()
    want_abs = {os.path.normpath(os.path.join(root, f)) for f in files}
    l1, l2 = o1.split(b"\n"), o2.split(b"\n")
    if len(l1) != len(l2):
        report(rep, "not-transparent:line-count", "number of output lines differs with --hyperlinks", dict(kind="binary", **case))
        return
    current = None
    for i, (a, b) in enumerate(zip(l1, l2)):
        txt, links, ok = scan_links(b)
        if txt != a:
            report(rep, "not-transparent:" + site_of(a), "output with hyperlinks, OSC 8 strings removed, differs from the output without",
                          dict(kind="binary", row=i, without=repr(a), with_=repr(b), **case))
            return
        if not ok:
            report(rep, "unbalanced:" + site_of(a), "a hyperlink is not opened and closed on the same line",
                          dict(kind="binary", row=i, with_=repr(b), **case))
            return
        for url, text in links:
            u, t = url.decode("utf-8", "replace"), visible(text)
            if cfmt and re.fullmatch(r"[0-9a-f]{7,40}", t.strip()) and u == cfmt.replace("{commit}", t):
                continue  # a commit link carrying exactly the wrapped hash
            inv = invert_template(fmt, host, u) if case.get("invertible") else None
            if not case.get("invertible"):
                continue
            if inv is None:
                report(rep, "wrong-target:shape", "a link URL does not have the shape of the configured format",
                              dict(kind="binary", row=i, url=u, text=t, **case))
                return
            path, line = inv
            if path not in want_abs:
                stat = re.match(r"\s*\S.*\|\s+\d+ ", visible(txt)) is not None
                modeline = "(mode " in visible(txt)
                report(rep, "wrong-target:diff-stat-relative-path" if stat and "--relative-paths" in mode else
                              "wrong-target:mode-change-relative-path" if modeline and "--relative-paths" in mode else
                              "wrong-target:path", "a file link does not carry the absolute path of a file of the input",
                              dict(kind="binary", row=i, url=u, text=t, want=sorted(want_abs), **case))
                return
            if case.get("plain") and line and line.isdigit() and 1000 <= int(line) < 1000 * (len(files) + 1):
                own = os.path.normpath(os.path.join(root, files[int(line) // 1000 - 1]))
                if path != own:
                    report(rep, "wrong-target:section:plain-diff",
                           "in a stream of plain diff -u sections a line-number link points at another section's file",
                           dict(kind="binary", row=i, url=u, text=t, want=own, **case))
                    return
                continue
            # which file: a link whose text names a file must point at that file; a bare number
            # (gutter) at the file of the current section
            # the names a file can be displayed under: its own, relativized, and rewritten by --file-transformation
            named = [f for f in files if any(b and b in t for b in shown_names(f, xform, prefix))]
            if named:
                current = os.path.normpath(os.path.join(root, max(named, key=len)))
                if path != current and not any(path == os.path.normpath(os.path.join(root, f)) for f in named):
                    report(rep, "wrong-target:other-file", "a file link points at another file than the one it shows",
                                  dict(kind="binary", row=i, url=u, text=t, **case))
                    return
                current = path
            elif current is not None and path != current and not case.get("multi_sided"):
                report(rep, "wrong-target:section", "a line-number link points at another file than its section's",
                              dict(kind="binary", row=i, url=u, text=t, want=current, **case))
                return
            if line is not None:
                tt = t
                for f in files:
                    for b in sorted(shown_names(f, xform, prefix), key=len, reverse=True):
                        if b:
                            tt = tt.replace(b, "")
                nums = re.findall(r"\d+", tt)
                shown = nums[-1] if nums else ""
                if line != shown and not (line == "" and not nums):
                    if not nums and line != "0":
                        continue  # no number displayed in the link text (file-only header): the hunk's line
                    report(rep, "wrong-target:line-not-displayed:0" if not nums else "wrong-target:line", "the line number in the link differs from the number displayed",
                                  dict(kind="binary", row=i, url=u, text=t, line=line, shown=shown, **case))
                    return


def apply_sed(xform, path):
    """`--file-transformation` (sed-style `s<sep>regex<sep>replacement<sep>flags`) as the oracle understands it."""
    if not xform:
        return path
    sep = xform[1]
    rx, rep, flags = (xform[2:].split(sep) + ["", ""])[:3]
    rep = re.sub(r"\$(\d)", r"\\\1", rep)
    return re.sub(rx, rep, path, count=0 if "g" in flags else 1)


def shown_names(f, xform, prefix):
    """Base names under which the file `f` (path relative to the repository root) can appear in a link text."""
    cands = {f}
    if prefix:
        cands.add(os.path.relpath(f, prefix))
    out = set()
    for c in cands:
        for d in (c, apply_sed(xform, c)):
            out.add(os.path.basename(d))
            out.add(d)
    return {x for x in out if x}


def site_of(row):
    t = visible(row)
    if t.startswith("commit "):
        return "commit-line"
    if re.match(r"\s*\d*\s*[⋮│]", t) or "│" in t:
        return "gutter-or-panel"
    if re.match(r"[•\s]*\S+:\d+:", t) or re.match(r"\S+:\s*\d+", t):
        return "hunk-header-or-grep"
    return "other"


def binary_cases(ctx):
    rng = ctx.rng
    cases = []
    # always: the sections without hunks under --relative-paths below a prefix (empty added / deleted file, binary
    # added / modified / renamed, mode-only change)
    fixed = ["diff --git a/sub/e.txt b/sub/e.txt", "new file mode 100644", "index 0000000..e69de29",
             "diff --git a/empty.md b/empty.md", "deleted file mode 100644", "index e69de29..0000000",
             "diff --git a/sub/y.bin b/sub/y.bin", "new file mode 100644", "index 0000000..2222222", "Binary files /dev/null and b/sub/y.bin differ",
             "diff --git a/img/x.png b/img/x.png", "index 1111111..2222222 100644", "Binary files a/img/x.png and b/img/x.png differ",
             "diff --git a/z.dat b/moved/z.dat", "similarity index 90%", "rename from z.dat", "rename to moved/z.dat",
             "index 1111111..2222222 100644", "Binary files a/z.dat and b/moved/z.dat differ",
             "diff --git a/sub/deep/x.md b/sub/deep/x.md", "old mode 100644", "new mode 100755"]
    ffiles = ["sub/e.txt", "empty.md", "sub/y.bin", "img/x.png", "z.dat", "moved/z.dat", "sub/deep/x.md"]
    for mode in (["--relative-paths"], ["--line-numbers", "--relative-paths"], []):
        for prefix in ("sub/", None):
            cases.append(dict(lines=fixed, files=ffiles, fmt="file://{path}", cfmt=None, mode=mode, prefix=prefix,
                              invertible=True, xform=None, caller=None))
    for _ in range(ctx.n(60, 2500)):
        lines, files = gen_input(rng)
        inv = rng.random() < 0.75
        fmt = clean_template(rng) if inv else template_text(gen_template(rng))
        cfmt = rng.choice([None, "https://example.com/c/{commit}", "x:{commit}:y"])
        prefix = rng.choice([None, None, "sub/", ""])
        is_plain = lines[0].startswith(("--- ", "Index: ", "diff -u "))
        if is_plain:
            inv, fmt, prefix = True, rng.choice(["file-line://{path}:{line}", "x://{path}#L{line}"]), None
        is_rg = lines[0].startswith("{")
        is_grep = not is_rg and re.match(r"[^ :]+[:-]\d+[:-]", lines[0]) is not None
        caller = None
        if is_rg or is_grep:
            prefix = None  # grep paths are relative to the directory grep ran in, not to a repository root
        if is_grep:
            caller = rng.choice(["git grep -n foo", "rg foo"])
        # --file-transformation only rewrites what is displayed: one that shortens, one that lengthens, two that
        # make different files look alike
        xform = rng.choice([None, None, "s,^sub/,,", "s,^,LONG/PREFIX/,", "s,[^/]*\\.rs$,same.rs,", "s,^.*$,FILE,",
                            "s,(\\w+)/,$1-$1/,"])
        modes = [m for m in BIN_MODES if not ((is_rg or is_grep or is_plain) and "--relative-paths" in m)]
        if is_plain:
            modes = [["--line-numbers"], ["--side-by-side", "--width", "120"], ["--line-numbers", "--navigate"],
                     ["--side-by-side", "--width", "56"], ["--hunk-header-style", "file line-number syntax", "--line-numbers"]]
        for mode in rng.sample(modes, ctx.n(3, 5)):
            cases.append(dict(lines=lines, files=files, fmt=fmt, cfmt=cfmt, mode=mode, prefix=prefix, invertible=inv,
                              xform=None if is_plain else xform, caller=caller, plain=is_plain))
    return cases


def pty_cases(ctx, rep, remote=None):
    """Raw lines (`format_raw_line`) are linked only when stdout is a terminal: run through a pty.
    `remote` = dict(args, data, cwd): one run inside a repository (git config on), returns (rc, output)."""
    import pty
    import subprocess
    rng = ctx.rng
    root = os.path.join(BUILD, "c19-root")
    os.makedirs(root, exist_ok=True)

    def run(args, data, cwd=root, nogit=True):
        m, s = pty.openpty()
        e = dict(os.environ, HOME=os.path.join(BUILD, "home"), GIT_CONFIG_NOSYSTEM="1", TERM="xterm-256color")
        for k in ("DELTA_PAGER", "PAGER", "GIT_PREFIX", "DELTA_FEATURES", "LESS"):
            e.pop(k, None)
        p = subprocess.Popen([ctx.delta] + (["--no-gitconfig"] if nogit else []) + ["--paging", "never", "--width", "100", "--dark"] + args,
                             stdin=subprocess.PIPE, stdout=s, stderr=subprocess.PIPE, env=e, cwd=cwd)
        os.close(s)
        p.stdin.write(data)
        p.stdin.close()
        out = b""
        while True:
            try:
                chunk = os.read(m, 65536)
            except OSError:
                break
            if not chunk:
                break
            out += chunk
        os.close(m)
        p.wait(timeout=20)
        return p.returncode, out.replace(b"\r\n", b"\n")

    if remote is not None:
        return run(remote["args"], remote["data"], cwd=remote["cwd"], nogit=False)
    for _ in range(ctx.n(8, 120)):
        h = ["".join(rng.choice("0123456789abcdef") for _ in range(n)) for n in (40, 8, 7)]
        lines = ["commit " + h[0] + " (HEAD -> main)", "Merge: " + h[1] + " " + h[2], "Author: A", "", "    see " + h[1] + " and 1234567", ""]
        cfmt = rng.choice(["https://example.com/c/{commit}", "c:{commit}"])
        data = ("\n".join(lines) + "\n").encode()
        rc1, o1 = run([], data)
        rc2, o2 = run(["--hyperlinks", "--hyperlinks-commit-link-format", cfmt], data)
        n = o2.count(b"\x1b]8;;")
        rep.case(key=("pty", tuple(lines), cfmt), nontrivial=n > 0, sample=dict(op="pty raw commit lines", lines=lines, fmt=cfmt, links=n))
        rep.count("pty:links=%d" % min(n // 2, 9))
        if rc1 != 0 or rc2 != 0:
            report(rep, "binary:exit-status", f"delta exit status {rc1}/{rc2} (pty)", dict(kind="pty", lines=lines))
            continue
        for a, b in zip(o1.split(b"\n"), o2.split(b"\n")):
            txt, links, ok = scan_links(b)
            if txt != a or not ok:
                report(rep, "not-transparent:raw-line", "raw line with commit links (tty) is not the line plus balanced OSC 8 strings",
                              dict(kind="pty", lines=lines, fmt=cfmt, without=repr(a), with_=repr(b)))
                break
            for url, text in links:
                if url.decode() != cfmt.replace("{commit}", text.decode()):
                    report(rep, "wrong-target:commit", "a commit link (tty) does not carry the hash it wraps",
                                  dict(kind="pty", lines=lines, fmt=cfmt, url=url.decode(), text=text.decode()))
                    break


# ------------------------------------------------------------------ remote-derived commit links

# What the four forges serve (from their documentation, not from delta): host -> path between repository and hash.
FORGES = {"github.com": "/commit/", "gitlab.com": "/-/commit/", "git.sr.ht": "/commit/", "codeberg.org": "/commit/"}
REMOTE_MODES = [["--commit-style", "yellow"], ["--commit-style", "raw", "--commit-decoration-style", "bold yellow box ul"],
                ["--commit-style", "blue", "--line-numbers"], ["--commit-style", "yellow", "--side-by-side", "--width", "100"],
                ["--commit-style", "bold", "--commit-decoration-style", "ul", "--navigate"]]
HEXD = "0123456789abcdef"
LOOKALIKES = ["subdomain", "suffix", "prefix", "dot", "www", "tld", "parent", "forge-in-path"]


def forge_path(rng, forge):
    """A repository path in the style of `forge` (no `.git`)."""
    owner = rng.choice(["dandavison", "GNOME", "a-b", "x_y", "u", "o.rg", "22", "Mesa3D"])
    repo = rng.choice(["delta", "gtk", "r", "my.repo", "repo-2", "docs_site", "git", "x.github.io"])
    if forge == "git.sr.ht":
        return "~" + owner + "/" + repo
    if forge == "gitlab.com":
        groups = [rng.choice(["grp", "sub", "community", "a.b", "team-1"]) for _ in range(rng.choice([0, 0, 1, 2, 3]))]
        return "/".join([owner] + groups + [repo])
    return owner + "/" + repo


def lookalike(rng, forge, kind):
    """(host, path prefix, class) of a host that is not `forge` but looks like it."""
    first = forge.split(".")[0] if forge != "git.sr.ht" else "git.sr"
    if kind == "subdomain":
        return first + "." + rng.choice(["example.org", "gnome.org", "freedesktop.org", "kitware.com", "company.internal"]), "", kind
    if kind == "suffix":
        return forge + rng.choice([".evil.org", ".cn", ".example.com", "x"]), "", kind
    if kind == "prefix":
        return rng.choice(["not", "my", "x-", "git"]) + forge, "", kind
    if kind == "dot":
        return forge.replace(".", rng.choice(["x", "-", "_"])), "", kind
    if kind == "www":
        return rng.choice(["www.", "ssh.", "api."]) + forge, "", kind
    if kind == "tld":
        return forge.rsplit(".", 1)[0] + "." + rng.choice(["io", "net", "org" if not forge.endswith("org") else "page", "dev", "co"]), "", kind
    if kind == "parent":
        labels = forge.split(".")
        return (".".join(labels[1:]) if len(labels) > 2 else "the" + forge), "", kind
    if kind == "forge-in-path":
        return "evil.org", forge + "/", kind
    if kind == "at-sign-in-path":
        return "evil.org", "x@" + forge + "/", kind
    raise ValueError(kind)


def origin_url(form, user, host, port, path, dotgit):
    p = path + (".git" if dotgit else "")
    hp = host + (":" + port if port else "")
    if form in ("https", "http", "ssh", "git"):
        return form + "://" + (user + "@" if user else "") + hp + "/" + p
    if form == "scp":
        return (user or "git") + "@" + host + ":" + p
    if form == "scp-bare":
        return host + ":" + p
    raise ValueError(form)


def remote_input(rng):
    """A `git log -p`-like stream whose commit line carries 1-3 hashes (at least one with a hex letter)."""
    def hexs(n):
        while True:
            h = "".join(rng.choice(HEXD) for _ in range(n))
            if re.search("[a-f]", h):
                return h
    hashes = [hexs(40)]
    line = "commit " + hashes[0]
    if rng.random() < 0.5:
        line += rng.choice([" (HEAD -> main)", " (HEAD -> main, origin/main, tag: v1.2)", " (tag: x)"])
    for _ in range(rng.choice([0, 0, 1, 2])):
        h = hexs(rng.choice([7, 8, 12, 40]))
        hashes.append(h)
        line += rng.choice([" ", " see ", " cherry picked from "]) + h
    if rng.random() < 0.3:
        line += " 1234567"      # digits only: not a hash for delta, never linked
    lines = [line, "Author: A U Thor <author@example.org>", "Date:   Thu May 14 11:13:17 2020 -0400", "", "    message", ""]
    if rng.random() < 0.5:
        lines += ["diff --git a/a.rs b/a.rs", "index 1111111..2222222 100644", "--- a/a.rs", "+++ b/a.rs", "@@ -1,2 +1,2 @@", " ctx", "-old", "+new"]
    return lines, hashes


def remote_cases(ctx):
    rng = ctx.rng
    cases = []

    def add(form, host, path, cls, forge, port="", user="", dotgit=None, cfmt=None, **kw):
        dotgit = (rng.random() < 0.5) if dotgit is None else dotgit
        if form == "scp" and not user:
            user = "git"
        lines, hashes = remote_input(rng)
        c = dict(origin=origin_url(form, user, host, port, path, dotgit), form=form, user=user, host=host, port=port, path=path,
                 dotgit=dotgit, cls=cls, forge=forge, cfmt=cfmt, cfmt_source=rng.choice(["cli", "gitconfig"]) if cfmt else None,
                 links_source="gitconfig" if rng.random() < 0.3 else "cli", mode=rng.choice(REMOTE_MODES),
                 subdir=rng.random() < 0.3, upstream=None, lines=lines, hashes=hashes, pty=False)
        c.update(kw)
        cases.append(c)
        return c

    forges = sorted(FORGES)
    # (1) the documented forms of the four forges: https / git@host: / host:, with and without .git
    for f in forges:
        for form in ("https", "scp", "scp-bare"):
            for dg in (False, True):
                if f == "git.sr.ht" and dg:
                    continue        # sourcehut has no .git suffix; whether it is stripped is not the property's matter
                add(form, f, forge_path(rng, f), "forge", f, dotgit=dg)
    # (2) look-alike hosts, every kind for every forge; the gitlab.<x> family in both forms
    for f in forges:
        for kind in LOOKALIKES:
            host, pre, cls = lookalike(rng, f, kind)
            add(rng.choice(["https", "scp", "scp-bare"]), host, pre + forge_path(rng, f), "lookalike:" + cls, f)
    for host in ("gitlab.example.org", "gitlab.gnome.org", "gitlab.com.cn", "gitlab.freedesktop.org"):
        for form in ("https", "scp"):
            add(form, host, forge_path(rng, "gitlab.com"), "lookalike:subdomain", "gitlab.com")
    for f in ("github.com", "gitlab.com"):
        host, pre, cls = lookalike(rng, f, "at-sign-in-path")
        add("https", host, pre + forge_path(rng, f), "lookalike:" + cls, f)
    # (3) other URL forms of the forges: ssh://, with a port, other schemes, other users
    for f in forges:
        add("ssh", f, forge_path(rng, f), "forge", f, user="git")
        add("https", f, forge_path(rng, f), "forge", f, port=rng.choice(["443", "8443"]))
        add("ssh", f, forge_path(rng, f), "forge", f, user="git", port=rng.choice(["22", "2222"]))
    add("http", "github.com", forge_path(rng, "github.com"), "forge", "github.com")
    add("git", "codeberg.org", forge_path(rng, "codeberg.org"), "forge", "codeberg.org")
    add("https", "github.com", forge_path(rng, "github.com"), "forge", "github.com", user="user")
    add("scp", "github.com", forge_path(rng, "github.com"), "forge", "github.com", user="org-123")
    # (4) unknown hosts
    add("https", "git.example.org", "team/project", "unknown", None)
    add("scp", "bitbucket.org", "team/project", "unknown", None)
    # (5) a configured format always wins: forge, look-alike and unknown origin
    for host, path, cls, f in (("github.com", "u/r", "forge", "github.com"), ("gitlab.gnome.org", "GNOME/gtk", "lookalike:subdomain", "gitlab.com"),
                               ("git.example.org", "a/b", "unknown", None), ("gitlab.com", "a/b/c", "forge", "gitlab.com")):
        add(rng.choice(["https", "scp"]), host, path, cls, f, cfmt=rng.choice(["https://example.com/c/{commit}", "x:{commit}:y", "https://" + host + "/" + path + "/-/commit/{commit}"]))
    # (6) a second remote on another forge does not matter
    for f in ("gitlab.com", "github.com", "codeberg.org"):
        other = rng.choice([x for x in forges if x != f])
        add(rng.choice(["https", "scp"]), f, forge_path(rng, f), "forge", f,
            upstream=dict(url="https://" + other + "/" + forge_path(rng, other) + ".git", first=rng.random() < 0.5))
    add("https", "gitlab.example.org", "a/b", "lookalike:subdomain", "gitlab.com", upstream=dict(url="git@gitlab.com:a/b.git", first=True))
    # (7) through a terminal: raw commit lines are linked too
    for f, host in (("github.com", "github.com"), ("gitlab.com", "gitlab.gnome.org"), ("gitlab.com", "gitlab.com"), ("codeberg.org", "codeberg.org.evil.org")):
        add(rng.choice(["https", "scp"]), host, forge_path(rng, f), "forge" if host == f else "lookalike:subdomain", f, pty=True, mode=[], links_source="cli")
    # (8) random
    for _ in range(ctx.n(30, 900)):
        f = rng.choice(forges)
        k = rng.random()
        if k < 0.45:
            add(rng.choice(["https", "scp", "scp-bare"]), f, forge_path(rng, f), "forge", f, dotgit=False if f == "git.sr.ht" else None)
        elif k < 0.85:
            host, pre, cls = lookalike(rng, f, rng.choice(LOOKALIKES))
            add(rng.choice(["https", "scp", "scp-bare", "ssh"]), host, pre + forge_path(rng, f), "lookalike:" + cls, f,
                cfmt=rng.choice([None, None, None, "https://example.com/c/{commit}"]))
        else:
            add(rng.choice(["ssh", "https"]), f, forge_path(rng, f), "forge", f, user=rng.choice(["", "git", "me"]), port=rng.choice(["", "", "22", "8443"]))
    return cases


def scratch_repo(case, with_links):
    """Write the scratch repository of `case` (idempotent); returns the directory delta runs in."""
    cfg = "[core]\n\trepositoryformatversion = 0\n\tfilemode = true\n\tbare = false\n"
    up = case.get("upstream")
    upt = ('[remote "upstream"]\n\turl = %s\n\tfetch = +refs/heads/*:refs/remotes/upstream/*\n' % up["url"]) if up else ""
    if up and up["first"]:
        cfg += upt
    cfg += '[remote "origin"]\n\turl = %s\n\tfetch = +refs/heads/*:refs/remotes/origin/*\n' % case["origin"]
    if up and not up["first"]:
        cfg += upt
    d = []
    if with_links and case["links_source"] == "gitconfig":
        d.append("\thyperlinks = true\n")
    if case.get("cfmt") and case["cfmt_source"] == "gitconfig":
        d.append("\thyperlinks-commit-link-format = %s\n" % case["cfmt"])
    if d:
        cfg += "[delta]\n" + "".join(d)
    repo = os.path.join(BUILD, "c19-remote", sha(cfg)[:16])
    git = os.path.join(repo, ".git")
    if not os.path.exists(os.path.join(git, "config")):
        os.makedirs(os.path.join(git, "objects"), exist_ok=True)
        os.makedirs(os.path.join(git, "refs", "heads"), exist_ok=True)
        os.makedirs(os.path.join(repo, "sub", "dir"), exist_ok=True)
        with open(os.path.join(git, "HEAD"), "w") as f:
            f.write("ref: refs/heads/main\n")
        tmp = os.path.join(git, "config.%d.%d" % (os.getpid(), id(case)))
        with open(tmp, "w") as f:
            f.write(cfg)
        os.replace(tmp, os.path.join(git, "config"))
    return os.path.join(repo, "sub", "dir") if case.get("subdir") else repo


def remote_args(case, with_links):
    a = list(case["mode"])
    if with_links and case["links_source"] == "cli":
        a.append("--hyperlinks")
    if case.get("cfmt") and case["cfmt_source"] == "cli":
        a += ["--hyperlinks-commit-link-format", case["cfmt"]]
    return a


def remote_case(ctx, rep, case):
    data = ("\n".join(case["lines"]) + "\n").encode()
    env = {"XDG_CONFIG_HOME": os.path.join(BUILD, "home", ".config")}
    runs = []
    for with_links in (False, True):
        cwd = scratch_repo(case, with_links)
        if case.get("pty"):
            rc, out = pty_cases(ctx, rep, remote=dict(args=remote_args(case, with_links), data=data, cwd=cwd))
            err = b""
        else:
            rc, out, err = ctx.run_delta(remote_args(case, with_links), data, env=env, cwd=cwd)
        runs.append((rc, out, err))
    (rc1, o1, e1), (rc2, o2, e2) = runs
    nlinks = o2.count(b"\x1b]8;;")
    rep.case(key=("remote", case["origin"], case.get("cfmt"), tuple(case["mode"]), case["links_source"], case.get("pty")), nontrivial=nlinks > 0,
             sample=dict(op="binary inside a repository, commit links", origin=case["origin"], mode=case["mode"], commit_fmt=case.get("cfmt"),
                         links=nlinks // 2, first_line=case["lines"][0]))
    rep.count("remote:" + case["cls"] + ":" + case["form"] + (":port" if case["port"] else "") + (":configured" if case.get("cfmt") else ""))
    rep.count("remote:links=%d" % min(nlinks // 2, 4))
    rcase = dict(kind="remote", **case)
    if rc1 != 0 or rc2 != 0:
        report(rep, "binary:exit-status", f"delta exit status {rc1}/{rc2} inside a repository", dict(stderr=(e1 + e2)[:600].decode("utf-8", "replace"), **rcase))
        return
    l1, l2 = o1.split(b"\n"), o2.split(b"\n")
    if len(l1) != len(l2):
        report(rep, "not-transparent:line-count", "number of output lines differs with hyperlinks", rcase)
        return
    cls = case["cls"].split(":")[-1]
    linked = []
    for i, (a, b) in enumerate(zip(l1, l2)):
        txt, links, ok = scan_links(b)
        if txt != a:
            report(rep, "not-transparent:" + ("raw-line" if case.get("pty") else site_of(a)), "output with hyperlinks, OSC 8 strings removed, differs from the output without",
                   dict(row=i, without=repr(a), with_=repr(b), **rcase))
            return
        if not ok:
            report(rep, "unbalanced:" + site_of(a), "a hyperlink is not opened and closed on the same line", dict(row=i, with_=repr(b), **rcase))
            return
        for url, text in links:
            u, t = url.decode("utf-8", "replace"), visible(text)
            if u.startswith("file"):
                continue    # file links: the other families
            linked.append(t)
            what = dict(row=i, url=u, text=t, **rcase)
            if not re.fullmatch(r"[0-9a-f]{7,40}", t) or not re.search("[a-f]", t):
                report(rep, "wrong-target:commit:not-a-hash", "a commit link wraps text that is not a hash", what)
                return
            if case.get("cfmt"):
                if u != case["cfmt"].replace("{commit}", t):
                    report(rep, "wrong-target:commit:configured-format-not-used",
                           "a commit link is not the configured hyperlinks-commit-link-format applied to the hash it wraps", what)
                    return
                continue
            m = re.fullmatch(r"https://([^/]*)/(.*)", u, re.S)
            if not m:
                report(rep, "wrong-target:commit:remote-derived:shape", "a remote-derived commit link is not an https URL", what)
                return
            lhost, lpath = m.group(1), m.group(2)
            if lhost != case["host"] and not (case["port"] and case["form"] in ("https", "http") and lhost == case["host"] + ":" + case["port"]):
                report(rep, "wrong-target:commit:remote-derived:host-differs" + (":at-sign-in-path" if cls == "at-sign-in-path" else ""),
                       f"a commit link goes to host {lhost}, the origin remote is on {case['host']}", dict(want_host=case["host"], **what))
                return
            if not u.endswith("/" + t):
                report(rep, "wrong-target:commit:remote-derived:hash", "a remote-derived commit link does not end with exactly the hash it wraps", what)
                return
            infix = FORGES.get(case["host"])
            # sourcehut repository pages have no `.git` form: whether a `.git` of the origin is kept there is not the property's matter
            paths = [case["path"]] + ([case["path"] + ".git"] if case["dotgit"] and case["host"] == "git.sr.ht" else [])
            good = any((lpath == p + infix + t) if infix else (lpath.startswith(p + "/") and len(lpath) > len(p) + 1 + len(t)) for p in paths)
            if not good:
                report(rep, "wrong-target:commit:remote-derived:path-differs" + (":port" if case["port"] else ""),
                       "a commit link is not under the repository path the origin remote names (+ the forge's commit path)",
                       dict(want_path=case["path"] + (infix or "/…/") + t, **what))
                return
    # presence: the documented URL forms of the four forges give a link for every hash of the commit line
    documented = case["cls"] == "forge" and not case["port"] and (case["form"], case["user"]) in (("https", ""), ("scp", "git"), ("scp-bare", ""))
    if (documented or case.get("cfmt")) and sorted(linked) != sorted(case["hashes"]):
        report(rep, "missing:commit:" + ("configured" if case.get("cfmt") else "remote-derived"),
               "a hash of the commit line is not linked although a template is configured / the origin is a documented forge URL",
               dict(linked=linked, **rcase))


def remote_mutants(ctx, origins):
    """1-2 character edits of origin URLs (near-valid and ambiguous strings for the regexes)."""
    rng = ctx.rng
    out = []
    alphabet = "@:/.~-_gt"
    for _ in range(ctx.n(150, 3000)):
        u = list(rng.choice(origins))
        for _ in range(rng.choice([1, 1, 2])):
            k = rng.random()
            i = rng.randrange(len(u) + 1)
            if k < 0.3 and u:
                del u[min(i, len(u) - 1)]
            elif k < 0.7:
                u.insert(i, rng.choice(alphabet))
            elif k < 0.8:
                u += list(rng.choice([".git", "/", ".git/", "/.git", "@", ":"]))
            elif k < 0.9 and u:
                j = min(i, len(u) - 1)
                u[j] = rng.choice(alphabet)
            else:
                u = list(rng.choice(["git@", "https://", "ssh://git@", "a@b@", "https://u:p@", ""])) + u
        u = "".join(u).strip()
        if u and not re.search(r"[\s\"\\#;]", u) and u not in out:
            out.append(u)
    return out


def remote_model():
    """The Lean model of from_str / format_commit_url as a line process (no lean_exe: lakefile.toml is not ours)."""
    ok, log = lake_build(["DeltaModel.Remote"])
    if not ok or not os.path.exists(os.path.join(LEAN, "Driver", "Remote.lean")):
        return None
    return LineProc(["lake", "env", "lean", "--run", "Driver/Remote.lean"], cwd=LEAN)


def remote_corr(ctx, rep, origins, workers):
    """`remote.commit_url`: model vs binary on origin URLs."""
    mdl = remote_model()
    if mdl is None:
        rep.corr_case("remote.commit_url", False, dict(note="the Lean model DeltaModel.Remote does not build"))
        return
    h = "94907c0f136f46dc46ffae2dc92dca9af7eb7c2e"
    data = ("commit %s\nAuthor: A\n\n    msg\n" % h).encode()

    def observe(u):
        case = dict(origin=u, links_source="cli", subdir=False)
        rc, out, err = ctx.run_delta(["--commit-style", "yellow", "--hyperlinks"], data, env={"XDG_CONFIG_HOME": os.path.join(BUILD, "home", ".config")},
                                     cwd=scratch_repo(case, True))
        if rc != 0:
            return "rc=%s" % rc
        urls = [url.decode("utf-8", "replace") for ln in out.split(b"\n") for url, _ in scan_links(ln)[1]]
        return urls[0] if urls else None
    seen = parallel_map(observe, origins, workers=workers)
    answers = mdl.ask([f"remote.commit_url {hx(u)} {hx(h)}" for u in origins])
    for u, got, a in zip(origins, seen, answers):
        f = a.split()
        want = None if a == "ok none" else unhx(f[3]).decode() if len(f) == 4 and f[0] == "ok" else a
        rep.count("remote-corr:" + ("recognised" if want else "none"))
        rep.case(key=("remote-corr", u), nontrivial=want is not None, sample=dict(op="remote.commit_url", origin=u, impl=got, model=a))
        rep.corr_case("remote.commit_url", got == want, dict(kind="remote-corr", origin=u, impl=got, model=want))


def run(ctx, rep):
    rep.rule = ("hook level: link formats from a template grammar (literals incl. stray braces, {path} {line} {host}), "
                "odd paths, texts with SGR; commit lines with 0-16 hash-like words; non-trivial = the format has a "
                "placeholder / the line has a match / links on and off differ. binary level: generated git diffs and "
                "rg --json streams x modes x link formats x GIT_PREFIX; non-trivial = at least one OSC 8 link in the output. "
                "remote level: scratch repositories whose origin is built from form x user x host (forge / look-alike / unknown) x "
                "port x path x .git, hyperlinks and commit-link format from the command line or the repository's [delta] section; "
                "model vs binary on those origins and on 1-2 character mutations; non-trivial = a commit link in the output")
    mdl = ctx.model("drv_ansi") if ctx.drivers_ok else None
    corr_hook(ctx, rep, mdl)
    import threading
    lock = threading.Lock()

    class Shim:
        def __getattr__(self, name):
            f = getattr(rep, name)
            def g(*a, **k):
                with lock:
                    return f(*a, **k)
            return g
    shim = Shim()
    workers = int(os.environ.get("VERIF_WORKERS", "0") or 0) or None
    parallel_map(lambda c: binary_case(ctx, shim, c), binary_cases(ctx), workers=workers)
    pty_cases(ctx, rep)
    rcases = remote_cases(ctx)
    parallel_map(lambda c: remote_case(ctx, shim, c), rcases, workers=workers)
    origins = sorted({c["origin"] for c in rcases})
    remote_corr(ctx, rep, origins + remote_mutants(ctx, origins), workers)


def replay(ctx, rep, obj):
    case = obj.get("case", {})
    if case.get("kind") == "binary":
        c = {k: case[k] for k in ("lines", "files", "fmt", "cfmt", "mode", "prefix", "invertible", "xform", "caller", "plain") if k in case}
        binary_case(ctx, rep, c)
    elif case.get("kind") == "remote":
        remote_case(ctx, rep, {k: v for k, v in case.items() if k not in ("kind", "row", "url", "text", "want_host", "want_path", "linked", "stderr", "without", "with_")})
    elif case.get("kind") == "remote-corr":
        remote_corr(ctx, rep, [case["origin"]], 1)
    else:
        run(ctx, rep)
