"""C12 — style strings mean what git's colour language says they mean.

Correspondence (hook `style.*` ops vs the Lean driver `drv_style`):
  style.parse (Style::from_str / …with_handling_of_special_decoration_attributes /
  DecorationStyle::from_str), style.color, style.display, style.paint, and the style-typed
  options of a whole Config (`cfg` + style.config_style).
Direct oracle (real binary): every style-typed option that paints text in a diff is set from the
grammar; the SGR state around the painted text is decoded with the independent terminal decoder
(vlib/termmodel.py) and compared with an independent reading of the style string (written from
git-config(1) "color" + delta's documented extras); the value printed by --show-config is fed
back and must render identically; a third colour must be the fatal error.
Text drawn under a decoration (src/handlers/draw.rs): `decorated_text_oracle` = every option whose text a drawing function
writes x every decoration kind x every attribute, and the correspondence `draw.header` (real binary vs the Lean model
style parser -> get_draw_function -> Draw.draw, run through DeltaModel/DrawTextRun.lean).
A style option and the OTHER style options (src/paint.rs, src/style.rs): `other_options_oracle` = the hunk-line triples
(X-style, X-emph-style, X-non-emph-style) over nine relations of their strings (equal, different, respelt, references, not
given) plus groups of other options sharing one string; correspondence `guards.line` (real binary vs
DeltaModel/StyleGuardsRun.lean = `StyleGuards.paintedLine` over Generated/StyleGuards.lean, every character of every hunk line).
"""
import itertools
import re

import os

from ..core import hx, unhx, parallel_map, LEAN, BUILD
from .. import termmodel as T

DRIVERS = ["drv_style"]
GENERATED = ["StyleGuards", "DecoArms", "StyleTables"]     # the rest is found through the imports of Props.C12 / Driver.Style


_SIG_COUNT = {}


def _viol(rep, signature, what, replay):
    """rep.violation, at most 3 cases per signature (core keeps the first 50 violations overall:
    one noisy signature must not crowd out the others)."""
    _SIG_COUNT[signature] = _SIG_COUNT.get(signature, 0) + 1
    if _SIG_COUNT[signature] <= 3:
        return rep.violation(signature, what, replay)
    rep.count("violations-suppressed:" + signature)
    return False

# --------------------------------------------------------------------------- grammar

ATTR_WORDS = ["bold", "dim", "italic", "ul", "blink", "reverse", "hidden", "strike"]
SPECIAL = ["omit", "raw"]
VOCAB14 = ["bold", "ul", "italic", "hidden", "reverse", "omit", "raw",
           "red", "bright-blue", "17", "#aabbcc", "normal", "auto", "syntax"]
BASIC = ["black", "red", "green", "yellow", "blue", "magenta", "cyan", "white"]
NAMED = BASIC + ["purple"] + ["bright-" + c for c in BASIC] + ["bright" + c for c in BASIC] + \
    ["brightpurple", "bright-purple"]

# the reading of a style string, written from git-config(1) (section "color") plus the extras
# delta documents in `delta --help` STYLES: purple, bright*, hidden, omit, raw, syntax, auto, quotes
_ATTR_MEANING = {"bold": "bold", "dim": "faint", "ul": "underline", "blink": "blink",
                 "reverse": "inverse", "italic": "italic", "strike": "crossed", "hidden": "conceal"}
_BASE = {"black": 0, "red": 1, "green": 2, "yellow": 3, "blue": 4, "magenta": 5, "purple": 5,
         "cyan": 6, "white": 7}


def oracle_color(word):
    """Terminal colour a colour word denotes: None | ("idx", n) | ("rgb", r, g, b) |
    "syntax" | "auto"; raises ValueError if it is not a colour of the language."""
    if word == "normal":
        return None
    if word in ("syntax", "auto"):
        return word
    if word in _BASE:
        return ("idx", _BASE[word])
    m = re.fullmatch(r"bright-?(\w+)", word)
    if m and m.group(1) in _BASE:
        return ("idx", 8 + _BASE[m.group(1)])
    if re.fullmatch(r"[0-9]+", word) and int(word) <= 255:
        return ("idx", int(word))
    m = re.fullmatch(r"#([0-9a-f]{2})([0-9a-f]{2})([0-9a-f]{2})", word)
    if m:
        return ("rgb",) + tuple(int(x, 16) for x in m.groups())
    raise ValueError(word)


def oracle_parse(s):
    """Independent reading: dict(attrs=set of terminal attribute names, omit, raw, colors=[…])
    or the string 'error' (more than two colours / unknown word / syntax as background)."""
    attrs, colors, omit, raw = set(), [], False, False
    for w in s.lower().split():
        w = w.strip("\"'")
        if w in _ATTR_MEANING:
            attrs.add(_ATTR_MEANING[w])
        elif w == "omit":
            omit = True
        elif w == "raw":
            raw = True
        else:
            try:
                colors.append(oracle_color(w))
            except ValueError:
                return "error"
    if len(colors) > 2 or (len(colors) == 2 and colors[1] == "syntax"):
        return "error"
    return dict(attrs=attrs, omit=omit, raw=raw, colors=colors)


# xterm 256-colour palette (16..255), for the sanity bound on the trusted quantisation
def palette_rgb(n):
    if n >= 232:
        v = 8 + 10 * (n - 232)
        return (v, v, v)
    n -= 16
    lv = [0, 95, 135, 175, 215, 255]
    return (lv[n // 36], lv[(n // 6) % 6], lv[n % 6])


# --------------------------------------------------------------------------- generators

def gen_word(rng):
    k = rng.random()
    if k < 0.35:
        return rng.choice(ATTR_WORDS)
    if k < 0.42:
        return rng.choice(SPECIAL)
    if k < 0.55:
        return rng.choice(NAMED)
    if k < 0.68:
        return str(rng.randint(0, 255))
    if k < 0.82:
        return "#%06x" % rng.randrange(1 << 24)
    return rng.choice(["normal", "auto", "syntax"])


def gen_style(rng, maxlen=5):
    return " ".join(gen_word(rng) for _ in range(rng.randint(0, maxlen)))


def mess_case(rng, s):
    out = []
    for w in s.split(" "):
        w = "".join(c.upper() if rng.random() < 0.4 else c for c in w)
        q = rng.random() if w else 1.0
        if q < 0.1:
            w = '"' + w + '"'
        elif q < 0.15:
            w = "'" + w + "'"
        out.append(w)
    sep = rng.choice([" ", "  ", "\t", " \t "])
    return sep.join(out)


def gen_malformed(rng):
    pool = ["", "+5", "007", "256", "-1", "1e2", "#abc", "#aabbccdd", "#01000000", "#ff000001",
            "#gg0000", "#aabbc", "#", "''", '"', "bolder", "underline", "box", "ol", "overline",
            "line-number", "file", "omit-code-fragment", "aliceblue", "rebeccapurple", "navy",
            "bright-navy", "default", "none", "plain", "brightblack", "bright-white", "0", "255"]
    return " ".join(rng.choice(pool + ATTR_WORDS + ["red", "auto", "syntax"])
                    for _ in range(rng.randint(1, 3)))


# --------------------------------------------------------------------------- helpers

def canon_fatal(resp):
    """Hook `DIED 2 <stderr>` -> the model's FATAL line."""
    if not resp.startswith("DIED "):
        return resp
    parts = resp.split(" ")
    msg = unhx(parts[2]).decode("utf-8", "replace") if len(parts) > 2 else ""
    if parts[1] != "2":
        return resp
    m = re.search(r"Invalid color or style attribute: (.*)\n", msg)
    if m:
        return "FATAL invalid-color " + hx(m.group(1))
    if "as a background color" in msg:
        return "FATAL syntax-as-background"
    if "Invalid style string" in msg:
        return "FATAL too-many-colors"
    if "'raw' may not be used in a decoration style" in msg:
        return "FATAL raw-in-decoration"
    if "'syntax' may not be used in a decoration style" in msg:
        return "FATAL syntax-in-decoration"
    return resp


_ALIAS = {"purple": "magenta"}


def canon_display(resp):
    """`ok x<hex>`: replace ANSI-16 aliases (the printed one depends on hash-map order)."""
    if not resp.startswith("ok x"):
        return resp
    ws = []
    for w in unhx(resp[3:]).decode().split(" "):
        w2 = w.replace("bright-", "bright")
        base = w2[6:] if w2.startswith("bright") else w2
        if base in _ALIAS:
            w2 = w2.replace(base, _ALIAS[base])
        ws.append(w2 if (w2 in NAMED or w2.replace("magenta", "purple") in NAMED) else w)
    return "ok " + " ".join(ws)


def ask_hook_chunked(ctx, reqs, chunk=300):
    """Hook answers; fatal requests kill the process, so spread over parallel processes."""
    chunks = [reqs[i:i + chunk] for i in range(0, len(reqs), chunk)]
    outs = parallel_map(lambda c: ctx.hook().ask(c), chunks)
    return [x for o in outs for x in o]


class Oracle256:
    """ansi_colours::ansi256_from_rgb, asked from the implementation and cached."""

    def __init__(self, ctx):
        self.ctx, self.t = ctx, {}

    def ensure(self, triples):
        todo = sorted(set(triples) - set(self.t))
        if todo:
            res = self.ctx.hook().ask(["style.ansi256 %d %d %d" % t for t in todo])
            for t, r in zip(todo, res):
                self.t[t] = int(r.split()[1])

    def field(self, triples):
        if not triples:
            return "-"
        return ";".join("%d,%d,%d:%d" % (t + (self.t[t],)) for t in triples)


def needs_of(mdl, strings):
    """The rgb triples the model will ask the oracle for, per style string."""
    res = mdl.ask(["style.needs " + hx(s) for s in strings])
    out = []
    for r in res:
        ts = []
        if r.startswith("ok"):
            for f in r.split()[1:]:
                ts.append(tuple(int(x) for x in f.split(",")))
        out.append(ts)
    return out


# --------------------------------------------------------------------------- correspondence

DEFAULTS = ["-", "b3:f52:00000000/0101", "r1,2,3:-:00000000/0010"]


def corr_parse(ctx, rep, mdl, orc):
    rng = ctx.rng
    cases = []          # (kind, default, tc, s, deco)
    # (a) exhaustive: <= 3 tokens over the 14-word vocabulary, two configurations
    ex = [""]
    for n in (1, 2, 3):
        ex += [" ".join(t) for t in itertools.product(VOCAB14, repeat=n)]
    if ctx.quick():
        for s in ex:
            cases.append(("plain", "-", 1, s, "-"))
        for s in ex:
            if len(s.split()) <= 2 or rng.random() < 0.35:
                cases.append(("plain", DEFAULTS[1], 0, s, "-"))
        rep.exhaustive = dict(vocabulary=VOCAB14, max_tokens=3, strings=len(ex),
                              configurations="default none / 24-bit: all; default fg+bg+omit+syntax / 256 colours: all <=2 tokens + 35% of 3-token strings")
    else:
        ex4 = ex + [" ".join(t) for t in itertools.product(VOCAB14, repeat=4)]
        for s in ex4:
            cases.append(("plain", "-", 1, s, "-"))
        for s in ex:
            cases.append(("plain", DEFAULTS[1], 0, s, "-"))
            cases.append(("plain", DEFAULTS[2], 1, s, "-"))
        rep.exhaustive = dict(vocabulary=VOCAB14, max_tokens=4, strings=len(ex4))
    # (b) every palette number, as foreground and as background, both depths
    for n in range(256):
        cases.append(("plain", "-", n % 2, str(n), "-"))
        cases.append(("plain", "-", (n + 1) % 2, "normal %d" % n, "-"))
    # (c) random #rrggbb, both depths
    for _ in range(ctx.n(150, 10000)):
        c = "#%06x" % rng.randrange(1 << 24)
        cases.append(("plain", "-", 1, c, "-"))
        cases.append(("plain", "-", 0, "bold %s %s" % (c, "#%06x" % rng.randrange(1 << 24)), "-"))
    # (d) random strings of the full grammar, mixed case / quotes / separators, all defaults
    for _ in range(ctx.n(500, 20000)):
        s = mess_case(rng, gen_style(rng))
        cases.append(("plain", rng.choice(DEFAULTS), rng.randint(0, 1), s, "-"))
    # (e) malformed / boundary words
    for _ in range(ctx.n(250, 5000)):
        cases.append(("plain", rng.choice(DEFAULTS), rng.randint(0, 1), gen_malformed(rng), "-"))
    # (f) decoration handling
    dw = ["box", "ul", "ol", "underline", "overline", "none", "plain", "red", "bold", "blue", "omit",
          "raw", "syntax", "17", "auto"]
    for _ in range(ctx.n(300, 5000)):
        s = " ".join(rng.choice(dw) for _ in range(rng.randint(0, 4)))
        d = " ".join(rng.choice(dw) for _ in range(rng.randint(0, 3)))
        kind = rng.choice(["special", "plain", "deco"])
        cases.append((kind, "-", rng.randint(0, 1), s, d if kind != "deco" else "-"))

    needs = needs_of(mdl, [c[3] for c in cases])
    needs_d = needs_of(mdl, [c[4] if c[4] != "-" else "" for c in cases])
    orc.ensure([t for ts in needs + needs_d for t in ts])
    hreq, mreq = [], []
    for (kind, d, tc, s, deco), ts, td in zip(cases, needs, needs_d):
        df = "-" if deco == "-" else hx(deco)
        hreq.append("style.parse %s %s %d %s %s" % (kind, d, tc, hx(s), df))
        mreq.append("style.parse %s %s %d %s %s %s" % (kind, d, tc, hx(s), df, orc.field(ts + td)))
    impl = [canon_fatal(r) for r in ask_hook_chunked(ctx, hreq)]
    model = mdl.ask(mreq)
    for c, i, m in zip(cases, impl, model):
        kind, d, tc, s, deco = c
        words = s.lower().split()
        rep.case(key=("parse",) + c, nontrivial=len(words) >= 1,
                 sample=dict(op="style.parse", kind=kind, default=d, true_color=tc, style=s, deco=deco, impl=i))
        rep.count("parse:" + ("fatal" if i.startswith("FATAL") else "ok" if i.startswith("ok") else "other"))
        rep.count("parse:tokens=%d" % min(len(words), 6))
        rep.corr_case("style.parse", i == m, dict(kind=kind, default=d, true_color=tc, style=s, deco=deco, impl=i, model=m))
        # direct oracle on the hook result: independent reading of the string
        if kind == "plain" and deco == "-":
            check_parse_against_oracle(rep, c, i, orc)
    return cases, impl


def dump_to_term(col, tc, orc):
    """Colour field of a hook dump -> terminal colour."""
    if col == "-":
        return None
    if col[0] in "bf":
        return ("idx", int(col[1:]))
    return ("rgb",) + tuple(int(x) for x in col[1:].split(","))


def check_parse_against_oracle(rep, case, impl, orc):
    kind, d, tc, s, deco = case
    want = oracle_parse(s)
    if want == "error":
        # strings outside the independent grammar are not judged (delta accepts more words:
        # CSS names, underline, hunk-header words, #rgb, #rrggbbaa, +5 …)
        in_grammar = all(w.strip("\"'") in VOCAB14 + ATTR_WORDS + NAMED + SPECIAL or
                         re.fullmatch(r"[0-9]{1,3}|#[0-9a-f]{6}", w.strip("\"'")) for w in s.lower().split())
        if in_grammar and not impl.startswith("FATAL"):
            _viol(rep, "parse:accepts-invalid-style", "a style string with a third colour / syntax as background is accepted",
                          dict(op="style.parse", case=case, got=impl))
        return
    if not impl.startswith("ok "):
        _viol(rep, "parse:rejects-valid-style", "a style string of the grammar is rejected",
                      dict(op="style.parse", case=case, got=impl))
        return
    ansi, flags, _ = impl[3:].split(" ")
    fg, bg, attrs = ansi.split(":")
    names = ["bold", "faint", "italic", "underline", "blink", "inverse", "conceal", "crossed"]
    got_attrs = {n for n, b in zip(names, attrs) if b == "1"}
    dflt = None if d == "-" else d
    dfg = dbg = None
    dflags = "0000"
    if dflt:
        a, dflags = dflt.split("/")
        dfg, dbg = [dump_to_term(x, tc, orc) for x in a.split(":")[:2]]
    cols = want["colors"] + [None] * (2 - len(want["colors"]))
    exp_syntax = False
    exp = []
    for k, c in enumerate(cols[:2]):
        if c == "auto":
            exp.append(dfg if k == 0 else dbg)
            if k == 0:
                exp_syntax = dflags[3] == "1"
        elif c == "syntax":
            exp.append(None)
            exp_syntax = True
        elif c is not None and c[0] == "rgb" and not tc:
            exp.append(("idx", orc.t.get(c[1:], -1)))
        else:
            exp.append(c)
    got = [dump_to_term(fg, tc, orc), dump_to_term(bg, tc, orc)]
    both_auto = len(want["colors"]) == 2 and want["colors"][0] == "auto" and want["colors"][1] == "auto"
    exp_omit = want["omit"] or (both_auto and dflags[1] == "1")
    exp_raw = want["raw"] or (both_auto and dflags[2] == "1")
    ok = (got == exp and got_attrs == want["attrs"] and flags[1] == "01"[exp_omit]
          and flags[2] == "01"[exp_raw] and flags[3] == "01"[exp_syntax])
    if not ok:
        _viol(rep, "parse:meaning-differs", "Style::from_str disagrees with the independent reading of the style string",
                      dict(op="style.parse", case=case, got=impl,
                           expected=dict(fg=exp[0], bg=exp[1], attrs=sorted(want["attrs"]), omit=exp_omit, raw=exp_raw, syntax=exp_syntax)))


def corr_color(ctx, rep, mdl, orc):
    words = list(NAMED) + [str(n) for n in range(0, 256, 7)] + \
        ["normal", "", "+5", "007", "256", "300", "-1", "#abc", "#aabbccdd", "#01000000", "#07000000",
         "#08000000", "#ff000001", "#123", "#12345", "#1234567", "#gggggg", "aliceblue", "rebeccapurple",
         "navy", "tomato", "default", "brightnavy", "٣"]
    css = []
    m = mdl.ask(["style.needs " + hx(" ".join(["aliceblue"]))])
    # all CSS names known to the model's generated table are exercised through `parse` (d)/(e);
    # here a fixed sample plus boundary spellings
    cases = [(tc, w) for w in words for tc in (0, 1)]
    needs = needs_of(mdl, [w for _, w in cases])
    orc.ensure([t for ts in needs for t in ts])
    hreq = ["style.color %d %s" % (tc, hx(w)) for tc, w in cases]
    mreq = ["style.color %d %s %s" % (tc, hx(w), orc.field(ts)) for (tc, w), ts in zip(cases, needs)]
    impl = [canon_fatal(r) for r in ask_hook_chunked(ctx, hreq, chunk=40)]
    model = mdl.ask(mreq)
    for c, i, mm in zip(cases, impl, model):
        rep.case(key=("color",) + c, nontrivial=True)
        rep.corr_case("style.color", i == mm, dict(true_color=c[0], word=c[1], impl=i, model=mm))


def random_ansi(rng, image_only=True):
    def col():
        k = rng.random()
        if k < 0.3:
            return "-"
        if k < 0.5:
            return "b%d" % rng.randint(0, 7)
        if k < 0.8:
            return "f%d" % rng.randint(8 if image_only else 0, 255)
        return "r%d,%d,%d" % (rng.randint(0, 255), rng.randint(0, 255), rng.randint(0, 255))
    return "%s:%s:%s" % (col(), col(), "".join(rng.choice("01") if rng.random() < 0.5 else "0" for _ in range(8)))


def display_property_oracle(ctx, rep, cases, parsed):
    """On the implementation alone: for every style that `Style::from_str` (no default) returned,
    `parse(display(style))` renders the same — equal ansi style and omit / syntax flags; for a `raw` style only
    `raw` must survive (contract: a raw style emits the input's own escape sequences and no site paints with its
    colours or attributes, so `Display` deliberately prints just `raw`)."""
    seen, todo = set(), []
    for c, r in zip(cases, parsed):
        kind, d, tc, s, deco = c
        if kind != "plain" or d != "-" or deco != "-" or not r.startswith("ok "):
            continue
        f = r.split(" ")
        if len(f) != 4 or (f[1], f[2]) in seen:
            continue
        seen.add((f[1], f[2]))
        todo.append((s, tc, f[1], f[2]))
    # make sure omit / raw / hidden combined with colours and attributes are present
    extra = ["omit bold 220 22", "ul omit 45", "omit", "raw red", "raw bold 17 #aabbcc", "hidden red", "omit hidden italic 3 4",
             "omit syntax 22", "omit normal"]
    res = ctx.hook().ask(["style.parse plain - 1 %s -" % hx(x) for x in extra])
    for x, r in zip(extra, res):
        if r.startswith("ok "):
            f = r.split(" ")
            todo.append((x, 1, f[1], f[2]))
    disp = ctx.hook().ask(["style.display %s %s none" % (a, fl) for _, _, a, fl in todo])
    req, keep = [], []
    for (s, tc, a, fl), d in zip(todo, disp):
        if not d.startswith("ok x"):
            _viol(rep, "display:panics-or-fails", "Display for Style fails on a parsed style", dict(style=s, dump=a + " " + fl, got=d))
            continue
        tc2 = 1 if (",") in a else tc
        req.append("style.parse plain - %d %s -" % (tc2, d[3:]))
        keep.append((s, tc2, a, fl, unhx(d[3:]).decode("utf-8", "replace")))
    back = [canon_fatal(r) for r in ask_hook_chunked(ctx, req)]
    for (s, tc, a, fl, shown), b in zip(keep, back):
        rep.case(key=("display-property", a, fl), nontrivial=a != "-:-:00000000" or fl != "0000",
                 sample=dict(op="display-property", style=s, reported=shown, reparsed=b))
        rep.count("display-property:" + ("raw" if fl[2] == "1" else "omit" if fl[1] == "1" else "plain"))
        ok = b.startswith("ok ")
        if ok:
            f = b.split(" ")
            if fl[2] == "1":
                ok = f[2][2] == "1"
            else:
                ok = f[1] == a and f[2][1:] == fl[1:]
        if not ok:
            lost = ""
            if b.startswith("ok "):
                fa = b.split(" ")[1].split(":")
                oa = a.split(":")
                names = ["bold", "dim", "italic", "ul", "blink", "reverse", "hidden", "strike"]
                l = [n for n, x, y in zip(names, oa[2], fa[2]) if x == "1" and y == "0"]
                if oa[0] != fa[0]:
                    l.append("fg")
                if oa[1] != fa[1]:
                    l.append("bg")
                lost = ",".join(l)
            _viol(rep, "display:round-trip-differs:" + (lost + "-lost" if lost else "other"),
                  "Style::from_str(Display(style)) does not render like the style (hook level, implementation only)",
                  dict(kind="display-property", style=s, true_color=tc, parsed=a + " " + fl, reported=shown, reparsed=b))


def corr_display_paint(ctx, rep, mdl, parsed):
    rng = ctx.rng
    styles = []
    for r in parsed:
        if r.startswith("ok ") and len(r.split(" ")) == 4:
            styles.append(tuple(r.split(" ")[1:]))
    styles = sorted(set(styles))
    rng.shuffle(styles)
    styles = styles[:ctx.n(600, 6000)]
    for _ in range(ctx.n(200, 3000)):
        fl = "".join(rng.choice("01") if rng.random() < 0.3 else "0" for _ in range(4))
        styles.append((random_ansi(rng), fl, "none"))
    req = ["style.display %s %s %s" % s for s in styles]
    impl = [canon_display(r) for r in ctx.hook().ask(req)]
    model = [canon_display(r) for r in mdl.ask(req)]
    for s, i, m in zip(styles, impl, model):
        rep.case(key=("display",) + s, nontrivial=s[0] != "-:-:00000000")
        rep.corr_case("style.display", i == m, dict(style=s, impl=i, model=m))
    texts = ["x", "hello world", "", "日本語 é", "a\tb", "tab\there"]
    req = []
    for _ in range(ctx.n(300, 5000)):
        req.append("style.paint %s %s" % (random_ansi(rng, image_only=False), hx(rng.choice(texts))))
    impl = ctx.hook().ask(req)
    model = mdl.ask(req)
    for q, i, m in zip(req, impl, model):
        rep.case(key=("paint", q), nontrivial=True)
        rep.corr_case("style.paint", i == m, dict(request=q, impl=i, model=m))
        # direct oracle: decoded cells carry exactly the dumped style, line ends in default state
        if i.startswith("ok "):
            a = q.split(" ")[1]
            dec = T.decode(unhx(i[3:]))
            fg, bg, attrs = a.split(":")
            names = ["bold", "faint", "italic", "underline", "blink", "inverse", "conceal", "crossed"]
            want = (dump_to_term(fg, 1, None), dump_to_term(bg, 1, None), frozenset(n for n, b in zip(names, attrs) if b == "1"))
            bad = [c for r in dec.rows for c in r.cells if c.style() != want or c.link is not None]
            if bad or not dec.final.is_default() or dec.problems:
                _viol(rep, "paint:cells-differ-from-style", "Style::paint output does not carry exactly the style",
                              dict(request=q, got=i, bad=repr(bad[:3]), final=dec.final.describe()))


# style-typed options and how parse_styles.rs builds them: (kind, has a default (auto) colour pair)
STYLE_OPTIONS = {
    "minus-style": ("plain", True), "minus-emph-style": ("plain", True),
    "minus-non-emph-style": ("plain", False), "minus-empty-line-marker-style": ("plain", True),
    "zero-style": ("plain", False), "plus-style": ("plain", True), "plus-emph-style": ("plain", True),
    "plus-non-emph-style": ("plain", False), "plus-empty-line-marker-style": ("plain", True),
    "whitespace-error-style": ("plain", False),
    "commit-style": ("special", False), "file-style": ("special", False),
    "hunk-header-style": ("special", False), "hunk-header-file-style": ("special", False),
    "hunk-header-line-number-style": ("special", False),
    "line-numbers-minus-style": ("plain", False), "line-numbers-plus-style": ("plain", False),
    "line-numbers-zero-style": ("plain", False), "line-numbers-left-style": ("plain", False),
    "line-numbers-right-style": ("plain", False),
    "grep-file-style": ("plain", False), "grep-line-number-style": ("plain", False),
    "inline-hint-style": ("plain", False),
}
DECO_OPTION = {"commit-style": "commit-decoration-style", "file-style": "file-decoration-style",
               "hunk-header-style": "hunk-header-decoration-style"}


def corr_config(ctx, rep, mdl, orc):
    """Whole-Config path: `--<option> <style>` through clap, parse_styles and Config::from."""
    rng = ctx.rng
    jobs = []
    for opt in sorted(STYLE_OPTIONS):
        for _ in range(ctx.n(6, 60)):
            s = mess_case(rng, gen_style(rng, 4))
            if oracle_parse(s) == "error" or s.strip().endswith("-style") and " " not in s.strip():
                continue
            jobs.append((opt, s, rng.choice(["always", "never"])))
        # every option, both depths, the four kinds of colour word (deterministic)
        for tcs in ("always", "never"):
            jobs.append((opt, "#123456 rebeccapurple", tcs))
            jobs.append((opt, "bright-blue 201", tcs))

    def one(job):
        opt, s, tc = job
        base = [hx("--true-color=" + tc)]
        h = ctx.hook()
        r = h.ask(["cfg " + " ".join(base), "style.config_style " + opt,
                   "cfg " + " ".join(base + [hx("--%s=%s" % (opt, s))]), "style.config_style " + opt], sticky=[0, 2])
        return r
    res = parallel_map(one, jobs)
    strings = [j[1] for j in jobs]
    needs = needs_of(mdl, strings)
    orc.ensure([t for ts in needs for t in ts])
    mreq, keep = [], []
    for (opt, s, tc), r, ts in zip(jobs, res, needs):
        kind, has_default = STYLE_OPTIONS[opt]
        if not (r[1].startswith("ok ") and r[3].startswith("ok ")):
            rep.corr_case("style.config_style", False, dict(option=opt, style=s, impl=r))
            continue
        base = r[1].split(" ")
        d = "-"
        if has_default:
            # the default the option is parsed against = Style::from_colors(None, Some(default bg)):
            # visible as the background of the option's own default value (`… auto`)
            d = "-:%s:00000000/0000" % base[1].split(":")[1]
        deco = "-"
        if opt in DECO_OPTION:
            dd = base[3]
            # decoration string of the default config, re-expressed from its dump is not needed:
            # ask the model with the documented default decoration strings
            deco = {"commit-style": "", "file-style": "blue ul", "hunk-header-style": "blue box"}[opt]
        mreq.append("style.parse %s %s %d %s %s %s" % (kind, d, 1 if tc == "always" else 0, hx(s),
                                                     "-" if deco == "-" else hx(deco), orc.field(ts)))
        keep.append(((opt, s, tc), r[3]))
    model = mdl.ask(mreq)
    for ((opt, s, tc), i), m in zip(keep, model):
        got = " ".join(i.split(" ")[:4])
        # is_emph is set after parsing for the two emph styles
        if opt in ("minus-emph-style", "plus-emph-style") and m.startswith("ok "):
            f = m.split(" ")
            f[2] = "1" + f[2][1:]
            m = " ".join(f)
        rep.case(key=("config", opt, s, tc), nontrivial=bool(s.strip()))
        rep.count("config:" + opt)
        rep.corr_case("style.config_style", got == m, dict(option=opt, style=s, true_color=tc, impl=got, model=m))


# --------------------------------------------------------------------------- binary oracle

DIFF = b"""commit 1111111111111111111111111111111111111111
Author: A U Thor <a@example.com>
Date:   Thu Jan 1 00:00:00 1970 +0000

    msgq

diff --git a/fileq.zzz b/fileq.zzz
index 1111111..2222222 100644
--- a/fileq.zzz
+++ b/fileq.zzz
@@ -1,2 +1,1 @@ fragq
 zeroq
-minusq
@@ -10,1 +9,2 @@ fragr
 zeror
+plusq
@@ -20,3 +20,3 @@ frags
 zeros
-alpha betaq gamma
+alpha deltaq gamma
@@ -30,1 +30,2 @@ fragt
 zerot
+trailq\x20\x20
"""

# option -> (needle text, extra args needed to make it visible)
PAINTED = {
    "minus-style": "minusq",
    "plus-style": "plusq",
    "zero-style": "zeroq",
    "minus-emph-style": "betaq",
    "plus-emph-style": "deltaq",
    "commit-style": "commit 1111111111111111111111111111111111111111",
    "file-style": "fileq.zzz",
    "hunk-header-style": "fragq",
    "hunk-header-file-style": "fileq.zzz",          # inside the hunk header (needs `file`)
    "hunk-header-line-number-style": "20",          # needs `line-number`
    "line-numbers-minus-style": "M21m",
    "line-numbers-plus-style": "P10p",
    "line-numbers-zero-style": "M1m",
    "line-numbers-left-style": "L",
    "line-numbers-right-style": "R",
    "whitespace-error-style": "  ",
}
BASE_ARGS = ["--no-gitconfig", "--syntax-theme=none", "--paging=never", "--width=60",
             "--line-numbers", "--line-numbers-left-format=L M{nm}m ", "--line-numbers-right-format=R P{np}p ",
             "--file-decoration-style=none", "--hunk-header-decoration-style=none",
             "--commit-decoration-style=none", "--line-fill-method=spaces"]


def find_cells(dec, opt):
    """The cells of the text painted with `opt`'s style, or None if the element is absent."""
    needle = PAINTED[opt]
    for r in dec.rows:
        t = r.text()
        if opt == "file-style":
            if t.startswith("fileq.zzz") and ":" not in t:
                return r.cells[:len(needle)]
            continue
        if opt in ("hunk-header-file-style", "hunk-header-line-number-style", "hunk-header-style"):
            if "frags" not in t and opt != "hunk-header-style":
                continue
            if opt == "hunk-header-style":
                k = t.find("fragq")
                if k >= 0 and "zeroq" not in t:
                    return r.cells[k:k + 5]
                continue
            k = t.find(needle)
            if k >= 0:
                return r.cells[k:k + len(needle)]
            continue
        if opt == "whitespace-error-style":
            k = t.find("trailq")
            if k >= 0:
                return r.cells[k + 6:k + 8]
            continue
        if opt == "line-numbers-left-style":
            if "minusq" in t:
                return [r.cells[t.find("L")]]
            continue
        if opt == "line-numbers-right-style":
            if "plusq" in t:
                return [r.cells[t.find("R")]]
            continue
        if opt == "line-numbers-zero-style":
            if "zeroq" in t and "fragq" not in t:
                k = t.find("M1m")
                return r.cells[k + 1:k + 2] if k >= 0 else None
            continue
        if opt == "line-numbers-minus-style":
            if "betaq" in t:
                k = t.find("M21m")
                return r.cells[k + 1:k + 3] if k >= 0 else None
            continue
        if opt == "line-numbers-plus-style":
            if "plusq" in t:
                k = t.find("P10p")
                return r.cells[k + 1:k + 3] if k >= 0 else None
            continue
        if opt == "commit-style":
            if t.startswith(needle):
                return r.cells[:len(needle)]
            continue
        k = t.find(needle)
        if k >= 0 and (opt != "zero-style" or "fragq" not in t):
            return r.cells[k:k + len(needle)]
    return None


def expected_style(s, tc, baseline, opt):
    """(fg, bg, attrs) the painted text must carry, from the independent reading; None = not judged."""
    want = oracle_parse(s)
    if want == "error" or want["raw"] or want["omit"]:
        return None
    cols = want["colors"] + [None] * (2 - len(want["colors"]))
    out = []
    for k, c in enumerate(cols[:2]):
        if c == "auto":
            # `auto` = the option's automatic (theme-dependent) background where delta has one
            # (minus/plus/emph/empty-line-marker styles: visible in the default rendering),
            # otherwise no colour
            has_default = STYLE_OPTIONS.get(opt, ("plain", False))[1]
            out.append(baseline[opt][k] if (has_default and k == 1) else None)
        elif c == "syntax":
            out.append(None)
        elif c is not None and c[0] == "rgb" and not tc:
            out.append(("quantised", c[1:]))
        else:
            out.append(c)
    return (out[0], out[1], frozenset(want["attrs"]))


def style_matches(cell, exp):
    for got, want in ((cell.fg, exp[0]), (cell.bg, exp[1])):
        if isinstance(want, tuple) and want and want[0] == "quantised":
            if not (got and got[0] == "idx" and 16 <= got[1] <= 255):
                return False
            pr = palette_rgb(got[1])
            # the quantisation (ansi_colours, perceptual distance) is trusted; this is only a sanity bound:
            # the dark end of the 6x6x6 cube has steps of 95, so a channel may legitimately be far off
            if max(abs(a - b) for a, b in zip(pr, want[1])) > 100:
                return False
            if want[1] in [palette_rgb(n) for n in range(16, 256)] and pr != want[1]:
                return False
        elif got != want:
            return False
    return cell.attrs == exp[2] and cell.link is None


def binary_oracle(ctx, rep):
    rng = ctx.rng
    opts = sorted(PAINTED)
    hh_extra = " file line-number"

    def args_for(assign, tc):
        a = list(BASE_ARGS) + ["--true-color=" + ("always" if tc else "never")]
        hh = assign.get("hunk-header-style")
        for o, s in assign.items():
            if o == "hunk-header-style":
                continue
            a.append("--%s=%s" % (o, s))
        a.append("--hunk-header-style=%s" % ((hh if hh is not None else "normal") + hh_extra))
        return a

    # baseline: what `auto` means for each option = the rendering with the option at its default
    baseline = {}
    for tc in (0, 1):
        rc, out, err = ctx.run_delta(args_for({}, tc), DIFF)
        dec = T.decode(out)
        b = {}
        for o in opts:
            cells = find_cells(dec, o)
            b[o] = (cells[0].fg, cells[0].bg) if cells else (None, None)
            if o in ("minus-style", "plus-style", "minus-emph-style", "plus-emph-style") and cells is None:
                _viol(rep, "binary:baseline-element-missing", "expected element not found in default rendering",
                              dict(option=o, stdout=out.decode("utf-8", "replace")[:2000]))
        baseline[tc] = b

    jobs = []
    nrun = ctx.n(320, 3000)
    for k in range(nrun):
        tc = k % 2
        assign = {}
        for o in opts:
            if rng.random() < 0.6:
                while True:
                    s = gen_style(rng, 4)
                    w = oracle_parse(s)
                    if w != "error" and not w["raw"] and not w["omit"]:
                        break
                if o == "commit-style" and not s.strip():
                    s = "normal"
                if rng.random() < 0.3:
                    s = mess_case(rng, s)
                assign[o] = s
        jobs.append((assign, tc))
    # single-option runs over the small vocabulary (<= 2 tokens), each option in turn
    small = [""] + VOCAB14 + [" ".join(t) for t in itertools.product(VOCAB14, repeat=2)]
    small = [s for s in small if oracle_parse(s) != "error" and not oracle_parse(s)["raw"] and not oracle_parse(s)["omit"]]
    rng.shuffle(small)
    for k, s in enumerate(small[:ctx.n(128, len(small))]):
        jobs.append(({opts[k % len(opts)]: s}, k % 2))

    def run(job):
        assign, tc = job
        return ctx.run_delta(args_for(assign, tc), DIFF)
    results = parallel_map(run, jobs)
    for (assign, tc), (rc, out, err) in zip(jobs, results):
        replay = dict(kind="binary", args=args_for(assign, tc), stdin="DIFF", true_color=tc)
        rep.case(key=("binary", tuple(sorted(assign.items())), tc), nontrivial=bool(assign),
                 sample=dict(op="binary", assign=assign, true_color=tc, rc=rc))
        if rc != 0:
            _viol(rep, "binary:valid-style-rejected", "delta failed on style strings of the grammar",
                          dict(replay, rc=rc, stderr=err.decode("utf-8", "replace")[-400:]))
            continue
        dec = T.decode(out)
        for o, s in assign.items():
            rep.count("binary:" + o)
            exp = expected_style(s, tc, baseline[tc], o)
            if exp is None:
                continue
            if o == "commit-style" and not s.strip():
                continue
            cells = find_cells(dec, o)
            if not cells:
                _viol(rep, "binary:element-missing:" + o, "painted element not found in the output",
                              dict(replay, option=o, style=s))
                continue
            bad = [c for c in cells if not style_matches(c, exp)]
            if bad:
                _viol(rep, "binary:painted-style-differs:" + o,
                              "text painted with the option does not carry exactly the colours/attributes of the style string",
                              dict(replay, option=o, style=s, expected=T.style_key(*[e if not (isinstance(e, tuple) and e and e[0] == "quantised") else ("rgb",) + e[1] for e in exp[:2]], exp[2]),
                                   got=[T.style_key(c.fg, c.bg, c.attrs) for c in bad[:3]]))

    # a third colour / syntax as background is the fatal error (exit 2)
    bad_styles = ["red green blue", "1 2 3", "red syntax", "normal auto #aabbcc", "bold red ul green blink blue"]
    for s in bad_styles:
        for o in ("minus-style", "file-style", "line-numbers-zero-style"):
            rc, out, err = ctx.run_delta(BASE_ARGS + ["--%s=%s" % (o, s)], DIFF)
            rep.case(key=("binary-fatal", o, s), nontrivial=True)
            if rc != 2 or out:
                _viol(rep, "binary:invalid-style-accepted", "a style with three colours / syntax background is not the fatal error",
                              dict(args=BASE_ARGS + ["--%s=%s" % (o, s)], rc=rc))
    return baseline


SHOWCFG_OPTS = ["minus-style", "plus-style", "zero-style", "minus-emph-style", "plus-emph-style",
                "commit-style", "file-style", "hunk-header-style", "line-numbers-minus-style",
                "line-numbers-plus-style", "line-numbers-zero-style", "line-numbers-left-style",
                "line-numbers-right-style", "whitespace-error-style"]


def show_config_value(out, opt):
    dec = T.decode(out)
    for r in dec.rows:
        t = r.text()
        m = re.match(r"\s*%s\s+= (.*)$" % re.escape(opt), t)
        if m:
            return m.group(1)
    return None


RAW_HONOURED = ("minus-style", "plus-style", "zero-style", "commit-style", "file-style", "hunk-header-style")


def show_config_round_trip(ctx, rep):
    """`--show-config` value supplied again as the option value renders identically."""
    rng = ctx.rng
    jobs = []
    for o in SHOWCFG_OPTS:
        # every single attribute once (this is where a word missing from Display shows), then random
        pool = [a + " red" for a in ATTR_WORDS] + [a for a in ATTR_WORDS]
        rng.shuffle(pool)
        n_attr = ctx.n(4, len(pool))
        cand = pool[:n_attr] + [gen_style(rng, 4) for _ in range(ctx.n(8, 60))]
        if o == SHOWCFG_OPTS[0]:
            cand = [a + " red" for a in ATTR_WORDS] + cand
        # `omit` suppresses only the commit / file / hunk-header element (and not under --color-only); everywhere
        # else the text is still painted with the rest of the style, so the reported value must keep it.
        # `raw` emits the input's own sequences: the reported value is just `raw` and must render the same.
        if o not in ("commit-style", "file-style", "hunk-header-style"):
            cand = ["omit bold 220 22", "ul omit 45", "omit " + gen_style(rng, 3)] + cand
            if o in ("minus-style", "plus-style", "zero-style"):
                cand = ["raw", "raw bold 17 52"] + cand
        for s in cand:
            w = oracle_parse(s)
            if w == "error":
                continue
            if w["omit"] and o in ("commit-style", "file-style", "hunk-header-style"):
                continue
            # contract for `raw`: the element is emitted with the input's own sequences and the rest of the string
            # is not used, so `raw` alone is the faithful report — in the options that honour `raw` (hunk lines and
            # the commit / file / hunk-header text). Options that ignore the flag (emph, line-number, … styles)
            # still paint the colours, and there `raw <colours>` is reported as `raw` only: observed, documented in
            # notes/C12.md, outside the round-trip contract (no sensible meaning of `raw` there).
            if w["raw"] and o not in RAW_HONOURED:
                continue
            if o == "commit-style" and not s.strip():
                continue
            jobs.append((o, s, rng.randint(0, 1)))

    def args(o, s, tc):
        a = list(BASE_ARGS) + ["--true-color=" + ("always" if tc else "never")]
        if o == "hunk-header-style":
            a.append("--hunk-header-style=" + s)
        else:
            a += ["--hunk-header-style=normal file line-number", "--%s=%s" % (o, s)]
        return a

    def run(job):
        o, s, tc = job
        a = args(o, s, tc)
        rc1, cfg, _ = ctx.run_delta(a + ["--show-config"], b"")
        v = show_config_value(cfg, o) if rc1 == 0 else None
        if v is None:
            return (rc1, None, None, None)
        v2 = v[1:-1] if len(v) >= 2 and v[0] == v[-1] == "'" else v
        rc2, out1, _ = ctx.run_delta(a, DIFF)
        rc3, out2, _ = ctx.run_delta(args(o, v2, tc), DIFF)
        return (rc1, v, (rc2, out1), (rc3, out2))
    res = parallel_map(run, jobs)
    for (o, s, tc), (rc1, v, r1, r2) in zip(jobs, res):
        rep.case(key=("show-config", o, s, tc), nontrivial=bool(s.strip()),
                 sample=dict(op="show-config", option=o, style=s, reported=v))
        rep.count("show-config:" + o)
        replay = dict(kind="show-config", option=o, style=s, true_color=tc, reported=v)
        if v is None:
            _viol(rep, "show-config:no-value:" + o, "--show-config does not print the option", replay)
            continue
        if r1[0] != 0 or r2[0] != 0:
            _viol(rep, "show-config:reported-value-rejected:" + o, "the reported value is not accepted as the option value",
                          dict(replay, rc=[r1[0], r2[0]]))
            continue
        d1, d2 = T.decode(r1[1]), T.decode(r2[1])
        same = len(d1.rows) == len(d2.rows) and all(a.runs() == b.runs() and a.erases == b.erases
                                                     for a, b in zip(d1.rows, d2.rows))
        if not same:
            lost = sorted(oracle_parse(s)["attrs"] - (oracle_parse(v)["attrs"] if oracle_parse(v) != "error" else set()))
            sig = "show-config:round-trip-differs:" + (",".join(lost) + "-lost" if lost else "other")
            _viol(rep, sig, "the style reported by --show-config renders differently when supplied again",
                          dict(replay, lost_attributes=lost))


# --------------------------------------------------------------------------- permutation / case oracle

def invariance_oracle(ctx, rep, orc):
    """On the implementation: permuting attribute words / changing case leaves Style::from_str
    unchanged; swapping two different colours changes it."""
    rng = ctx.rng
    reqs, meta = [], []
    for _ in range(ctx.n(200, 4000)):
        attrs = rng.sample(ATTR_WORDS + SPECIAL, rng.randint(1, 4))
        cols = [w for w in (gen_word(rng) for _ in range(6)) if w not in ATTR_WORDS + SPECIAL][:rng.randint(0, 2)]
        if len(cols) == 2 and cols[1] == "syntax":
            cols = cols[:1]
        base = attrs + cols
        # interleave: keep the colour order, shuffle everything else around it
        def interleave():
            a = attrs[:]
            rng.shuffle(a)
            pos = sorted(rng.sample(range(len(a) + len(cols)), len(cols)))
            out, ci, ai = [], 0, 0
            for k in range(len(a) + len(cols)):
                if ci < len(cols) and k == pos[ci]:
                    out.append(cols[ci]); ci += 1
                else:
                    out.append(a[ai]); ai += 1
            return out
        v1, v2 = " ".join(base), mess_case(rng, " ".join(interleave()))
        tc = rng.randint(0, 1)
        d = rng.choice(DEFAULTS)
        for s in (v1, v2):
            reqs.append("style.parse plain %s %d %s -" % (d, tc, hx(s)))
        meta.append(("perm", v1, v2, d, tc))
        if len(cols) == 2 and cols[0] != cols[1] and "syntax" not in cols:
            sw = " ".join(attrs + cols[::-1])
            reqs.append("style.parse plain %s %d %s -" % (d, tc, hx(sw)))
            meta.append(("swap", v1, sw, d, tc))
    res = [canon_fatal(r) for r in ask_hook_chunked(ctx, reqs)]
    k = 0
    for m in meta:
        if m[0] == "perm":
            a, b = res[k], res[k + 1]
            k += 2
            rep.case(key=m, nontrivial=True)
            rep.count("invariance:perm")
            if a != b:
                _viol(rep, "parse:order-or-case-sensitive", "permuting attribute words / changing case changed the parsed style",
                              dict(a=m[1], b=m[2], default=m[3], true_color=m[4], got=[a, b]))
            last = a
        else:
            b = res[k]
            k += 1
            rep.case(key=m, nontrivial=True)
            rep.count("invariance:swap")
            oa, ob = oracle_parse(m[1]), oracle_parse(m[2])
            if last == b and last.startswith("ok") and oa != "error" and \
                    [c for c in oa["colors"]] != [c for c in ob["colors"]] and \
                    not (m[3] == "-" and set(oa["colors"]) <= {None, "auto"}):
                _viol(rep, "parse:colour-order-ignored", "swapping foreground and background did not change the style",
                              dict(a=m[1], b=m[2], got=last))


# --------------------------------------------------------------------------- same meaning in every option

GREP_TXT = b"src/a.rs:12:let matchq = 1;\nsrc/a.rs-13-let ctxq = 2;\n"
RG_JSON = (b'{"type":"begin","data":{"path":{"text":"src/a.rs"}}}\n'
           b'{"type":"match","data":{"path":{"text":"src/a.rs"},"lines":{"text":"fn wordq() {}\\n"},"line_number":12,'
           b'"absolute_offset":0,"submatches":[{"match":{"text":"wordq"},"start":3,"end":8}]}}\n'
           b'{"type":"end","data":{"path":{"text":"src/a.rs"},"binary_offset":null,"stats":{"elapsed":{"secs":0,"nanos":1,'
           b'"human":"0s"},"searches":1,"searches_with_match":1,"bytes_searched":10,"bytes_printed":10,"matched_lines":1,"matches":1}}}\n')
BLAME_TXT = (b"aaaaaaaa (Alice 2020-01-01 10:00:00 +0000   1) codeq one\n"
             b"bbbbbbbb (Bob   2020-01-02 10:00:00 +0000   2) codeq two\n")
MERGE_DIFF = (b"diff --cc f.zzz\nindex 1111111,2222222..0000000\n--- a/f.zzz\n+++ b/f.zzz\n@@@ -1,1 -1,1 +1,5 @@@\n"
              b"++<<<<<<< HEAD\n +oursq\n++=======\n+ theirsq\n++>>>>>>> branch\n")
BOXCH = "─│┐┘━┃┓┛"
DEPTH_COLOURS = ["#123456", "rebeccapurple", "bright-blue", "201"]


def generated_style_options():
    """`cliStyleOptions` and the option-site names of the generated inventory (not a hand-kept list)."""
    src = open(os.path.join(LEAN, "DeltaModel", "Generated", "StyleSites.lean"), encoding="utf-8").read()
    m = re.search(r"def cliStyleOptions : List String :=\s*\[(.*?)\]", src, re.S)
    opts = re.findall(r'"([a-z-]+)"', m.group(1)) if m else []
    sites = re.findall(r'⟨"([a-z-]+)", "option"', src)
    return opts, sites


def _text_cells(needle, skip_rows_with=()):
    def f(dec):
        for r in dec.rows:
            t = r.text()
            k = t.find(needle)
            if k >= 0 and not any(x in t for x in skip_rows_with):
                return r.cells[k:k + len(needle)]
        return None
    return f


def _box_cells(dec):
    cells = [c for r in dec.rows for c in r.cells if c.ch in BOXCH]
    return cells or None


def _box_after(needle):
    def f(dec):
        hit = False
        for r in dec.rows:
            if hit:
                cells = [c for c in r.cells if c.ch in BOXCH]
                return cells or None
            if needle in r.text():
                hit = True
        return None
    return f


# option -> (stdin, env, extra args, finder of the painted cells); None = not reachable cheaply
def painted_observers():
    diff_args = list(BASE_ARGS) + ["--hunk-header-style=normal file line-number"]
    obs = {}
    for o in PAINTED:
        if o == "hunk-header-style":
            continue
        obs[o] = (DIFF, {}, diff_args, (lambda o: lambda dec: find_cells(dec, o))(o))
    obs["hunk-header-style"] = (DIFF, {}, list(BASE_ARGS), lambda dec: find_cells(dec, "hunk-header-style"))
    obs["minus-non-emph-style"] = (DIFF, {}, diff_args, _text_cells("alpha", skip_rows_with=("deltaq",)))
    obs["plus-non-emph-style"] = (DIFF, {}, diff_args, _text_cells("alpha", skip_rows_with=("betaq",)))
    nodeco = [a for a in diff_args if "decoration-style" not in a]
    for o in ("commit-decoration-style", "file-decoration-style", "hunk-header-decoration-style"):
        others = ["--%s=none" % x for x in ("commit-decoration-style", "file-decoration-style", "hunk-header-decoration-style") if x != o]
        obs[o] = (DIFF, {}, nodeco + others + ["--commit-style=normal"], _box_cells)
    g_env = {"DELTA_VERIF_FORCE_GUESS": "git grep -n matchq"}
    g_args = ["--no-gitconfig", "--paging=never", "--syntax-theme=none", "--width=60"]
    obs["grep-file-style"] = (GREP_TXT, g_env, g_args, _text_cells("src/a.rs"))
    obs["grep-line-number-style"] = (GREP_TXT, g_env, g_args, _text_cells("12"))
    obs["grep-match-line-style"] = (GREP_TXT, g_env, g_args, _text_cells("let matchq"))
    obs["grep-context-line-style"] = (GREP_TXT, g_env, g_args, _text_cells("let ctxq"))
    r_env = {"DELTA_VERIF_FORCE_GUESS": "rg wordq"}
    obs["grep-match-word-style"] = (RG_JSON, r_env, g_args, _text_cells("wordq"))
    obs["grep-header-decoration-style"] = (RG_JSON, r_env, g_args, _box_cells)
    b_env = {"DELTA_VERIF_FORCE_GUESS": "git blame src/a.zzz"}
    obs["blame-code-style"] = (BLAME_TXT, b_env, g_args, _text_cells("codeq one"))
    obs["blame-separator-style"] = (BLAME_TXT, b_env, g_args, _text_cells("│"))
    m_args = g_args + ["--file-decoration-style=none", "--hunk-header-decoration-style=none", "--commit-decoration-style=none"]
    obs["merge-conflict-ours-diff-header-style"] = (MERGE_DIFF, {}, m_args + ["--merge-conflict-ours-diff-header-decoration-style=none"], _text_cells("HEAD"))
    obs["merge-conflict-theirs-diff-header-style"] = (MERGE_DIFF, {}, m_args + ["--merge-conflict-theirs-diff-header-decoration-style=none"], _text_cells("branch"))
    obs["merge-conflict-ours-diff-header-decoration-style"] = (MERGE_DIFF, {}, m_args + ["--merge-conflict-theirs-diff-header-decoration-style=none"], _box_after("HEAD"))
    obs["merge-conflict-theirs-diff-header-decoration-style"] = (MERGE_DIFF, {}, m_args + ["--merge-conflict-ours-diff-header-decoration-style=none"], _box_cells)
    obs["grep-header-file-style"] = (b"src/a.rs=10=fn headq() {\nsrc/a.rs:12:let matchq = 1;\n",
                                     {"DELTA_VERIF_FORCE_GUESS": "git grep -n -p matchq"},
                                     g_args + ["--grep-output-type=classic", "--hunk-header-style=file line-number"],
                                     _text_cells("src/a.rs", skip_rows_with=("matchq",)))
    wrap = (b"diff --git a/f.zzz b/f.zzz\n--- a/f.zzz\n+++ b/f.zzz\n@@ -1,1 +1,1 @@\n"
            b"-aaaa bbbb cccc dddd eeee ffff gggg hhhh iiii jjjj\n+aaaa bbbb cccc dddd eeee ffff gggg hhhh iiii kkkk\n")
    obs["inline-hint-style"] = (wrap, {}, ["--no-gitconfig", "--paging=never", "--syntax-theme=none", "--side-by-side", "--width=50"],
                                _text_cells("\u21b5"))
    return obs


def depth_uniformity_oracle(ctx, rep):
    """Every style option delta has (list generated from cli.rs) x --true-color=never|always x a #rrggbb, a CSS
    name, an ANSI name, a palette number: the colour reported by --show-config and the colour of the painted
    element are the same for the same string, whichever option carries it."""
    opts, _ = generated_style_options()
    if not opts:
        _viol(rep, "depth:no-generated-option-list", "Generated/StyleSites.lean has no cliStyleOptions", dict())
        return
    obs = painted_observers()
    jobs = []
    for o in opts:
        deco = o.endswith("decoration-style")
        for tc in (0, 1):
            for c in DEPTH_COLOURS:
                style = "%s %s" % (c, c) + (" ul" if deco else "")
                jobs.append(("show", o, tc, c, style))
                if o in obs and (not ctx.quick() or c in ("#123456", "rebeccapurple")):
                    jobs.append(("paint", o, tc, c, style))

    def run(job):
        kind, o, tc, c, style = job
        depth = "--true-color=" + ("always" if tc else "never")
        if kind == "show":
            rc, out, err = ctx.run_delta(["--no-gitconfig", depth, "--line-numbers", "--%s=%s" % (o, style), "--show-config"], b"")
            if rc != 0:
                return ("error", rc, err.decode("utf-8", "replace")[-200:])
            for r in T.decode(out).rows:
                t = r.text()
                m = re.match(r"\s*%s\s+= " % re.escape(o), t)
                if m:
                    cells = r.cells[m.end():]
                    return ("ok", t[m.end():], sorted({(cl.fg, cl.bg) for cl in cells}))
            return ("absent",)
        inp, env, args, finder = obs[o]
        rc, out, err = ctx.run_delta(args + [depth, "--%s=%s" % (o, style)], inp, env=env)
        if rc != 0:
            return ("error", rc, err.decode("utf-8", "replace")[-200:])
        cells = finder(T.decode(out))
        if not cells:
            return ("absent",)
        return ("ok", None, sorted({(cl.fg, cl.bg) for cl in cells}))
    results = parallel_map(run, jobs)
    # what each (depth, colour) must look like: hex in 24-bit is exact; otherwise the value all options agree on
    by_key = {}
    for job, res in zip(jobs, results):
        kind, o, tc, c, style = job
        rep.case(key=("depth",) + job, nontrivial=True, sample=dict(op="depth", kind=kind, option=o, true_color=tc, colour=c, result=res[0]))
        rep.count("depth:%s:%s" % (kind, res[0]))
        if res[0] == "error":
            _viol(rep, "depth:option-rejects-colour:" + o, "a style option rejects a colour of the language",
                  dict(kind="depth", option=o, true_color=tc, style=style, rc=res[1], stderr=res[2]))
        elif res[0] == "ok":
            by_key.setdefault((tc, c), []).append((kind, o, res[1], res[2]))
    observed = {o: set() for o in opts}
    for (tc, c), lst in sorted(by_key.items()):
        votes = {}
        for kind, o, text, cols in lst:
            votes[tuple(cols)] = votes.get(tuple(cols), 0) + 1
        want = max(votes.items(), key=lambda kv: kv[1])[0]
        try:
            exp = oracle_color(c)
        except ValueError:          # CSS names are not in the independent reading; only uniformity is judged
            exp = None
        if tc and exp and exp[0] == "rgb" and want != ((exp, exp),):
            _viol(rep, "depth:24-bit-colour-not-exact", "in 24-bit mode a #rrggbb colour is not painted exactly",
                  dict(kind="depth", true_color=tc, colour=c, got=repr(want)))
        texts = {}
        for kind, o, text, cols in lst:
            observed[o].add(kind)
            if kind == "show":
                texts[text] = texts.get(text, 0) + 1
        wtext = max(texts.items(), key=lambda kv: kv[1])[0] if texts else None
        for kind, o, text, cols in lst:
            if tuple(cols) != want or (kind == "show" and canon_display("ok " + hx(text)) != canon_display("ok " + hx(wtext))):
                depth = "--true-color=" + ("always" if tc else "never")
                _viol(rep, "depth:option-differs:" + o,
                      "the same colour string is shown differently by this option than by the other style options (colour depth not honoured)",
                      dict(kind="depth", how=kind, option=o, args=[depth, "--%s=%s %s" % (o, c, c)], true_color=tc, colour=c,
                           got=dict(text=text, colours=repr(cols)), others=dict(text=wtext, colours=repr(list(want)))))
    for o in opts:
        rep.count("depth:observed-by=" + ("+".join(sorted(observed[o])) or "theorem-only"))
        if not observed[o]:
            rep.notes.setdefault("depth_unobserved_options", []).append(o)


MOVED_DIFF = (b"diff --git a/f.zzz b/f.zzz\n--- a/f.zzz\n+++ b/f.zzz\n@@ -1,2 +1,2 @@ frag\n zeroq\n"
              b"\x1b[1;35m-movedq\x1b[m\n+plusq\n")


def _home_with_gitconfig(name, body):
    d = os.path.join(BUILD, "home-c12-" + name)
    os.makedirs(d, exist_ok=True)
    path = os.path.join(d, ".gitconfig")
    old = open(path).read() if os.path.exists(path) else None
    if old != body:                       # atomic: concurrent runs may be reading it
        tmp = path + ".%d.tmp" % os.getpid()
        with open(tmp, "w") as f:
            f.write(body)
        os.replace(tmp, path)
    return d


def indirect_styles_oracle(ctx, rep):
    """Style strings that reach the parser indirectly mean the same as when given directly:
    the replacement of a --map-styles entry, the colours of --blame-palette, and a style option that
    refers to a custom git-config key; a real reference cycle is still the fatal error."""
    common = ["--paging=never", "--syntax-theme=none", "--width=60"]
    for tc in (0, 1):
        depth = "--true-color=" + ("always" if tc else "never")
        for c in ("#123456", "rebeccapurple", "201"):
            st = "%s %s" % (c, c)
            # 1. --map-styles replacement vs the same string in --zero-style
            args = ["--no-gitconfig", depth] + common + ["--map-styles=bold purple => " + st, "--zero-style=" + st]
            rc, out, err = ctx.run_delta(args, MOVED_DIFF)
            dec = T.decode(out)
            a, b = _text_cells("movedq")(dec), _text_cells("zeroq")(dec)
            rep.case(key=("indirect", "map-styles", tc, c), nontrivial=True,
                     sample=dict(op="indirect", what="map-styles", true_color=tc, colour=c, rc=rc))
            if rc != 0 or not a or not b or {(x.fg, x.bg) for x in a} != {(x.fg, x.bg) for x in b}:
                _viol(rep, "depth:map-styles-replacement-differs",
                      "the replacement style of --map-styles is painted differently from the same string in a style option",
                      dict(kind="indirect", args=args, stdin="MOVED_DIFF", rc=rc,
                           replacement=repr(sorted({(x.fg, x.bg) for x in a or []})), direct=repr(sorted({(x.fg, x.bg) for x in b or []}))))
            # 2. --blame-palette colour vs the same colour as background of --blame-code-style
            args = ["--no-gitconfig", depth] + common + ["--blame-palette=" + c, "--blame-code-style=normal " + c]
            rc, out, err = ctx.run_delta(args, BLAME_TXT, env={"DELTA_VERIF_FORCE_GUESS": "git blame src/a.zzz"})
            dec = T.decode(out)
            a, b = _text_cells("Alice")(dec), _text_cells("codeq one")(dec)
            rep.case(key=("indirect", "blame-palette", tc, c), nontrivial=True)
            if rc != 0 or not a or not b or {x.bg for x in a} != {x.bg for x in b}:
                _viol(rep, "depth:blame-palette-differs",
                      "a --blame-palette colour is painted differently from the same colour in a style option",
                      dict(kind="indirect", args=args, stdin="BLAME_TXT", rc=rc,
                           palette=repr(sorted({x.bg for x in a or []}, key=repr)), direct=repr(sorted({x.bg for x in b or []}, key=repr))))
            # 3. a style option referring to a custom git-config key vs the same string given directly
            home = _home_with_gitconfig("ref%d" % tc, '[delta]\n    foo-style = "%s" "%s"\n    minus-style = foo-style\n' % (c, c))
            args = [depth] + common + ["--zero-style=" + st]
            rc, out, err = ctx.run_delta(args, DIFF, env={"HOME": home})
            dec = T.decode(out)
            a, b = _text_cells("minusq")(dec), _text_cells("zeroq")(dec)
            rep.case(key=("indirect", "gitconfig-reference", tc, c), nontrivial=True)
            replay = dict(kind="indirect", gitconfig='[delta] foo-style = "%s" "%s"; minus-style = foo-style' % (c, c), args=args, stdin="DIFF", rc=rc,
                          stderr=err.decode("utf-8", "replace")[-200:])
            if rc != 0 or not a:
                _viol(rep, "reference:custom-git-config-key-rejected",
                      "a style option referring to a custom git-config style key is not accepted", replay)
            elif not b or {(x.fg, x.bg) for x in a} != {(x.fg, x.bg) for x in b}:
                _viol(rep, "depth:gitconfig-reference-ignores-depth",
                      "a style reached through a custom git-config key is painted differently from the same string given directly",
                      dict(replay, referenced=repr(sorted({(x.fg, x.bg) for x in a})), direct=repr(sorted({(x.fg, x.bg) for x in b or []}))))
    # the same reference given on the command line, a plain named colour
    home = _home_with_gitconfig("refcli", "[delta]\n    foo-style = bold red\n")
    rc, out, err = ctx.run_delta(common + ["--minus-style=foo-style"], DIFF, env={"HOME": home})
    cells = _text_cells("minusq")(T.decode(out))
    rep.case(key=("indirect", "gitconfig-reference-cli"), nontrivial=True)
    if rc != 0 or not cells or any(x.fg != ("idx", 1) or "bold" not in x.attrs for x in cells):
        _viol(rep, "reference:custom-git-config-key-rejected",
              "--minus-style=foo-style with [delta] foo-style = bold red is not honoured",
              dict(kind="indirect", gitconfig="[delta] foo-style = bold red", args=common + ["--minus-style=foo-style"], rc=rc,
                   stderr=err.decode("utf-8", "replace")[-200:]))
    # a real cycle must still be the fatal error
    home = _home_with_gitconfig("cycle", "[delta]\n    minus-style = plus-style\n    plus-style = minus-style\n")
    rc, out, err = ctx.run_delta(common, DIFF, env={"HOME": home})
    rep.case(key=("indirect", "cycle"), nontrivial=True)
    if rc != 2 or b"cycle" not in err:
        _viol(rep, "reference:cycle-not-reported", "a real cycle of style references is not reported as the fatal error",
              dict(kind="indirect", gitconfig="[delta] minus-style = plus-style; plus-style = minus-style", args=common, rc=rc,
                   stderr=err.decode("utf-8", "replace")[-200:]))


SBS_DIFF = (b"diff --git a/f.rs b/f.rs\n--- a/f.rs\n+++ b/f.rs\n@@ -1,2 +1,2 @@\n fn zeroq() {}\n"
            b'-    let name = "betaq one";\n+    let name = "deltaq one";\n')


def given_style_oracle(ctx, rep):
    """A style the user gave (command line or git config) is painted as given, also where set_options rewrites
    defaults: side-by-side x {minus-style, minus-emph-style} alone / together, from the command line / git config,
    values starting with `normal ` and not, with the default syntax theme on a highlighted language. The painted
    cells and the --show-config value are compared with the reading of the *given* string."""
    values = ["normal 124", "normal 52 bold", "red 124", "NORMAL 88 ul"]
    jobs = []
    for v in values:
        for which in (("minus-emph-style",), ("minus-style",), ("minus-style", "minus-emph-style")):
            for source in ("cli", "gitconfig"):
                for mode in (["--side-by-side"], [], ["--side-by-side", "--line-numbers"]):
                    jobs.append((v, which, source, mode))

    homes = {}
    for v, which, source, mode in jobs:      # written before any run starts
        if source == "gitconfig" and (v, which) not in homes:
            homes[(v, which)] = _home_with_gitconfig("given-" + re.sub(r"\W", "", v + "".join(which)),
                                                     "[delta]\n" + "".join("    %s = %s\n" % (o, v) for o in which))

    def run(job):
        v, which, source, mode = job
        args = ["--paging=never", "--width=120", "--true-color=never"] + mode
        env = {}
        if source == "cli":
            args = ["--no-gitconfig"] + args + ["--%s=%s" % (o, v) for o in which]
        else:
            env = {"HOME": homes[(v, which)]}
        rc, out, err = ctx.run_delta(args, SBS_DIFF, env=env)
        rc2, cfg, _ = ctx.run_delta(args + ["--show-config"], b"", env=env)
        return args, rc, out, err, rc2, cfg
    results = parallel_map(run, jobs)
    for (v, which, source, mode), (args, rc, out, err, rc2, cfg) in zip(jobs, results):
        rep.case(key=("given", v, which, source, tuple(mode)), nontrivial=True,
                 sample=dict(op="given-style", value=v, options=which, source=source, mode=mode, rc=rc))
        rep.count("given:%s:%s" % (source, "+".join(which)))
        want = oracle_parse(v)
        replay = dict(kind="given-style", args=args, stdin="SBS_DIFF", value=v, options=list(which), source=source,
                      gitconfig=("[delta] " + "; ".join("%s = %s" % (o, v) for o in which)) if source == "gitconfig" else None)
        if rc != 0 or rc2 != 0:
            _viol(rep, "given:style-rejected", "delta fails on a style of the grammar", dict(replay, rc=[rc, rc2], stderr=err.decode("utf-8", "replace")[-200:]))
            continue
        dec = T.decode(out)
        row = next((r for r in dec.rows if "betaq" in r.text()), None)
        if row is None:
            _viol(rep, "given:element-missing", "removed line not found", replay)
            continue
        t = row.text()
        exp_fg = want["colors"][0] if want["colors"] else None
        exp_bg = want["colors"][1] if len(want["colors"]) > 1 else None
        for o in which:
            k = t.find("betaq") if o == "minus-emph-style" else t.find("let")
            cells = row.cells[k:k + (5 if o == "minus-emph-style" else 3)]
            bad = [c for c in cells if c.fg != exp_fg or c.bg != exp_bg or c.attrs != frozenset(want["attrs"])]
            if bad:
                _viol(rep, "given:style-not-painted-as-given:%s:%s" % (o, source),
                      "text painted with a style the user gave does not carry exactly the colours/attributes of that string",
                      dict(replay, option=o, expected=T.style_key(exp_fg, exp_bg, frozenset(want["attrs"])),
                           got=[T.style_key(c.fg, c.bg, c.attrs) for c in bad[:2]]))
            shown = show_config_value(cfg, o)
            if shown is None or oracle_parse(shown) != want:
                _viol(rep, "given:show-config-reports-other-style:%s:%s" % (o, source),
                      "--show-config reports a different style from the one the user gave",
                      dict(replay, option=o, reported=shown))


# --------------------------------------------------------------------------- text drawn under a decoration

# the decoration kinds of a *-decoration-style (src/handlers/draw.rs: one drawing function each; `box ol` and
# `box ul ol` fall back to the plain box); None = the option is not given (delta's default decoration)
DECO_KINDS = [("default", None), ("none", "none"), ("ul", "ul"), ("ol", "ol"), ("ul-ol", "ul ol"), ("box", "box"),
              ("box-ul", "box ul"), ("box-ol", "box ol"), ("box-ul-ol", "box ul ol")]
DECO_PREFIXES = ["", "blue ", "bold yellow ", "#405060 ", "magenta italic ", "bold "]
DECO_TEXT_COLOURS = ["", "yellow", "214 17", "#102030", "normal 52", "bright-cyan", "red #f0e0d0"]
ALL_DECO_OPTS = ["commit-decoration-style", "file-decoration-style", "hunk-header-decoration-style"]
RULECH = BOXCH + "┴┻"


def _row_cells(prefix, avoid=()):
    """Cells of `prefix` in the first row that starts with it (and mentions none of `avoid`)."""
    def f(dec):
        for r in dec.rows:
            t = r.text()
            if t.startswith(prefix) and not any(x in t for x in avoid):
                return r.cells[:len(prefix)]
        return None
    return f


def _upto_paren(prefix):
    """Cells of `prefix … )` in the first row that starts with `prefix` (a file header with its mode addendum)."""
    def f(dec):
        for r in dec.rows:
            t = r.text()
            if t.startswith(prefix) and ")" in t:
                return r.cells[:t.index(")") + 1]
        return None
    return f


DIFF_MODE = (b"diff --git a/fmode.zzz b/fmode.zzz\nold mode 100644\nnew mode 100755\nindex 1111111..2222222\n"
             b"--- a/fmode.zzz\n+++ b/fmode.zzz\n@@ -1,2 +1,1 @@ fragq\n zeroq\n-minusq\n")


def decorated_elements():
    """Every style option whose text is written by a drawing function of draw.rs (directly, or - hunk-header and grep
    header lines - painted first and then handed to the drawing function), with the decoration option that selects
    the drawing function: (label, text option, decoration option, stdin, env, args without that decoration option,
    finder of the text cells, suffix appended to the style value, model request (text, addendum, pads) | None)."""
    def diff_args(deco_opt, extra=()):
        return [a for a in BASE_ARGS if not a.startswith("--" + deco_opt + "=")] + list(extra)
    hh = "--hunk-header-style=normal file line-number"
    g_args = ["--no-gitconfig", "--paging=never", "--syntax-theme=none", "--width=60"]
    m_args = g_args + ["--%s=none" % o for o in ALL_DECO_OPTS]
    ours, theirs = "merge-conflict-ours-diff-header", "merge-conflict-theirs-diff-header"
    els = [
        ("file-style", "file-style", "file-decoration-style", "DIFF", {}, diff_args("file-decoration-style"),
         lambda dec: find_cells(dec, "file-style"), "", ("fileq.zzz", "", 1)),
        ("file-style+mode", "file-style", "file-decoration-style", "DIFF_MODE", {}, diff_args("file-decoration-style"),
         _upto_paren("fmode.zzz"), "", ("fmode.zzz", "mode +x", 1)),
        ("commit-style", "commit-style", "commit-decoration-style", "DIFF", {}, diff_args("commit-decoration-style"),
         lambda dec: find_cells(dec, "commit-style"), "", (PAINTED["commit-style"], "", 1)),
        ("hunk-header-style", "hunk-header-style", "hunk-header-decoration-style", "DIFF", {}, diff_args("hunk-header-decoration-style"),
         lambda dec: find_cells(dec, "hunk-header-style"), " file line-number", None),
        ("hunk-header-file-style", "hunk-header-file-style", "hunk-header-decoration-style", "DIFF", {},
         diff_args("hunk-header-decoration-style", [hh]), lambda dec: find_cells(dec, "hunk-header-file-style"), "", None),
        ("hunk-header-line-number-style", "hunk-header-line-number-style", "hunk-header-decoration-style", "DIFF", {},
         diff_args("hunk-header-decoration-style", [hh]), lambda dec: find_cells(dec, "hunk-header-line-number-style"), "", None),
        (ours + "-style", ours + "-style", ours + "-decoration-style", "MERGE_DIFF", {},
         m_args + ["--%s-decoration-style=none" % theirs], _text_cells("HEAD"), "", ("HEAD", "", 0)),
        (theirs + "-style", theirs + "-style", theirs + "-decoration-style", "MERGE_DIFF", {},
         m_args + ["--%s-decoration-style=none" % ours], _text_cells("branch"), "", ("branch", "", 0)),
        ("grep-file-style", "grep-file-style", "grep-header-decoration-style", "RG_JSON", {"DELTA_VERIF_FORCE_GUESS": "rg wordq"}, g_args,
         _row_cells("src/a.rs", avoid=("wordq",)), "", None),
        ("grep-header-file-style", "grep-header-file-style", "grep-header-decoration-style", "GREP_P",
         {"DELTA_VERIF_FORCE_GUESS": "git grep -n -p matchq"},
         g_args + ["--grep-output-type=classic", "--hunk-header-style=file line-number"],
         _text_cells("src/a.rs", skip_rows_with=("matchq",)), "", None),
    ]
    return els


DECO_STDIN = {"DIFF": DIFF, "DIFF_MODE": DIFF_MODE, "MERGE_DIFF": MERGE_DIFF, "RG_JSON": RG_JSON,
              "GREP_P": b"src/a.rs=10=fn headq() {\nsrc/a.rs:12:let matchq = 1;\n"}


def _deco_gitconfig_home(opt, style, deco_opt, deco):
    def q(v):                                  # `#` starts a comment in a git config file unless quoted
        return '"' + v.replace("\\", "\\\\").replace('"', '\\"') + '"'
    body = "[delta]\n    %s = %s\n" % (opt, q(style)) + ("    %s = %s\n" % (deco_opt, q(deco)) if deco is not None else "")
    import hashlib
    return _home_with_gitconfig("deco-" + hashlib.sha1(body.encode()).hexdigest()[:12], body), body


def decorated_text_oracle(ctx, rep):
    """The text of a decorated element carries exactly the colours and attributes of its style string, whatever the
    decoration: every option drawn through draw.rs x every decoration kind (none, ul, ol, ul ol, box, box ul, box ol,
    box ul ol, and the option left at its default) x text styles with every single attribute, random attribute sets
    and all eight attributes, with and without colours; given on the command line or in git config; fixed and variable
    decoration width. The drawn rule / box (where the element is the only decorated one) must carry the decoration
    style's own colours and attributes. Correspondence `draw.header`: for the elements whose text goes to the drawing
    function unpainted (file header with and without a mode addendum, commit line, merge-conflict headers) the bytes
    of the header lines are compared with the Lean model (style parser -> get_draw_function -> Draw.draw)."""
    rng = ctx.rng
    els = decorated_elements()
    jobs = []
    for el in els:
        label, opt = el[0], el[1]
        for kind, words in DECO_KINDS:
            styles = []
            for a in ATTR_WORDS:
                c = rng.choice(DECO_TEXT_COLOURS)
                styles.append((a + " " + c).strip() if rng.random() < 0.5 else (c + " " + a).strip())
            for _ in range(ctx.n(2, 8)):
                ws = rng.sample(ATTR_WORDS, rng.randint(2, 5)) + rng.choice(DECO_TEXT_COLOURS).split()
                rng.shuffle(ws)
                st = " ".join(ws)
                if oracle_parse(st) == "error":
                    st = " ".join(w for w in ws if w in ATTR_WORDS)
                styles.append(st)
            styles.append(" ".join(ATTR_WORDS) + " " + rng.choice(DECO_TEXT_COLOURS))
            styles.append(rng.choice(DECO_TEXT_COLOURS) or "normal")          # colours only: nothing may be added
            for k, st in enumerate(styles):
                deco = None if words is None else (words if words == "none" else rng.choice(DECO_PREFIXES) + words)
                src = "gitconfig" if k == len(styles) - 3 or (not ctx.quick() and rng.random() < 0.25) else "cli"
                if rng.random() < 0.2:
                    st = mess_case(rng, st)
                jobs.append(dict(el=el, kind=kind, deco=deco, style=st.strip(), tc=rng.randint(0, 1), src=src,
                                 width=rng.choice(["60", "60", "variable", "23"])))
    homes = {}
    for j in jobs:
        if j["src"] == "gitconfig":
            el = j["el"]
            j["home"] = _deco_gitconfig_home(el[1], j["style"] + el[7], el[2], j["deco"])

    def argv(j):
        label, opt, deco_opt, stdin, env, args, finder, suffix, mreq = j["el"]
        a = [("--width=" + j["width"]) if x.startswith("--width=") else x for x in args]
        a.append("--true-color=" + ("always" if j["tc"] else "never"))
        e = dict(env)
        if j["src"] == "cli":
            a.append("--%s=%s" % (opt, j["style"] + suffix))
            if j["deco"] is not None:
                a.append("--%s=%s" % (deco_opt, j["deco"]))
        else:
            a = [x for x in a if x != "--no-gitconfig"]
            e["HOME"] = j["home"][0]
        return a, e

    def run1(j):
        a, e = argv(j)
        return ctx.run_delta(a, DECO_STDIN[j["el"][3]], env=e)
    results = parallel_map(run1, jobs)
    names = {"bold": "bold", "faint": "dim", "italic": "italic", "underline": "ul", "blink": "blink",
             "inverse": "reverse", "conceal": "hidden", "crossed": "strike"}

    def shown(exp):
        return T.style_key(*[x if not (isinstance(x, tuple) and x and x[0] == "quantised") else ("rgb",) + x[1] for x in exp[:2]], exp[2])
    corr = []
    for j, (rc, out, err) in zip(jobs, results):
        label, opt, deco_opt, stdin, env, args, finder, suffix, mreq = j["el"]
        kind, deco, st, tc, src = j["kind"], j["deco"], j["style"], j["tc"], j["src"]
        a, e = argv(j)
        rep.case(key=("decorated", label, kind, deco, st, tc, src, j["width"]), nontrivial=True,
                 sample=dict(op="decorated", element=label, option=opt, style=st, decoration_option=deco_opt, decoration=deco,
                             source=src, width=j["width"], rc=rc))
        rep.count("decorated:%s:%s" % (label, kind))
        rep.count("decorated:source=" + src)
        replay = dict(kind="decorated", element=label, option=opt, style=st + suffix, decoration_option=deco_opt, decoration=deco,
                      decoration_kind=kind, args=a, env=e, stdin=stdin, true_color=tc, source=src,
                      gitconfig=j["home"][1] if src == "gitconfig" else None)
        sig_tail = "%s:deco=%s" % (label, kind)
        if rc != 0:
            _viol(rep, "decorated:valid-style-rejected:" + sig_tail, "delta fails on a style / decoration style of the grammar",
                  dict(replay, rc=rc, stderr=err.decode("utf-8", "replace")[-300:]))
            continue
        exp = expected_style(st, tc, {}, opt)
        if exp is None:
            continue
        dec = T.decode(out)
        cells = finder(dec)
        if not cells:
            _viol(rep, "decorated:element-missing:" + sig_tail, "the decorated text is not in the output", replay)
            continue
        bad = [c for c in cells if not style_matches(c, exp)]
        if bad:
            lost = sorted(names.get(x, x) for x in exp[2] - bad[0].attrs)
            extra = sorted(names.get(x, x) for x in bad[0].attrs - exp[2])
            how = ("-".join(lost) + "-lost" if lost else "") + ("+" if lost and extra else "") + \
                  ("-".join(extra) + "-added" if extra else "") or "colours"
            _viol(rep, "decorated:text-style-differs:%s:%s" % (sig_tail, how),
                  "text drawn under a decoration does not carry exactly the colours/attributes of its style string",
                  dict(replay, expected=shown(exp), got=[T.style_key(c.fg, c.bg, c.attrs) for c in bad[:3]], lost=lost, added=extra))
        # the rule / box itself: the decoration style's own colours and attributes (words ul / ol / box select the shape)
        if deco is not None and deco != "none" and stdin in ("DIFF", "DIFF_MODE"):
            dw = " ".join(w for w in deco.split() if w not in ("ul", "ol", "box"))
            dexp = expected_style(dw, tc, {}, deco_opt)
            rule = [c for r in dec.rows for c in r.cells if c.ch in RULECH]
            if dexp is not None and not rule:
                _viol(rep, "decorated:decoration-missing:" + sig_tail, "no rule / box is drawn for a decoration style", replay)
            elif dexp is not None:
                badr = [c for c in rule if not style_matches(c, dexp)]
                heavy = "bold" in dexp[2]
                shape = [c for c in rule if (c.ch in "━┃┓┛┻") != heavy]
                if badr or shape:
                    _viol(rep, "decorated:decoration-style-differs:" + sig_tail,
                          "the rule / box does not carry exactly the colours/attributes of the decoration style",
                          dict(replay, expected=shown(dexp), got=[T.style_key(c.fg, c.bg, c.attrs) for c in (badr or shape)[:3]]))
        if mreq is not None and src == "cli" and tc == 1 and deco is not None:
            corr.append((j, a, out, replay))
    _corr_draw_header(ctx, rep, corr)


_ESC_SEQ = re.compile(r"\x1b\[[0-9;]*[A-Za-z]")


def _corr_draw_header(ctx, rep, corr):
    """Real binary vs Lean model (DeltaModel/DrawTextRun.lean, run with `lake env lean --run`: no lean_exe is registered
    for it), byte for byte, on the lines the drawing function writes."""
    import subprocess
    from ..core import lake_build
    if not corr:
        return
    ok, blog = lake_build(["DeltaModel.DrawTextRun"])
    if not ok:
        rep.corr_case("draw.header", False, dict(error="DeltaModel.DrawTextRun does not build", log=blog[-600:]))
        return
    reqs = []
    for j, a, out, replay in corr:
        text, addendum, pads = j["el"][8]
        reqs.append(" ".join(["drawtext.header", "1", hx(j["style"] + j["el"][7]), hx(j["deco"]), hx(text), hx(addendum),
                              "-" if j["width"] == "variable" else j["width"], str(pads)]))
    p = subprocess.run(["lake", "env", "lean", "--run", "DeltaModel/DrawTextRun.lean"], cwd=LEAN, input="\n".join(reqs) + "\n",
                       stdout=subprocess.PIPE, stderr=subprocess.STDOUT, text=True)
    answers = [l for l in p.stdout.split("\n") if l.strip()]
    if p.returncode != 0 or len(answers) != len(reqs):
        rep.corr_case("draw.header", False, dict(error="model runner failed", log=p.stdout[-600:]))
        return
    for (j, a, out, replay), ans in zip(corr, answers):
        text = j["el"][8][0]
        lines = out.split(b"\n")
        plain = [_ESC_SEQ.sub("", l.decode("utf-8", "replace")) for l in lines]
        at = next((k for k, t in enumerate(plain) if t.startswith(text)), None)
        f = ans.split(" ")
        agree, model_lines, impl_lines = False, None, None
        if f[0] == "ok" and at is not None:
            idx = int(f[1])
            model_lines = [unhx(x) for x in f[2:]]
            n = len(model_lines) - 1
            impl_lines = lines[at - idx:at - idx + n] if at >= idx else None
            agree = model_lines[-1] == b"" and impl_lines == model_lines[:-1]
        rep.case(key=("draw.header", j["el"][0], j["kind"], j["deco"], j["style"], j["width"]), nontrivial=True)
        rep.corr_case("draw.header", agree,
                      dict(replay, model=[m.decode("utf-8", "replace") for m in model_lines] if model_lines else ans[:200],
                           impl=[m.decode("utf-8", "replace") for m in impl_lines] if impl_lines else None))


# --------------------------------------------------------------------------- a style option and the OTHER style options

# Which text which hunk-line option governs (delta --help): `X-style` = removed / added lines; `X-emph-style` = the
# emphasized (changed) sections of a line that has a partner; `X-non-emph-style` = the non-emphasized sections of such a
# line (default: `X-style`). One hunk per situation; `…q` words are unique needles.
INTERPLAY_HUNKS = [
    (["minusq solo"], []),
    ([], ["plusq solo"]),
    (["alpha betaq gamma"], ["alpha deltaq gamma"]),
    (["kappa lambdaq mu", "wholly different removed words here unpairedq"], ["kappa sigmaq mu"]),
    (["omega rhoq tau"], ["omega piq tau  "]),
    (["upsilon phi chiq"], ["upsilon phi psiq"]),
    ([], ["wsq solo  "]),
]
# (row needle, side, has a partner, words the emph style governs, words the non-emph / line style governs)
INTERPLAY_ROWS = [
    ("minusq", "minus", False, [], ["minusq", "solo"]),
    ("plusq", "plus", False, [], ["plusq", "solo"]),
    ("betaq", "minus", True, ["betaq"], ["alpha", "gamma"]),
    ("deltaq", "plus", True, ["deltaq"], ["alpha", "gamma"]),
    ("lambdaq", "minus", True, ["lambdaq"], ["kappa", "mu"]),
    ("unpairedq", "minus", False, [], ["wholly", "different", "removed", "words", "here", "unpairedq"]),
    ("sigmaq", "plus", True, ["sigmaq"], ["kappa", "mu"]),
    ("rhoq", "minus", True, ["rhoq"], ["omega", "tau"]),
    ("piq", "plus", True, ["piq"], ["omega", "tau"]),
    ("chiq", "minus", True, ["chiq"], ["upsilon", "phi"]),
    ("psiq", "plus", True, ["psiq"], ["upsilon", "phi"]),
    ("wsq", "plus", False, [], ["wsq", "solo"]),
]
# rows of added lines that end in blanks (a whitespace error): (row needle, last word, number of blanks)
INTERPLAY_TRAILING = [("piq", "tau", 2), ("wsq", "solo", 2)]


def _interplay_diff():
    out = ["diff --git a/fileq.zzz b/fileq.zzz", "index 1111111..2222222 100644", "--- a/fileq.zzz", "+++ b/fileq.zzz"]
    for k, (ms, ps) in enumerate(INTERPLAY_HUNKS):
        a = 10 * k + 1
        out.append("@@ -%d,%d +%d,%d @@ fragq" % (a, 1 + len(ms), a, 1 + len(ps)))
        out.append(" zeroq%d" % k)
        out += ["-" + l for l in ms] + ["+" + l for l in ps]
    return ("\n".join(out) + "\n").encode()


INTERPLAY_DIFF = _interplay_diff()
INTERPLAY_ARGS = ["--syntax-theme=none", "--paging=never", "--width=70", "--line-fill-method=spaces",
                  "--file-decoration-style=none", "--hunk-header-decoration-style=none"]
# relation of the three strings (X-style, X-emph-style, X-non-emph-style); None = option not given
TRIPLE_PATTERNS = ["all-different", "emph=non-emph", "emph=non-emph-respelt", "all-equal", "emph=plain",
                   "non-emph=plain", "non-emph-unset", "non-emph-ref-emph", "non-emph-ref-plain"]
_PLAIN_COLOURS = BASIC + ["bright-" + c for c in BASIC]


def gen_plain_style(rng):
    """A style of the grammar with explicit colours only (no auto / syntax / omit / raw): what it denotes does not depend
    on the option it is given to. Colour words are canonical (no aliases), so equal denotation <=> equal words."""
    def colour():
        k = rng.random()
        if k < 0.35:
            return rng.choice(_PLAIN_COLOURS)
        if k < 0.7:
            return str(rng.randint(16, 255))
        return "#%06x" % rng.randrange(1 << 24)
    while True:
        attrs = rng.sample(ATTR_WORDS, rng.choice([0, 0, 1, 1, 2, 3]))
        k = rng.random()
        cols = ["normal", colour()] if k < 0.35 else [colour(), colour()] if k < 0.75 else [colour()] if k < 0.9 else []
        words = attrs + cols
        if not words:
            continue
        # attribute words anywhere, colour words in order
        out, ci = [], 0
        slots = sorted(rng.sample(range(len(words)), len(cols)))
        ai = iter(rng.sample(attrs, len(attrs)))
        for i in range(len(words)):
            if i in slots:
                out.append(cols[ci]); ci += 1
            else:
                out.append(next(ai))
        return " ".join(out)


def _denotation(s):
    w = oracle_parse(s)
    return (tuple(w["colors"]), frozenset(w["attrs"]))


def respell(rng, s):
    """The same style written differently: attribute words moved, letter case mixed, words quoted, other separators."""
    ws = s.split()
    cols = [w for w in ws if w not in ATTR_WORDS]
    attrs = [w for w in ws if w in ATTR_WORDS]
    for _ in range(20):
        rng.shuffle(attrs)
        slots = sorted(rng.sample(range(len(ws)), len(cols)))
        out, ci, ai = [], 0, iter(attrs)
        for i in range(len(ws)):
            if i in slots:
                out.append(cols[ci]); ci += 1
            else:
                out.append(next(ai))
        t = mess_case(rng, " ".join(out))
        if t != s:
            return t
    return s.upper()


def _triple(rng, pattern, side):
    """(X-style, X-emph-style, X-non-emph-style) strings for a relation."""
    while True:
        a, b, c = gen_plain_style(rng), gen_plain_style(rng), gen_plain_style(rng)
        if len({_denotation(a), _denotation(b), _denotation(c)}) == 3:
            break
    return {"all-different": (a, b, c), "emph=non-emph": (a, b, b), "emph=non-emph-respelt": (a, b, respell(rng, b)),
            "all-equal": (a, a, a), "emph=plain": (a, a, c), "non-emph=plain": (a, b, a), "non-emph-unset": (a, b, None),
            "non-emph-ref-emph": (a, b, side + "-emph-style"), "non-emph-ref-plain": (a, b, side + "-style")}[pattern]


def _relation(role, plain, emph, nonemph):
    """How the string of `role` relates to the other two of its triple (names the input class in signatures)."""
    me = {"plain": plain, "emph": emph, "non-emph": nonemph}[role]
    if me is None:
        return "unset"
    if me.endswith("-style") and " " not in me:
        return "reference-to-" + ("emph" if "emph" in me else "plain")
    others = [(n, v) for n, v in (("plain", plain), ("emph", emph), ("non-emph", nonemph)) if n != role
              and v is not None and not (v.endswith("-style") and " " not in v)]
    same = [n for n, v in others if _denotation(v) == _denotation(me)]
    respelt = any(_denotation(v) == _denotation(me) and v != me for n, v in others)
    if len(same) == 2:
        r = "equal-to-both"
    elif same:
        r = "equal-to-" + same[0]
    else:
        r = "differs-from-both"
    return r + ("-respelt" if respelt else "")


def _guards_model(reqs):
    """DeltaModel/StyleGuardsRun.lean (interpreted: no lean_exe is registered for it)."""
    import subprocess
    from ..core import lake_build
    ok, blog = lake_build(["DeltaModel.StyleGuards", "DeltaModel.Proto"])
    if not ok or not os.path.exists(os.path.join(LEAN, "DeltaModel", "StyleGuardsRun.lean")):
        return None, blog[-600:]
    p = subprocess.run(["lake", "env", "lean", "--run", "DeltaModel/StyleGuardsRun.lean"], cwd=LEAN,
                       input="\n".join(reqs) + "\n", stdout=subprocess.PIPE, stderr=subprocess.STDOUT, text=True)
    ans = [l for l in p.stdout.split("\n") if l.strip()]
    if p.returncode != 0 or len(ans) != len(reqs):
        return None, p.stdout[-600:]
    return ans, ""


def _interplay_annotation(ctx):
    """The implementation's own annotation of the lines of INTERPLAY_HUNKS (hooked `edits::infer_edits` with tags):
    per hunk (minus lines, plus lines) -> per line (sections [(is changed, text)], has a partner)."""
    reqs = []
    for ms, ps in INTERPLAY_HUNKS:
        parts = ["edits.infer %s 0.6 0.0 1 3" % hx("\\w+"), str(len(ms))]
        for l in ms:
            parts += [hx(l + "\n"), "0", "L;"]
        parts.append(str(len(ps)))
        for l in ps:
            parts += [hx(l + "\n"), "2", "L;"]
        reqs.append(" ".join(parts))
    ans = ctx.hook().ask(reqs)
    out = {}
    for (ms, ps), a in zip(INTERPLAY_HUNKS, ans):
        if not a.startswith("ok "):
            return None
        kv = dict(f.split("=", 1) for f in a.split(" ")[1:] if "=" in f)
        hm, hp = kv["H"].split(":")

        def lines(v):
            n, _, body = v.partition(";")
            res = []
            for x in (body.split("|") if int(n) > 0 else []):
                secs = []
                for part in (x.split(",") if x else []):
                    tag, h = part.split(":")
                    secs.append((int(tag), bytes.fromhex(h).decode("utf-8", "replace")))
                res.append(secs)
            return res
        for side, ls, secs_l, hs, emph_tag in (("minus", ms, lines(kv["M"]), hm, 1), ("plus", ps, lines(kv["P"]), hp, 3)):
            if len(secs_l) != len(ls) or len(hs) != len(ls):
                return None
            for l, secs, h in zip(ls, secs_l, hs):
                out[(side, l)] = ([(tag == emph_tag, t) for tag, t in secs], h == "1")
    return out


def other_options_oracle(ctx, rep, baseline=None):
    """A style option is painted as given **whatever the values of the other style options are**.

    (1) hunk-line triples: (X-style, X-emph-style, X-non-emph-style) for X = minus and plus, set to strings that are all
    different / emph = non-emph (also written differently) / all three equal / emph = plain / non-emph = plain /
    non-emph not given / non-emph a reference to the emph or the plain option; command line or `[delta]` section; both
    colour depths. Direct oracle (the property, from `delta --help`): on every removed / added line the changed word of a
    paired line carries exactly what the string given to X-emph-style denotes, the other words of a paired line what the
    string given to X-non-emph-style denotes (not given: X-style's), the words of an unpaired line X-style's.
    Correspondence `guards.line`: every character of every hunk line against the Lean model (`StyleGuards.paintedLine` over
    the regenerated tables), fed with the implementation's own annotation of the lines (hooked `edits.infer`).
    (2) groups of other options given one and the same string (line-number styles, hunk-header styles, commit / file,
    zero / minus / plus, the emph styles of both sides, …): each still shows its own string's denotation."""
    rng = ctx.rng
    jobs = []
    reps = ctx.n(5, 40)
    for r in range(reps):
        for k, pat in enumerate(TRIPLE_PATTERNS):
            for lead in ("minus", "plus"):
                other = "plus" if lead == "minus" else "minus"
                pats = {lead: pat, other: rng.choice(TRIPLE_PATTERNS)}
                triples = {sd: _triple(rng, pats[sd], sd) for sd in ("minus", "plus")}
                assign = {}
                for sd in ("minus", "plus"):
                    for role, v in zip(("-style", "-emph-style", "-non-emph-style"), triples[sd]):
                        if v is not None:
                            assign[sd + role] = v
                assign["zero-style"] = gen_plain_style(rng)
                # whitespace-error-style: its own string, or the very string of one of the added-line options
                ws_rel = rng.choice(["own", "own", "plus-style", "plus-emph-style", "plus-non-emph-style"])
                ws = assign.get(ws_rel) if ws_rel != "own" else None
                if ws is None or (ws.endswith("-style") and " " not in ws):
                    ws_rel, ws = "own", gen_plain_style(rng)
                assign["whitespace-error-style"] = ws
                source = "gitconfig" if (r * len(TRIPLE_PATTERNS) + k) % 6 == 5 else "cli"
                jobs.append(dict(pats=pats, triples=triples, assign=assign, tc=(r + k) % 2, source=source, ws_rel=ws_rel))
    homes = {}
    for j in jobs:
        depth = "--true-color=" + ("always" if j["tc"] else "never")
        if j["source"] == "cli":
            j["args"] = ["--no-gitconfig", depth] + INTERPLAY_ARGS + ["--%s=%s" % kv for kv in sorted(j["assign"].items())]
            j["env"], j["gitconfig"] = {}, None
        else:
            body = "[delta]\n" + "".join('    %s = "%s"\n' % (o, v.replace("\\", "\\\\").replace('"', '\\"'))
                                        for o, v in sorted(j["assign"].items()))
            import hashlib
            name = "interplay-" + hashlib.sha1(body.encode()).hexdigest()[:12]
            homes[name] = body
            j["args"], j["gitconfig"] = [depth] + INTERPLAY_ARGS, body
            j["env"] = {"HOME": os.path.join(BUILD, "home-c12-" + name)}
    for name, body in homes.items():               # written before any run starts
        _home_with_gitconfig(name, body)
    results = parallel_map(lambda j: ctx.run_delta(j["args"], INTERPLAY_DIFF, env=j["env"]), jobs)
    annotation = _interplay_annotation(ctx)
    if annotation is None:
        rep.corr_case("guards.line", False, dict(error="hooked edits.infer did not answer for the lines of INTERPLAY_HUNKS"))
    mreqs, mctx = [], []
    for j, (rc, out, err) in zip(jobs, results):
        replay = dict(kind="interplay", args=j["args"], env=j["env"], gitconfig=j["gitconfig"], stdin="INTERPLAY_DIFF",
                      patterns=j["pats"], assign=j["assign"], true_color=j["tc"], source=j["source"], whitespace_error=j["ws_rel"])
        rep.case(key=("interplay", tuple(sorted(j["assign"].items())), j["tc"], j["source"]), nontrivial=True,
                 sample=dict(op="interplay", patterns=j["pats"], assign=j["assign"], true_color=j["tc"], source=j["source"], rc=rc))
        for sd in ("minus", "plus"):
            rep.count("interplay:%s:%s" % (sd, j["pats"][sd]))
        if rc != 0:
            _viol(rep, "given:style-rejected", "delta fails on style strings of the grammar",
                  dict(replay, rc=rc, stderr=err.decode("utf-8", "replace")[-300:]))
            continue
        dec = T.decode(out)
        # what each option's string denotes; a reference / an option not given denotes what its target's string does
        denote = {}
        for sd in ("minus", "plus"):
            plain, emph, nonemph = j["triples"][sd]
            target = {None: plain, sd + "-emph-style": emph, sd + "-style": plain}.get(nonemph, nonemph)
            denote[sd] = {"plain": plain, "emph": emph, "non-emph": target}
        rows = {}
        for needle, sd, paired, emph_words, other_words in INTERPLAY_ROWS:
            row = next((r for r in dec.rows if needle in r.text()), None)
            rows[needle] = row
            if row is None:
                _viol(rep, "given:element-missing:" + sd, "a hunk line is missing from the output", dict(replay, line=needle))
                continue
            t = row.text()
            for words, role in ((emph_words, "emph"), (other_words, "non-emph" if paired else "plain")):
                s = denote[sd][role]
                exp = expected_style(s, j["tc"], {}, sd + "-style")
                opt = sd + {"plain": "-style", "emph": "-emph-style", "non-emph": "-non-emph-style"}[role]
                bad = []
                for w in words:
                    k = t.find(w)
                    bad += [c for c in row.cells[k:k + len(w)] if not style_matches(c, exp)] if k >= 0 else []
                if bad:
                    rel = _relation(role, *j["triples"][sd])
                    _viol(rep, "given:style-not-painted-as-given:%s:%s" % (opt, rel),
                          "the text %s governs (%s of a %s line: %r) does not carry exactly the colours / attributes of the string "
                          "given to it; the strings of the other options of its line kind: %s"
                          % (opt, "changed word" if role == "emph" else "unchanged words",
                             "paired" if paired else "unpaired", " ".join(words), rel),
                          dict(replay, option=opt, given=s, line=needle, relation=rel,
                               expected=T.style_key(*[e if not (isinstance(e, tuple) and e and e[0] == "quantised") else ("rgb",) + e[1]
                                                      for e in exp[:2]], exp[2]),
                               got=[T.style_key(c.fg, c.bg, c.attrs) for c in bad[:3]]))
        # trailing blanks of added lines are whitespace errors: whitespace-error-style governs them
        wexp = expected_style(j["assign"]["whitespace-error-style"], j["tc"], {}, "whitespace-error-style")
        for needle, last, n in INTERPLAY_TRAILING:
            row = rows.get(needle)
            if row is None:
                continue
            k = row.text().find(last) + len(last)
            bad = [c for c in row.cells[k:k + n] if not style_matches(c, wexp)]
            if bad:
                rel = "own-string" if j["ws_rel"] == "own" else "equal-to-" + j["ws_rel"]
                _viol(rep, "given:style-not-painted-as-given:whitespace-error-style:" + rel,
                      "the trailing blanks of an added line (a whitespace error) do not carry exactly the colours / attributes of "
                      "the string given to whitespace-error-style",
                      dict(replay, option="whitespace-error-style", given=j["assign"]["whitespace-error-style"], line=needle,
                           relation=rel, got=[T.style_key(c.fg, c.bg, c.attrs) for c in bad[:3]]))
        # zero lines
        zrow = next((r for r in dec.rows if r.text().startswith("zeroq0")), None)
        zexp = expected_style(j["assign"]["zero-style"], j["tc"], {}, "zero-style")
        if zrow is None or [c for c in zrow.cells[:6] if not style_matches(c, zexp)]:
            _viol(rep, "given:style-not-painted-as-given:zero-style:with-hunk-triples",
                  "an unchanged line does not carry exactly the colours / attributes of the string given to zero-style",
                  dict(replay, option="zero-style", given=j["assign"]["zero-style"]))
        # model requests: one per hunk line
        if annotation is None:
            continue
        ids, given = {}, []
        for o, v in sorted(j["assign"].items()):
            sd = o.split("-")[0]
            if v.endswith("-style") and " " not in v:
                v = j["assign"][v]
            ids.setdefault(_denotation(v), (len(ids) + 1, v))
            given.append("%s=%d:000:0" % (o, ids[_denotation(v)][0]))
        for sd in ("minus", "plus"):                  # an option not given: X-non-emph-style defaults to a reference to X-style
            if sd + "-non-emph-style" not in j["assign"]:
                given.append("%s-non-emph-style=%d:000:0" % (sd, ids[_denotation(j["assign"][sd + "-style"])][0]))
        by_id = {i: v for i, v in ids.values()}
        for needle, sd, paired, _, _ in INTERPLAY_ROWS:
            line = next(l for ms, ps in INTERPLAY_HUNKS for l in (ms if sd == "minus" else ps) if needle in l)
            secs, homolog = annotation[(sd, line)]
            if rows.get(needle) is None:
                continue
            mreqs.append("guards.line %s %d %s %s" % (sd.capitalize(), 1 if homolog else 0,
                                                      ",".join(("E" if e else "N") + ("1" if not t.strip() else "0") for e, t in secs) or "-",
                                                      ",".join(given)))
            mctx.append((j, replay, needle, sd, secs, rows[needle], by_id))
    if mreqs:
        ans, log = _guards_model(mreqs)           # interpreted model: independent of the lean_exe drivers
        if ans is None:
            rep.corr_case("guards.line", False, dict(error="model runner failed", log=log))
        else:
            for (j, replay, needle, sd, secs, row, by_id), req, a in zip(mctx, mreqs, ans):
                agree, detail = False, None
                m = re.fullmatch(r"ok (.*) \| (.*)", a)
                if m and not m.group(1).startswith("ERR"):
                    painted = [int(x.split(":")[0]) for x in m.group(1).split(",")] if m.group(1) != "-" else []
                    if len(painted) == len(secs):
                        t, pos, bad = row.text(), 0, []
                        for pid, (e, text) in zip(painted, secs):
                            for ch in text.rstrip("\n"):
                                cell = row.cells[pos] if pos < len(row.cells) else None
                                exp = expected_style(by_id[pid], j["tc"], {}, sd + "-style") if pid in by_id else None
                                if cell is None or cell.ch != ch or (exp is not None and not style_matches(cell, exp)):
                                    bad.append((pos, ch, by_id.get(pid), T.style_key(cell.fg, cell.bg, cell.attrs) if cell else None))
                                pos += 1
                        agree, detail = not bad, bad[:4]
                rep.count("guards.line:governs-" + ("defined" if m and not m.group(2).startswith("ERR") else "depends-on-configured-values"))
                rep.corr_case("guards.line", agree, dict(case=dict(replay, line=needle), request=req, model=a,
                                                         differs=[list(map(str, d)) for d in detail] if detail else None))

    # (2) groups of other options given one and the same string, on DIFF (binary_oracle's elements)
    if baseline is None:
        return
    groups = {"line-numbers": ["line-numbers-minus-style", "line-numbers-zero-style", "line-numbers-plus-style"],
              "line-numbers-sides": ["line-numbers-left-style", "line-numbers-right-style", "line-numbers-zero-style"],
              "hunk-header": ["hunk-header-style", "hunk-header-file-style", "hunk-header-line-number-style"],
              "commit-file": ["commit-style", "file-style"],
              "zero-minus-plus": ["zero-style", "minus-style", "plus-style"],
              "emph-both-sides": ["minus-emph-style", "plus-emph-style", "minus-style", "plus-style"],
              "whitespace-plus": ["whitespace-error-style", "plus-style", "plus-emph-style"],
              "file-hunk-header-file": ["file-style", "hunk-header-file-style"]}
    gjobs = []
    for gname, opts in sorted(groups.items()):
        for variant in ("all-equal", "first-two-equal", "all-but-first-equal"):
            for tc in (0, 1):
                a, b = gen_plain_style(rng), gen_plain_style(rng)
                if variant == "all-equal":
                    assign = {o: a for o in opts}
                elif variant == "first-two-equal":
                    assign = {o: (a if k < 2 else b) for k, o in enumerate(opts)}
                else:
                    assign = {o: (b if k == 0 else a) for k, o in enumerate(opts)}
                gjobs.append((gname, variant, assign, tc))

    def gargs(assign, tc):
        a = list(BASE_ARGS) + ["--true-color=" + ("always" if tc else "never")]
        hh = assign.get("hunk-header-style")
        a += ["--%s=%s" % (o, s) for o, s in sorted(assign.items()) if o != "hunk-header-style"]
        return a + ["--hunk-header-style=%s file line-number" % (hh if hh is not None else "normal")]
    gres = parallel_map(lambda g: ctx.run_delta(gargs(g[2], g[3]), DIFF), gjobs)
    for (gname, variant, assign, tc), (rc, out, err) in zip(gjobs, gres):
        replay = dict(kind="binary", args=gargs(assign, tc), stdin="DIFF", true_color=tc, group=gname, variant=variant)
        rep.case(key=("equal-strings", gname, variant, tuple(sorted(assign.items())), tc), nontrivial=True,
                 sample=dict(op="equal-strings", group=gname, variant=variant, assign=assign, true_color=tc, rc=rc))
        rep.count("equal-strings:" + gname)
        if rc != 0:
            _viol(rep, "given:style-rejected", "delta fails on style strings of the grammar", dict(replay, rc=rc))
            continue
        dec = T.decode(out)
        for o, s in assign.items():
            exp = expected_style(s, tc, baseline[tc], o)
            cells = find_cells(dec, o)
            if not cells:
                _viol(rep, "given:element-missing:" + o, "painted element not found in the output", dict(replay, option=o))
                continue
            bad = [c for c in cells if not style_matches(c, exp)]
            if bad:
                _viol(rep, "given:style-not-painted-as-given:%s:shares-string-with:%s" % (o, gname),
                      "text painted with the option does not carry exactly the colours / attributes of its string when other "
                      "style options are given the same (or another) string",
                      dict(replay, option=o, given=s, assign=assign, got=[T.style_key(c.fg, c.bg, c.attrs) for c in bad[:3]]))


# --------------------------------------------------------------------------- T12: decoration words inside style strings

# Independent statement of the rule (delta --help: "*-decoration-style … should contain one of the special attributes 'box',
# 'ul' (underline), 'ol' (overline), or the combination 'ul ol'"; parse_style.rs: in an element's own style string `box`,
# `underline`, `overline` request a decoration, `ul` stays a text attribute, `none` / `plain` are dropped in both).
_KINDNAME = {frozenset(): "none", frozenset(["ul"]): "ul", frozenset(["ol"]): "ol", frozenset(["ul", "ol"]): "ulol",
             frozenset(["box"]): "box", frozenset(["box", "ul"]): "boxul", frozenset(["box", "ol"]): "boxol",
             frozenset(["box", "ul", "ol"]): "boxulol"}


def _dw_tokens(s):
    return [w.strip("\"'") for w in s.lower().split()]


def decowords_rule(style, deco):
    """(kind name, the element's style string without its decoration words, the decoration string without shape words)."""
    sp, kept = set(), []
    for t in _dw_tokens(style):
        if t == "box":
            sp.add("box")
        elif t == "overline":
            sp.add("ol")
        elif t == "underline":
            sp.add("ul")
        elif t in ("none", "plain"):
            pass
        else:
            kept.append(t)
    dk, dkept = set(), []
    for t in _dw_tokens(deco or ""):
        if t == "box":
            dk.add("box")
        elif t in ("ol", "overline"):
            dk.add("ol")
        elif t in ("ul", "underline"):
            dk.add("ul")
        elif t in ("none", "plain"):
            pass
        else:
            dkept.append(t)
    return _KINDNAME[frozenset(sp or dk)], " ".join(kept), " ".join(dkept)


def _dw_canon(s):
    ws = sorted(set(w for w in _dw_tokens(s) if w in ("box", "ul", "ol", "underline", "overline", "none", "plain")))
    return "+".join(ws) or "-"


DW_DECO_VOCAB = ["box", "ul", "ol", "underline", "overline", "none", "plain", "red", "bold", "omit"]
DW_ELEM_VOCAB = ["box", "ul", "ol", "underline", "overline", "none", "plain", "red", "bold", "17", "omit", "raw"]
DW_DECO_STRINGS = ["-", "", "none", "ul", "blue ul", "box", "ol ul", "bold red box ul ol", "underline", "omit ul", "OL  'box'"]


def corr_decowords(ctx, rep, mdl):
    """Hook `style.parse special|deco` (the real `from_str_with_handling_of_special_decoration_attributes` /
    `DecorationStyle::from_str`) vs the table-driven model functions `DecoWords.fromStrSpecialT` / `parseDecoT`
    (`decowords.parse`), exhaustively over small vocabularies; `cfg [--color-only]` + `style.config_style` vs
    `DecoWords.configStyleT` (`decowords.config`). Direct oracle on the hook's answers: the decoration kind is the
    independent rule's; the text part of an element style equals the implementation's own plain parse of the string with
    the decoration words removed."""
    rng = ctx.rng
    cases = []
    ex = [""]
    for n in (1, 2, 3):
        ex += [" ".join(t) for t in itertools.product(DW_DECO_VOCAB, repeat=n)]
    if ctx.quick():
        ex = [e for e in ex if len(e.split()) <= 2 or rng.random() < 0.3]
    for e in ex:
        cases.append(("deco", e, "-"))
    for e in ["raw ul", "syntax box", "ul raw", "omit ul", "auto box", "ul auto auto", "Box UL", "\"ul\" 'ol'", "ul\tol", "ul ul ul"]:
        cases.append(("deco", e, "-"))
    el = [""]
    for n in (1, 2):
        el += [" ".join(t) for t in itertools.product(DW_ELEM_VOCAB, repeat=n)]
    for e in el:
        for d in (DW_DECO_STRINGS if not ctx.quick() or len(e.split()) < 2 else rng.sample(DW_DECO_STRINGS, 4)):
            cases.append(("special", e, d))
    for _ in range(ctx.n(200, 3000)):
        e = mess_case(rng, " ".join(rng.choice(DW_ELEM_VOCAB) for _ in range(rng.randint(1, 4))))
        cases.append(("special", e, rng.choice(DW_DECO_STRINGS)))
    hreq, mreq, preq = [], [], []
    for kind, e, d in cases:
        df = "-" if d == "-" else hx(d)
        hreq.append("style.parse %s - 1 %s %s" % (kind, hx(e), df))
        mreq.append("decowords.parse %s - 1 %s %s -" % (kind, hx(e), df))
        if kind == "special":
            preq.append("style.parse plain - 1 %s -" % hx(decowords_rule(e, "")[1]))
    impl = [canon_fatal(r) for r in ask_hook_chunked(ctx, hreq)]
    plain = iter([canon_fatal(r) for r in ask_hook_chunked(ctx, preq)])
    model = mdl.ask(mreq)
    for (kind, e, d), i, m in zip(cases, impl, model):
        rep.case(key=("decowords", kind, e, d), nontrivial=bool(e.strip()),
                 sample=dict(op="style.parse", kind=kind, style=e, deco=d, impl=i))
        rep.count("decowords:" + kind + ":" + ("fatal" if i.startswith("FATAL") else "ok" if i.startswith("ok") else "other"))
        rep.corr_case("decowords.parse", i == m, dict(kind=kind, style=e, deco=d, impl=i, model=m))
        replay = dict(kind="hook", op="style.parse", parse_kind=kind, style=e, deco=d)
        if kind == "deco":
            if i.startswith("ok "):
                want = decowords_rule("", e)[0]
                got = i.split(" ")[1].split("/")[0]
                if got != want:
                    _viol(rep, "decowords:hook:decoration-kind-differs:deco-words=" + _dw_canon(e),
                          "DecorationStyle::from_str: the decoration kind is not that of the set of shape words",
                          dict(replay, expected=want, got=i))
            elif not i.startswith("FATAL"):
                _viol(rep, "decowords:hook:decoration-string-aborts", "DecorationStyle::from_str aborts", dict(replay, got=i))
            continue
        pl = next(plain)
        if i.startswith("ok "):
            f = i.split(" ")
            want = decowords_rule(e, "" if d == "-" else d)[0]
            if f[3].split("/")[0] != want:
                _viol(rep, "decowords:hook:decoration-kind-differs:style-words=%s" % _dw_canon(e),
                      "the decoration kind is not that of the style string's decoration words (else the decoration option's)",
                      dict(replay, expected=want, got=i))
            if not pl.startswith("ok ") or pl.split(" ")[1:3] != f[1:3]:
                _viol(rep, "decowords:hook:text-part-differs:style-words=" + _dw_canon(e),
                      "the text colours / attributes of an element style differ from those of the string without its decoration words",
                      dict(replay, stripped=decowords_rule(e, "")[1], plain=pl, got=i))
        elif not i.startswith("FATAL"):
            _viol(rep, "decowords:hook:element-style-aborts", "from_str_with_handling_of_special_decoration_attributes aborts",
                  dict(replay, got=i))
    # --color-only through the whole Config
    jobs = []
    pairs = [("yellow box", "blue ul"), ("underline red", "none"), ("overline bold", "box"), ("ul 17", "ol"),
             ("box underline overline", "bold red box ul ol"), ("red", "blue box"), ("none box", ""), ("BOX ul", "green ul ol")]
    for key in ("commit-style", "file-style", "hunk-header-style"):
        for co in (0, 1):
            for e, d in pairs:
                jobs.append((key, co, e, d))

    def one(job):
        key, co, e, d = job
        a = [hx("--%s=%s" % (key, e)), hx("--%s=%s" % (DECO_OPTION[key], d))] + ([hx("--color-only")] if co else [])
        return ctx.hook().ask(["cfg " + " ".join(a), "style.config_style " + key], sticky=[0])
    res = parallel_map(one, jobs)
    model = mdl.ask(["decowords.config %d %s 1 %s %s -" % (co, hx(key), hx(e), hx(d)) for key, co, e, d in jobs])
    for (key, co, e, d), r, m in zip(jobs, res, model):
        got = " ".join(r[1].split(" ")[:4])
        rep.case(key=("decowords.config", key, co, e, d), nontrivial=True)
        rep.count("decowords:config:color-only=%d" % co)
        rep.corr_case("decowords.config", got == m, dict(option=key, color_only=co, style=e, deco=d, impl=got, model=m))
        if got.startswith("ok "):
            want = "none" if co else decowords_rule(e, d)[0]
            if got.split(" ")[3].split("/")[0] != want:
                _viol(rep, "decowords:config:decoration-kind-differs:%s:color-only=%d:style-words=%s" % (key, co, _dw_canon(e)),
                      "the configured style's decoration is not the rule's (none under --color-only)",
                      dict(kind="hook", option=key, color_only=co, style=e, deco=d, expected=want, got=got))


DW_ELEMENT_WORDS = ["", "box", "underline", "overline", "underline overline", "overline underline", "box underline", "BOX",
                    "\"box\"", "none", "plain", "ul", "ul underline", "ul box", "box box", "box overline",
                    "box underline overline", "none box"]
DW_OPTION_WORDS = ["none", "", "ul", "ol", "ul ol", "ol ul", "box", "box ul", "UL", "underline", "overline",
                   "Underline OVERLINE", "ul ul", "'box'", "plain", "box ol", "box ul ol", "none ul"]


def _observed_shape(dec, starts):
    """Shape of what is drawn around the first row whose text starts with / contains `starts`: none ul ol ulol box boxul."""
    rows = [r.text() for r in dec.rows]
    at = next((k for k, t in enumerate(rows) if (t.startswith(starts[1:]) if starts[0] == "^" else starts[1:] in t)), None)
    if at is None:
        return None, None
    t = rows[at]
    def rule(k):
        return 0 <= k < len(rows) and rows[k] != "" and all(c in "─━" for c in rows[k])
    if any(c in "│┃" for c in t):
        below = rows[at + 1] if at + 1 < len(rows) else ""
        return ("boxul" if any(c in "┴┻" for c in below) else "box"), at
    ol, ul = rule(at - 1), rule(at + 1)
    return ("ulol" if ol and ul else "ol" if ol else "ul" if ul else "none"), at


_DW_NEEDLE = {"file-style": "^fileq.zzz", "commit-style": "^commit 1111", "hunk-header-style": "~fragq"}


def deco_words_oracle(ctx, rep):
    """Real binary: commit line, file header, hunk header x decoration words in the element's own style string x shape words
    in the `*-decoration-style` option (orders, case, quotes, repetitions, both spellings), the other decorations off.
    The shape drawn must be that of the rule (words of the style string win over the option's; `ul` in the style string is
    not a shape word), the rule / box carries the decoration option's colours, the text exactly the colours / attributes of
    the style string without its decoration words. With --color-only: one output line per input line, nothing drawn."""
    rng = ctx.rng
    els = [e for e in decorated_elements() if e[0] in _DW_NEEDLE]
    jobs = []
    for el in els:
        combos = set()
        for ew in DW_ELEMENT_WORDS:
            for dw in (DW_OPTION_WORDS if not ctx.quick() else rng.sample(DW_OPTION_WORDS, 5)):
                combos.add((ew, dw))
        for dw in DW_OPTION_WORDS:
            for ew in (rng.sample(DW_ELEMENT_WORDS, 2) if ctx.quick() else []):
                combos.add((ew, dw))
        for ew, dw in sorted(combos):
            base = (rng.choice(DECO_TEXT_COLOURS) + " " + rng.choice(["", "", "bold", "italic", "ul", "strike"])).split()
            words = ew.split()
            # decoration words at random positions among the colour / attribute words (order of the colours kept)
            toks = list(base)
            for w in words:
                toks.insert(rng.randint(0, len(toks)), w)
            deco = dw if dw in ("none", "", "plain") else (rng.choice(DECO_PREFIXES) + dw)
            jobs.append(dict(el=el, style=" ".join(toks), deco=deco, tc=rng.randint(0, 1), co=False,
                             width=rng.choice(["60", "60", "variable", "23"]), kind="words", src="cli"))
        for ew in ["box", "underline", "overline underline", "ul box", ""]:
            for dw in ["blue box", "ul", "none"]:
                jobs.append(dict(el=el, style=("yellow " + ew).strip(), deco=dw, tc=1, co=True, width="60", kind="words", src="cli"))

    def argv(j):
        label, opt, deco_opt, stdin, env, args, finder, suffix, mreq = j["el"]
        a = [("--width=" + j["width"]) if x.startswith("--width=") else x for x in args]
        a.append("--true-color=" + ("always" if j["tc"] else "never"))
        a.append("--%s=%s" % (opt, j["style"] + suffix))
        a.append("--%s=%s" % (deco_opt, j["deco"]))
        if j["co"]:
            a = [x for x in a if not x.startswith("--line-numbers")] + ["--color-only"]
        return a
    results = parallel_map(lambda j: ctx.run_delta(argv(j), DIFF), jobs)
    corr = []
    n_in = len(DIFF.split(b"\n"))
    for j, (rc, out, err) in zip(jobs, results):
        label, opt, deco_opt, stdin, env, args, finder, suffix, mreq = j["el"]
        a = argv(j)
        kind, kept, dkept = decowords_rule(j["style"], j["deco"])
        tail = "%s:style-words=%s:deco-words=%s" % (label, _dw_canon(j["style"]), _dw_canon(j["deco"]))
        rep.case(key=("decowords-binary", label, j["style"], j["deco"], j["tc"], j["co"], j["width"]), nontrivial=True,
                 sample=dict(op="decowords", element=label, style=j["style"], decoration=j["deco"], color_only=j["co"], rc=rc))
        rep.count("decowords:binary:%s:%s%s" % (label, kind, ":color-only" if j["co"] else ""))
        replay = dict(kind="decorated", element=label, option=opt, style=j["style"] + suffix, decoration_option=deco_opt,
                      decoration=j["deco"], args=a, env={}, stdin="DIFF", true_color=j["tc"], source="cli", gitconfig=None)
        if rc != 0:
            if oracle_parse(kept) != "error" and oracle_parse(dkept) != "error":
                _viol(rep, "decowords:valid-style-rejected:" + tail, "delta fails on decoration words of the grammar",
                      dict(replay, rc=rc, stderr=err.decode("utf-8", "replace")[-300:]))
            continue
        dec = T.decode(out)
        if j["co"]:
            drawn = [c for r in dec.rows for c in r.cells if c.ch in RULECH]
            if drawn:
                _viol(rep, "decowords:color-only:decoration-drawn:" + tail,
                      "--color-only draws a decoration requested by a style string", replay)
            if len(out.split(b"\n")) != n_in:
                _viol(rep, "decowords:color-only:line-count-differs:" + tail,
                      "--color-only does not emit one line per input line", dict(replay, lines_in=n_in, lines_out=len(out.split(b"\n"))))
            continue
        shape, at = _observed_shape(dec, _DW_NEEDLE[label])
        if shape is None:
            _viol(rep, "decowords:element-missing:" + tail, "the decorated text is not in the output", replay)
            continue
        # draw.rs draws `box ol` and `box ul ol` as a plain box ("TODO: not implemented"); the help promises neither
        ok = (shape == kind) or (kind in ("boxol", "boxulol") and shape in ("box", "boxul"))
        if not ok:
            _viol(rep, "decowords:shape-differs:" + tail,
                  "the decoration drawn is not that of the decoration words (style string's words first, else the option's)",
                  dict(replay, expected=kind, got=shape, rows=[r.text() for r in dec.rows[max(0, at - 1):at + 2]]))
        exp = expected_style(kept, j["tc"], {}, opt)
        cells = finder(dec)
        if exp is not None and cells:
            bad = [c for c in cells if not style_matches(c, exp)]
            if bad:
                _viol(rep, "decowords:text-style-differs:" + tail,
                      "the text does not carry exactly the colours / attributes of its style string without the decoration words",
                      dict(replay, stripped=kept, got=[T.style_key(c.fg, c.bg, c.attrs) for c in bad[:3]]))
        dexp = expected_style(dkept, j["tc"], {}, deco_opt)
        rule = [c for r in dec.rows for c in r.cells if c.ch in RULECH]
        if kind != "none" and dexp is not None and rule:
            heavy = "bold" in dexp[2]
            if [c for c in rule if not style_matches(c, dexp)] or [c for c in rule if (c.ch in "━┃┓┛┻") != heavy]:
                _viol(rep, "decowords:rule-style-differs:" + tail,
                      "the rule / box does not carry the colours / attributes of the decoration option's string",
                      dict(replay, decoration_without_shape_words=dkept))
        if mreq is not None and j["tc"] == 1 and oracle_parse(kept) != "error":
            jj = dict(j, kind="words:" + kind)
            corr.append((jj, a, out, replay))
    _corr_draw_header(ctx, rep, corr)


def run(ctx, rep):
    rep.rule = ("style strings: exhaustive <=3 tokens over a 14-word vocabulary (attributes, omit/raw, named, bright, "
                "number, #rrggbb, normal/auto/syntax), all 256 palette numbers as fg and bg, random #rrggbb, random "
                "full-grammar strings with mixed case/quotes/separators, malformed words, decoration words; three "
                "defaults x two colour depths; binary: random assignments to 16 style options on one diff; decorated text: "
                "10 elements drawn by draw.rs (file header with / without mode addendum, commit line, hunk-header code / file / "
                "line number, merge-conflict ours / theirs headers, ripgrep and classic grep headers) x 9 decoration kinds "
                "(option unset, none, ul, ol, ul ol, box, box ul, box ol, box ul ol; random colour / bold prefix) x every single "
                "attribute + random attribute sets + all eight + colours only, command line / git config, fixed / variable width; "
                "other options: the triples (X-style, X-emph-style, X-non-emph-style), X = minus / plus, over nine relations of their "
                "strings (all different, emph = non-emph, the same respelt, all equal, emph = plain, non-emph = plain, non-emph not "
                "given / a reference to the emph / plain option) on paired and unpaired lines, command line / git config, both depths, "
                "every character also against the Lean model (guards.line); eight groups of other options given one and the same string. "
                "Non-trivial = at least one word; distinct by (op, default, depth, string)")
    rep.extra_trusted += ["ansi_colours::ansi256_from_rgb (oracle of the model; sanity-bounded against the xterm palette)",
                          "str::to_lowercase / split_whitespace (modelled for ASCII; generators are ASCII)",
                          "vlib/termmodel.py (independent terminal decoder)"]
    mdl = ctx.model("drv_style") if ctx.drivers_ok else None
    orc = Oracle256(ctx)
    if mdl is not None:
        cases, impl = corr_parse(ctx, rep, mdl, orc)
        corr_color(ctx, rep, mdl, orc)
        corr_display_paint(ctx, rep, mdl, impl)
        display_property_oracle(ctx, rep, cases, impl)
        corr_config(ctx, rep, mdl, orc)
        corr_decowords(ctx, rep, mdl)
    invariance_oracle(ctx, rep, orc)
    baseline = binary_oracle(ctx, rep)
    other_options_oracle(ctx, rep, baseline)
    depth_uniformity_oracle(ctx, rep)
    indirect_styles_oracle(ctx, rep)
    given_style_oracle(ctx, rep)
    decorated_text_oracle(ctx, rep)
    deco_words_oracle(ctx, rep)
    show_config_round_trip(ctx, rep)


def replay(ctx, rep, obj):
    """Re-run one recorded case against the current tree (then the normal run for context)."""
    case = obj.get("case", {})
    if case.get("kind") == "binary":
        rc, out, err = ctx.run_delta(case["args"], DIFF)
        print("replay rc=%s" % rc)
        print(out.decode("utf-8", "replace"))
    elif case.get("kind") == "decorated":
        if case.get("gitconfig"):
            _home_with_gitconfig(os.path.basename(case["env"]["HOME"])[len("home-c12-"):], case["gitconfig"])
        rc, out, err = ctx.run_delta(case["args"], DECO_STDIN[case["stdin"]], env=case.get("env") or {})
        print("replay rc=%s  (%s = %r, %s = %r, %s)" % (rc, case["option"], case["style"], case["decoration_option"],
                                                        case["decoration"], case["source"]))
        print(out.decode("utf-8", "replace"))
        for r in T.decode(out).rows:
            print(repr(r.text()), r.runs())
    elif case.get("kind") == "interplay":
        if case.get("gitconfig"):
            _home_with_gitconfig(os.path.basename(case["env"]["HOME"])[len("home-c12-"):], case["gitconfig"])
        rc, out, err = ctx.run_delta(case["args"], INTERPLAY_DIFF, env=case.get("env") or {})
        print("replay rc=%s  patterns=%s  %s" % (rc, case.get("patterns"), case.get("source")))
        for o, v in sorted(case["assign"].items()):
            print("  %s = %r" % (o, v))
        print(out.decode("utf-8", "replace"))
        for r in T.decode(out).rows:
            print(repr(r.text()), r.runs())
    elif case.get("kind") == "show-config":
        print("replay show-config:", case)
    elif case.get("kind") == "depth":
        rc, out, err = ctx.run_delta(["--no-gitconfig", "--line-numbers"] + case["args"] + ["--show-config"], b"")
        print("replay rc=%s" % rc)
        for r in T.decode(out).rows:
            if case["option"] in r.text():
                print(r.text(), sorted({(c.fg, c.bg) for c in r.cells if c.fg or c.bg}))
    run(ctx, rep)
