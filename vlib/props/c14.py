"""C14 — one header per file section (right file, right event) and one per hunk."""
from .. import machine as M

DRIVERS = ["drv_machine"]
GENERATED = ["Handlers", "Markers", "MiscHandler", "SubmoduleLog", "CommitMeta"]


def lbl(s):
    return s + " " if s else ""


def expected_file_header(cfg, f):
    d = cfg.d
    arrow = d["rightArrow"]
    k = f["kind"]
    old, new = f["old"], f["new"]
    mode = ""
    if "mode" in f:
        a, b = f["mode"]
        mode = {("100644", "100755"): "mode +x", ("100755", "100644"): "mode -x"}.get((a, b), f"mode {a} {arrow} {b}")
    if k == "submodule_log":
        return M.canon_text("file", f["log_header"])        # the `Submodule …` line itself, no label, no mode change
    if k == "plain":
        t = f"{lbl(d['lblModified'])}{old} {arrow} {new}"
    elif k in ("renamed", "renamed_changed", "renamed_binary_changed"):
        t = f"{lbl(d['lblRenamed'])}{old} {arrow} {new}"
    elif k in ("copied", "copied_binary_changed"):
        t = f"{lbl(d['lblCopied'])}{old} {arrow} {new}"
    elif k == "binary_deleted":
        t = f"{lbl(d['lblRemoved'])}{old} (binary file)"
    elif k in ("added", "empty_added", "submodule_added"):
        t = f"{lbl(d['lblAdded'])}{new}"
    elif k == "binary_added":
        t = f"{lbl(d['lblAdded'])}{new} (binary file)"
    elif k in ("deleted", "submodule_deleted"):
        t = f"{lbl(d['lblRemoved'])}{old}"
    elif k == "binary":
        t = f"{lbl(d['lblModified'])}{new} (binary file)"
    else:
        t = f"{lbl(d['lblModified'])}{new}"
    if mode:
        t = f"{t} ({mode})"
    return M.canon_text("file", t)


ALL_KINDS = M.FILE_KINDS + M.EXTRA_FILE_KINDS
BINARY_KINDS = ["binary", "binary_added", "binary_deleted", "binary_mode_changed", "renamed_binary_changed", "copied_binary_changed",
                "binary_noindex"]


def binary_family(ctx, rng):
    """(cfg, lines, files) for every kind of section with a `Binary files` line x {first, after another section} x
    {last, before another section, before a commit block and a section, before a second section of the same kind}"""
    out = []
    for _ in range(ctx.n(1, 12)):
        for kind in BINARY_KINDS:
            for before in (False, True):
                for after in ("end", "diff", "commit", "same"):
                    cfg = M.gen_cfg(rng, color_only=False)
                    cfg.d["fileRaw"] = 0; cfg.d["fileOmit"] = 0
                    prefixes = rng.choice([("a/", "b/")] * 3 + [("i/", "w/"), ("", "")])
                    others = [k for k in ALL_KINDS if k != "binary_noindex"]
                    files, lines = [], []
                    def add(k):
                        f = M.gen_file(rng, kind=k, prefixes=prefixes)
                        f["first_line"] = len(lines)
                        lines.extend(f["lines"]); files.append(f)
                    if before:
                        add(rng.choice(others))
                    add(kind)
                    if after == "commit":
                        lines.extend(M.gen_commit(rng))
                    if after != "end":
                        add(kind if after == "same" else rng.choice(others))
                    out.append((cfg, lines, files))
    return out


def late_log_family(ctx, rng):
    """(cfg, lines, files): every kind of file section - in particular those whose header is written late (mode-only change,
    empty added file, binary file modified/added/deleted/with a mode change) - directly followed by a submodule log
    (`git diff --submodule=log`: `Submodule <path> <range>:` + subjects) x {first, after another section} x {the log is the last
    section, before a file section, before a second log, before a commit block and a section}. The header of the file section
    must come first, once, with its own text (names, event, mode change); the log's header is the `Submodule …` line itself.
    (Before the repair of handle_submodule_log_line: header after the log or missing, mode change shown on the log's header.)"""
    out = []
    others = [k for k in ALL_KINDS if k != "binary_noindex"]
    for _ in range(ctx.n(1, 10)):
        for kind in M.LATE_HEADER_KINDS + [k for k in others if k not in M.LATE_HEADER_KINDS]:
            late = kind in M.LATE_HEADER_KINDS
            for before in ((False, True) if late else (rng.random() < 0.5,)):
                for after in (("end", "diff", "log", "commit") if late else (rng.choice(["end", "diff", "log", "commit"]),)):
                    cfg = M.gen_cfg(rng, color_only=False)
                    cfg.d["fileRaw"] = 0; cfg.d["fileOmit"] = 0
                    prefixes = rng.choice([("a/", "b/")] * 3 + [("i/", "w/"), ("", "")])
                    files, lines = [], []
                    def add(k):
                        f = M.gen_file(rng, kind=k, prefixes=prefixes)
                        f["first_line"] = len(lines)
                        lines.extend(f["lines"]); files.append(f)
                    if before:
                        add(rng.choice(others))
                    add(kind)
                    add("submodule_log")
                    if after == "commit":
                        lines.extend(M.gen_commit(rng))
                    if after == "log":
                        add("submodule_log")
                    elif after != "end":
                        add(rng.choice(others))
                    out.append((cfg, lines, files))
    return out


COMMIT_STYLES = [("decorated", dict(commitRaw=0, commitOmit=0)), ("omitted", dict(commitRaw=0, commitOmit=1)),
                 ("raw", dict(commitRaw=1, commitOmit=0, commitDeco=0)), ("raw-decorated", dict(commitRaw=1, commitOmit=0))]
MSG_LINES = ["    Fix the thing", "    Ünïcode subject", "    diff --git a/no b/no", "    --- a/not-a-header", "    +++ b/not-a-header",
             "    @@ -1 +1 @@ not a hunk", "    Binary files a and b differ", "    Submodule x 1..2:", "    old mode 100644",
             "    commit 1234567 (quoted)", "", "Notes:", "    a note"]


def gen_commit_block(rng, idx, merge=False):
    """a commit block of `git log -p`: commit line, Merge:/Author:/Date:, blank, indented message (any text), blank.
    The Author line carries `idx` so that the oracle finds the block in the output."""
    h = "%040x" % (0x1234567890abcdef1234567890abcdef12345678 + idx)
    out = ["commit " + h + rng.choice(["", " (HEAD -> main)", " (tag: v1.0)"])]
    if merge:
        out.append("Merge: 1111111 2222222")
    out += [f"Author: A U Thor <a{idx}@example.com>", "Date:   Mon Jan 1 00:00:00 2024 +0000", ""]
    out += [rng.choice(MSG_LINES[:10]) for _ in range(rng.randint(1, 3))]
    if rng.random() < 0.3:
        out += ["", "Notes:", "    a note"]
    out.append("")
    return out


def log_family(ctx, rng):
    """(cfg, lines, files, blocks) in the shapes of `one_file_header_per_section_log` (T19): `git log -p` streams - commits with
    any number of sections (also none: two commit blocks in a row, a commit block as the last thing), every section kind - the
    six whose header is written late in every shape - directly before a commit block, x the four kinds of commit style
    (decorated, omitted, raw, raw with a decoration). `blocks` = [(index of the commit line, idx of the Author marker)]."""
    out = []
    others = [k for k in ALL_KINDS if k not in ("binary_noindex",)]
    for _ in range(ctx.n(1, 10)):
        kinds = M.LATE_HEADER_KINDS + rng.sample([k for k in others if k not in M.LATE_HEADER_KINDS], 4)
        for kind in kinds:
            late = kind in M.LATE_HEADER_KINDS
            shapes = ("commit-section", "commit-commit-section", "commit-last", "diff-then-log") if late else \
                (rng.choice(["commit-section", "commit-commit-section", "commit-last", "diff-then-log"]),)
            for shape in shapes:
                sname, sd = COMMIT_STYLES[(len(out) + len(out) // 4) % 4]     # every style with every shape
                cfg = M.gen_cfg(rng, color_only=False)
                cfg.d["fileRaw"] = 0; cfg.d["fileOmit"] = 0
                cfg.d.update(sd)
                prefixes = rng.choice([("a/", "b/")] * 3 + [("i/", "w/"), ("", "")])
                files, lines, blocks = [], [], []
                def add(k):
                    f = M.gen_file(rng, kind=k, prefixes=prefixes)
                    f["first_line"] = len(lines)
                    lines.extend(f["lines"]); files.append(f)
                def commit(merge=False):
                    blocks.append((len(lines), len(blocks)))
                    lines.extend(gen_commit_block(rng, len(blocks) - 1, merge))
                if shape != "diff-then-log":
                    commit()                                  # the stream begins with a commit
                    if rng.random() < 0.5:
                        add(rng.choice(others))
                add(kind)                                     # the section under test, directly before a commit block
                commit(merge=rng.random() < 0.3)
                if shape == "commit-commit-section":
                    commit()                                  # a commit without a diff
                if shape != "commit-last":
                    add(rng.choice(others))
                    if rng.random() < 0.4:
                        add(rng.choice(M.LATE_HEADER_KINDS))      # late header at the end of input
                out.append((cfg, lines, files, blocks, sname + ":" + shape))
    # a hunk header still pending at the commit line (an `@@` line no hunk line follows; not something git writes), under a raw
    # hunk-header style and a raw commit style: the one state with an unhandled style a commit line can be met in under these
    # configurations - the commit line must still put the machine into the commit block (header dropped, message passed through)
    for k in range(ctx.n(2, 8)):
        cfg = M.gen_cfg(rng, color_only=False)
        cfg.d["fileRaw"] = 0; cfg.d["fileOmit"] = 0
        cfg.d.update(dict(commitRaw=1, commitOmit=0, commitDeco=0, hhRaw=1, hhOmit=0, hhDeco=0))
        files, lines, blocks = [], [], []
        f = M.gen_file(rng, kind="modified", prefixes=("a/", "b/"))
        f["first_line"] = 0
        lines.extend(f["lines"]); files.append(f)
        lines.append("@@ -200,2 +300,2 @@ dangling")
        blocks.append((len(lines), 0))
        lines.extend(gen_commit_block(rng, 0))
        if k % 2:
            g = M.gen_file(rng, kind=rng.choice(["modified", "renamed", "mode_only"]), prefixes=("a/", "b/"))
            g["first_line"] = len(lines)
            lines.extend(g["lines"]); files.append(g)
        out.append((cfg, lines, files, blocks, "raw:pending-hunk-header-at-commit-line"))
    return out


def combined_family(ctx, rng):
    """(cfg, lines, files, shape) in the shapes of `one_file_header_per_section_combined` (T22): streams of several combined-diff
    sections without conflict regions - modified in both parents (optionally with a `mode a,b..c` line), added in the merge
    (`new file mode`, `--- /dev/null`), deleted (`diff --combined`, `deleted file mode a,b`, `+++ /dev/null`) -, bare (`git diff`
    during a merge) or with commit blocks before / between them (`git show <merge>`, `git log -p --cc`), x the commit styles."""
    out = []
    for n in range(ctx.n(12, 120)):
        cfg = M.gen_cfg(rng, color_only=False)
        cfg.d["fileRaw"] = 0; cfg.d["fileOmit"] = 0
        sname, sd = COMMIT_STYLES[n % 4]
        cfg.d.update(sd)
        with_commits = n % 3 != 0
        files, lines, kinds = [], [], []
        nblocks = 0
        used = set()
        for j in range(rng.randint(2, 4)):
            if with_commits and (j == 0 or rng.random() < 0.5):
                lines.extend(gen_commit_block(rng, nblocks, True)); nblocks += 1
            l1, f1 = M.gen_combined_diff(rng, conflict=False)
            f = f1[0]
            if f["new"] in used:
                continue
            used.add(f["new"])
            p = f["new"]
            kind = rng.choice(["modified", "mode", "added", "deleted"])
            l1 = list(l1)
            if kind == "mode":
                l1.insert(2, "mode 100644,100644..100755")
            elif kind == "added":
                l1.insert(1, "new file mode 100644")
                l1[l1.index(f"--- a/{p}")] = "--- /dev/null"
                f["kind"] = "added"; f["old"] = "/dev/null"
            elif kind == "deleted":
                l1[0] = f"diff --combined {p}"
                l1.insert(1, "deleted file mode 100644,100644")
                l1[l1.index(f"+++ b/{p}")] = "+++ /dev/null"
                f["kind"] = "deleted"; f["new"] = "/dev/null"
            f["lines"] = l1; f["first_line"] = len(lines); f["nparents"] = 2
            lines.extend(l1); files.append(f); kinds.append(kind)
        if with_commits and rng.random() < 0.3:
            lines.extend(gen_commit_block(rng, nblocks, False))      # a commit block last
        if files:
            out.append((cfg, lines, files, ("log:" + sname if with_commits else "bare") + ":" + "+".join(sorted(set(kinds)))))
    return out


def run(ctx, rep):
    rep.rule = ("git diffs over all 20 section kinds (incl. renamed/copied binary file with changes, deleted binary file, binary file "
                "with a mode change, submodule log of diff.submodule=log; every kind with a `Binary files` line also first/after a "
                "section and last/before a section/before a commit block/twice; every kind - all six whose header is written late in "
                "every position - directly before a submodule log that is last/before a section/before a second log/before a commit "
                "block) x path shapes (spaces, non-ASCII, mnemonic prefixes, /dev/null sides) x "
                "hunks present/absent x neighbours, plus git log -p streams (commit blocks before/between/after sections, commits without a diff, every section kind directly before a commit block x 4 commit styles), plus plain diff -u; label/arrow/style settings random; non-trivial = >= 2 "
                "sections or a rename/copy/mode/binary event; distinct by (config, input)")
    rng = ctx.rng
    cases, meta = [], []
    for i in range(ctx.n(300, 8000)):
        cfg = M.gen_cfg(rng, color_only=False)
        cfg.d["fileRaw"] = 0; cfg.d["fileOmit"] = 0
        if i % 4 == 3:
            cfg.d["hhFragment"] = 0     # hunk-header-style word `omit-code-fragment` (T13; no draw from rng: streams unchanged)
        r = rng.random()
        if r < 0.7:
            # one time in three the kinds are drawn from all shapes gen_file knows (incl. deleted binary file, binary file + mode)
            kinds = [rng.choice(ALL_KINDS) for _ in range(4)] if rng.random() < 0.35 else None
            lines, files = M.gen_git_diff(rng, kinds=kinds)
            src = "git"
        elif r < 0.82:
            # `git diff` during a merge: one combined hunk, with conflict regions (sometimes as the first thing in the hunk)
            lines, files = M.gen_combined_diff(rng)
            if rng.random() < 0.4 and "++<<<<<<< HEAD" in lines:
                lines = lines[:5] + lines[lines.index("++<<<<<<< HEAD"):]
                files[0]["lines"] = lines
            if rng.random() < 0.5:
                l2, f2 = M.gen_git_diff(rng, with_commit=False)
                lines, files = (l2 + lines, f2 + files) if rng.random() < 0.5 else (lines + l2, files + f2)
            src = "git"
        else:
            lines, files = M.gen_plain_diff(rng)
            src = "plain"
        cases.append((cfg, [l.encode() for l in lines])); meta.append((cfg, lines, files, src))
    # every section shape with a `Binary files` line x what comes before x what comes after (the header of such a section is
    # written late - at the next `diff` / `commit` line or at the end of input - or, after rename / copy lines, at once)
    for cfg, lines, files in binary_family(ctx, rng):
        cases.append((cfg, [l.encode() for l in lines])); meta.append((cfg, lines, files, "git"))
    # every section shape directly before a submodule log (a late header must be written before the log's header)
    for cfg, lines, files in late_log_family(ctx, rng):
        cases.append((cfg, [l.encode() for l in lines])); meta.append((cfg, lines, files, "git"))
    # `git log -p` streams (T19): commit blocks before / between / after the sections, commits without a diff, every commit style
    logmeta = {}
    for cfg, lines, files, blocks, shape in log_family(ctx, rng):
        logmeta[len(cases)] = (blocks, shape)
        cases.append((cfg, [l.encode() for l in lines])); meta.append((cfg, lines, files, "git"))
    # streams of combined-diff sections without conflict regions, with and without commit blocks (T22)
    ccmeta = {}
    for cfg, lines, files, shape in combined_family(ctx, rng):
        ccmeta[len(cases)] = shape
        cases.append((cfg, [l.encode() for l in lines])); meta.append((cfg, lines, files, "git"))
    res = M.observe(ctx, cases)
    for ci, ((cfg, lines, files, src), (impl, model)) in enumerate(zip(meta, res)):
        if ci in ccmeta:
            rep.count("combined-shape:" + ccmeta[ci])
        if ci in logmeta and impl.ok and not impl.panic:
            # the header of a section directly before a commit block stands before that block in the output (for a section
            # without `---`/`+++` lines it is written at the commit line), and no file header is written for a commit block
            blocks, shape = logmeta[ci]
            rep.count("log-shape:" + shape)
            case0 = dict(args=cfg.args(), model_cfg=cfg.d, input="\n".join(lines), source=src)
            fpos = [i for i, (k, t) in enumerate(impl.rows) if k == "file"]
            headed0 = [f for f in files if f["kind"] != "binary_noindex"]
            for at, idx in blocks:
                marker = f"Author: A U Thor <a{idx}@example.com>"
                apos = [i for i, (k, t) in enumerate(impl.rows) if t == marker]
                if len(apos) != 1:
                    rep.violation("commit-block:message-line-not-passed-through", f"{marker!r} is shown {len(apos)} times", case0)
                    continue
                nbefore = len([f for f in headed0 if f["first_line"] < at])
                got_before = len([i for i in fpos if i < apos[0]])
                prev = [f for f in headed0 if f["first_line"] + len(f["lines"]) == at]
                if prev:
                    rep.count("before-commit-block:" + ("late:" if prev[0]["kind"] in M.LATE_HEADER_KINDS else "") + prev[0]["kind"])
                if len(fpos) == len(headed0) and got_before != nbefore:
                    rep.violation("file-header:not-before-following-commit-block:" + (prev[0]["kind"] if prev else "none"),
                                  f"{got_before} file headers before the block of commit line {at}, {nbefore} sections precede it", case0)
        case = dict(args=cfg.args(), model_cfg=cfg.d, input="\n".join(lines), source=src)
        rep.case(key=(cfg.key(), tuple(lines)), nontrivial=len(files) > 1 or any(f["kind"] not in ("modified", "plain") for f in files),
                 sample=dict(kinds=[f["kind"] for f in files], paths=[(f["old"], f["new"]) for f in files][:3]))
        for f in files:
            rep.count("kind:" + f["kind"])
        for fa, fb in zip(files, files[1:]):
            if fb["kind"] == "submodule_log" and fb.get("first_line") == fa.get("first_line", -1) + len(fa["lines"]):
                rep.count("before-submodule-log:" + ("late:" if fa["kind"] in M.LATE_HEADER_KINDS else "") + fa["kind"] +
                          (":log-is-last" if fb is files[-1] else ""))
        if impl.panic:
            rep.violation("panic:" + impl.msg[:60], impl.msg[:200], case); continue
        if not impl.ok:
            continue
        dis = M.compare(cfg, impl, model)
        rep.corr_case("machine.run", not dis, dict(case, disagreement=dis[:2]))
        squeeze = lambda t: " ".join(t.split())       # box decoration pads the path with one more space
        got = [squeeze(t) for k, t in impl.rows if k == "file"]
        headed = [f for f in files if f["kind"] != "binary_noindex"]      # the sections that have a file header
        want = [squeeze(expected_file_header(cfg, f)) for f in headed]
        # a binary file with a mode change: the header names the file and the mode change; whether it also says
        # ` (binary file)` is not part of the property (delta does not say it there)
        if len(got) == len(want):
            got = [g.replace(" (binary file)", "") if f["kind"] == "binary_mode_changed" else g for g, f in zip(got, headed)]
        for f in files:
            if f["kind"] == "binary_noindex" and not any(k == "raw" and t == f["lines"][-1] for k, t in impl.rows):
                rep.violation("file-header:binary_noindex", f"the line {f['lines'][-1]!r} (two different paths) is not shown as it is", case)
        if got != want:
            j = next((j for j, (a, b) in enumerate(zip(got, want)) if a != b), min(len(got), len(want)))
            g = got[j] if j < len(got) else None
            w = want[j] if j < len(want) else None
            kind = headed[min(j, len(headed) - 1)]["kind"] if headed else files[-1]["kind"]
            sig = "file-header:" + kind
            if j >= 1 and len(got) > len(want) and (j >= len(want) or (j + 1 < len(got) and got[j + 1] == want[j])):
                # as expected up to section j-1, then one more header, then the header section j should have (or the end)
                sig = "file-header:second-header:" + headed[j - 1]["kind"]
            # a section whose header is written late, directly followed by a submodule log: the pending header must be written
            # before the log's header (repaired defect: it came after the log, or never, its mode change on the log's header)
            if any(fa["kind"] in M.LATE_HEADER_KINDS and fb["kind"] == "submodule_log" and i <= j <= i + 2
                   for i, (fa, fb) in enumerate(zip(headed, headed[1:]))):
                sig = "file-header:pending-before-submodule-log"
            # plain diff: an added line `++ x` / a removed line `-- x` look like a header line
            if src == "plain" and len(got) > len(want) and any(l.startswith("+++ ") and not l.startswith("+++ y/") for l in lines):
                sig = "plain-diff-plusplus-body-taken-as-header"
            rep.violation(sig, f"file header {j}: got {g!r}, want {w!r} ({len(got)} headers for {len(want)} sections)", case)
        # hunk headers: one per hunk, carrying the fragment unchanged; showing the path of the hunk's own file section (the
        # old name for a deleted file) and the new-file start of its own `@@` line, as the style words say (T13)
        if not cfg.d["hhRaw"] and not cfg.d["hhOmit"] and (cfg.d["hhLineNumber"] or cfg.d["hhFile"]):
            rep.count("hh-style:" + "+".join(w for w, on in (("file", cfg.d["hhFile"]), ("line-number", cfg.d["hhLineNumber"]),
                      ("omit-code-fragment", not cfg.d["hhFragment"]), ("label", cfg.d["hunkLabel"] != "")) if on))
            hh = [t for k, t in impl.rows if k == "hunkHeader"]
            fhunks = [(f, h) for f in files for h in (f["hunks"] or ([f["combined_hunk"]] if "combined_hunk" in f else []))]
            fhunks = [(f, h) for f, h in fhunks if h is not None]
            hunks = [h for _, h in fhunks]
            if len(hh) != len(hunks):
                if not (src == "plain" and any(l.startswith("+++ ") and not l.startswith("+++ y/") for l in lines)):
                    rep.violation("hunk-header-count", f"{len(hh)} hunk headers for {len(hunks)} hunks", case)
            else:
                tab = cfg.d["tab"]
                for t, (f, h) in zip(hh, fhunks):
                    frag = h["frag"].replace("\t", " " * tab) if tab else h["frag"]
                    if cfg.d["hhFragment"] and frag.strip() and not t.endswith(frag.rstrip()):
                        rep.violation("hunk-header-fragment", f"hunk header {t!r} does not carry the fragment {frag!r}", case)
                        break
                    if not cfg.d["hhFragment"] and frag.strip() and squeeze(frag) in squeeze(t) and squeeze(frag) not in squeeze(f["new"] + f["old"]):
                        rep.violation("hunk-header:fragment-not-omitted", f"hunk header {t!r} shows the fragment {frag!r} under omit-code-fragment", case)
                        break
                    if src != "git" or f["kind"] == "combined" or "nparents" in f or "new" not in h:
                        continue
                    path = f["old"] if f["new"] == "/dev/null" else f["new"]
                    want_prefix = (cfg.d["hunkLabel"] + " " if cfg.d["hunkLabel"] else "") + \
                        (path if cfg.d["hhFile"] else "") + \
                        ((":" if cfg.d["hhFile"] else "") + str(h["new"][0]) if cfg.d["hhLineNumber"] else "") + ":"
                    rep.count("hh-row-checked:" + ("deleted" if f["new"] == "/dev/null" else "renamed" if f["old"] not in (f["new"], "/dev/null") else "same-name"))
                    if not squeeze(t + " ").startswith(squeeze(want_prefix + " ")[:-1] if want_prefix.endswith(" ") else squeeze(want_prefix)):
                        shown_other = [g for g in files if g is not f and g.get("new") and g["new"] != path and cfg.d["hhFile"] and
                                       squeeze(t).startswith(squeeze((cfg.d["hunkLabel"] + " " if cfg.d["hunkLabel"] else "") + g["new"] + ":"))]
                        rep.violation("hunk-header:path-of-other-section" if shown_other else "hunk-header:path-or-number-wrong",
                                      f"hunk header {t!r} of section {f['kind']} ({f['old']!r} -> {f['new']!r}, {h['header']!r}) does not start with {want_prefix!r}", case)
                        break
    # the real binary under --relative-paths: every header names the file as a user in the sub-directory would
    eval_rel(ctx, rep, [rel_case(rng.getrandbits(48)) for _ in range(ctx.n(80, 2000))])


REL_PATHS = ["sub/x.rs", "sub/dir/y.py", "other/z.md", "sub/with space.txt", "top.toml", "sub/naïve.rs"]
REL_PREFIX = "sub/"


def rel_case(seed):
    """the same diff twice: with paths relative to the repository root, and with the paths a user in `sub/` expects"""
    import os, random
    shown = [os.path.relpath(p, REL_PREFIX) for p in REL_PATHS]
    out = []
    for paths in (REL_PATHS, shown):
        rng = random.Random(seed)
        lines, kinds = [], []
        for _ in range(rng.randint(1, 4)):
            f = M.gen_file(rng, kind=rng.choice([k for k in M.FILE_KINDS if k not in ("binary_noindex", "submodule")]), paths=paths)
            lines += f["lines"]; kinds.append(f["kind"])
        out.append(lines)
    return dict(kind="relative-paths", seed=seed, kinds=kinds, input="\n".join(out[0]) + "\n", expected_input="\n".join(out[1]) + "\n")


def eval_rel(ctx, rep, cases):
    from ..core import parallel_map
    def one(c):
        a = ctx.run_delta(["--no-gitconfig", "--paging=never", "--relative-paths"], c["input"].encode(), env={"GIT_PREFIX": REL_PREFIX})
        b = ctx.run_delta(["--no-gitconfig", "--paging=never"], c["expected_input"].encode(), env={"GIT_PREFIX": REL_PREFIX})
        return a, b
    for c, ((rc1, o1, e1), (rc2, o2, e2)) in zip(cases, parallel_map(one, cases)):
        rep.case(key=("rel", c["input"]), nontrivial=True, sample=dict(level="relative-paths", kinds=c["kinds"]))
        for k in c["kinds"]:
            rep.count("relative-paths:kind:" + k)
        if rc1 != 0 or rc2 != 0:
            rep.violation("relative-paths:exit", f"exit {rc1}/{rc2}", c); continue
        if o1 != o2:
            l1, l2 = o1.split(b"\n"), o2.split(b"\n")
            j = next((j for j, (x, y) in enumerate(zip(l1, l2)) if x != y), min(len(l1), len(l2)))
            g = M.strip_ansi(l1[j]).decode("utf-8", "replace") if j < len(l1) else None
            w = M.strip_ansi(l2[j]).decode("utf-8", "replace") if j < len(l2) else None
            rep.violation("relative-paths:header-not-relative", f"output line {j}: shows {g!r}, a user in {REL_PREFIX} expects {w!r}", c)


def replay(ctx, rep, obj):
    c = obj["case"]
    if c.get("kind") == "relative-paths":
        eval_rel(ctx, rep, [c]); return
    cfg = M.VCfg(**c["model_cfg"])
    lines = c["input"].split("\n")
    impl, model = M.observe(ctx, [(cfg, [l.encode() for l in lines])])[0]
    print([r for r in impl.rows if r[0] in ("file", "hunkHeader")])
