"""C18 — exit status and pager protocol: all output delivered, quits are silent.

Implementation side = the real binary (no hook ops): run under `strace` with write-fault
injection, with recording stub pagers / stub `git` `rg` `diff` executables, and with readers
that really go away.  Model side = `drv_pager` (lean/DeltaModel/Pager.lean).

Scenario classes (each scenario runs in its own directory under .build/tmp-c18/<run>/):
  fault   strace -e inject=write:error=EPIPE:when=K+  (reader gone from the K-th write on) and
          error=EIO:when=K (one other error) for every K up to the number of writes, in stdout
          mode, pager mode and wrapped-command mode; K = 0 is the fault-free baseline
  reader  a real reader that closes after k bytes (python pipe in stdout mode, `head -c k` stub
          pager in pager mode)
  select  pager-selection environment matrix (config / DELTA_PAGER / BAT_PAGER / PAGER, stub
          pagers on PATH recording argv and stdin)
  status  stub and real differs / git / rg with exit statuses 0, 1, 2, 129, killed, missing
  oneshot --show-config / --version with a closed reader
  stderr  wrapped command that fills the stderr pipe (termination)
  errexit every exit path that is taken AFTER the pager was started, with a slow recording stub
          pager (selected through --pager / delta.pager / DELTA_PAGER / PAGER / `less` on PATH):
          unparsable --diff-args (command line, gitconfig, feature + DELTA_FEATURES), differ or
          wrapped command missing, differ killed by a signal, differ reporting trouble, real git
          on a missing file / a directory, stdin a terminal, option values that are only parsed
          while rendering, subcommands with a pager of their own whose reader goes away; plus the
          valid counterparts. Oracle: delta does not end before the pager does, the documented
          status, a message for an error, nothing bypasses the pager, all output delivered

Direct oracle (from the property statement, independent of the model): exit status, empty
stderr and no write(2) when the reader disappears, no panic text, the pager received exactly
the bytes a stdout-mode run produces, delta ends after the pager, precedence and `-R`.
Correspondence: (exit code, silent, event order) and (pager kind, path, argv) predicted by the
Lean driver for the same scenario.
"""
import os
import re
import shlex
import shutil
import subprocess
import time

from ..core import BUILD, REPO, b64, hx, parallel_map, unhx

DRIVERS = ["drv_pager"]

TMP_ROOT = os.path.join(BUILD, "tmp-c18")

STUB_PAGER = r"""#!/bin/sh
# recording stub pager (C18)
if [ "$1" = "--version" ] && [ -n "$STUB_LESS_VERSION" ]; then echo "$STUB_LESS_VERSION"; exit 0; fi
d="$STUB_DIR"
echo $$ > "$d/pager.pid"
{ printf '%s\n' "$0"; for a in "$@"; do printf '%s\n' "$a"; done; } > "$d/pager.argv"
printf '%s\n' "${LESSHISTFILE-<unset>}" > "$d/pager.histfile"
if [ -n "$STUB_READ_BYTES" ]; then /usr/bin/head -c "$STUB_READ_BYTES" > "$d/pager.stdin"
else /usr/bin/cat > "$d/pager.stdin"; fi
if [ -n "$STUB_CLOSE_STDIN" ]; then exec 0<&-; fi
if [ -n "$STUB_SLEEP" ]; then /usr/bin/sleep "$STUB_SLEEP"; fi
/usr/bin/date +%s.%N > "$d/pager.exit_time"
if [ -n "$STUB_KILL" ]; then kill -s "$STUB_KILL" $$; /usr/bin/sleep 0.05; fi
exit ${STUB_EXIT:-0}
"""

STUB_SUB = r"""#!/bin/sh
# stub git / rg / diff (C18)
if [ "$1" = "--version" ]; then echo "${STUB_GIT_VERSION:-git version 2.45.0}"; exit 0; fi
d="$STUB_DIR"
echo $$ > "$d/sub.pid"
{ printf '%s\n' "$0"; for a in "$@"; do printf '%s\n' "$a"; done; } > "$d/sub.argv"
if [ -n "$STUB_ERR_BYTES" ]; then /usr/bin/head -c "$STUB_ERR_BYTES" /dev/zero | /usr/bin/tr '\0' 'e' >&2; echo >&2; fi
i=0; while [ $i -lt ${STUB_ERR_LINES:-0} ]; do echo "stub error line $i" >&2; i=$((i+1)); done
if [ -n "$STUB_OUT" ]; then /usr/bin/cat "$STUB_OUT"; fi
if [ "$STUB_SUB_EXIT" = "sig" ]; then kill -9 $$; fi
exit ${STUB_SUB_EXIT:-0}
"""

PAGER_NAMES = ["less", "more", "most", "mypager", "pgtwo", "pgthree", "pgfour"]

DIFF_SMALL = b"""diff --git a/foo.txt b/foo.txt
index 1234567..89abcde 100644
--- a/foo.txt
+++ b/foo.txt
@@ -1,3 +1,3 @@
 one
-two
+TWO
 three
"""

DIFF_TWO_FILES = b"""commit 94907c0f136f46dc46ffae2dc92dca9af7eb7c2e
Author: A U Thor <author@example.com>
Date:   Thu May 14 11:13:17 2020 -0400

    subject line

diff --git a/src/a.rs b/src/a.rs
index 1234567..89abcde 100644
--- a/src/a.rs
+++ b/src/a.rs
@@ -1,4 +1,4 @@ fn main() {
 fn main() {
-    println!("old");
+    println!("new");
     let x = 1;
 }
diff --git a/b.txt b/b.txt
new file mode 100644
index 0000000..89abcde
--- /dev/null
+++ b/b.txt
@@ -0,0 +1,2 @@
+alpha
+beta\tgamma
"""

TEXT_PLAIN = b"just some text\nthat is not a diff\n\twith a tab and \x1b[31mcolour\x1b[0m\nlast line without newline"


def big_diff(nlines):
    out = [b"diff --git a/big.txt b/big.txt\nindex 1111111..2222222 100644\n--- a/big.txt\n+++ b/big.txt\n"]
    out.append(b"@@ -1,%d +1,%d @@\n" % (nlines, nlines))
    for i in range(nlines):
        if i % 3 == 0:
            out.append(b" context line number %d lorem ipsum dolor sit amet\n" % i)
        elif i % 3 == 1:
            out.append(b"-removed line number %d lorem ipsum dolor sit amet\n" % i)
        else:
            out.append(b"+added line number %d lorem ipsum dolor sit amet\n" % i)
    return b"".join(out)


RG_JSON = (b'{"type":"begin","data":{"path":{"text":"src/x.rs"}}}\n'
           b'{"type":"match","data":{"path":{"text":"src/x.rs"},"lines":{"text":"let needle = 1;\\n"},'
           b'"line_number":3,"absolute_offset":20,"submatches":[{"match":{"text":"needle"},"start":4,"end":10}]}}\n'
           b'{"type":"end","data":{"path":{"text":"src/x.rs"},"binary_offset":null,"stats":{"elapsed":'
           b'{"secs":0,"nanos":1,"human":"0s"},"searches":1,"searches_with_match":1,"bytes_searched":30,'
           b'"bytes_printed":100,"matched_lines":1,"matches":1}}}\n')


# ------------------------------------------------------------------------------------------
# environment of one check run


class Lab:
    def __init__(self, ctx):
        self.ctx = ctx
        os.makedirs(TMP_ROOT, exist_ok=True)
        # stale directories of crashed runs (older than 30 min)
        for d in os.listdir(TMP_ROOT):
            p = os.path.join(TMP_ROOT, d)
            try:
                if time.time() - os.path.getmtime(p) > 1800:
                    shutil.rmtree(p, ignore_errors=True)
            except OSError:
                pass
        self.root = os.path.join(TMP_ROOT, "run-%d-%d" % (os.getpid(), int(time.time() * 1000) % 10 ** 9))
        os.makedirs(self.root)
        self.stubs = os.path.join(self.root, "stubs")
        self.pagers = os.path.join(self.stubs, "pagers")
        self.abs_less_dir = os.path.join(self.stubs, "abs")
        self.gitdir = os.path.join(self.stubs, "git")      # git (>= 2.42) + rg
        self.diffdir = os.path.join(self.stubs, "diff")    # diff only (no git on PATH)
        self.emptydir = os.path.join(self.stubs, "empty")
        for d in (self.pagers, self.abs_less_dir, self.gitdir, self.diffdir, self.emptydir):
            os.makedirs(d)
        for n in PAGER_NAMES:
            self._script(os.path.join(self.pagers, n), STUB_PAGER)
        self._script(os.path.join(self.abs_less_dir, "less"), STUB_PAGER)
        for n in ("git", "rg"):
            self._script(os.path.join(self.gitdir, n), STUB_SUB)
        self._script(os.path.join(self.diffdir, "diff"), STUB_SUB)
        self.inputs = os.path.join(self.root, "inputs")
        os.makedirs(self.inputs)
        self.counter = 0
        self.home = os.path.join(self.root, "home")
        os.makedirs(self.home)

    @staticmethod
    def _script(path, text):
        with open(path, "w") as f:
            f.write(text)
        os.chmod(path, 0o755)

    def input_file(self, name, data):
        p = os.path.join(self.inputs, name)
        if not os.path.exists(p):
            with open(p, "wb") as f:
                f.write(data)
        return p

    def scen_dir(self, idx):
        d = os.path.join(self.root, "s%05d" % idx)
        os.makedirs(d, exist_ok=True)
        return d

    def cleanup(self):
        shutil.rmtree(self.root, ignore_errors=True)
        try:
            os.rmdir(TMP_ROOT)
        except OSError:
            pass

    def base_env(self, sdir, path_dirs, home=None):
        e = {"HOME": home or self.home, "GIT_CONFIG_NOSYSTEM": "1", "DELTA_VERIF_FORCE_GUESS": "none",
             "PATH": ":".join(path_dirs), "STUB_DIR": sdir, "LANG": "C.UTF-8", "TERM": "xterm-256color",
             "STUB_LESS_VERSION": "less 590 (stub)", "XDG_DATA_HOME": os.path.join(sdir, "xdg-data")}
        return e


def read_file(p, default=None):
    try:
        with open(p, "rb") as f:
            return f.read()
    except OSError:
        return default


# ------------------------------------------------------------------------------------------
# running delta


STRACE = shutil.which("strace") or "/usr/bin/strace"
TRACE = "trace=write,close,wait4,waitid,exit_group,clone,clone3,vfork,fork"


def run_proc(cmd, env, cwd, stdin_path=None, stdin_bytes=None, timeout=30, stdout_reader=None, pty_stdout=False,
             pty_stdin=False):
    """Run with stdout/stderr to files (so that an orphaned pager cannot keep our pipes open).
    `stdout_reader = k`: stdout is a pipe that we read k bytes from and then close.
    Returns dict(rc, out, err, t_end)."""
    outp, errp = os.path.join(cwd, "stdout"), os.path.join(cwd, "stderr")
    fin = open(stdin_path, "rb") if stdin_path else (subprocess.PIPE if stdin_bytes is not None else subprocess.DEVNULL)
    pty_master = None
    if pty_stdin:
        import pty
        pty_master, fin = pty.openpty()      # stdin is a terminal nobody types on
    ferr = open(errp, "wb")
    try:
        if pty_stdout:
            # stdout is a terminal (80x24): whatever arrives there is drained into the stdout file
            import fcntl, pty, struct, termios, threading
            master, slave = pty.openpty()
            fcntl.ioctl(slave, termios.TIOCSWINSZ, struct.pack("HHHH", 24, 80, 0, 0))
            p = subprocess.Popen(cmd, env=env, cwd=cwd, stdin=fin, stdout=slave, stderr=ferr)
            os.close(slave)
            chunks = []

            def drain():
                while True:
                    try:
                        c = os.read(master, 65536)
                    except OSError:
                        break
                    if not c:
                        break
                    chunks.append(c)
            th = threading.Thread(target=drain, daemon=True)
            th.start()
            try:
                p.wait(timeout=timeout)
            except subprocess.TimeoutExpired:
                pass
            th.join(timeout=1.0)
            os.close(master)
            with open(outp, "wb") as f:
                f.write(b"".join(chunks))
        elif stdout_reader is None:
            fout = open(outp, "wb")
            p = subprocess.Popen(cmd, env=env, cwd=cwd, stdin=fin, stdout=fout, stderr=ferr)
            fout.close()
        else:
            r, w = os.pipe()
            p = subprocess.Popen(cmd, env=env, cwd=cwd, stdin=fin, stdout=w, stderr=ferr)
            os.close(w)
            got = b""
            while len(got) < stdout_reader:
                chunk = os.read(r, stdout_reader - len(got))
                if not chunk:
                    break
                got += chunk
            os.close(r)
            with open(outp, "wb") as f:
                f.write(got)
        if stdin_bytes is not None:
            try:
                p.stdin.write(stdin_bytes)
                p.stdin.close()
            except OSError:
                pass
        try:
            rc = p.wait(timeout=timeout)
        except subprocess.TimeoutExpired:
            p.kill()
            p.wait()
            rc = "timeout"
        t_end = time.time()
    finally:
        ferr.close()
        if pty_master is not None:
            os.close(fin)
            os.close(pty_master)
        elif stdin_path:
            fin.close()
    return dict(rc=rc, out=read_file(outp, b""), err=read_file(errp, b""), t_end=t_end)


def parse_strace(log, pager_pid, sub_pid):
    """Canonical event string from a strace log of delta's main thread (same vocabulary as the
    model driver's `showEvents`), plus (number of rendering writes, wrote to stderr)."""
    ev = []
    render_fd = None
    failed = False
    nwrites = 0
    stderr_write = False

    def push(x):
        if x == "message" and ev and ev[-1] == "message":
            return
        ev.append(x)
    for ln in log.decode("utf-8", "replace").split("\n"):
        m = re.match(r"(clone3|clone|vfork|fork)\((.*)\)\s*=\s*(\d+)", ln)
        if m:
            if "CLONE_THREAD" in m.group(2):
                continue
            pid = int(m.group(3))
            if pid == pager_pid:
                push("spawnPager")
            elif pid == sub_pid:
                push("spawnSub")
            continue
        m = re.match(r"write\((\d+),.*\)\s*=\s*(-?\d+)(?:\s+(\w+))?", ln)
        if m:
            fd, res, errno = int(m.group(1)), int(m.group(2)), m.group(3)
            if fd == 2:
                stderr_write = True
                push("message")
                continue
            if render_fd is None:
                render_fd = fd
            if failed:
                continue      # flush retries at exit / writes after the error: runtime cleanup
            if res >= 0:
                nwrites += 1
                push("w")
            else:
                failed = True
                push("fail:bp" if errno == "EPIPE" else "fail:other")
            continue
        m = re.match(r"close\((\d+)\)", ln)
        if m:
            if render_fd not in (None, 1) and int(m.group(1)) == render_fd:
                push("closePager")
            continue
        m = re.match(r"wait4\((\d+),", ln) or re.match(r"waitid\(P_PID, (\d+),", ln)
        if m:
            pid = int(m.group(1))
            if pid == pager_pid:
                push("waitPager")
            elif pid == sub_pid:
                push("waitSub")
            continue
        m = re.match(r"exit_group\((-?\d+)\)", ln)
        if m:
            push("exit:%s" % m.group(1))
    # collapse runs of w
    out, n = [], 0
    for x in ev:
        if x == "w":
            n += 1
            continue
        if n:
            out.append("w*%d" % n)
            n = 0
        out.append(x)
    if n:
        out.append("w*%d" % n)
    return ",".join(out), nwrites, stderr_write


def pid_of(sdir, name):
    b = read_file(os.path.join(sdir, name))
    try:
        return int(b.strip()) if b else None
    except ValueError:
        return None


def observe(lab, sc, idx):
    """Execute one scenario on the real binary. Returns the observation dict."""
    ctx = lab.ctx
    sdir = lab.scen_dir(idx)
    home = lab.home
    if sc.get("gitconfig") is not None:
        home = os.path.join(sdir, "home")
        os.makedirs(home, exist_ok=True)
        with open(os.path.join(home, ".gitconfig"), "w") as f:
            f.write(sc["gitconfig"])
    env = lab.base_env(sdir, sc["path"], home)
    env.update(sc.get("env", {}))
    cmd = [ctx.delta] + sc["args"]
    if sc.get("strace") is not None:
        st = [STRACE, "-o", os.path.join(sdir, "trace"), "-e", TRACE]
        inj = sc["strace"]
        if inj:
            st += ["-e", "inject=write:error=%s:when=%s" % (inj["errno"], inj["when"])]
        cmd = st + cmd
    r = run_proc(cmd, env, sdir, stdin_path=sc.get("stdin"), timeout=sc.get("timeout", 30),
                 stdout_reader=sc.get("stdout_reader"), pty_stdout=bool(sc.get("pty")),
                 pty_stdin=bool(sc.get("pty_stdin")))
    obs = dict(rc=r["rc"], stdout=r["out"], stderr=r["err"], t_end=r["t_end"])
    obs["pager_pid"] = pid_of(sdir, "pager.pid")
    obs["sub_pid"] = pid_of(sdir, "sub.pid")
    argv = read_file(os.path.join(sdir, "pager.argv"))
    obs["pager_argv"] = argv.decode("utf-8", "replace").split("\n")[:-1] if argv is not None else None
    obs["pager_stdin"] = read_file(os.path.join(sdir, "pager.stdin"))
    hf = read_file(os.path.join(sdir, "pager.histfile"))
    obs["pager_histfile"] = hf.decode("utf-8", "replace").strip() if hf is not None else None
    et = read_file(os.path.join(sdir, "pager.exit_time"))
    try:
        obs["pager_exit_time"] = float(et.strip()) if et else None
    except ValueError:
        obs["pager_exit_time"] = None
    sargv = read_file(os.path.join(sdir, "sub.argv"))
    obs["sub_argv"] = sargv.decode("utf-8", "replace").split("\n")[:-1] if sargv is not None else None
    if sc.get("strace") is not None:
        log = read_file(os.path.join(sdir, "trace"), b"")
        obs["events"], obs["nwrites"], obs["stderr_write"] = parse_strace(log, obs["pager_pid"], obs["sub_pid"])
    if not sc.get("keep"):
        shutil.rmtree(sdir, ignore_errors=True)
    return obs


PANIC_RE = re.compile(rb"panicked at|RUST_BACKTRACE|stack backtrace|failed printing to")


def brief(obs):
    d = {k: obs.get(k) for k in ("rc", "events", "nwrites", "stderr_write", "pager_argv", "sub_argv", "pager_histfile")}
    d["stderr"] = (obs.get("stderr") or b"")[:300].decode("utf-8", "replace")
    d["stdout_len"] = len(obs.get("stdout") or b"")
    d["pager_stdin_len"] = None if obs.get("pager_stdin") is None else len(obs["pager_stdin"])
    return d


def replayable(sc):
    d = dict(sc)
    d.pop("expect_stdout", None)
    return d


# ------------------------------------------------------------------------------------------
# model requests


def model_run_req(mode, pager, writes, fault=None, kind="git", spawnok=True, status=0, stderr_lines=0):
    fpos, fkind = ("-", "-") if fault is None else (str(fault[0]), fault[1])
    return "pager.run %s %d %d %s %s %s %d %s %d" % (
        mode, 1 if pager else 0, writes, fpos, fkind, kind, 1 if spawnok else 0,
        "sig" if status == "sig" else str(status), stderr_lines)


def cmd_field(s):
    """Command string as the model wants it: `-` when unset, else the shell-split words."""
    if s is None:
        return "-"
    return hx("\n".join(shlex.split(s)))


def simple_words(s):
    """Domain condition of the selection model: commands whose words survive a second
    `shell_words::split` unchanged (no whitespace, quotes or backslashes inside a word)."""
    if s is None:
        return True
    try:
        ws = shlex.split(s)
    except ValueError:
        return False
    return all(re.fullmatch(r"[A-Za-z0-9_./+=:,@%-]+", w) for w in ws)


def errexit_req(sc, ob, exit_tables):
    """Model request for an errexit scenario (`exit_tables` = the model's generated exit-site tables)."""
    m = sc["model"]
    mode = m["mode"]
    if mode == "renderabort":
        if not exit_tables:
            return None
        idx = [i for i, row in enumerate(exit_tables[1]) if row.split("|")[0] == m["site"] and row.split("|")[1] == "fatal"]
        if not idx:
            return "pager.run renderabort:999999 1 0 - - git 1 0 0"     # the model knows no such site: it has no run
        mode = "renderabort:%d" % idx[0]
    return model_run_req(mode, bool(ob.get("pager_pid")), ob.get("nwrites") or 0, None, m.get("kind", "git"),
                         m.get("spawnok", True), m.get("status", 0), m.get("stderr_lines", 0))


# ------------------------------------------------------------------------------------------
# scenario construction


def fault_family(lab, name, args, stdin, path, mode, pager, sub=None, env=None):
    """Baseline scenario of a family; the K-scenarios are derived once the number of writes is known."""
    sc = dict(cls="fault", family=name, args=args, stdin=stdin, path=path, mode=mode, pager=pager,
              strace={}, K=0, env=dict(env or {}))
    if pager:
        sc["env"]["STUB_SLEEP"] = "0.08"
    if sub:
        sc["sub"] = sub
    return sc


def with_fault(base, K, errno):
    sc = dict(base)
    sc["env"] = dict(base["env"])
    sc["K"] = K
    sc["errno"] = errno
    sc["strace"] = dict(errno=errno, when=("%d+" % K) if errno == "EPIPE" else str(K))
    return sc


def expected_precedence(sc):
    """Independent reading of the property: which command is the pager, and are its arguments
    delta's to choose. Returns (basename, user_args or None when ours)."""
    self_names = ("delta",)
    cfgp, dp, bp, p = sc["config_pager"], sc["DELTA_PAGER"], sc["BAT_PAGER"], sc["PAGER"]

    def split(s):
        ws = shlex.split(s)
        return (ws[0], ws[1:]) if ws else (None, [])
    if cfgp is not None:
        b, a = split(cfgp)
        return b, a, "config"
    if dp is not None:
        b, a = split(dp)
        return b, a, "DELTA_PAGER"
    if bp is not None:
        b, a = split(bp)
        if b is None:
            return "less", None, "default"
        return b, None, "BAT_PAGER"      # shared variable: arguments are delta's to choose
    if p is not None:
        b, a = split(p)
        if b is None:
            return "less", None, "default"
        stem = os.path.splitext(os.path.basename(b))[0]
        if stem in ("more", "most") + self_names:
            return "less", None, "PAGER-filtered"
        return b, None, "PAGER"
    return "less", None, "default"


# ------------------------------------------------------------------------------------------


NAV_SOURCES = ["off", "flag", "env", "gitconfig"]
NAV_REGEX = ["absent", "cli-empty", "gitconfig-empty", "regex"]
NAV_PAGERS = ["default", "PAGER", "config"]


def nav_parts(navsrc, regex):
    """(args, env, gitconfig lines) for one navigate source x navigate-regex form."""
    args, env, gc = [], {}, []
    if navsrc == "flag":
        args.append("--navigate")
    elif navsrc == "env":
        env["DELTA_NAVIGATE"] = "1"
    elif navsrc == "gitconfig":
        gc.append("navigate = true")
    if regex == "cli-empty":
        args += ["--navigate-regex", ""]
    elif regex == "gitconfig-empty":
        gc.append("navigate-regex =")
    elif regex == "regex":
        args += ["--navigate-regex", "^diff"]
    return args, env, gc


def navigate_scenarios(lab, infile):
    """Recording stub `less` first on PATH x navigate (off / flag / DELTA_NAVIGATE / gitconfig) x
    --navigate-regex (absent / '' on the command line / empty in gitconfig / a regex) x paging
    (always / auto with stdout a pty) x where `less` comes from; plus --show-themes."""
    scs = []
    common = ["--dark", "--width", "80"]
    for navsrc in NAV_SOURCES:
        for regex in NAV_REGEX:
            a, e, gc = nav_parts(navsrc, regex)
            gitconfig = ("[delta]\n" + "".join("    %s\n" % l for l in gc)) if gc else None
            pre = [] if gitconfig is not None else ["--no-gitconfig"]
            refkey = "%s/%s" % (navsrc, regex)
            scs.append(dict(cls="navref", family="navref", refkey=refkey, args=pre + ["--paging", "never"] + common + a,
                            stdin=infile, path=[lab.pagers], env=dict(e), gitconfig=gitconfig))
            for paging in ("always", "auto-pty"):
                for psrc in NAV_PAGERS:
                    env = dict(e)
                    args = pre + ["--paging", "always" if paging == "always" else "auto"] + common + a
                    if psrc == "PAGER":
                        env["PAGER"] = "less"
                    elif psrc == "config":
                        args = ["--pager", "less"] + args
                    scs.append(dict(cls="navigate", family="navigate", navsrc=navsrc, regex=regex, paging=paging, psrc=psrc,
                                    show_themes=False, refkey=refkey, args=args, stdin=infile, path=[lab.pagers], env=env,
                                    gitconfig=gitconfig, pty=(paging == "auto-pty"),
                                    ref=dict(args=pre + ["--paging", "never"] + common + a, env=dict(e), gitconfig=gitconfig)))
    themes = os.path.join(REPO, "themes.gitconfig")
    if os.path.exists(themes):
        for regex in ("absent", "gitconfig-empty", "gitconfig-regex"):
            gc = "[include]\n    path = %s\n" % themes
            if regex == "gitconfig-empty":
                gc += "[delta]\n    navigate-regex =\n"
            elif regex == "gitconfig-regex":
                gc += "[delta]\n    navigate-regex = ^Theme\n"
            scs.append(dict(cls="navigate", family="show-themes", navsrc="show-themes", regex=regex, paging="always", psrc="default",
                            show_themes=True, refkey=None, args=["--show-themes", "--dark"], stdin=None, path=[lab.pagers],
                            env={}, gitconfig=gc, pty=False))
    return scs


def nav_req(sc):
    rc = {"absent": "none", "cli-empty": "empty", "gitconfig-empty": "empty", "regex": "nonempty", "gitconfig-regex": "nonempty"}[sc["regex"]]
    nav = sc["show_themes"] or sc["navsrc"] != "off"
    return "pager.navsetup %d %d %s" % (1 if nav else 0, 1 if sc["show_themes"] else 0, rc)


ANSI_RE = re.compile(rb"\x1b\[[0-9;?]*[ -/]*[@-~]|\x1b\][^\x07\x1b]*(?:\x07|\x1b\\\\)")


def visible_lines(b):
    return [ln.rstrip() for ln in ANSI_RE.sub(b"", b or b"").replace(b"\r", b"").split(b"\n")]


# ------------------------------------------------------------------------------------------
# exit paths taken after the pager was started

PAGER_SLEEP = "0.35"      # the stub pager needs this long to "quit" after its input ended
ERR_PSEL = ["opt", "gitconfig", "DELTA_PAGER", "PAGER", "less"]
DIFFARG_SOURCES = ["cli-eq", "cli-short", "gitconfig", "feature-env"]
GOOD_DIFF_WORDS = ["-U1", "-U0", "--minimal", "-w", "--stat", "-b", "--ignore-blank-lines"]
# option values that are parsed only while the first hunk / blame line is rendered:
# (tag, flags, [(option, value template)], input kind)
LATE_PARSED = [
    ("line-numbers-left-format", ["--line-numbers"], [("line-numbers-left-format", "{nm:%s}")], "diff"),
    ("line-numbers-right-format", ["--line-numbers"], [("line-numbers-right-format", "{np:>%s}")], "diff"),
    ("line-numbers-left-format-precision", ["--line-numbers"], [("line-numbers-left-format", "{nm:4.%s}")], "diff"),
    ("blame-format", [], [("blame-format", "{author:<%s} {commit:<8}")], "blame"),
    ("blame-palette", [], [("blame-palette", "%s")], "blame-colour"),
]
BLAME_INPUT = (b"94907c0f (A U Thor 2020-05-14 11:13:17 -0400  1) fn main() {\n"
               b"5b0c1d2e (Someone Else 2021-01-02 03:04:05 +0100  2)     let x = 1;\n")


def bad_diff_args(rng):
    """A --diff-args value that shell_words cannot split: an unbalanced ' or " (a trailing backslash
    is accepted by shell_words and is not an error)."""
    pre = rng.sample(GOOD_DIFF_WORDS, rng.randint(0, 2))
    kind = rng.choice(["squote", "dquote", "dquote-escaped"])
    word = rng.choice(["-U1", "x", "--word-diff-regex=a b", "-U 3", ""])
    if kind == "dquote-escaped":
        word += "\\\""          # the closing quote is escaped: still open
    q = "'" if kind == "squote" else '"'
    pos = rng.randint(0, len(pre))
    return kind, " ".join(pre[:pos] + [q + word] + pre[pos:])


def gitconfig_quote(v):
    return '"' + v.replace("\\", "\\\\").replace('"', '\\"') + '"'


def diffargs_parts(source, value):
    """(args, env, gitconfig text) that give delta the --diff-args `value` through `source`."""
    if source == "cli-eq":
        return ["--diff-args=" + value], {}, ""
    if source == "cli-short":
        return ["-@=" + value] if value.startswith("-") else ["-@", value], {}, ""
    if source == "gitconfig":
        return [], {}, "[delta]\n    diff-args = %s\n" % gitconfig_quote(value)
    if source == "feature-env":
        return [], {"DELTA_FEATURES": "+c18cfg"}, "[delta \"c18cfg\"]\n    diff-args = %s\n" % gitconfig_quote(value)
    raise ValueError(source)


def pager_parts(lab, psel):
    """(args, env, gitconfig text, expected pager basename) selecting a recording stub pager."""
    stub = os.path.join(lab.pagers, "mypager")
    if psel == "opt":
        return ["--pager", stub], {}, "", "mypager"
    if psel == "gitconfig":
        return [], {}, "[delta]\n    pager = %s\n" % stub, "mypager"
    if psel == "DELTA_PAGER":
        return [], {"DELTA_PAGER": os.path.join(lab.pagers, "pgtwo")}, "", "pgtwo"
    if psel == "PAGER":
        return [], {"PAGER": os.path.join(lab.pagers, "pgfour")}, "", "pgfour"
    if psel == "less":
        return [], {}, "", "less"       # the stub `less` is first on PATH
    raise ValueError(psel)


def errexit_scenarios(lab, ctx, rng, F):
    """F: dict of input files. Every scenario: paging always, slow recording stub pager."""
    scs = []
    big = 10 ** 20        # does not fit a usize

    def add(family, klass, psel, args, path, want, model=None, stdin=None, env=None, gc="", must_page=False,
            want_msg=True, ref=None, known=False, **extra):
        pargs, penv, pgc, pname = pager_parts(lab, psel)
        gitconfig = (pgc + gc) or None
        e = {"STUB_SLEEP": PAGER_SLEEP}
        e.update(penv)
        e.update(env or {})
        pre = [] if gitconfig is not None else ["--no-gitconfig"]
        sc = dict(cls="errexit", family=family, klass=klass, psel=psel, pager_name=pname,
                  args=pre + ["--paging", "always"] + pargs + args, stdin=stdin, path=path, env=e, gitconfig=gitconfig,
                  want=want, want_msg=want_msg, must_page=must_page, model=model, strace={}, pager=True, **extra)
        if ref is not None:
            r_env = {k: v for k, v in e.items() if k.startswith("STUB_") and k != "STUB_SLEEP"}
            r_env.update({k: v for k, v in (env or {}).items() if not k.startswith("STUB_")})
            sc["ref"] = dict(args=(["--no-gitconfig"] if not gc else []) + ["--paging", "never"] + ref, env=r_env,
                             gitconfig=gc or None, stdin=stdin, path=path)
        scs.append(sc)

    psels = list(ERR_PSEL)
    P_PAGERS, P_GIT, P_DIFF = [lab.pagers], [lab.pagers, lab.gitdir], [lab.pagers, lab.diffdir]
    ab = [F["a"], F["b"]]
    sub_ok = {"STUB_OUT": F["small"], "STUB_SUB_EXIT": "1"}

    # (A) unparsable --diff-args, every source x every way of selecting the pager (sampled in quick)
    combos = [(src, ps) for src in DIFFARG_SOURCES for ps in psels]
    rng.shuffle(combos)
    fixed = [("cli-eq", "opt"), ("cli-eq", "DELTA_PAGER"), ("gitconfig", "gitconfig"), ("feature-env", "PAGER"), ("cli-short", "less")]
    chosen = fixed + [c for c in combos if c not in fixed][:ctx.n(5, len(combos))]
    for j, (src, ps) in enumerate(chosen):
        kind, val = ("squote", "'-U1") if j == 0 else bad_diff_args(rng)
        a, e, gc = diffargs_parts(src, val)
        differ = P_GIT if j % 2 == 0 else P_DIFF
        add("diff-args-unparsable", "diff-args-unparsable:%s" % src, ps, a + ab, differ, ("ge", 2), model=dict(mode="diffargs"),
            env=e, gc=gc, value=val, value_kind=kind, source=src)
    # (A') the valid counterparts: the differ's status, all output delivered
    for j, (src, ps) in enumerate([("cli-eq", "opt"), ("gitconfig", "DELTA_PAGER"), ("feature-env", "less"), ("cli-short", "gitconfig")]):
        val = " ".join(rng.sample(GOOD_DIFF_WORDS, rng.randint(1, 2)))
        a, e, gc = diffargs_parts(src, val)
        add("diff-args-valid", "diff-args-valid:%s" % src, ps, a + ab, P_GIT, ("eq", 1),
            model=dict(mode="sub", kind="gitdiff", status=1), env=dict(e, **sub_ok), gc=gc, must_page=True, want_msg=False,
            ref=a + ab, value=val, source=src)
    # (B) differ / wrapped command not on PATH
    for j, (fam, tail, kind) in enumerate([("differ-missing", ab, "gitdiff"), ("wrapped-missing:git", ["git", "log", "-p"], "git"),
                                           ("wrapped-missing:rg", ["rg", "needle"], "rg")]):
        for ps in ([psels[j % len(psels)], psels[(j + 2) % len(psels)]] if ctx.quick() else psels):
            add(fam.split(":")[0], fam, ps, tail, P_PAGERS, ("ge", 2) if kind == "gitdiff" else ("ne", 0),
                model=dict(mode="sub", kind=kind, spawnok=False))
    # (C) the differ / wrapped command is killed by a signal or reports trouble, after writing its output
    subs = [("delta a b (git diff)", ab, P_GIT, "gitdiff"), ("delta a b (diff)", ab, P_DIFF, "diff"),
            ("delta git show", ["git", "show", "HEAD"], P_GIT, "git"), ("delta rg", ["rg", "needle"], P_GIT, "rg")]
    for j, (fam, tail, path, kind) in enumerate(subs):
        out = F["rg"] if kind == "rg" else F["small"]
        for st, errl in (("sig", 0), (2, 2), (129, 1)):
            if ctx.quick() and (j + (0 if st == "sig" else 1)) % 2 == 1 and st != "sig":
                continue
            ps = psels[(j + (st if isinstance(st, int) else 0)) % len(psels)]
            differ = kind in ("gitdiff", "diff")
            want = ("ge", 2) if (st == "sig" and differ) else (("ne", 0) if st == "sig" else ("eq", st))
            add("child-killed" if st == "sig" else "child-trouble", "%s:%s" % ("child-killed" if st == "sig" else "child-trouble", kind), ps,
                tail, path, want, model=dict(mode="sub", kind=kind, status=st, stderr_lines=errl),
                env={"STUB_OUT": out, "STUB_SUB_EXIT": str(st), "STUB_ERR_LINES": str(errl)}, must_page=True, ref=tail, sub_family=fam)
    # (D) real git on a missing file / a directory: whatever status git gives for the same arguments
    if os.path.exists("/usr/bin/git"):
        missing = os.path.join(lab.inputs, "does-not-exist")
        for j, (fam, x, y) in enumerate((("real-missing-file", F["a"], missing), ("real-directory", F["a"], lab.inputs))):
            want = subprocess.run(["/usr/bin/git", "diff", "--no-index", "--", x, y], stdout=subprocess.DEVNULL,
                                  stderr=subprocess.DEVNULL, env={"HOME": lab.home, "GIT_CONFIG_NOSYSTEM": "1"}).returncode
            add("real-differ-trouble", fam, psels[j % len(psels)], [x, y], [lab.pagers, "/usr/bin"], ("eq", want), want_msg=False)
    # (E) stdin is a terminal
    for ps in (psels[:2] if ctx.quick() else psels):
        add("stdin-terminal", "stdin-terminal", ps, [], P_PAGERS, ("ne", 0), model=dict(mode="tty"), pty_stdin=True)
    # (F) option values parsed only while rendering (fatal() after the pager was started)
    late = LATE_PARSED if not ctx.quick() else [LATE_PARSED[0], LATE_PARSED[3], LATE_PARSED[4]] + rng.sample(LATE_PARSED[1:3], 1)
    for j, (tag, flags, opts, ikind) in enumerate(late):
        bad = "notacolour%d" % rng.randint(0, 99) if ikind == "blame-colour" else str(big * rng.randint(1, 9))
        opts = [(o, v % bad) for o, v in opts]
        for src in (["cli"] if ctx.quick() and j % 2 else ["cli", "gitconfig"]):
            if src == "cli":
                gc, aa = "", flags + [x for o, v in opts for x in ("--" + o, v)]
            else:
                gc, aa = "[delta]\n" + "".join("    %s = %s\n" % (o, gitconfig_quote(v)) for o, v in opts), list(flags)
            add("fatal-while-rendering", "fatal-while-rendering:%s" % tag, psels[(j + len(src)) % len(psels)], aa, P_PAGERS, ("ge", 2),
                model=dict(mode="renderabort", site="src/color.rs:parse_color" if ikind == "blame-colour" else "src/format.rs:parse_line_number_format"),
                stdin=F["blame"] if ikind.startswith("blame") else F["small"], gc=gc, source=src, value=bad)
    # (G) subcommands with a pager of their own (`less` from PATH), the reader goes away but lingers
    for which, a in (("show-themes", ["--show-themes", "--dark"]), ("show-syntax-themes", ["--show-syntax-themes", "--dark"]),
                     ("show-colors", ["--show-colors"])):
        gc = ""
        if which == "show-themes":
            themes = os.path.join(REPO, "themes.gitconfig")
            if not os.path.exists(themes):
                continue
            gc = "[include]\n    path = %s\n" % themes
        for close in ((True,) if ctx.quick() else (True, False)):
            # the reader stops while delta is blocked on a full pipe, i.e. almost surely inside the rendering call
            sc_env = {"STUB_READ_BYTES": str(rng.randint(2000, 6000))}
            if close:
                sc_env["STUB_CLOSE_STDIN"] = "1"
            add("own-pager-reader-gone", "own-pager-reader-gone:%s" % which, "less", a, P_PAGERS, ("eq", 0), env=sc_env, gc=gc,
                stdin=F["small"], want_msg=False, own_pager=True, closes_stdin=close)
            scs[-1]["args"] = [x for x in scs[-1]["args"] if x not in ("--paging", "always")]
    return scs


def run(ctx, rep, only=None):
    rep.rule = ("fault: every write index K of each (input, option set, output mode) family under strace "
                "injection (EPIPE from K on; EIO at K), K=0 = no fault; reader: real reader closing after k "
                "bytes; select: environment matrix over config/DELTA_PAGER/BAT_PAGER/PAGER with recording "
                "stub pagers; status: stub/real differs and wrapped commands with statuses 0,1,2,129,killed,"
                "missing. non-trivial = a fault was injected, a reader went away, >= 2 pager sources were set, "
                "or the child status was non-zero; distinct by scenario parameters")
    rep.extra_trusted += [
        "strace 6.1 syscall fault injection and its log (implementation-side observation)",
        "bat 0.24.0 get_pager_executable (transcribed in the driver, compared on the PAGER/BAT_PAGER matrix)",
        "kernel pipe semantics, wait, signal dispositions, process::exit: runtime behaviour, exercised by fault enumeration only",
    ]
    rep.assumptions += [
        "pager selection model: command words contain no whitespace, quotes or backslashes (so delta's second shell_words::split of bat's result is the identity)",
    ]
    lab = Lab(ctx)
    try:
        _run(ctx, rep, lab, only)
    finally:
        lab.cleanup()


def _run(ctx, rep, lab, only):
    rng = ctx.rng
    mdl = ctx.model("drv_pager") if ctx.drivers_ok else None
    f_small = lab.input_file("small.diff", DIFF_SMALL)
    f_two = lab.input_file("two.diff", DIFF_TWO_FILES)
    f_text = lab.input_file("plain.txt", TEXT_PLAIN)
    f_rg = lab.input_file("rg.json", RG_JSON)
    f_big = lab.input_file("big.diff", big_diff(2400))
    f_a = lab.input_file("a.txt", b"one\ntwo\nthree\n")
    f_b = lab.input_file("b.txt", b"one\nTWO\nthree\n")
    stubpager = os.path.join(lab.pagers, "mypager")
    P_PAGERS = [lab.pagers]
    P_GIT = [lab.pagers, lab.gitdir]
    P_DIFF = [lab.pagers, lab.diffdir]
    NG = ["--no-gitconfig"]

    scenarios = []          # (scenario dict)
    if only is not None:
        scenarios = [only]

    # ---------------------------------------------------------------- fault families
    families = []
    if only is None:
        opt_sets = [("plain", []), ("sbs", ["--side-by-side", "--width", "60"]), ("ln", ["--line-numbers"]),
                    ("omit", ["--hunk-header-style", "omit", "--file-style", "omit"]), ("raw", ["--hunk-header-style", "raw", "--color-only"])]
        inputs = [("small", f_small), ("two", f_two), ("text", f_text)]
        if ctx.quick():
            combos = [("small", f_small, "plain", []), ("two", f_two, "sbs", ["--side-by-side", "--width", "60"]),
                      ("text", f_text, "ln", ["--line-numbers"]), ("small", f_small, "omit", opt_sets[3][1]),
                      ("two", f_two, "raw", opt_sets[4][1])]
        else:
            combos = [(i, f, o, a) for i, f in inputs for o, a in opt_sets]
            # generated inputs
            for g in range(31):
                n = rng.randint(1, 12)
                body = []
                for j in range(n):
                    body.append(rng.choice([" ctx %d\n", "-old %d\n", "+new %d\n", "+\ttab %d\n"]) % j)
                data = ("diff --git a/g%d.py b/g%d.py\n--- a/g%d.py\n+++ b/g%d.py\n@@ -1,%d +1,%d @@ def f():\n" %
                        (g, g, g, g, n, n)).encode() + "".join(body).encode()
                fn = lab.input_file("gen%d.diff" % g, data)
                o, a = rng.choice(opt_sets)
                combos.append(("gen%d" % g, fn, o, a))
        for iname, ifile, oname, oargs in combos:
            families.append(fault_family(lab, f"{iname}/{oname}/stdout", NG + ["--paging", "never"] + oargs,
                                         ifile, P_PAGERS, "stdin", False))
            families.append(fault_family(lab, f"{iname}/{oname}/pager",
                                         NG + ["--paging", "always", "--pager", stubpager] + oargs,
                                         ifile, P_PAGERS, "stdin", True))
        # wrapped command and differ, with and without pager
        for pg in (False, True):
            pa = ["--paging", "always", "--pager", stubpager] if pg else ["--paging", "never"]
            families.append(fault_family(lab, "git-show/" + ("pager" if pg else "stdout"), NG + pa + ["git", "show"],
                                         None, P_GIT, "sub", pg, sub=dict(kind="git", status=0, stderr_lines=0),
                                         env={"STUB_OUT": f_small, "STUB_SUB_EXIT": "0"}))
        families.append(fault_family(lab, "diff-a-b/pager", NG + ["--paging", "always", "--pager", stubpager, f_a, f_b],
                                     None, P_GIT, "sub", True, sub=dict(kind="gitdiff", status=1, stderr_lines=0),
                                     env={"STUB_OUT": f_small, "STUB_SUB_EXIT": "1"}))

    base_obs = parallel_map(lambda t: observe(lab, t[1], t[0]), list(enumerate(families)))
    idx = len(families)
    fault_scs = []
    stdout_ref = {}
    for fam, ob in zip(families, base_obs):
        fam["n"] = ob.get("nwrites", 0)
        key = fam["family"].rsplit("/", 1)[0]
        if not fam["pager"]:
            stdout_ref[key] = ob["stdout"]
    for fam, ob in zip(families, base_obs):
        key = fam["family"].rsplit("/", 1)[0]
        fam["expect_stdout"] = stdout_ref.get(key)
        n = fam["n"]
        ks = list(range(1, n + 1))
        cap = ctx.n(70, 400)
        if len(ks) > cap:
            keep = set(ks[:25]) | set(ks[-10:]) | set(rng.sample(ks, cap - 35))
            ks = sorted(keep)
            rep.count("fault-K-sampled-families")
        for K in ks:
            fault_scs.append(with_fault(fam, K, "EPIPE"))
        eio = ks if not ctx.quick() else sorted(set(ks[:3] + ks[-2:] + ks[len(ks) // 2:len(ks) // 2 + 1]))
        for K in eio:
            fault_scs.append(with_fault(fam, K, "EIO"))
    scenarios_fault = list(zip(families, base_obs))

    # ---------------------------------------------------------------- real readers
    reader_scs = []
    if only is None:
        for iname, ifile in (("small", f_small), ("big", f_big)):
            for k in ([0, 1, 200] if iname == "small" else [0, 1, 4096, 70000, 150000]):
                reader_scs.append(dict(cls="reader", family=f"{iname}/stdout-reader", args=NG + ["--paging", "never"],
                                       stdin=ifile, path=P_PAGERS, mode="stdin", pager=False, stdout_reader=k, k=k, env={}))
                reader_scs.append(dict(cls="reader", family=f"{iname}/pager-reader",
                                       args=NG + ["--paging", "always", "--pager", stubpager], stdin=ifile,
                                       path=P_PAGERS, mode="stdin", pager=True, k=k,
                                       env={"STUB_READ_BYTES": str(k), "STUB_SLEEP": "0.15"}))
        # wrapped command whose reader goes away
        reader_scs.append(dict(cls="reader", family="git-show-big/pager-reader",
                               args=NG + ["--paging", "always", "--pager", stubpager, "git", "log", "-p"], stdin=None,
                               path=P_GIT, mode="sub", pager=True, k=1000,
                               env={"STUB_READ_BYTES": "1000", "STUB_SLEEP": "0.15", "STUB_OUT": f_big, "STUB_SUB_EXIT": "0"}))
        # pager that exits non-zero after reading everything: delta's status is its own
        reader_scs.append(dict(cls="reader", family="small/pager-exit-3",
                               args=NG + ["--paging", "always", "--pager", stubpager], stdin=f_small,
                               path=P_PAGERS, mode="stdin", pager=True, k=None, env={"STUB_EXIT": "3", "STUB_SLEEP": "0.15"}))

        # T21: every way the pager can end x when it stops reading x how delta was called. Whatever the
        # pager's status, delta stays silent and exits with its own status (0 here: the stub differ / git
        # report 0). `pstatus` is what the model's `PagerTail.runFull` is asked about.
        PSTATUS = [("exit0", "e0", {"STUB_EXIT": "0"}), ("exit1", "e1", {"STUB_EXIT": "1"}),
                   ("exit3", "e3", {"STUB_EXIT": "3"}), ("exit130", "e130", {"STUB_EXIT": "130"}),
                   ("sigpipe", "s13", {"STUB_KILL": "PIPE"}), ("sigterm", "s15", {"STUB_KILL": "TERM"})]
        for pname, pst, penv in PSTATUS:
            for when in ("early", "all"):
                k = rng.choice([0, 1, 10, 300, 4096]) if when == "early" else None
                data = f_big if when == "early" else f_small
                renv = dict(penv, STUB_SLEEP="0.12")
                if k is not None:
                    renv["STUB_READ_BYTES"] = str(k)
                pa = NG + ["--paging", "always", "--pager", stubpager]
                reader_scs.append(dict(cls="reader", family="pgstatus/stdin-%s-%s" % (when, pname), args=pa, stdin=data,
                                       path=P_PAGERS, mode="stdin", pager=True, k=k, pstatus=pst, env=dict(renv)))
                senv = dict(renv, STUB_OUT=data, STUB_SUB_EXIT="0")
                reader_scs.append(dict(cls="reader", family="pgstatus/diffAB-%s-%s" % (when, pname), args=pa + [f_a, f_b],
                                       stdin=None, path=P_GIT, mode="sub", pager=True, k=k, pstatus=pst,
                                       sub=dict(kind="gitdiff", status=0, stderr_lines=0), env=dict(senv)))
                reader_scs.append(dict(cls="reader", family="pgstatus/gitshow-%s-%s" % (when, pname),
                                       args=pa + ["git", "show"], stdin=None, path=P_GIT, mode="sub", pager=True, k=k,
                                       pstatus=pst, sub=dict(kind="git", status=0, stderr_lines=0), env=dict(senv)))

    # ---------------------------------------------------------------- selection matrix
    select_scs = []
    if only is None:
        abs_less = os.path.join(lab.abs_less_dir, "less")
        CFG = [None, "mypager", "mypager -a --bb", "less", "less -X -F", abs_less + " -K", ""]
        DP = [None, "pgtwo -z", "less", "less -X", ""]
        BP = [None, "pgthree -q", "less -F", "more"]
        PG = [None, "less", "less -F -X", "more", "most -s", "pgfour -w", "delta", abs_less, ""]
        fixed = [(None, None, None, None), (None, None, None, "less -F -X"), (None, None, None, "more"),
                 (None, None, None, "most -s"), (None, None, None, "delta"), (None, None, "less -F", "pgfour -w"),
                 (None, None, "more", "less"), (None, "less -X", None, "less"), (None, "less", "pgthree -q", "more"),
                 (None, "pgtwo -z", "pgthree -q", "pgfour -w"), ("mypager -a --bb", "pgtwo -z", "pgthree -q", "pgfour -w"),
                 ("less", None, None, "pgfour -w"), ("less -X -F", "less", None, "less"), (abs_less + " -K", None, None, None),
                 ("", "pgtwo -z", None, None), (None, "", None, "pgfour -w"), (None, None, None, ""), (None, None, None, abs_less),
                 (None, None, None, "pgfour -w"), (None, None, "pgthree -q", None)]
        allc = [(c, d, b, p) for c in CFG for d in DP for b in BP for p in PG]
        if ctx.quick():
            extra = rng.sample(allc, 40)
        else:
            extra = allc
        seen = set()
        for j, (c, d, b, p) in enumerate(fixed + extra):
            if (c, d, b, p) in seen:
                continue
            seen.add((c, d, b, p))
            via_gitconfig = c is not None and c != "" and (j % 2 == 1)
            paging = "auto" if j % 3 == 0 else "always"
            ver = ["less 590 (stub)", "less 487 (stub)", "more from util-linux 2.34"][j % 3 if j % 5 == 0 else 0]
            args = ["--paging", paging]
            gitconfig = None
            if c is not None:
                if via_gitconfig:
                    gitconfig = "[delta]\n    pager = %s\n" % c
                else:
                    args = ["--pager", c] + args
            if gitconfig is None:
                args = NG + args
            env = {"STUB_LESS_VERSION": ver}
            for name, val in (("DELTA_PAGER", d), ("BAT_PAGER", b), ("PAGER", p)):
                if val is not None:
                    env[name] = val
            select_scs.append(dict(cls="select", family="select", args=args, stdin=f_small, path=P_PAGERS,
                                   config_pager=c, DELTA_PAGER=d, BAT_PAGER=b, PAGER=p, paging=paging, less_version=ver,
                                   gitconfig=gitconfig, env=env, expect_stdout=None))
        # no pager binary at all: falls back to stdout
        select_scs.append(dict(cls="select", family="select-missing", args=NG + ["--paging", "always"], stdin=f_small,
                               path=[lab.emptydir], config_pager=None, DELTA_PAGER=None, BAT_PAGER=None, PAGER=None,
                               paging="always", less_version="-", gitconfig=None, env={}, missing=True))

    # ---------------------------------------------------------------- exit statuses
    status_scs = []
    if only is None:
        statuses = [0, 1, 2, 129, "sig"]
        for pg in (False, True):
            pa = ["--paging", "always", "--pager", stubpager] if pg else ["--paging", "never"]
            for st in statuses:
                for errl in (0, 2):
                    if ctx.quick() and errl == 2 and st not in (0, 129) and pg:
                        continue
                    e = {"STUB_OUT": f_small, "STUB_SUB_EXIT": str(st), "STUB_ERR_LINES": str(errl)}
                    status_scs.append(dict(cls="status", family="delta a b (git diff)", args=NG + pa + [f_a, f_b], stdin=None,
                                           path=P_GIT, mode="sub", pager=pg, sub=dict(kind="gitdiff", status=st, stderr_lines=errl), env=e))
                    status_scs.append(dict(cls="status", family="delta a b (diff)", args=NG + pa + [f_a, f_b], stdin=None,
                                           path=P_DIFF, mode="sub", pager=pg, sub=dict(kind="diff", status=st, stderr_lines=errl), env=e))
                    status_scs.append(dict(cls="status", family="delta git show", args=NG + pa + ["git", "show", "HEAD"], stdin=None,
                                           path=P_GIT, mode="sub", pager=pg, sub=dict(kind="git", status=st, stderr_lines=errl), env=e))
                    e2 = dict(e, STUB_OUT=f_rg)
                    status_scs.append(dict(cls="status", family="delta rg", args=NG + pa + ["rg", "needle"], stdin=None,
                                           path=P_GIT, mode="sub", pager=pg, sub=dict(kind="rg", status=st, stderr_lines=errl), env=e2))
        # wrapped command missing from PATH
        status_scs.append(dict(cls="status", family="delta rg (missing)", args=NG + ["--paging", "never", "rg", "x"], stdin=None,
                               path=P_PAGERS, mode="sub", pager=False, sub=dict(kind="rg", status=0, stderr_lines=0, spawnok=False), env={}))
        status_scs.append(dict(cls="status", family="delta git (missing)", args=NG + ["--paging", "always", "--pager", stubpager, "git", "log"],
                               stdin=None, path=P_PAGERS, mode="sub", pager=True, sub=dict(kind="git", status=0, stderr_lines=0, spawnok=False), env={}))
        # unparsable --diff-args
        status_scs.append(dict(cls="status", family="diff-args-error", args=NG + ["--paging", "never", "-@", "'unterminated", f_a, f_b],
                               stdin=None, path=P_GIT, mode="diffargs", pager=False, env={}))
        # real differs
        if os.path.exists("/usr/bin/git") and os.path.exists("/usr/bin/diff"):
            missing = os.path.join(lab.inputs, "does-not-exist")
            for fam, x, y in (("real same", f_a, f_a), ("real different", f_a, f_b), ("real trouble", f_a, missing)):
                # the differ's own status is the expectation (git 2.39 reports a missing file with 1)
                want = str(subprocess.run(["/usr/bin/git", "diff", "--no-index", "--", x, y], stdout=subprocess.DEVNULL,
                                          stderr=subprocess.DEVNULL, env={"HOME": lab.home, "GIT_CONFIG_NOSYSTEM": "1"}).returncode)
                for pg in (False, True):
                    pa = ["--paging", "always", "--pager", stubpager] if pg else ["--paging", "never"]
                    status_scs.append(dict(cls="status", family=fam, args=NG + pa + [x, y], stdin=None, path=[lab.pagers, "/usr/bin"],
                                           mode="real", pager=pg, want=want, env={}))
        # stdin mode
        for pg in (False, True):
            pa = ["--paging", "always", "--pager", stubpager] if pg else ["--paging", "never"]
            for nm, f in (("small", f_small), ("text", f_text), ("empty", lab.input_file("empty", b""))):
                status_scs.append(dict(cls="status", family="stdin " + nm, args=NG + pa, stdin=f, path=P_PAGERS, mode="stdin", pager=pg, env={}))

    # ---------------------------------------------------------------- oneshot + stderr deadlock
    misc_scs = []
    if only is None:
        for which, a in (("show-config", NG + ["--show-config"]), ("version", ["--version"])):
            misc_scs.append(dict(cls="oneshot", family=which, args=a, stdin=None, path=P_PAGERS, stdout_reader=0, env={}))
            misc_scs.append(dict(cls="oneshot", family=which + "/inject", args=a, stdin=None, path=P_PAGERS,
                                 strace=dict(errno="EPIPE", when="1+"), env={}))
        misc_scs.append(dict(cls="oneshot", family="help/inject", args=["--help"], stdin=None, path=[lab.emptydir],
                             strace=dict(errno="EPIPE", when="1+"), env={}))
        for nbytes in (1000, 200000):
            misc_scs.append(dict(cls="stderr", family="git-stderr-%d" % nbytes, args=NG + ["--paging", "never", "git", "show"],
                                 stdin=None, path=P_GIT, timeout=6, nbytes=nbytes,
                                 env={"STUB_OUT": f_small, "STUB_ERR_BYTES": str(nbytes), "STUB_SUB_EXIT": "0"}))

    # ---------------------------------------------------------------- less set-up under navigate
    nav_scs = navigate_scenarios(lab, f_two) if only is None else []

    # ---------------------------------------------------------------- exits after the pager was started
    err_scs, err_refs = [], []
    if only is None:
        F = dict(a=f_a, b=f_b, small=f_small, rg=f_rg, blame=lab.input_file("blame.txt", BLAME_INPUT))
        err_scs = errexit_scenarios(lab, ctx, rng, F)
        seen_refs = {}
        for sc in err_scs:
            if sc.get("ref"):
                key = repr(sorted(sc["ref"].items(), key=lambda kv: kv[0]))
                sc["refkey"] = key
                if key not in seen_refs:
                    seen_refs[key] = True
                    r = sc["ref"]
                    err_refs.append(dict(cls="errref", family="errref", refkey=key, args=r["args"], stdin=r["stdin"], path=r["path"],
                                         env=r["env"], gitconfig=r["gitconfig"]))

    rest = fault_scs + reader_scs + select_scs + status_scs + misc_scs + nav_scs + err_refs + err_scs + scenarios
    rest_obs = parallel_map(lambda t: observe(lab, t[1], idx + t[0]), list(enumerate(rest)))

    # reference output for "the pager received all bytes": stdout-mode run of the small input
    ref_small = None
    if only is None:
        ref_small = stdout_ref.get("small/plain")

    e_refs = {sc["refkey"]: ob["stdout"] for sc, ob in zip(rest, rest_obs) if sc["cls"] == "errref"}
    for sc in rest:
        if sc["cls"] == "errexit" and sc.get("refkey") is not None:
            sc["expect_stdout"] = e_refs.get(sc["refkey"])
    exit_tables = None
    if mdl is not None:
        ans = mdl.ask(["pager.exits"])[0].split(" ")
        if ans[0] == "ok":
            exit_tables = [[r for r in unhx(x).decode().split("\n") if r] for x in ans[1:4]]
            rep.notes["exit_sites"] = dict(setup=exit_tables[0], render=exit_tables[1], own=exit_tables[2])
    nav_refs = {sc["refkey"]: ob["stdout"] for sc, ob in zip(rest, rest_obs) if sc["cls"] == "navref"}
    for sc in rest:
        if sc["cls"] == "navigate" and sc.get("refkey") is not None:
            sc["expect_stdout"] = nav_refs.get(sc["refkey"])

    # ---------------------------------------------------------------- model answers
    reqs = []

    def ask(line):
        reqs.append(line)
        return len(reqs) - 1
    plan = []   # (scenario, observation, request index or None)
    for sc, ob in list(scenarios_fault) + list(zip(rest, rest_obs)):
        ri = None
        c = sc["cls"]
        if c in ("fault", "reader", "status") and sc.get("mode") in ("stdin", "sub", "diffargs"):
            sub = sc.get("sub", {})
            fault = None
            if c == "fault" and sc["K"] > 0:
                fault = (sc["K"] - 1, "bp" if sc["errno"] == "EPIPE" else "other")
            n = sc.get("n", ob.get("nwrites", 0) if c == "fault" else 1)
            if c == "reader":
                # where the reader goes away is not under our control: ask for both outcomes
                ri = (ask(model_run_req(sc["mode"], sc["pager"], 1, None, sub.get("kind", "git"), True, 0, 0)),
                      ask(model_run_req(sc["mode"], sc["pager"], 1, (0, "bp"), sub.get("kind", "git"), True, 0, 0)))
                if sc.get("pstatus"):
                    # the same two outcomes with the destructor / tail of main interpreted for this pager status
                    ri = ri + tuple(ask(model_run_req(sc["mode"], sc["pager"], 1, f, sub.get("kind", "git"), True, 0, 0)
                                        .replace("pager.run ", "pager.runfull ", 1) + " " + sc["pstatus"])
                                    for f in (None, (0, "bp")))
            else:
                ri = ask(model_run_req(sc["mode"], sc["pager"], n, fault, sub.get("kind", "git"),
                                       sub.get("spawnok", True), sub.get("status", 0), sub.get("stderr_lines", 0)))
        elif c == "oneshot":
            ri = ask(model_run_req("oneshot", False, 1, (0, "bp")))
        elif c == "errexit" and sc.get("model"):
            req = errexit_req(sc, ob, exit_tables)
            if req is not None:
                ri = ask(req)
        elif c == "navigate":
            ri = ask(nav_req(sc))
        elif c == "select" and not sc.get("missing"):
            if all(simple_words(sc[k]) for k in ("config_pager", "DELTA_PAGER", "BAT_PAGER", "PAGER")):
                m = re.match(r"less (\d+)", sc["less_version"])
                ri = ask("pager.select %s %s %s %s %s %s %d" % (
                    cmd_field(sc["config_pager"]), cmd_field(sc["DELTA_PAGER"]), cmd_field(sc["BAT_PAGER"]),
                    cmd_field(sc["PAGER"]), hx(ctx.delta), m.group(1) if m else "-", 1 if sc["paging"] == "auto" else 0))
            else:
                rep.count("select-skipped-domain")
        plan.append((sc, ob, ri))
    answers = mdl.ask(reqs) if (mdl and reqs) else [None] * len(reqs)

    for sc, ob, ri in plan:
        judge(ctx, rep, lab, sc, ob, ri, answers, ref_small)


# ------------------------------------------------------------------------------------------
# judging one scenario


def judge(ctx, rep, lab, sc, ob, ri, answers, ref_small):
    c = sc["cls"]
    rc, err = ob["rc"], ob["stderr"]
    rp = dict(scenario=replayable(sc), observed=brief(ob))
    rep.count("class:" + c)

    def viol(sig, what):
        # Report.violations is capped: keep room for every distinct signature
        seen = rep.notes.setdefault("violations_per_signature", {})
        seen[sig] = seen.get(sig, 0) + 1
        if seen[sig] <= 2:
            rep.violation(sig, what, rp)

    if PANIC_RE.search(err or b"") or rc == 101:
        viol("panic:%s:%s" % (c, sc["family"].split("/")[-1]), "panic text on stderr / exit status 101")
    if rc == "timeout" and c != "stderr":
        viol("hang:%s:%s" % (c, sc["family"]), "delta did not terminate")
        return

    def model_ans(i):
        a = answers[i] if i is not None else None
        return a.split(" ") if a else None

    # ---- delta exits after the pager (timestamps of the stub vs. our wait)
    def check_after_pager(tag):
        if ob.get("pager_pid") is None:
            viol("pager-not-started:" + tag, "the selected pager was not run")
            return
        if ob.get("pager_exit_time") is None:
            viol("exit-before-pager:" + tag, "delta ended while the pager was still running (no exit record of the pager yet)")
        elif ob["pager_exit_time"] > ob["t_end"] + 0.005:
            viol("exit-before-pager:" + tag, "delta ended %.3fs before the pager" % (ob["pager_exit_time"] - ob["t_end"]))

    if c == "fault":
        K, n = sc["K"], sc["n"]
        kind = "none" if K == 0 else sc["errno"]
        rep.count("fault:%s:%s" % (sc["mode"], "pager" if sc["pager"] else "stdout"))
        rep.case(key=("fault", sc["family"], K, kind), nontrivial=K > 0,
                 sample=dict(cls=c, family=sc["family"], K=K, n=n, errno=kind, rc=rc, events=ob.get("events")))
        silent = not ob.get("stderr_write") and not err
        want_rc = sc.get("sub", {}).get("status", 0)
        tag = "%s:%s" % (sc["mode"], "pager" if sc["pager"] else "stdout")
        if K == 0:
            if rc != want_rc:
                viol("status:%s" % tag, "exit status %r, expected %r" % (rc, want_rc))
            if sc["pager"]:
                check_after_pager(tag)
                exp = sc.get("expect_stdout")
                if exp is not None and ob.get("pager_stdin") != exp:
                    viol("pager-bytes:%s" % tag, "the pager did not receive exactly the bytes of the stdout-mode run")
            if n == 0:
                viol("no-writes:%s" % tag, "baseline run made no rendering write (harness problem?)")
        elif kind == "EPIPE":
            if rc != 0:
                viol("reader-gone-status:%s" % tag, "reader gone at write %d/%d: exit status %r, expected 0" % (K, n, rc))
            if not silent:
                viol("reader-gone-noise:%s" % tag, "reader gone at write %d/%d: delta wrote to stderr" % (K, n))
            if sc["pager"]:
                check_after_pager(tag)
        elif sc["pager"]:
            # any other write error: reported, and still not before the pager
            check_after_pager("write-error:" + tag)
            if silent:
                viol("silent-error:write-error:" + tag, "write error %s at write %d/%d: no message" % (kind, K, n))
        a = model_ans(ri)
        if a is not None:
            if a[0] != "ok":
                rep.corr_case("pager.run", False, dict(scenario=replayable(sc), model=" ".join(a)))
            else:
                agree = (str(rc) == a[1] and (silent == (a[2] == "1")) and ob.get("events") == a[3])
                rep.corr_case("pager.run", agree, dict(scenario=replayable(sc), impl=dict(rc=rc, silent=silent, events=ob.get("events")),
                                                       model=dict(rc=a[1], silent=a[2], events=a[3])))
        return

    if c == "reader":
        k = sc.get("k")
        rep.case(key=("reader", sc["family"], k), nontrivial=True,
                 sample=dict(cls=c, family=sc["family"], k=k, rc=rc, stderr=err[:80].decode("utf-8", "replace")))
        tag = sc["family"].split("/")[-1]
        if rc != 0:
            viol("reader-gone-status:real:" + tag, "reader closed after %r bytes: exit status %r, expected 0" % (k, rc))
        if err:
            viol("reader-gone-noise:real:" + tag, "reader closed after %r bytes: stderr not empty" % (k,))
        if sc["pager"]:
            check_after_pager("real:" + tag)
            if k is None and ref_small is not None and ob.get("pager_stdin") != ref_small:
                viol("pager-bytes:real:" + tag, "the pager did not receive exactly the bytes of the stdout-mode run")
        if ri is not None:
            a1, a2 = model_ans(ri[0]), model_ans(ri[1])
            if a1 and a2:
                ok = any(a[0] == "ok" and str(rc) == a[1] and ((not err) == (a[2] == "1")) for a in (a1, a2))
                rep.corr_case("pager.run(reader)", ok, dict(scenario=replayable(sc), impl=dict(rc=rc, stderr=bool(err)),
                                                            model=[" ".join(a1), " ".join(a2)]))
            if len(ri) == 4:
                b1, b2 = model_ans(ri[2]), model_ans(ri[3])
                if b1 and b2 and (b1[0] == "ERR" or b2[0] == "ERR"):
                    rep.count("runfull-skipped-old-driver")
                elif b1 and b2:
                    rep.count("pgstatus:" + sc["pstatus"])
                    ok = any(b[0] == "ok" and str(rc) == b[1] and ((not err) == (b[2] == "1")) and "unknown" not in b[3]
                             for b in (b1, b2))
                    rep.corr_case("pager.runfull(pager-status)", ok,
                                  dict(scenario=replayable(sc), impl=dict(rc=rc, stderr=bool(err)),
                                       model=[" ".join(b1[:4]), " ".join(b2[:4])],
                                       drop_rows=unhx(b1[4]).decode().split("\n") if len(b1) > 4 else None))
        return

    if c == "select":
        srcs = [k for k in ("config_pager", "DELTA_PAGER", "BAT_PAGER", "PAGER") if sc[k] is not None]
        rep.case(key=("select", sc["config_pager"], sc["DELTA_PAGER"], sc["BAT_PAGER"], sc["PAGER"], sc["paging"], sc["less_version"]),
                 nontrivial=len(srcs) >= 2 or sc.get("missing", False),
                 sample=dict(cls=c, **{k: sc[k] for k in ("config_pager", "DELTA_PAGER", "BAT_PAGER", "PAGER", "paging")},
                             ran=ob.get("pager_argv")))
        if rc != 0:
            viol("status:select", "exit status %r, expected 0" % (rc,))
        if err:
            viol("stderr:select", "unexpected stderr output: %r" % err[:200])
        argv = ob.get("pager_argv")
        if sc.get("missing"):
            if ref_small is not None and ob["stdout"] != ref_small:
                viol("output-lost:no-pager-binary", "no pager could be started and the output did not reach stdout")
            return
        exp_bin, exp_args, exp_src = expected_precedence(sc)
        rep.count("select-source:" + exp_src)
        if exp_bin is None:
            # empty command: no pager, output on stdout
            if argv is not None:
                viol("precedence:empty-command", "an empty pager command still started %r" % argv[:1])
            elif ref_small is not None and ob["stdout"] != ref_small:
                viol("output-lost:empty-command", "empty pager command: output did not reach stdout")
        else:
            if argv is None:
                viol("precedence:%s" % exp_src, "expected pager %r was not run" % exp_bin)
            else:
                ran = argv[0]
                same = (ran == exp_bin) if os.path.isabs(exp_bin) else (os.path.basename(ran) == exp_bin)
                if not same:
                    viol("precedence:%s" % exp_src, "pager run: %r, expected %r (config=%r DELTA_PAGER=%r BAT_PAGER=%r PAGER=%r)" % (
                        ran, exp_bin, sc["config_pager"], sc["DELTA_PAGER"], sc["BAT_PAGER"], sc["PAGER"]))
                else:
                    is_less = os.path.basename(exp_bin) == "less"
                    ours = exp_args is None or exp_args == []
                    if is_less and ours and not any(a in ("--RAW-CONTROL-CHARS", "-R", "-r") for a in argv[1:]):
                        viol("less-without-R:%s" % exp_src, "less started with arguments of delta's choosing but without --RAW-CONTROL-CHARS: %r" % argv[1:])
                    if exp_args and argv[1:] != exp_args:
                        viol("user-args-changed:%s" % exp_src, "user-chosen pager arguments %r became %r" % (exp_args, argv[1:]))
                if ref_small is not None and ob.get("pager_stdin") != ref_small:
                    viol("pager-bytes:select", "the pager did not receive exactly the bytes of the stdout-mode run")
                check_after_pager("select")
        a = model_ans(ri)
        if a is not None:
            if a[0] != "ok":
                rep.corr_case("pager.select", False, dict(scenario=replayable(sc), model=" ".join(a)))
            else:
                kind, path, margv = a[2], unhx(a[3]).decode(), unhx(a[4]).decode()
                margv = margv.split("\n") if margv else []
                if kind == "stdout":
                    agree = argv is None
                elif kind in ("less", "other"):
                    agree = (argv is not None and argv[1:] == margv and
                             ((argv[0] == path) if os.path.isabs(path) else os.path.basename(argv[0]) == path))
                else:
                    agree = False
                rep.corr_case("pager.select", agree, dict(scenario=replayable(sc), impl=argv, model=dict(kind=kind, path=path, argv=margv, source=a[1])))
        return

    if c == "status":
        mode = sc["mode"]
        sub = sc.get("sub", {})
        st = sub.get("status", 0)
        rep.case(key=("status", sc["family"], st, sub.get("stderr_lines"), sc["pager"]),
                 nontrivial=(st != 0 or mode != "stdin"),
                 sample=dict(cls=c, family=sc["family"], status=st, pager=sc["pager"], rc=rc))
        rep.count("status:%s" % sc["family"])
        tag = sc["family"]
        if mode == "real":
            ok = str(rc) == sc["want"]
            if sc["family"] == "real same" and rc != 0 or sc["family"] == "real different" and rc != 1:
                ok = False
            if not ok:
                viol("status:" + tag, "exit status %r, expected %s" % (rc, sc["want"]))
        elif mode == "stdin":
            if rc != 0:
                viol("status:stdin", "reading from stdin: exit status %r, expected 0" % (rc,))
            if err:
                viol("stderr:stdin", "unexpected stderr output: %r" % err[:200])
        elif mode == "sub" and sub.get("spawnok", True) and st != "sig":
            if rc != st:
                viol("status:" + tag, "child status %r, delta exit status %r" % (st, rc))
            if ob.get("sub_argv") is None:
                viol("sub-not-run:" + tag, "the wrapped command was not run")
        if sc["pager"] and mode in ("sub", "stdin", "real"):
            if not (mode == "sub" and not sub.get("spawnok", True)):
                check_after_pager("status")
        a = model_ans(ri)
        if a is not None:
            if a[0] != "ok":
                rep.corr_case("pager.run(status)", False, dict(scenario=replayable(sc), model=" ".join(a)))
            else:
                agree = str(rc) == a[1] and ((not err) == (a[2] == "1"))
                rep.corr_case("pager.run(status)", agree, dict(scenario=replayable(sc), impl=dict(rc=rc, stderr=err[:200].decode("utf-8", "replace")),
                                                               model=dict(rc=a[1], silent=a[2])))
        return

    if c == "errref":
        if rc == "timeout":
            viol("hang:errref", "reference run did not terminate")
        return

    if c == "errexit":
        klass = sc["klass"]
        rep.count("errexit:" + sc["family"])
        rep.count("errexit-pager-selected-by:" + sc["psel"])
        rep.case(key=("errexit", klass, sc["psel"], sc.get("source"), sc.get("value"), sc.get("closes_stdin"),
                      str((sc.get("model") or {}).get("status"))),
                 nontrivial=True, sample=dict(cls=c, klass=klass, psel=sc["psel"], args=sc["args"][-4:], rc=rc,
                                              events=ob.get("events"), stderr=(err or b"")[:80].decode("utf-8", "replace")))
        started = ob.get("pager_pid") is not None
        # (1) delta does not end before its pager does: the stub's own exit record vs. our wait ...
        if started:
            check_after_pager(klass)
            # ... and, independently, what delta did: it must wait for that pid before exit_group
            evs = (ob.get("events") or "").split(",")
            if "spawnPager" in evs:
                iw = evs.index("waitPager") if "waitPager" in evs else None
                ix = next((i for i, e in enumerate(evs) if e.startswith("exit:")), None)
                if iw is None or (ix is not None and ix < iw):
                    viol("exit-before-pager:" + klass, "delta did not wait for the pager it started (events: %s)" % ob.get("events"))
            argv = ob.get("pager_argv") or [""]
            if os.path.basename(argv[0]) != sc["pager_name"]:
                viol("precedence:errexit:" + sc["psel"], "pager run: %r, expected %r" % (argv[0], sc["pager_name"]))
        elif sc.get("must_page"):
            viol("pager-not-started:" + klass, "output was produced but the selected pager was not run")
        # (2) the documented status
        op, n = sc["want"]
        ok = {"eq": rc == n, "ge": isinstance(rc, int) and rc >= n, "ne": rc != n}[op]
        if not ok:
            viol("status:" + klass, "exit status %r, expected %s %r" % (rc, {"eq": "==", "ge": ">=", "ne": "!="}[op], n))
        # (3) an error is reported / a quiet path stays quiet
        if sc["want_msg"] and not err:
            viol("silent-error:" + klass, "error exit (status %r) without any message on stderr" % (rc,))
        if sc["family"] in ("diff-args-valid", "own-pager-reader-gone") and err and not (sc.get("own_pager") and b"bat warning" in err):
            viol("stderr:" + klass, "unexpected stderr output: %r" % err[:200])
        # (4) nothing bypasses the pager, everything reaches it
        if started and ob["stdout"]:
            viol("output-bypassed-pager:" + klass, "%d bytes went to stdout instead of the pager" % len(ob["stdout"]))
        exp = sc.get("expect_stdout")
        if sc.get("ref") is not None and exp is not None and started and ob.get("pager_stdin") != exp:
            viol("pager-bytes:" + klass, "the pager did not receive exactly the bytes of the --paging never run (%r vs %d expected)" % (
                None if ob.get("pager_stdin") is None else len(ob["pager_stdin"]), len(exp)))
        if sc.get("must_page") and exp is not None and not exp:
            viol("no-output:" + klass, "the reference run produced no output (harness problem?)")
        a = model_ans(ri)
        if a is not None:
            silent = not err
            if a[0] != "ok":
                rep.corr_case("pager.run(errexit)", False, dict(scenario=replayable(sc), impl=dict(rc=rc, events=ob.get("events")), model=" ".join(a)))
            else:
                def norm(e):
                    return ",".join(x for x in (e or "").split(",") if x != "closePager")
                # without any rendering write the pager's pipe cannot be told from the trace: closePager is not compared
                ev_i, ev_m = (ob.get("events"), a[3]) if ob.get("nwrites") else (norm(ob.get("events")), norm(a[3]))
                agree = str(rc) == a[1] and (silent == (a[2] == "1")) and ev_i == ev_m
                rep.corr_case("pager.run(errexit)", agree, dict(scenario=replayable(sc), impl=dict(rc=rc, silent=silent, events=ob.get("events")),
                                                                model=dict(rc=a[1], silent=a[2], events=a[3])))
        return

    if c == "oneshot":
        rep.case(key=("oneshot", sc["family"]), nontrivial=True, sample=dict(cls=c, family=sc["family"], rc=rc,
                                                                                stderr=err[:80].decode("utf-8", "replace")))
        noisy = bool(err) or bool(ob.get("stderr_write"))
        which = sc["family"].split("/")[0]
        if rc != 0 or noisy:
            viol("oneshot-broken-pipe:" + which, "`delta --%s` with the reader gone: exit status %r, stderr %r" % (which, rc, err[:100]))
        a = model_ans(ri)
        if a is not None and a[0] == "ok":
            agree = str(rc) == a[1] and ((not noisy) == (a[2] == "1"))
            rep.corr_case("pager.run(oneshot)", agree, dict(scenario=replayable(sc), impl=dict(rc=rc, noisy=noisy), model=" ".join(a)))
        return

    if c == "navref":
        if rc != 0 or err:
            viol("status:navigate-stdout:%s" % sc["refkey"], "--paging never run: exit status %r, stderr %r" % (rc, err[:200]))
        return

    if c == "navigate":
        key = (sc["family"], sc["navsrc"], sc["regex"], sc["paging"], sc["psrc"])
        tag = "%s:%s" % ("show-themes" if sc["show_themes"] else "navigate-" + ("on" if sc["navsrc"] != "off" else "off"), sc["regex"])
        rep.case(key=key, nontrivial=sc["navsrc"] != "off" or sc["show_themes"],
                 sample=dict(cls=c, navsrc=sc["navsrc"], regex=sc["regex"], paging=sc["paging"], pager=sc["psrc"], rc=rc,
                             argv=ob.get("pager_argv"), histfile=ob.get("pager_histfile")))
        rep.count("navigate:%s:%s" % (sc["navsrc"], sc["regex"]))
        argv = ob.get("pager_argv")
        panicked = rc == 101 or bool(PANIC_RE.search(err or b""))
        if rc != 0:
            viol("less-setup-status:" + tag, "less as pager, navigate=%s, navigate-regex %s, paging %s: exit status %r, stderr %r" % (
                sc["navsrc"], sc["regex"], sc["paging"], rc, err[:160]))
        elif err and not sc["show_themes"]:
            # (--show-themes renders every theme of themes.gitconfig; bat's "Unknown theme" warnings for
            #  syntax themes that are not bundled are about that file, not about the pager)
            viol("less-setup-noise:" + tag, "unexpected stderr output: %r" % err[:200])
        if argv is None:
            viol("less-setup-no-pager:" + tag, "less was never started: nothing reached the pager")
        else:
            if os.path.basename(argv[0]) != "less":
                viol("precedence:navigate", "pager run: %r, expected less" % argv[0])
            if "--RAW-CONTROL-CHARS" not in argv[1:]:
                viol("less-without-R:" + tag, "less started without --RAW-CONTROL-CHARS: %r" % argv[1:])
            got = ob.get("pager_stdin") or b""
            exp = sc.get("expect_stdout")
            if sc["show_themes"]:
                if b"Theme: " not in got:
                    viol("pager-bytes:" + tag, "the theme listing did not reach the pager")
            elif exp is not None:
                same = (got == exp) if not sc.get("pty") else (visible_lines(got) == visible_lines(exp))
                if not same:
                    viol("pager-bytes:" + tag, "the pager did not receive the output of the --paging never run")
            if ob["stdout"]:
                viol("output-bypassed-pager:" + tag, "%d bytes went to stdout instead of the pager" % len(ob["stdout"]))
            if rc == 0:
                check_after_pager(tag)
        a = model_ans(ri)
        if a is not None:
            if a[0] == "PANIC":
                agree = panicked
                mdl_d = " ".join(a)
            elif a[0] == "ok":
                hist = ob.get("pager_histfile")
                extra = unhx(a[3]).decode().split("\n") if len(a[3]) > 1 else []
                agree = (not panicked and argv is not None and (hist not in (None, "<unset>")) == (a[2] == "1")
                         and all(x in argv[1:] for x in extra) and (bool(extra) or "+n" not in argv[1:]))
                mdl_d = " ".join(a)
            else:
                agree, mdl_d = False, " ".join(a)
            rep.corr_case("pager.navsetup", agree, dict(scenario=replayable(sc), impl=dict(rc=rc, panicked=panicked, argv=argv,
                                                                                        histfile=ob.get("pager_histfile")), model=mdl_d))
        return

    if c == "stderr":
        rep.case(key=("stderr", sc["nbytes"]), nontrivial=True, sample=dict(cls=c, nbytes=sc["nbytes"], rc=rc))
        if rc == "timeout":
            viol("hang:subcommand-stderr-pipe-full", "wrapped command writing %d bytes to stderr: delta and the child block each other (stderr is only read after stdout reaches EOF)" % sc["nbytes"])
        elif rc != 0:
            viol("status:stderr-heavy-child", "exit status %r, expected 0" % (rc,))
        return


def replay(ctx, rep, obj):
    case = obj.get("case") or {}
    sc = case.get("scenario")
    if not sc:
        # a broken tie: re-run everything
        return run(ctx, rep)
    lab = Lab(ctx)
    try:
        # inputs and stubs live in a fresh lab: re-point paths of the recorded run
        old_root = None
        m = re.search(r"(/[^\s\"']*?/tmp-c18/run-[0-9-]+)", repr(sc))
        if m:
            old_root = m.group(1)
        lab.input_file("small.diff", DIFF_SMALL); lab.input_file("two.diff", DIFF_TWO_FILES)
        lab.input_file("plain.txt", TEXT_PLAIN); lab.input_file("rg.json", RG_JSON)
        lab.input_file("big.diff", big_diff(2400)); lab.input_file("a.txt", b"one\ntwo\nthree\n")
        lab.input_file("b.txt", b"one\nTWO\nthree\n"); lab.input_file("empty", b"")
        lab.input_file("blame.txt", BLAME_INPUT)

        def fix(x):
            if isinstance(x, str) and old_root:
                return x.replace(old_root, lab.root)
            if isinstance(x, list):
                return [fix(i) for i in x]
            if isinstance(x, dict):
                return {k: fix(v) for k, v in x.items()}
            return x
        sc = fix(sc)
        sc.pop("expect_stdout", None)
        _replay_one(ctx, rep, lab, sc)
    finally:
        lab.cleanup()


def _replay_one(ctx, rep, lab, sc):
    rep.rule = "replay of one recorded scenario"
    mdl = ctx.model("drv_pager") if ctx.drivers_ok else None
    ref = None
    if sc["cls"] in ("select", "reader") or (sc["cls"] == "fault" and sc.get("pager")):
        base = dict(cls="status", family="ref", args=["--no-gitconfig", "--paging", "never"] +
                    [a for a in sc["args"] if a in ("--side-by-side", "--line-numbers")] +
                    (["--width", "60"] if "--width" in sc["args"] else []),
                    stdin=sc.get("stdin"), path=sc["path"], env={k: v for k, v in sc.get("env", {}).items() if k.startswith("STUB_OUT") or k == "STUB_SUB_EXIT"})
        if sc.get("mode") == "sub":
            tail = sc["args"][sc["args"].index("--pager") + 2:] if "--pager" in sc["args"] else []
            base["args"] = ["--no-gitconfig", "--paging", "never"] + tail
        ref = observe(lab, base, 0)["stdout"]
        sc["expect_stdout"] = ref
    if sc["cls"] == "navigate" and sc.get("ref"):
        r = sc["ref"]
        sc["expect_stdout"] = observe(lab, dict(cls="navref", family="navref", refkey=sc.get("refkey"), args=r["args"],
                                                stdin=sc.get("stdin"), path=sc["path"], env=r["env"], gitconfig=r["gitconfig"]), 0)["stdout"]
    if sc["cls"] == "errexit" and sc.get("ref"):
        r = sc["ref"]
        sc["expect_stdout"] = observe(lab, dict(cls="errref", family="errref", args=r["args"], stdin=r["stdin"], path=r["path"],
                                                env=r["env"], gitconfig=r["gitconfig"]), 0)["stdout"]
    if sc["cls"] == "fault" and "n" not in sc:
        sc["n"] = 0
    ob = observe(lab, sc, 1)
    reqs = []
    ri = None
    c = sc["cls"]
    if c in ("fault", "status") and sc.get("mode") in ("stdin", "sub", "diffargs"):
        sub = sc.get("sub", {})
        fault = None
        if c == "fault" and sc["K"] > 0:
            fault = (sc["K"] - 1, "bp" if sc["errno"] == "EPIPE" else "other")
        reqs.append(model_run_req(sc["mode"], sc["pager"], sc.get("n", 1), fault, sub.get("kind", "git"),
                                  sub.get("spawnok", True), sub.get("status", 0), sub.get("stderr_lines", 0)))
        ri = 0
    elif c == "oneshot":
        reqs.append(model_run_req("oneshot", False, 1, (0, "bp")))
        ri = 0
    elif c == "errexit" and sc.get("model") and mdl is not None:
        ans = mdl.ask(["pager.exits"])[0].split(" ")
        tables = [[r for r in unhx(x).decode().split("\n") if r] for x in ans[1:4]] if ans[0] == "ok" else None
        req = errexit_req(sc, ob, tables)
        if req is not None:
            reqs.append(req)
            ri = 0
    elif c == "navigate":
        reqs.append(nav_req(sc))
        ri = 0
    elif c == "reader":
        sub = sc.get("sub", {})
        reqs.append(model_run_req(sc["mode"], sc["pager"], 1, None, sub.get("kind", "git"), True, 0, 0))
        reqs.append(model_run_req(sc["mode"], sc["pager"], 1, (0, "bp"), sub.get("kind", "git"), True, 0, 0))
        ri = (0, 1)
    elif c == "select" and not sc.get("missing"):
        m = re.match(r"less (\d+)", sc["less_version"])
        reqs.append("pager.select %s %s %s %s %s %s %d" % (
            cmd_field(sc["config_pager"]), cmd_field(sc["DELTA_PAGER"]), cmd_field(sc["BAT_PAGER"]),
            cmd_field(sc["PAGER"]), hx(ctx.delta), m.group(1) if m else "-", 1 if sc["paging"] == "auto" else 0))
        ri = 0
    answers = mdl.ask(reqs) if (mdl and reqs) else [None] * len(reqs)
    judge(ctx, rep, lab, sc, ob, ri, answers, ref)
