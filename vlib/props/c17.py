"""C17 — git blame output keeps code and attribution; colours follow commits.

Correspondence (same questions to the hooked implementation and to the Lean model `drv_blame`):
  blame.parse   real `parse_git_blame_line`            vs  `Blame.parseBlame`
  blame.meta    real `format_blame_metadata`           vs  `Blame.formatMeta`
  blame.number  real `format_blame_line_number`        vs  `Blame.fmtLineNumber`
  blame.format_data / linenum.parse_format
                real `parse_line_number_format` + `make_placeholder_regex`  vs  `Blame.PF.parseBlameFormat` /
                `Blame.PF.parseFormat` (format strings generated over the whole placeholder grammar
                `{label[:[[fill]align][width][.precision][[_]type]]}` and near-grammar mutations of them)
  blame.stream  real `StateMachine::handle_blame_line` vs  `BlameFlow.streamF` (the data flow of `is_repeat` —
                which expression blanks the metadata, reaches `get_color`, reaches the line-number formatter,
                and the `StateMachine` fields kept between lines — is translated from the source on every run:
                tools/extractors/blameflow.py -> Generated/BlameFlow.lean)
                (exhaustive key histories <= 6 lines over 3 keys x palettes of 2 and 3 colours; exhaustive key
                 histories <= 4 lines over 2 keys x every sequence of line-number steps +1 / +7 / -2 / 0;
                 random longer ones numbered consecutively, as several -L ranges, out of order, repeating,
                 descending, as a second listing, with -n / -M / -C original-number columns, near usize::MAX;
                 lines coloured by git mixed in)
  binary        whole blame streams through the real delta (`delta ... git blame f` with a stub
                `git`, or stdin with the calling process pinned) vs `BlameFlow.streamF`, same numberings

Direct oracle (written against the property text, shares nothing with the model): decoded
background colour and visible text of every output row of the real binary (and of the hook
stream): one row per line, in order; code, number, commit, author and time intact; metadata
blanked only when the line above has the same attribution; same attribution as the line above
=> same colour; different attribution => different colour; a reappearing attribution keeps its
last colour unless that is the colour of the line above. For format strings generated from their
meaning (part "format" and the `fmt-*` binary classes) additionally: the implementation reads the
format string as it was written (`format-round-trip`), and the metadata of a row is the literal
text and the fields laid out as the specs say (`metadata-as-specified`, an independent Python
reading of the std::fmt subset: truncate to the precision, pad to the width on the side(s) the
alignment names).
"""
import itertools
import os
import re
import stat
import unicodedata

from ..core import BUILD, hx, unhx, parallel_map, sha, b64

DRIVERS = ["drv_blame"]

FIXED_TS = "%Y-%m-%d %H:%M:%S %z"
BAR = "│"

# ------------------------------------------------------------------ small helpers


def unx(f):
    return unhx(f).decode("utf-8", "replace")


def is_panic(resp):
    return resp is not None and (resp.startswith("PANIC") or resp.startswith("DIED"))


def same_resp(i, m):
    """Panics are compared as panics (any message); everything else literally."""
    if is_panic(i) or is_panic(m):
        return is_panic(i) and is_panic(m)
    return i == m


def expand_tabs(s, w):
    return s if w == 0 else s.replace("\t", " " * w)


# ------------------------------------------------------------------ generators

AUTHORS_CLEAN = ["Dan Davison", "Al", "x y", "O'Neil (work)", "Nicholas Marriott", "J. R. (Bob) Dobbs",
                 "a  b", "Dr. Who-Where", "mkq", "ab"]
AUTHORS_ACCENT = ["Édith Piaf", "José Ñuñez", "Édith Piaf", "Ünal Öz"]
AUTHORS_WIDE = ["日本", "Kangwook Lee (이강욱)", "李 雷", "Zoë \U0001f600"]
AUTHORS_ONE = ["X", "j", "é"]
TZS = ["+0000", "-0700", "+0900", "+0530", "+0545", "-1200", "+1400", "-0330", "+1245", "-0100", "+2359", "-2359"]
FILES = [None, None, None, "old/name.rs", "dir with space/f.c", "a-b_c.txt", "src/über.rs"]
CODE_WORDS = ["let", "x", "=", "1;", "fn", "main()", "{", "}", "(a,", "b)", "//", "2021-08-22", "18:20:19", "+0000",
              "5)", "\"str\"", "\t", "  ", "if", "a(b)", "é", "日本", "#", "|", "+", "-", "@@", "^abc",
              "deadbeef", "(", ")", "0)"]


def gen_ts(rng, tz=None):
    y = rng.choice([1970, 1999, 2000, 2004, 2019, 2020, 2021, 2024, 2038, rng.randint(1, 9999)])
    m = rng.randint(1, 12)
    dim = [31, 29 if (y % 4 == 0 and y % 100 != 0) or y % 400 == 0 else 28, 31, 30, 31, 30, 31, 31, 30, 31, 30, 31][m - 1]
    d = rng.randint(1, dim)
    return "%04d-%02d-%02d %02d:%02d:%02d %s" % (y, m, d, rng.randint(0, 23), rng.randint(0, 59),
                                                 rng.randint(0, 59), tz or rng.choice(TZS))


def gen_commit(rng, i=None):
    n = rng.choice([8, 8, 8, 7, 10, 12, 40, 4])
    h = "".join(rng.choice("0123456789abcdef") for _ in range(n))
    if i is not None:      # make commits of one stream pairwise distinct
        h = ("%x" % (i + 10)) + h[1:]
    if rng.random() < 0.2:
        h = "^" + h[:-1] if len(h) > 4 else "^" + h
    return h


def gen_code(rng, tabs=True):
    ws = [w for w in CODE_WORDS if tabs or w != "\t"]
    n = rng.choice([0, 1, 2, 3, 5, 8])
    body = " ".join(rng.choice(ws) for _ in range(n))
    return " " + body if (n or rng.random() < 0.7) else ""


TAIL_RE = re.compile(r" +[0-9]{4}-[0-9]{2}-[0-9]{2} [0-9]{2}:[0-9]{2}:[0-9]{2} [-+][0-9]{4} +[0-9]+\)")


def has_lookalike(code):
    return TAIL_RE.search(code) is not None


class Attr:
    """One commit = one attribution (commit, author, time, optional file column)."""

    def __init__(self, commit, author, ts, file=None):
        self.commit, self.author, self.ts, self.file = commit, author, ts, file

    def tup(self):
        return (self.commit, self.author, self.ts)


def blame_line(a, n, code, pad_a=1, pad_b=1, col=None):
    """`col`: what stands between the commit and `(` on this line instead of the attribution's file column
    (`git blame -n` / `-f -n` / `-M -C`: the original line number, with or without the original file name)."""
    c = col if col is not None else a.file
    return "%s%s (%s%s%s%s%d)%s" % (a.commit, (" " + c) if c else "", a.author, " " * pad_a, a.ts,
                                     " " * pad_b, n, code)


# ---- line numbers of a blame stream. `git blame <file>` numbers the lines 1, 2, 3 ...; several `-L` ranges leave
#      forward gaps (also inside one commit); wrappers that print selected ranges, a second listing in the same
#      stream, `--reverse` walks and concatenated outputs jump backwards or repeat numbers; `-n` / `-M` / `-C` add a
#      column of *original* numbers that jump whenever a block was moved.
NUMBER_SCHEMES = ("consecutive", "ranges", "ranges-unordered", "repeat", "random", "descending", "second-listing", "moved", "huge")


def gen_numbers(rng, L, scheme):
    """-> (numbers, cols): L line numbers following `scheme`, and per line the extra column or None."""
    cols = [None] * L
    if scheme == "consecutive":
        n0 = rng.choice([1, 1, 1, 95, 995, 9998])
        return [n0 + i for i in range(L)], cols
    if scheme in ("ranges", "ranges-unordered"):
        # 2-5 `-L` ranges; the cuts fall anywhere, also in the middle of a run of one commit
        k = min(L, rng.choice([2, 2, 3, 4, 5]))
        cuts = sorted(rng.sample(range(1, L), k - 1)) if L > 1 else []
        out, n = [], rng.choice([1, 3, 10, 120])
        for i in range(L):
            if i in cuts:
                if scheme == "ranges":
                    n += rng.choice([1, 1, 2, 5, 30, 70, 1000])        # a gap of 1 = the next line after a missing one
                else:
                    n = rng.choice([1, 2, 10, 50, n, max(1, n - 3), rng.randint(1, 400)])
                    n -= 1
            n += 1
            out.append(n)
        return out, cols
    if scheme == "repeat":
        out, n = [], rng.choice([1, 7, 120])
        for i in range(L):
            if i == 0 or rng.random() < 0.55:
                n += 1
            out.append(n)
        return out, cols
    if scheme == "random":
        return [rng.randint(0, 60) for _ in range(L)], cols
    if scheme == "descending":
        n0 = rng.choice([L, L + 5, 300])
        return [n0 - i for i in range(L)], cols
    if scheme == "second-listing":
        h = max(1, L // 2)
        return [1 + i for i in range(h)] + [1 + i for i in range(L - h)], cols
    if scheme == "moved":
        # final numbers are consecutive; the column of original numbers (and file names) jumps
        kind = rng.choice(["n", "fn"])
        orig, o = [], rng.choice([1, 40])
        for i in range(L):
            if i and rng.random() < 0.3:
                o = rng.randint(1, 500)
            o += 1
            orig.append(o)
        f = rng.choice(["old/name.rs", "a-b_c.txt", "dir with space/f.c"])
        cols = [("%s %d" % (f, o)) if kind == "fn" else ("%d" % o) for o in orig]
        n0 = rng.choice([1, 95])
        return [n0 + i for i in range(L)], cols
    if scheme == "huge":
        top = 2 ** 64 - 1
        if rng.random() < 0.5:
            return [top - (L - 1) + i for i in range(L)], cols
        return [rng.choice([top, top - 1, top - 2, 1, 2 ** 63]) for _ in range(L)], cols
    raise ValueError(scheme)


def number_relation(items, i):
    """How the number of line i relates to the line above *of the same attribution* (None: first line, other
    attribution, or simply the next number)."""
    if i <= 0 or i >= len(items) or items[i - 1]["attr"].tup() != items[i]["attr"].tup():
        return None
    a, b = items[i - 1]["n"], items[i]["n"]
    if b == a + 1:
        return None
    return "line-number-gap" if b > a + 1 else ("line-number-repeat" if b == a else "line-number-backward")


def number_class(items):
    rels = sorted({r for r in (number_relation(items, i) for i in range(len(items))) if r})
    return "+".join(rels) if rels else None


def gen_attrs(rng, k, authors):
    """k commits; several commits by one author are common, and rebased / scripted commits even
    share author *and* time: only the hash tells them apart."""
    out = []
    for i in range(k):
        a = Attr(gen_commit(rng, i), rng.choice(authors), gen_ts(rng), rng.choice(FILES))
        if out and rng.random() < 0.35:
            o = rng.choice(out)
            a.author = o.author
            if rng.random() < 0.5:
                a.ts = o.ts
        out.append(a)
    return out


# ------------------------------------------------------------------ SGR decoding (independent of delta and of the model)

CSI = re.compile(r"\x1b\[([0-9;:]*)([A-Za-z])")


def decode_row(row):
    """-> (visible text, list of background per visible char). Background: None or a tuple."""
    text, bgs = [], []
    bg = None
    i = 0
    while i < len(row):
        ch = row[i]
        if ch == "\x1b":
            m = CSI.match(row, i)
            if m:
                if m.group(2) == "m":
                    ps = [p for p in m.group(1).split(";")] if m.group(1) else ["0"]
                    j = 0
                    while j < len(ps):
                        p = int(ps[j]) if ps[j].isdigit() else 0
                        if p == 0 or p == 49:
                            bg = None
                        elif 40 <= p <= 47 or 100 <= p <= 107:
                            bg = ("ansi", p)
                        elif p == 48 and j + 1 < len(ps):
                            if ps[j + 1] == "2" and j + 4 < len(ps):
                                bg = ("rgb", ps[j + 2], ps[j + 3], ps[j + 4])
                                j += 4
                            elif ps[j + 1] == "5" and j + 2 < len(ps):
                                bg = ("256", ps[j + 2])
                                j += 2
                        elif p == 38 and j + 1 < len(ps):
                            j += 4 if ps[j + 1] == "2" else 2
                        j += 1
                i = m.end()
                continue
            # OSC or anything else: skip to BEL / ST
            if row.startswith("\x1b]", i):
                k = row.find("\x07", i)
                k2 = row.find("\x1b\\", i)
                ends = [x for x in (k + 1 if k >= 0 else -1, k2 + 2 if k2 >= 0 else -1) if x > 0]
                i = min(ends) if ends else len(row)
                continue
            i += 1
            continue
        text.append(ch)
        bgs.append(bg)
        i += 1
    return "".join(text), bgs


# ------------------------------------------------------------------ configurations

BLAME_FORMATS = [
    None,                                                  # the default {timestamp:<15} {author:<15.14} {commit:<8}
    "{commit:<10} {author:<12} {timestamp}",
    "{author} " + BAR + " {commit}",
    "{timestamp:^30} {commit:>12} ",
    "{commit}",
    "[{commit:^14}] {author:>20.18}",
]
# (format string, prefix, suffix, kind, every-n, has number)
SEP_FORMATS = [
    (None, BAR, BAR, "on", 0, True),
    (BAR + "{n:^4_block}" + BAR, BAR, BAR, "block", 0, True),
    (":{n:>5}:", ":", ":", "on", 0, True),
    ("~{n:<3_every-3} | ", "~", " | ", "every", 3, True),
    ("none", "", BAR, "on", 0, False),
]
PALETTE_POOL = ["#010203", "#aabbcc", "#123456", "#fedcba", "#0000ff", "#00ff00", "#ff0000", "#777777"]


def fmt_placeholders(fmt):
    """[(name, precision or None)] of a blame format (written for the oracle; knows only the syntax)."""
    f = fmt if fmt is not None else "{timestamp:<15} {author:<15.14} {commit:<8}"
    out = []
    for m in re.finditer(r"\{(timestamp|author|commit)(?::[^}]*?)?\}", f):
        spec = m.group(0)
        pm = re.search(r"\.(\d+)", spec)
        out.append((m.group(1), int(pm.group(1)) if pm else None))
    return out


# ---- format strings over the whole placeholder grammar of src/format.rs (make_placeholder_regex):
#      {label[:[[fill]align][width][.precision][[_]type]]}, every part optional and independent.
PH_NAMES = ["timestamp", "author", "commit"]
FMT_FILLS = ["*", "0", " ", "x", "_", "é", "日", "}", "{", ":", ".", "-", "7"]
FMT_TYPES = ["block", "x", "every-3", "Z9_-", "s", "n"]
FMT_LITS = ["", " ", " ", " ", "  ", " | ", "-", "[", "]", ":", "{", "}", "{x}", "{{", "}}", " {} ", "é", "日 ", "@ ",
            "<", ">", "^", "(", ")", "{n}", "{:>4}", ". ", "_", "{nm:^4}", " {ts} "]
FMT_WIDTHS = [0, 1, 4, 7, 8, 12, 15, 20, 30, 45]
FMT_PRECS = [0, 1, 3, 7, 8, 10, 14, 40]
FMT_SHAPES = ("bare", "width-only", "precision-only", "width.precision", "align-only")


def gen_spec(rng, name, shape=None):
    """One placeholder, from its meaning. shape: which of width / precision are present."""
    shape = shape or rng.choice(FMT_SHAPES)
    sp = dict(name=name, fill=None, align=None, width=None, prec=None, under=False, type=None)
    if shape in ("width-only", "width.precision"):
        sp["width"] = rng.choice(FMT_WIDTHS)
    if shape in ("precision-only", "width.precision"):
        # the commit abbreviated to fewer than 2 characters no longer tells the generated commits apart
        sp["prec"] = rng.choice([p for p in FMT_PRECS if p >= 2] if name == "commit" else FMT_PRECS)
    if shape == "align-only" or (shape != "bare" and rng.random() < 0.6):
        sp["align"] = rng.choice("<^>")
        if rng.random() < 0.35:
            sp["fill"] = rng.choice(FMT_FILLS)
    if shape != "bare" and rng.random() < 0.25:
        sp["type"] = rng.choice(FMT_TYPES)
        sp["under"] = rng.random() < 0.6
    if shape == "bare" and rng.random() < 0.15:          # {commit:_block}: a type and nothing else
        sp["type"] = rng.choice(FMT_TYPES)
        sp["under"] = rng.random() < 0.6
    return sp


def spec_shape(sp):
    if sp["width"] is not None and sp["prec"] is not None:
        return "width.precision"
    if sp["prec"] is not None:
        return "precision-only"
    if sp["width"] is not None:
        return "width-only"
    if sp["align"] is not None:
        return "align-only"
    return "type-only" if sp["type"] else "bare"


def spec_text(sp):
    body = ""
    if sp["align"]:
        body += (sp["fill"] or "") + sp["align"]
    if sp["width"] is not None:
        body += str(sp["width"])
    if sp["prec"] is not None:
        body += "." + str(sp["prec"])
    if sp["type"]:
        body += ("_" if sp["under"] else "") + sp["type"]
    return "{" + sp["name"] + (":" + body if body else "") + "}"


def fmt_text(g):
    return "".join(lit + spec_text(sp) for lit, sp in g["pieces"]) + g["tail"]


def gen_format(rng, names=PH_NAMES, need="commit", force_shape=None):
    """A format string written from its meaning: [(literal, spec)] + tail. `need`: a label that must occur."""
    k = rng.choice([1, 2, 2, 3, 3, 4])
    labs = [rng.choice(names) for _ in range(k)]
    if need and need not in labs:
        labs[rng.randrange(k)] = need
    pieces = []
    lits = [l for l in FMT_LITS if not any("{" + n in l for n in names)]
    for i, nm in enumerate(labs):
        lit = rng.choice(lits)
        if i == 0 and lit.startswith("-"):
            lit = ""
        pieces.append((lit, gen_spec(rng, nm, force_shape if (force_shape and nm == (need or nm)) else None)))
    g = dict(pieces=pieces, tail=rng.choice(lits + ["", "", " "]))
    g["text"] = fmt_text(g)
    return g


FMT_PRIORITY = ["precision-only", "width.precision", "type-only", "align-only", "width-only", "bare"]


def fmt_class(g, name=None):
    """Input class of a generated format: the shape of the `name` placeholder(s), else of the whole format."""
    shapes = {spec_shape(sp) for _, sp in g["pieces"] if name is None or sp["name"] == name}
    for s_ in FMT_PRIORITY:
        if s_ in shapes:
            return "fmt-" + s_
    return "fmt-bare"


def pad_field(s, width, align, prec):
    """std::fmt for a string: at most `prec` chars, padded with blanks to `width` chars."""
    t = s if prec is None else s[:prec]
    n = max(0, width - len(t))
    if align == ">":
        return " " * n + t
    if align == "^":
        return " " * (n // 2) + t + " " * (n - n // 2)
    return t + " " * n


def field_of(sp, a):
    return dict(commit=a.commit, author=a.author, timestamp=a.ts)[sp["name"]]


def expected_meta(g, a, widths):
    """The metadata column as the format string says (delta's documented defaults: width 15, left; the width
    counts terminal cells, so chars that are not one cell wide shift it)."""
    out = ""
    for lit, sp in g["pieces"]:
        field = field_of(sp, a)
        cells = sum(widths.get(ord(c), 1) for c in field)
        w = max(0, (15 if sp["width"] is None else sp["width"]) + len(field) - cells)
        out += lit + pad_field(field, w, sp["align"] or "<", sp["prec"])
    return out + g["tail"]


def want_items(g, label_of=lambda n: n):
    """What parse_line_number_format has to return for fmt_text(g): canonical item tuples
    (prefix, label, align, width, precision, type, suffix)."""
    out = []
    rest = [lit + spec_text(sp) for lit, sp in g["pieces"]]
    for i, (lit, sp) in enumerate(g["pieces"]):
        suffix = "".join(rest[i + 1:]) + g["tail"]
        out.append((lit, label_of(sp["name"]), sp["align"], sp["width"], sp["prec"], sp["type"] or "", suffix))
    return out


def mutate_format(rng, text):
    """Near-grammar strings: one or two character edits of a well-formed format."""
    alphabet = "{}:<^>._-0123456789abnmpt*日 "
    t = text
    for _ in range(rng.choice([1, 1, 2])):
        r = rng.random()
        if t and r < 0.4:
            i = rng.randrange(len(t))
            t = t[:i] + t[i + 1:]
        elif r < 0.8:
            i = rng.randrange(len(t) + 1)
            t = t[:i] + rng.choice(alphabet) + t[i:]
        elif t:
            i = rng.randrange(len(t))
            t = t[:i] + rng.choice(alphabet) + t[i + 1:]
    return t


def cfg_args(pal, fmt, sep, tab=None, extra=()):
    a = ["--blame-timestamp-output-format", FIXED_TS]
    if pal is not None:
        a += ["--blame-palette", " ".join(pal)]
    if fmt is not None:
        a += ["--blame-format", fmt]
    if sep is not None:
        a += ["--blame-separator-format", sep]
    if tab is not None:
        a += ["--tabs", str(tab)]
    return a + list(extra)


def cfg_line(args):
    return "cfg " + " ".join(hx(a) for a in args)


# ------------------------------------------------------------------ the direct oracle

FEATURES = ("wide-author", "one-char-author", "lookalike-code", "git-coloured")


def line_features(item):
    """item: dict(attr, n, code, git)."""
    f = set()
    a = item["attr"].author
    if any(unicodedata.east_asian_width(c) in ("W", "F") for c in a):
        f.add("wide-author")
    if len(a) == 1:
        f.add("one-char-author")
    if has_lookalike(item["code"]):
        f.add("lookalike-code")
    if item.get("git"):
        f.add("git-coloured")
    return f


def classify(items):
    fs = set()
    for it in items:
        fs |= line_features(it)
    return "+".join(sorted(fs)) if fs else "clean"


def check_rows(items, rows, conf, distinct_palette=True):
    """The property, evaluated on decoded rows. items[i] = dict(attr, n, code, git);
    rows[i] = (text, bg list) or None (row missing). conf = dict(fmt, sep, tab).
    Returns a list of (rule, index, detail)."""
    bad = []
    if len(rows) != len(items):
        bad.append(("one-row-per-line", min(len(rows), len(items)), "rows=%d lines=%d" % (len(rows), len(items))))
    fmt, (sepf, spre, ssuf, skind, severy, shasnum), tab = conf["fmt"], conf["sep"], conf["tab"]
    g = conf.get("gfmt")       # a format generated from its meaning: the oracle knows what it says without parsing it
    phs = [(sp["name"], sp["prec"]) for _, sp in g["pieces"]] if g else fmt_placeholders(fmt)
    colours = []
    last_colour = {}
    for i, it in enumerate(items):
        if i >= len(rows):
            break
        text, bgs = rows[i]
        a = it["attr"]
        if text == it["raw"]:
            # the line was not recognised as a blame line at all: it is passed through as it came
            bad.append(("unhandled-line", i, dict(row=text)))
            colours.append(("raw", i))
            continue
        code = expand_tabs(it["code"], tab)
        # --- code intact: the row ends with the code
        if not text.endswith(code):
            bad.append(("code-intact", i, dict(row=text, want_code=code)))
            colours.append(bgs[0] if bgs else None)
            last_colour[a.tup()] = colours[-1]
            continue
        head = text[: len(text) - len(code)]
        hbg = bgs[: len(head)]
        # --- separator and line number
        meta = None
        if head.endswith(ssuf):
            h2 = head[: len(head) - len(ssuf)]
            if shasnum:
                k = h2.rfind(spre)
                numf = h2[k + len(spre):] if k >= 0 else None
                meta = h2[:k] if k >= 0 else None
                prev_same_for_num = i > 0 and items[i - 1]["attr"].tup() == a.tup()
                if numf is None:
                    bad.append(("line-number", i, dict(row=text)))
                elif numf.strip() == "":
                    may_blank = prev_same_for_num and (skind == "block" or (skind == "every" and it["n"] % severy != 0))
                    if not may_blank:
                        bad.append(("line-number", i, dict(row=text, want=it["n"], got="blank")))
                elif numf.strip() != str(it["n"]):
                    bad.append(("line-number", i, dict(row=text, want=it["n"], got=numf)))
            else:
                meta = h2
        else:
            bad.append(("separator", i, dict(row=text)))
        # --- attribution
        prev_same = i > 0 and items[i - 1]["attr"].tup() == a.tup()
        if meta is not None:
            if meta.strip() == "" and meta != "":
                if not prev_same:
                    bad.append(("blank-only-on-repeat", i, dict(row=text, prev=items[i - 1]["attr"].tup() if i else None,
                                                                 this=a.tup())))
            else:
                want = dict(commit=a.commit, author=a.author, timestamp=a.ts)
                for name, prec in phs:
                    w = want[name] if prec is None else want[name][:prec]
                    if w not in meta:
                        bad.append(("attribution-" + name, i, dict(row=text, want=w, meta=meta)))
                if g and not it.get("git"):
                    em = expected_meta(g, a, conf.get("widths") or {})
                    if meta != em:
                        bad.append(("metadata-as-specified", i, dict(row=text, want=em, meta=meta)))
        # --- colour of the row: background of the metadata column (all of head, and the code)
        c = hbg[0] if hbg else (bgs[0] if bgs else None)
        if it.get("git"):
            # git coloured this line itself (blame.coloring / --color-lines): delta keeps that style;
            # the palette rules do not speak about such rows
            colours.append(("git", i))
            continue
        if any(b != c for b in bgs):
            bad.append(("one-colour-per-row", i, dict(row=text, bgs=sorted(set(map(str, bgs))))))
        if c is None:
            bad.append(("has-background", i, dict(row=text)))
        if i > 0 and len(colours) == i and not (isinstance(colours[i - 1], tuple) and colours[i - 1][0] == "git"):
            pc = colours[i - 1]
            if prev_same and c != pc:
                bad.append(("same-attribution-same-colour", i, dict(prev=str(pc), this=str(c))))
            if not prev_same and c == pc and distinct_palette:
                bad.append(("neighbour-differs", i, dict(colour=str(c), prev=items[i - 1]["attr"].tup(), this=a.tup())))
            if not prev_same and a.tup() in last_colour:
                lc = last_colour[a.tup()]
                if lc != pc and c != lc:
                    bad.append(("colour-stable-unless-collision", i, dict(last=str(lc), above=str(pc), got=str(c))))
        colours.append(c)
        last_colour[a.tup()] = c
    return bad


# ------------------------------------------------------------------ model requests

def cw_field(widths):
    """widths: dict codepoint -> width for chars whose width is not 1."""
    return ",".join("%d:%d" % (cp, w) for cp, w in sorted(widths.items())) or "-"


def pool_texts():
    return AUTHORS_CLEAN + AUTHORS_ACCENT + AUTHORS_WIDE + AUTHORS_ONE + CODE_WORDS + [f for f in FILES if f] + [BAR] + \
        [f for f in BLAME_FORMATS if f] + [s[0] for s in SEP_FORMATS if s[0]] + FMT_FILLS + FMT_LITS


def cfg_data(hook):
    """{(blame format, separator format): (format items field, separator field)} as parsed by the
    implementation (`parse_line_number_format`, `parse_blame_line_numbers`); one hook process."""
    pairs = [(f, s[0]) for f in BLAME_FORMATS for s in SEP_FORMATS]
    reqs, sticky = [], []
    for f, sp in pairs:
        sticky.append(len(reqs))
        reqs += [cfg_line(cfg_args(None, f, sp)), "blame.format_data", "blame.sep_data"]
    resp = hook.ask(reqs, sticky=sticky)
    out = {}
    for n, pr in enumerate(pairs):
        out[pr] = (" ".join(resp[3 * n + 1].split()[1:]), resp[3 * n + 2].split()[1])
    return out


def char_widths(hook, texts):
    """Ask the implementation (unicode-width) for the width of every non-ASCII char used.
    Also returns the set of strings whose width is not the sum of their chars' widths."""
    chars = sorted({c for t in texts for c in t if ord(c) > 126 or ord(c) < 32})
    widths = {}
    if chars:
        resp = hook.ask(["blame.widths " + hx("".join(chars))])[0].split()
        per = resp[3:]
        for c, w in zip(chars, per):
            if int(w) != 1:
                widths[ord(c)] = int(w)
    return widths


# ------------------------------------------------------------------ part A: the parser

def near_valid_lines(rng, n):
    """Valid, near-valid and ambiguous blame lines (text only)."""
    out = []
    base_auth = AUTHORS_CLEAN + AUTHORS_ACCENT + AUTHORS_WIDE + AUTHORS_ONE
    for _ in range(n):
        a = Attr(gen_commit(rng), rng.choice(base_auth), gen_ts(rng), rng.choice(FILES))
        num = rng.choice([0, 1, 7, 42, 120, 9999, 10000, 123456, 2 ** 64 - 1, 2 ** 64, 10 ** 25])
        code = gen_code(rng)
        line = blame_line(a, num, code, rng.choice([1, 1, 2, 7]), rng.choice([1, 1, 3]))
        r = rng.random()
        if r < 0.45:
            pass
        elif r < 0.6:          # mutate one char
            i = rng.randrange(len(line))
            line = line[:i] + rng.choice(" (:)-+^x0g\t") + line[i + 1:]
        elif r < 0.7:          # delete one char
            i = rng.randrange(len(line))
            line = line[:i] + line[i + 1:]
        elif r < 0.8:          # invalid / edge timestamps
            ts = rng.choice(["2021-13-01 00:00:00 +0000", "2021-02-29 00:00:00 +0000", "2020-02-29 23:59:60 -0000",
                             "1900-02-29 00:00:00 +0000", "2000-02-29 00:00:00 +0000", "2021-04-31 10:00:00 +0100",
                             "2021-01-01 24:00:00 +0000", "2021-01-01 00:60:00 +0000", "2021-01-01 00:00:61 +0000",
                             "2021-01-01 00:00:00 +2400", "2021-01-01 00:00:00 +0060", "0000-01-01 00:00:00 -0000",
                             "9999-12-31 23:59:59 +2359", "2021-00-01 00:00:00 +0000", "2021-01-00 00:00:00 +0000"])
            line = blame_line(Attr(a.commit, a.author, ts, a.file), num, code)
        elif r < 0.9:          # look-alike inside the code / the author / the file column
            extra = " %s %s %d)" % (rng.choice(["x", ")", "\"", "ab"]), gen_ts(rng), rng.randint(0, 99))
            where = rng.random()
            if where < 0.6:
                line = blame_line(a, num, code + extra + gen_code(rng))
            elif where < 0.8:
                line = blame_line(Attr(a.commit, a.author + extra, a.ts, a.file), num, code)
            else:
                line = blame_line(Attr(a.commit, a.author, a.ts, "f (x).c"), num, code)
        else:                  # commit length / case / caret edge cases
            c = rng.choice(["abc", "abcd", "ABCD1234", "^abc", "^abcd", "^^abcd12", "a" * 40, "a" * 41, "a" * 45,
                            "0123456789abcdef0123456789abcdef01234567", "abcd123g", ""])
            line = blame_line(Attr(c, a.author, a.ts, a.file), num, code)
        out.append(line)
    return out


def part_parse(ctx, rep, hook, mdl, widths, cdata):
    rng = ctx.rng
    lines = near_valid_lines(rng, ctx.n(1500, 40000))
    lines += ["", " ", "abcd1234 (X 2021-08-22 18:20:19 -0700 1) code",
              "abcd1234 (Dan 2021-08-22 18:20:19 -0700 120) log(\"x 2019-01-01 00:00:00 +0000 5) y\")",
              "61f180c8 (Kangwook Lee (이강욱) 2021-06-09 23:33:59 +0900 130)     let mut output_type ="]
    reqs = ["blame.parse " + hx(l) for l in lines]
    impl = hook.ask([cfg_line([])] + reqs, sticky=[0])[1:]
    model = mdl.ask(reqs) if mdl else [None] * len(reqs)
    for l, i, m in zip(lines, impl, model):
        parsed = i.startswith("ok x")
        rep.case(key=("parse", l), nontrivial=parsed, sample=dict(op="blame.parse", line=l, impl=i))
        rep.count("parse:" + ("matched" if parsed else ("panic" if is_panic(i) else "no-match")))
        if m is not None:
            rep.corr_case("blame.parse", same_resp(i, m), dict(op="blame.parse", line=l, impl=i, model=m))
    # direct oracle: well-formed lines give back exactly the fields they were made from
    wf = []
    for _ in range(ctx.n(600, 10000)):
        a = Attr(gen_commit(rng), rng.choice(AUTHORS_CLEAN + AUTHORS_ACCENT + AUTHORS_WIDE + AUTHORS_ONE),
                 gen_ts(rng), rng.choice(FILES))
        if a.file and "(" in a.file:
            a.file = None
        n = rng.choice([0, 1, 9, 10, 120, 99999, 2 ** 63, 2 ** 64 - 1])
        code = gen_code(rng)
        while has_lookalike(code):
            code = gen_code(rng)
        wf.append((a, n, code, blame_line(a, n, code, rng.choice([1, 2, 9]), rng.choice([1, 2, 4]))))
    impl = hook.ask([cfg_line([])] + ["blame.parse " + hx(w[3]) for w in wf], sticky=[0])[1:]
    for (a, n, code, line), i in zip(wf, impl):
        f = i.split()
        got = None
        if len(f) == 6 and f[0] == "ok":
            got = (unx(f[1]), unx(f[2]), unx(f[3]), int(f[4]), unx(f[5]))
        want = (a.commit, a.author, a.ts, n, code)
        feats = line_features(dict(attr=a, n=n, code=code, git=False)) - {"wide-author"}
        rep.case(key=("roundtrip", line), nontrivial=True)
        if got != want:
            cls = "+".join(sorted(feats)) if feats else "clean"
            rep.violation("parse-round-trip:" + cls,
                          "parse_git_blame_line does not return the fields of a well-formed blame line",
                          dict(kind="parse", line=line, want=want, got=i))


# ------------------------------------------------------------------ part B/C: metadata, number, colour histories (hook level)

def hook_stream_items(resp):
    """`ok h,colour,xrow ...` -> list of (handled, colour str or None for git/'-', row text)."""
    if not resp.startswith("ok"):
        return None
    out = []
    for it in resp.split()[1:]:
        h, c, r = it.split(",")
        out.append((h == "1", c, unx(r)))
    return out


def model_stream_req(pal, items_f, sep_f, tab, widths, lines):
    return "blame.stream %d %s %s %s %d %s %d %s" % (
        len(pal), " ".join(hx(p) for p in pal), items_f, sep_f, tab, cw_field(widths), len(lines),
        " ".join(("1:" if g else "0:") + hx(l) for l, g in lines))


def strip_sgr(s):
    return CSI.sub("", s)


def batched(proc, groups):
    """groups: [(cfg args | None, [requests])] -> [[responses]] using a single process run
    (restarted only after a request that kills it)."""
    reqs, sticky, spans = [], [], []
    for args, rs in groups:
        if args is not None:
            sticky.append(len(reqs))
            reqs.append(cfg_line(args))
        spans.append((len(reqs), len(reqs) + len(rs)))
        reqs += rs
    if not reqs:
        return [[] for _ in groups]
    resp = proc.ask(reqs, sticky=sticky)
    return [resp[a:b] for a, b in spans]


def part_hook(ctx, rep, hook, mdl, widths, cdata):
    rng = ctx.rng
    cwf = cw_field(widths)
    # ---- metadata formatting
    metas = []
    for fmt in BLAME_FORMATS:
        args = cfg_args(None, fmt, None)
        lines = []
        for _ in range(ctx.n(25, 400)):
            a = Attr(gen_commit(rng), rng.choice(AUTHORS_CLEAN + AUTHORS_ACCENT + AUTHORS_WIDE), gen_ts(rng))
            lines.append(blame_line(a, rng.randint(1, 500), " x"))
        metas.append((args, lines))
    resp = batched(hook, [(args, ["blame.format_data"] + ["blame.parse " + hx(l) for l in lines] +
                           ["blame.meta " + hx(l) for l in lines]) for args, lines in metas])
    mreqs, keep = [], []
    for (args, lines), r in zip(metas, resp):
        items_f = " ".join(r[0].split()[1:])
        parses, ms = r[1:1 + len(lines)], r[1 + len(lines):]
        for l, pr, m in zip(lines, parses, ms):
            f = pr.split()
            if len(f) != 6:
                continue
            mreqs.append("blame.meta %s %s %s %s %s" % (cwf, items_f, f[3], f[2], f[1]))
            keep.append((args, l, m))
    model = mdl.ask(mreqs) if mdl else [None] * len(mreqs)
    for (args, l, i), m, q in zip(keep, model, mreqs):
        # the implementation answers `ok <meta> <width> <ts>`; compare meta and width
        ic = " ".join(i.split()[:3]) if i.startswith("ok") else i
        rep.case(key=("meta", tuple(args), l), nontrivial=True, sample=dict(op="blame.meta", args=args, line=l, impl=i))
        rep.count("meta:" + ("panic" if is_panic(i) else "ok"))
        if m is not None:
            rep.corr_case("blame.meta", same_resp(ic, m), dict(op="blame.meta", args=args, line=l, impl=i, model=m, req=q))
        if is_panic(i):
            wide = any(widths.get(ord(c), 1) > 1 for c in l)
            rep.violation("panic:blame.rs:format_blame_metadata:" + ("wide-author" if wide else "clean"),
                          "format_blame_metadata panics (usize subtraction: chars().count() - display width)",
                          dict(kind="hook", cfg=args, req="blame.meta " + hx(l), line=l, got=i))
    # ---- line number formatting
    seps = [s[0] for s in SEP_FORMATS] + ["{n:<6_every-2}|", "<{n}>", "{n:>2}", "{n:^7}", "{n:^6_block}"]
    numjobs = []
    for sepf in seps:
        nums = [(rng.choice([0, 1, 5, 9, 10, 42, 99, 100, 999, 1000, 9999, 10000, 123456, rng.randint(0, 10 ** 7)]),
                 rng.randint(0, 1)) for _ in range(ctx.n(30, 300))]
        numjobs.append((cfg_args(None, None, sepf), sepf, nums))
    resp = batched(hook, [(args, ["blame.sep_data"] + ["blame.number %d %d" % nr for nr in nums]) for args, _, nums in numjobs])
    mreqs = []
    for (args, sepf, nums), r in zip(numjobs, resp):
        sep_f = r[0].split()[1]
        mreqs += ["blame.number %s %d %d" % (sep_f, n, rr) for n, rr in nums]
    model = iter(mdl.ask(mreqs) if mdl else [None] * len(mreqs))
    for (args, sepf, nums), r in zip(numjobs, resp):
        for (n, rr), i in zip(nums, r[1:]):
            m = next(model)
            rep.case(key=("number", sepf, n, rr), nontrivial=True, sample=dict(op="blame.number", sep=sepf, n=n, repeat=rr, impl=i))
            if m is not None:
                rep.corr_case("blame.number", same_resp(i, m), dict(op="blame.number", sep=sepf, n=n, repeat=rr, impl=i, model=m))
            # oracle: the number is there unless blanking is allowed
            f = i.split()
            if len(f) == 4 and sepf != "none":
                shown = unx(f[2]).strip()
                if shown != str(n) and not (shown == "" and rr == 1 and ("block" in (sepf or "") or "every" in (sepf or ""))):
                    rep.violation("hook:line-number:clean", "format_blame_line_number loses the number",
                                  dict(kind="hook", cfg=args, req="blame.number %d %d" % (n, rr), got=i))

    # ---- colour histories over abstract keys, through the real handle_blame_line
    attrs3 = [Attr("aaaaaaa1", "Dan Davison", "2021-08-22 18:20:19 -0700"),
              Attr("bbbbbbb2", "Dan Davison", "2020-07-18 15:34:43 -0400"),
              Attr("^cccccc3", "Nicholas Marriott", "2009-06-01 22:58:49 +0000")]
    jobs = []   # (pal, fmt, sep, hist of (attr index, git), attrs, exhaustive?, numbers | None, columns | None)
    for npal in (2, 3):
        pal = PALETTE_POOL[:npal]
        for L in range(1, ctx.n(6, 9) + 1):
            for hist in itertools.product(range(3 if L <= 6 else 2), repeat=L):
                jobs.append((pal, "{commit}", None, [(k, False) for k in hist], attrs3, True, None, None))
    n_exh = len(jobs)
    # all key histories over 2 keys x all ways the line number moves from one line to the next
    # (+1 next line, +7 forward gap, -2 backward jump, 0 the same number again)
    STEPS = (1, 7, -2, 0)
    for npal in (2, 3):
        pal = PALETTE_POOL[:npal]
        for L in range(1, ctx.n(4, 5) + 1):
            for hist in itertools.product(range(2), repeat=L):
                for steps in itertools.product(STEPS, repeat=L - 1):
                    nums = [10]
                    for d in steps:
                        nums.append(nums[-1] + d)
                    jobs.append((pal, "{commit}", None, [(k, False) for k in hist], attrs3, True, nums, None))
    n_exh_num = len(jobs) - n_exh
    confs = [(rng.sample(PALETTE_POOL, rng.randint(2, 5)), rng.choice(BLAME_FORMATS), rng.choice(SEP_FORMATS)[0])
             for _ in range(ctx.n(12, 60))]     # building a Config costs ~70 ms in the debug build
    for j in range(ctx.n(420, 26000)):
        k = rng.randint(1, 6)
        attrs = gen_attrs(rng, k, AUTHORS_CLEAN + AUTHORS_ACCENT)
        pal, rfmt, rsep = rng.choice(confs)
        L = rng.randint(1, 60)
        hist = []
        while len(hist) < L:       # runs of equal keys are common in real blame output
            kk = rng.randrange(k)
            hist += [(kk, False)] * rng.choice([1, 1, 2, 3, 5])
        # two thirds with plain consecutive numbers, the rest over the other ways a blame stream is numbered
        scheme = "consecutive" if j % 3 else NUMBER_SCHEMES[(j // 3) % len(NUMBER_SCHEMES)]
        nums, cols = gen_numbers(rng, L, scheme)
        jobs.append((pal, rfmt, rsep, hist[:L], attrs, False, nums, cols))
    for _ in range(ctx.n(40, 400)):     # lines coloured by git mixed in (the delta_unreachable arms)
        k = rng.randint(1, 3)
        pal = PALETTE_POOL[:rng.randint(2, 3)]
        hist = [(rng.randrange(k), rng.random() < 0.4) for _ in range(rng.randint(2, 6))]
        nums, cols = gen_numbers(rng, len(hist), rng.choice(NUMBER_SCHEMES)) if rng.random() < 0.5 else (None, None)
        jobs.append((pal, "{commit}", None, hist, attrs3, False, nums, cols))
    rep.exhaustive = dict(what="all key histories of <= %d lines over 3 keys (2 keys beyond 6 lines) x palettes of 2 and 3 "
                               "colours; all key histories of <= %d lines over 2 keys x every sequence of line-number steps "
                               "from {+1, +7, -2, 0} x palettes of 2 and 3 colours (%d streams); driven through the real "
                               "handle_blame_line" % (ctx.n(6, 9), ctx.n(4, 5), n_exh_num), cases=n_exh + n_exh_num)
    by_cfg = {}
    for jb in jobs:
        by_cfg.setdefault((tuple(jb[0]), jb[1], jb[2]), []).append(jb)
    groups, meta_ = [], []
    for (pal, fmt, sepf), js in by_cfg.items():
        args = cfg_args(list(pal), fmt, sepf)
        streams = []
        for (_, _, _, hist, attrs, exh, nums, cols) in js:
            lines = []
            for n, (k, git) in enumerate(hist):
                l = blame_line(attrs[k], nums[n] if nums else n + 1, " code %d" % n if exh else gen_code(rng),
                               col=cols[n] if cols else None)
                if git:
                    head, tail = l.split(")", 1)
                    l = "\x1b[36m" + head + ")\x1b[m" + tail
                lines.append((l, git))
            streams.append(lines)
        groups.append((args, ["blame.stream %d %s" % (len(ls), " ".join(hx(l) for l, _ in ls)) for ls in streams]))
        meta_.append((pal, fmt, sepf, args, js, streams))
    resp = batched(hook, groups)
    mreqs = []
    for (pal, fmt, sepf, args, js, streams), r in zip(meta_, resp):
        items_f, sep_f = cdata[(fmt, sepf)]
        mreqs += [model_stream_req(list(pal), items_f, sep_f, 8, widths, [(strip_sgr(l), g) for l, g in ls]) for ls in streams]
    model = iter(mdl.ask(mreqs) if mdl else [None] * len(mreqs))
    for (pal, fmt, sepf, args, js, streams), r in zip(meta_, resp):
        for (_, _, _, hist, attrs, exh, nums, cols), lines, i in zip(js, streams, r):
            m = next(model)
            mixed = any(g for _, g in hist)
            numbered = [dict(attr=attrs[k], n=(nums[n] if nums else n + 1)) for n, (k, _) in enumerate(hist)]
            ncls = number_class(numbered)
            rep.case(key=("stream", pal, fmt, sepf, tuple(hist), tuple(l for l, _ in lines)),
                     nontrivial=len(hist) >= 2,
                     sample=dict(op="blame.stream", palette=list(pal), format=fmt, keys=[k for k, _ in hist],
                                 numbers=nums, impl=i[:300]))
            rep.count("stream:" + ("exhaustive" if exh else ("mixed-git-colour" if mixed else "random")))
            rep.count("stream-numbers:" + (ncls or "adjacent"))
            rep.count("stream-lines", len(hist))
            if m is not None:
                rep.corr_case("blame.stream", same_resp(i, m),
                              dict(op="blame.stream", cfg=args, lines=[l for l, _ in lines], impl=i, model=m))
            replay = dict(kind="hook", cfg=args, req="blame.stream %d %s" % (len(lines), " ".join(hx(l) for l, _ in lines)),
                          lines=[l for l, _ in lines], keys=[k for k, _ in hist], numbers=[x["n"] for x in numbered])
            if is_panic(i):
                rep.count("stream:died")
                sig = ("exit2:blame.rs:get_color-unreachable:git-coloured" if (mixed and i.startswith("DIED 2"))
                       else "panic:hook-stream:" + ("git-coloured" if mixed else (ncls or "clean")))
                rep.violation(sig, "handle_blame_line aborts on a blame stream (delta_unreachable -> exit status 2 when lines "
                                   "coloured by git are mixed with uncoloured ones; otherwise a panic)", replay)
                continue
            got = hook_stream_items(i)
            if got is None or mixed:
                continue
            # direct oracle on the hook result (colours are palette strings here)
            colours, last = [], {}
            for n, ((k, _), (handled, c, row)) in enumerate(zip(hist, got)):
                t = attrs[k].tup()
                # input class of a failure at this row: how its number relates to the row above, else the stream's
                cl = number_relation(numbered, n) or ncls or "clean"
                if not handled:
                    rep.violation("hook:unhandled:" + (ncls or "clean"), "a well-formed blame line is not handled", replay)
                    break
                if n > 0:
                    pt = attrs[hist[n - 1][0]].tup()
                    pc = colours[-1]
                    if pt == t and c != pc:
                        rep.violation("hook:same-attribution-same-colour:" + cl,
                                      "consecutive lines with the same attribution get different colours", dict(replay, row_index=n))
                    if pt != t and c == pc:
                        rep.violation("hook:neighbour-differs:" + cl, "different keys share a colour", dict(replay, row_index=n))
                    if pt != t and t in last and last[t] != pc and c != last[t]:
                        rep.violation("hook:colour-stable-unless-collision:" + cl,
                                      "an attribution lost its colour without a collision", dict(replay, row_index=n))
                colours.append(c)
                last[t] = c


# ------------------------------------------------------------------ part D: the real binary

def stub_git_dir():
    d = os.path.join(BUILD, "c17-stub")
    os.makedirs(d, exist_ok=True)
    p = os.path.join(d, "git")
    body = "#!/bin/sh\nexec cat \"$C17_STREAM\"\n"
    if not os.path.exists(p) or open(p).read() != body:
        with open(p + ".tmp", "w") as f:
            f.write(body)
        os.chmod(p + ".tmp", stat.S_IRWXU | stat.S_IRGRP | stat.S_IXGRP | stat.S_IROTH | stat.S_IXOTH)
        os.replace(p + ".tmp", p)
    return d


def gen_binary_case(rng, cls):
    """One blame stream + configuration. cls: clean | wide-author | one-char-author | lookalike-code | git-coloured."""
    k = rng.randint(1, 6)
    authors = AUTHORS_CLEAN + AUTHORS_ACCENT
    attrs = gen_attrs(rng, k, authors)
    if cls == "wide-author":
        attrs[rng.randrange(k)].author = rng.choice(AUTHORS_WIDE)
    if cls == "one-char-author":
        attrs[rng.randrange(k)].author = rng.choice(AUTHORS_ONE)
    L = rng.randint(1, 60) if cls == "clean" else (rng.randint(2, 24) if cls == "fmt-grammar" or cls.startswith("numbers:")
                                                   else rng.randint(2, 12))
    hist = []
    while len(hist) < L:
        hist += [rng.randrange(k)] * rng.choice([1, 1, 2, 3, 6])
    hist = hist[:L]
    tab = rng.choice([None, None, 0, 4])
    items = []
    scheme = "consecutive"
    if cls.startswith("numbers:"):
        scheme, cls = cls.split(":", 1)[1], "clean"
    nums, cols = gen_numbers(rng, L, scheme)
    for n, kk in enumerate(hist):
        code = gen_code(rng)
        while has_lookalike(code):
            code = gen_code(rng)
        items.append(dict(attr=attrs[kk], n=nums[n], code=code, git=False, col=cols[n]))
    if cls == "lookalike-code":
        it = rng.choice(items)
        it["code"] = " log(\"%s %s %d) y\")" % (rng.choice(["x", "at"]), gen_ts(rng), rng.randint(0, 99))
    if cls == "git-coloured":
        for it in items:
            it["git"] = rng.random() < 0.4
        if not any(it["git"] for it in items):
            items[0]["git"] = True
    npal = rng.randint(2, 5)
    pal = rng.choice([None, rng.sample(PALETTE_POOL, npal), rng.sample(PALETTE_POOL, npal)])
    fmt = rng.choice(BLAME_FORMATS)
    sep = rng.choice(SEP_FORMATS)
    gfmt = None
    if cls == "fmt-grammar":
        # the blame format is generated over the whole placeholder grammar (always with a {commit} placeholder)
        gfmt = gen_format(rng, force_shape=rng.choice(FMT_SHAPES))
        fmt = gfmt["text"]
    return dict(cls=cls, attrs=attrs, items=items, pal=pal, fmt=fmt, sep=sep, tab=tab, gfmt=gfmt, scheme=scheme,
                via=rng.choice(["stub-git", "stdin"]), pads=[(rng.choice([1, 1, 2, 6]), rng.choice([1, 2, 3])) for _ in items])


def case_lines(case):
    out = []
    for it, (pa, pb) in zip(case["items"], case["pads"]):
        l = blame_line(it["attr"], it["n"], it["code"], pa, pb, col=it.get("col"))
        if it["git"]:
            head, tail = l.split(")", 1) if ")" in l else (l, "")
            l = "\x1b[36m" + head + ")\x1b[m" + tail
        out.append(l)
    return out


def run_binary_case(ctx, case, tmpdir, idx):
    lines = case_lines(case)
    data = ("\n".join(lines) + "\n").encode()
    args = ["--no-gitconfig", "--paging", "never"] + cfg_args(case["pal"], case["fmt"], case["sep"][0], case["tab"])
    if case["via"] == "stub-git":
        path = os.path.join(tmpdir, "s%d.txt" % idx)
        with open(path, "wb") as f:
            f.write(data)
        env = dict(PATH=stub_git_dir() + os.pathsep + os.environ.get("PATH", ""), C17_STREAM=path)
        rc, out, err = ctx.run_delta(args + ["git", "blame", "f.txt"], b"", env=env)
    else:
        rc, out, err = ctx.run_delta(args, data, env=dict(DELTA_VERIF_FORCE_GUESS="git blame f.txt"))
    return rc, out, err, args, lines


def decode_output(out):
    text = out.decode("utf-8", "replace")
    rows = text.split("\n")
    if rows and rows[-1] == "":
        rows.pop()
    return [decode_row(r) for r in rows]


def eval_binary(ctx, rep, case, res, mdl_resp=None, model_checked=None):
    rc, out, err, args, lines = res
    cls = classify(case["items"])
    g = case.get("gfmt")
    if g:
        cls = fmt_class(g) if cls == "clean" else cls + "+" + fmt_class(g)
    elif cls == "clean":
        # nothing else unusual in the stream: name how its line numbers run (within one attribution)
        cls = number_class(case["items"]) or "clean"
    tab = 8 if case["tab"] is None else case["tab"]
    replay = dict(kind="binary", args=args, via=case["via"], stdin_b64=b64(("\n".join(lines) + "\n").encode()),
                  lines=lines, cls=cls,
                  spec=dict(items=[dict(commit=it["attr"].commit, author=it["attr"].author, ts=it["attr"].ts,
                                        file=it["attr"].file, n=it["n"], code=it["code"], git=it["git"], col=it.get("col"))
                                   for it in case["items"]],
                            pal=case["pal"], fmt=case["fmt"], sep=SEP_FORMATS.index(case["sep"]), tab=case["tab"],
                            pads=case["pads"], gfmt=g))
    rep.case(key=("binary", tuple(args), tuple(lines), case["via"]),
             nontrivial=len({it["attr"].tup() for it in case["items"]}) >= 2 and len(lines) >= 3,
             sample=dict(op="binary", args=args, via=case["via"], lines=lines[:4], rc=rc, out=out[:200].decode("utf-8", "replace")))
    rep.count("binary:" + cls)
    rep.count("binary-lines", len(lines))
    rep.count("binary-via:" + case["via"])
    rep.count("binary-numbering:" + case.get("scheme", "consecutive"))
    errt = err.decode("utf-8", "replace")
    if rc == "timeout":
        rep.violation("hang:binary:" + cls, "delta does not terminate on a blame stream", replay)
        return None
    if "panicked at" in errt:
        m = re.search(r"panicked at ([^:\s]+):(\d+)", errt)
        site = os.path.basename(m.group(1)) if m else "?"
        what = "attempt to subtract with overflow" if "subtract with overflow" in errt else "panic"
        rep.count("binary:panic")
        rep.violation("panic:%s:%s:%s" % (site, "sub-overflow" if "subtract" in what else "other", cls),
                      "delta panics on a blame stream: " + errt.split("\n")[1][:160] if "\n" in errt else errt[:160], replay)
        return None
    if rc != 0:
        rep.count("binary:rc%s" % rc)
        unreachable = "This should not be possible" in errt
        rep.violation(("exit%s:blame.rs:get_color-unreachable:%s" % (rc, cls)) if unreachable else ("exit%s:binary:%s" % (rc, cls)),
                      "delta exits with status %s on a blame stream: %s" % (rc, errt[:200]), replay)
        return None
    rows = decode_output(out)
    for it, l in zip(case["items"], lines):
        it["raw"] = strip_sgr(l)
    distinct = True   # every palette used here has pairwise distinct colours
    bad = check_rows(case["items"], rows, dict(fmt=case["fmt"], sep=case["sep"], tab=tab, gfmt=g,
                                               widths=getattr(ctx, "c17_widths", {})), distinct)
    for rule, i, detail in bad[:8]:
        c2 = cls
        if g and rule.startswith("attribution-"):     # name the shape of the placeholder that is not shown
            c2 = fmt_class(g, rule.split("-", 1)[1])
        elif cls.startswith("line-number-") and rule in ("same-attribution-same-colour", "blank-only-on-repeat", "line-number"):
            # name how the number of the failing row relates to the row above
            c2 = number_relation(case["items"], i) or cls
        rep.violation("%s:%s" % (rule, c2), "blame output row %d breaks rule '%s'" % (i, rule),
                      dict(replay, rule=rule, row_index=i, detail=detail))
    return rows


def part_binary(ctx, rep, hook, mdl, widths, cdata):
    import tempfile
    rng = ctx.rng
    cases = []
    plan = [("clean", ctx.n(420, 12000)), ("wide-author", ctx.n(25, 300)), ("one-char-author", ctx.n(25, 300)),
            ("lookalike-code", ctx.n(25, 300)), ("git-coloured", ctx.n(25, 300)),
            ("fmt-grammar", ctx.n(160, 4000))]
    # the other ways a blame stream is numbered: several -L ranges (forward gaps, also inside one commit), ranges out of
    # order / second listings / descending (backward jumps), repeated numbers, -n / -M / -C original-number columns
    per = ctx.n(26, 400)
    plan += [("numbers:" + sch, per) for sch in NUMBER_SCHEMES if sch != "consecutive"]
    for cls, n in plan:
        for _ in range(n):
            cases.append(gen_binary_case(rng, cls))
    with tempfile.TemporaryDirectory(prefix="c17-", dir=BUILD) as tmp:
        results = parallel_map(lambda ic: run_binary_case(ctx, ic[1], tmp, ic[0]), list(enumerate(cases)),
                               workers=int(os.environ.get("VERIF_WORKERS", "0")) or None)
    # model side: the same streams through Blame.stream, configuration data from the implementation
    # formats generated from the grammar: the model reads the format string itself (PF.parseBlameFormat)
    gtexts = sorted({c["fmt"] for c in cases if c.get("gfmt")})
    gitems = {}
    if mdl and gtexts:
        for t_, r_ in zip(gtexts, mdl.ask(["blame.format_data " + hx(t_) for t_ in gtexts])):
            gitems[t_] = " ".join(r_.split()[1:]) if r_.startswith("ok ") else None
    reqs = []
    for c in cases:
        if c.get("gfmt"):
            items_f, sep_f = gitems.get(c["fmt"]) or "0", cdata[(None, c["sep"][0])][1]
        else:
            items_f, sep_f = cdata[(c["fmt"], c["sep"][0])]
        mpal = list(c["pal"]) if c["pal"] else ["#000000", "#222222", "#444444"]   # dark default (no terminal to query)
        reqs.append(model_stream_req(mpal, items_f, sep_f, 8 if c["tab"] is None else c["tab"], widths,
                                     [(strip_sgr(l), it["git"]) for l, it in zip(case_lines(c), c["items"])]))
    ans = mdl.ask(reqs) if mdl else [None] * len(reqs)
    model_rows = {id(c): a for c, a in zip(cases, ans)}
    for c, res in zip(cases, results):
        rows = eval_binary(ctx, rep, c, res)
        m = model_rows.get(id(c))
        if m is None:
            continue
        rc, out, err, args, lines = res
        died = rows is None
        if is_panic(m) or died:
            rep.corr_case("binary-stream", is_panic(m) == died,
                          dict(op="binary-stream", args=args, lines=lines, model=m, impl_rc=rc, impl_err=err.decode("utf-8", "replace")[:300]))
            continue
        mi = hook_stream_items(m)
        # compare visible text row by row, and colours up to a renaming (palette string <-> decoded background)
        agree = mi is not None and len(mi) == len(rows)
        if agree:
            ren = {}
            for (handled, col, text), (rtext, bgs) in zip(mi, rows):
                if text != rtext:
                    agree = False
                    break
                if handled and col != "git":
                    bg = bgs[0] if bgs else None
                    if ren.setdefault(col, bg) != bg:
                        agree = False
                        break
            if agree and len(set(ren.values())) != len(ren):
                agree = False
        rep.corr_case("binary-stream", agree,
                      dict(op="binary-stream", args=args, via=c["via"], lines=lines, model=m[:2000],
                           impl=[r[0] for r in rows][:40]))


# ------------------------------------------------------------------ part E: the format string grammar

ALIGN_OF = {"-": None, "0": "<", "1": "^", "2": ">", "l": "<", "c": "^", "r": ">"}
FORMAT_SPECIALS = ["", "{}", "{nm", "nm}", "{nm:}", "{nm:}<}", "{nm:}<4}", "{nm:.}", "{nm:_}", "{nm:<}", "{nm:x<}", "{nm:<<}",
                   "{nm:^^4}", "{{nm}}", "{nm:4.}", "{nm:.4.4}", "{nm:4_}", "{nm:4__a}", "{nm:-a}", "{nm:a b}", "{nm:4a-_9}",
                   "{nm:\u0663}", "{np:\uff10}", "{nm:1\u0661}", "{nm:.\u0967}", "{nm:99999999999999999999}",
                   "{nm:.99999999999999999999}", "{nm:18446744073709551615}", "{nm:18446744073709551616}", "{nm:007.003}",
                   "{nm:{<4}", "{nm::<4}", "{nm:\n<4}", "{np}{nm}", "{nm}{nm:>3}x", "{nmx}", "{n}", "{nm :4}", "{nm:4 }", "{NM}"]


def opt_int(f):
    return None if f == "-" else int(f)


def canon_linenum(resp):
    """`linenum.parse_format` answer -> [(prefix, label, align, width, precision, type, suffix)] | 'PANIC' | None."""
    if is_panic(resp):
        return "PANIC"
    f = resp.split()
    if not f or f[0] != "ok":
        return None
    out, j = [], 2
    for _ in range(int(f[1])):
        pre, _plen, ph, al, w, pr, ty, suf, _slen = f[j:j + 9]
        j += 9
        out.append((unx(pre), {"0": None, "1": "nm", "2": "np"}.get(ph, "?"), ALIGN_OF[al], opt_int(w), opt_int(pr),
                    unx(ty), unx(suf)))
    return out


def canon_model_format(resp):
    """`blame.parse_format` answer of the model driver, same canonical form."""
    if is_panic(resp):
        return "PANIC"
    f = resp.split()
    if not f or f[0] != "ok":
        return None
    out, j = [], 2
    for _ in range(int(f[1])):
        pre, lab, al, w, pr, ty, suf = f[j:j + 7]
        j += 7
        out.append((unx(pre), None if lab == "-" else unx(lab), ALIGN_OF[al], opt_int(w), opt_int(pr), unx(ty), unx(suf)))
    return out


def canon_format_data(resp):
    """`blame.format_data` answer (implementation or model) -> [(prefix, t|a|c|None, align, width, precision, suffix)]."""
    if is_panic(resp):
        return "PANIC"
    f = resp.split()
    if not f or f[0] != "ok":
        return None
    out = []
    for it in f[2:]:
        pre, ph, al, w, pr, suf = it.split(",")
        out.append((unx(pre), None if ph == "-" else ph, ALIGN_OF[al], opt_int(w), opt_int(pr), unx(suf)))
    return out


def part_format(ctx, rep, hook, mdl, widths, cdata):
    """`parse_line_number_format` + `make_placeholder_regex` on format strings generated over the whole grammar
    (direct oracle: the string is read as it was written; correspondence with `PF.parseFormat`), then whole
    `--blame-format` values through the real Config: parsed items, and the metadata of blame lines."""
    rng = ctx.rng
    # ---- A. the regex itself (labels nm|np: the hook op takes the format string as an argument, no Config needed)
    gens = []
    for i in range(ctx.n(600, 8000)):
        gens.append(gen_format(rng, names=["nm", "np"], need=None, force_shape=FMT_SHAPES[i % len(FMT_SHAPES)] if i % 2 else None))
    texts = [g["text"] for g in gens]
    muts = [mutate_format(rng, rng.choice(texts)) for _ in range(ctx.n(600, 8000))] + FORMAT_SPECIALS
    allt = texts + muts
    impl = hook.ask([cfg_line([])] + ["linenum.parse_format %s 0" % hx(t) for t in allt], sticky=[0])[1:]
    model = mdl.ask(["blame.parse_format linenum " + hx(t) for t in allt]) if mdl else [None] * len(allt)
    for n, (t, i, m) in enumerate(zip(allt, impl, model)):
        ci = canon_linenum(i)
        g = gens[n] if n < len(gens) else None
        rep.case(key=("format", t), nontrivial=isinstance(ci, list) and any(x[1] for x in ci),
                 sample=dict(op="linenum.parse_format", fmt=t, impl=i[:300]))
        rep.count("format:" + ("generated:" + fmt_class(g)[4:] if g else "near-grammar") +
                  (":died" if ci == "PANIC" else ""))
        if m is not None:
            rep.corr_case("linenum.parse_format", ci is not None and ci == canon_model_format(m),
                          dict(op="linenum.parse_format", fmt=t, impl=i, model=m))
        if g is not None:
            want = want_items(g)
            if ci != want:
                bad_sp = [sp for (_, sp), w_ in zip(g["pieces"], want) if not isinstance(ci, list) or w_ not in ci]
                cls = spec_shape(bad_sp[0]) if bad_sp else fmt_class(g)[4:]
                rep.violation("format-round-trip:" + cls,
                              "parse_line_number_format does not read a format string as it is written "
                              "({label[:[[fill]align][width][.precision][[_]type]]})",
                              dict(kind="format", labels="linenum", fmt=t, req="linenum.parse_format %s 0" % hx(t),
                                   want=[list(w_) for w_ in want], got=i, gfmt=g))
    # ---- B. --blame-format through the Config: parsed items and metadata
    authors = AUTHORS_CLEAN + AUTHORS_ACCENT + AUTHORS_WIDE
    nfmt = ctx.n(40, 400)
    gens = [gen_format(rng, force_shape=FMT_SHAPES[i % len(FMT_SHAPES)]) for i in range(nfmt)]
    groups, meta_ = [], []
    for g in gens:
        args = cfg_args(None, g["text"], None)
        attrs = [Attr(gen_commit(rng), rng.choice(authors), gen_ts(rng)) for _ in range(ctx.n(4, 12))]
        lines = [blame_line(a, rng.randint(1, 500), " x") for a in attrs]
        groups.append((args, ["blame.format_data"] + ["blame.meta " + hx(l) for l in lines]))
        meta_.append((g, args, attrs, lines))
    resp = batched(hook, groups)
    mfd = mdl.ask(["blame.format_data " + hx(g["text"]) for g in gens]) if mdl else [None] * len(gens)
    cwf = cw_field(widths)
    mreqs, keep = [], []
    for (g, args, attrs, lines), r, md in zip(meta_, resp, mfd):
        cls = fmt_class(g)
        fd = canon_format_data(r[0])
        rep.case(key=("blame-format", g["text"]), nontrivial=True, sample=dict(op="blame.format_data", fmt=g["text"], impl=r[0][:300]))
        rep.count("blame-format:" + cls[4:])
        if md is not None:
            rep.corr_case("blame.format_data", fd is not None and fd == canon_format_data(md),
                          dict(op="blame.format_data", cfg=args, fmt=g["text"], impl=r[0], model=md))
        want = [(pre, lab[0], al, w, pr, suf) for pre, lab, al, w, pr, _ty, suf in want_items(g)]
        if fd != want:
            bad_sp = [sp for (_, sp), w_ in zip(g["pieces"], want) if not isinstance(fd, list) or w_ not in fd]
            rep.violation("hook:format-round-trip:" + (spec_shape(bad_sp[0]) if bad_sp else cls[4:]),
                          "--blame-format is not read as it is written",
                          dict(kind="hook", cfg=args, req="blame.format_data", fmt=g["text"], want=[list(w_) for w_ in want],
                               got=r[0], gfmt=g))
        for a, l, i in zip(attrs, lines, r[1:]):
            rep.case(key=("blame-format-meta", g["text"], l), nontrivial=True, sample=dict(op="blame.meta", fmt=g["text"], line=l, impl=i[:300]))
            replay = dict(kind="hook", cfg=args, req="blame.meta " + hx(l), line=l, fmt=g["text"], gfmt=g)
            if is_panic(i) or not i.startswith("ok x"):
                rep.violation("hook:blame-meta-died:" + cls, "format_blame_metadata fails on a generated format", dict(replay, got=i))
                continue
            f = i.split()
            got = unx(f[1])
            if md is not None and md.startswith("ok "):
                mreqs.append("blame.meta %s %s %s %s %s" % (cwf, " ".join(md.split()[1:]), hx(a.ts), hx(a.author), hx(a.commit)))
                keep.append((args, l, i))
            for _, sp in g["pieces"]:
                w = field_of(sp, a) if sp["prec"] is None else field_of(sp, a)[:sp["prec"]]
                if w not in got:
                    rep.violation("hook:attribution-%s:fmt-%s" % (sp["name"], spec_shape(sp)),
                                  "the metadata does not show a field the format asks for", dict(replay, want=w, got=got))
            em = expected_meta(g, a, widths)
            if got != em:
                rep.violation("hook:metadata-as-specified:" + cls, "the metadata is not laid out as the format string says",
                              dict(replay, want=em, got=got))
    model = mdl.ask(mreqs) if mdl else []
    for (args, l, i), m, q in zip(keep, model, mreqs):
        ic = " ".join(i.split()[:3])
        rep.corr_case("blame.meta", same_resp(ic, m), dict(op="blame.meta", args=args, line=l, impl=i, model=m, req=q))


# ------------------------------------------------------------------ entry points

def run(ctx, rep):
    rep.rule = ("blame lines generated from (commit, author, time, file column, number, code) with boundary commits, renamed-file "
                "columns, authors with blanks/parentheses/accents/wide chars/one char, many time zones; streams = runs of "
                "1-6 commits over 1-60 lines; line numbers consecutive (two thirds) or as several -L ranges with forward gaps "
                "(cuts also inside one commit), ranges out of order, repeated numbers, random, descending, a second listing, "
                "-n/-M/-C original-number columns that jump, numbers up to usize::MAX; "
                "6 blame formats x 5 separator formats x palettes of 2-5 colours (and the default); "
                "blame format strings generated over the whole placeholder grammar {label[:[[fill]align][width][.precision][[_]type]]} "
                "(1-4 placeholders incl. {commit}, every shape bare / align-only / width-only / precision-only / width.precision, "
                "fills incl. braces and digits, types, literal text with braces between) through the binary, the Config and the "
                "parser; near-grammar mutations of them through the parser; "
                "non-trivial = stream with >= 2 attributions and >= 3 lines (binary), >= 2 lines (hook), a line the regex matches (parse); "
                "distinct by (configuration, exact input)")
    rep.extra_trusted += ["regex crate (BLAME_LINE_REGEX re-implemented by hand, compared on valid/near-valid/ambiguous lines)",
                          "chrono parse/format of the timestamp (validity rules re-implemented, compared)",
                          "unicode-width (char widths are taken from the implementation and passed to the model)",
                          "Python SGR decoder of vlib/props/c17.py (background colour per cell)"]
    rep.assumptions += ["--blame-timestamp-output-format is fixed to '%Y-%m-%d %H:%M:%S %z' (no relative times)",
                        "--blame-timestamp-format is the default", "lines shorter than --max-line-length",
                        "palette entries are pairwise distinct colours", "string width = sum of char widths (unicode-width 0.1.14) for the generated authors"]
    hook = ctx.hook({"DELTA_VERIF_HOOK_CALLER": "git blame f.txt"})
    mdl = ctx.model("drv_blame") if ctx.drivers_ok else None
    if mdl is not None:
        v = mdl.ask(["blame.variant", "blame.arms_total", "blame.default_items", "blame.flow"])
        rep.notes["model_variant"] = dict(author_mode_and_pad_arith=v[0], get_color_arms=v[1])
        fl = v[3].split()
        if len(fl) == 5 and fl[0] == "ok":
            # the data flow of `is_repeat` as translated from the source (Generated/BlameFlow.lean)
            rep.notes["is_repeat_flow"] = dict(source=unx(fl[1]), usize_registers=int(fl[2]), string_registers=int(fl[3]),
                                               untranslated_conditions=int(fl[4]))
        # `Blame.defaultItems` (used by default_key_determines_commit) = what the implementation makes of
        # the default --blame-format
        d = hook.ask([cfg_line([]), "blame.format_data"], sticky=[0])[1]
        rep.corr_case("blame.default_items", d == v[2], dict(op="blame.default_items", impl=d, model=v[2]))
    import time
    widths = char_widths(hook, pool_texts())
    ctx.c17_widths = widths
    cdata = cfg_data(hook)
    seen = {}
    orig = rep.violation

    def violation(signature, what, replay):
        # core caps the *total* number of recorded violations; keep at most two per signature
        seen[signature] = seen.get(signature, 0) + 1
        rep.count("oracle-failure:" + signature)
        if seen[signature] > 2:
            return False
        return orig(signature, what, replay)
    rep.violation = violation
    t = {}
    for name, part in (("parse", part_parse), ("hook", part_hook), ("binary", part_binary), ("format", part_format)):
        t0 = time.time()
        part(ctx, rep, hook, mdl, widths, cdata)
        t[name] = round(time.time() - t0, 1)
    rep.notes["seconds"] = t
    rep.notes["hook_restarts"] = hook.restarts


def replay(ctx, rep, obj):
    case = obj.get("case", obj)
    kind = case.get("kind")
    if kind == "binary" and "spec" in case:
        sp = case["spec"]
        attrs = {}
        items = []
        for it in sp["items"]:
            a = attrs.setdefault((it["commit"], it["author"], it["ts"], it["file"]),
                                 Attr(it["commit"], it["author"], it["ts"], it["file"]))
            items.append(dict(attr=a, n=it["n"], code=it["code"], git=it["git"], col=it.get("col")))
        g = sp.get("gfmt")
        if g:
            g = dict(g, pieces=[(lit, spc) for lit, spc in g["pieces"]])
            ctx.c17_widths = char_widths(ctx.hook({"DELTA_VERIF_HOOK_CALLER": "git blame f.txt"}),
                                         [it["author"] for it in sp["items"]])
        c = dict(cls=case.get("cls"), items=items, pal=sp["pal"], fmt=sp["fmt"], sep=SEP_FORMATS[sp["sep"]], tab=sp["tab"],
                 via=case.get("via", "stdin"), pads=[tuple(x) for x in sp["pads"]], gfmt=g)
        res = run_binary_case(ctx, c, BUILD, 999999)
        print("rc", res[0])
        print(res[1].decode("utf-8", "replace"))
        print(res[2].decode("utf-8", "replace")[:600])
        eval_binary(ctx, rep, c, res)
    elif kind == "binary":
        import base64
        data = base64.b64decode(case["stdin_b64"])
        args = case["args"]
        if case.get("via") == "stub-git":
            path = os.path.join(BUILD, "c17-replay.txt")
            with open(path, "wb") as f:
                f.write(data)
            env = dict(PATH=stub_git_dir() + os.pathsep + os.environ.get("PATH", ""), C17_STREAM=path)
            rc, out, err = ctx.run_delta(args + ["git", "blame", "f.txt"], b"", env=env)
        else:
            rc, out, err = ctx.run_delta(args, data, env=dict(DELTA_VERIF_FORCE_GUESS="git blame f.txt"))
        print("rc", rc)
        print(out.decode("utf-8", "replace"))
        print(err.decode("utf-8", "replace")[:600])
        errt = err.decode("utf-8", "replace")
        if rc != 0 or "panicked" in errt:
            rep.violation(case.get("signature", obj.get("signature", "replay")), "replayed failure reproduces", case)
        rep.case(key=("replay", obj.get("signature")), nontrivial=True, sample=dict(rc=rc))
    elif kind in ("hook", "parse", "format"):
        hook = ctx.hook({"DELTA_VERIF_HOOK_CALLER": "git blame f.txt"})
        req = case.get("req") or ("blame.parse " + hx(case["line"]))
        resp = hook.ask([cfg_line(case.get("cfg", [])), req], sticky=[0])
        print(resp[1])
        rep.case(key=("replay", req), nontrivial=True, sample=dict(resp=resp[1]))
        if is_panic(resp[1]):
            rep.violation(obj.get("signature", "replay"), "replayed failure reproduces", case)
        elif req.startswith("blame.stream ") and case.get("keys") is not None:
            # the colour rules again, on the replayed rows (keys = attribution of each line)
            got = hook_stream_items(resp[1]) or []
            keys, last, bad = case["keys"], {}, []
            for n, (k, (handled, c, _row)) in enumerate(zip(keys, got)):
                if n > 0 and handled:
                    pk, pc = keys[n - 1], got[n - 1][1]
                    if pk == k and c != pc:
                        bad.append((n, "same-attribution-same-colour"))
                    if pk != k and c == pc:
                        bad.append((n, "neighbour-differs"))
                    if pk != k and k in last and last[k] != pc and c != last[k]:
                        bad.append((n, "colour-stable-unless-collision"))
                last[k] = c
            print("numbers", case.get("numbers"), "colours", [g[1] for g in got], "broken", bad)
            if bad:
                rep.violation(obj.get("signature", "replay"), "replayed failure reproduces", case)
        elif kind == "format" and case.get("want") is not None:
            got = canon_linenum(resp[1])
            if got != [tuple(w_) for w_ in case["want"]]:
                print("want", case["want"])
                rep.violation(obj.get("signature", "replay"), "replayed failure reproduces", case)
        elif req == "blame.format_data" and case.get("want") is not None:
            if canon_format_data(resp[1]) != [tuple(w_) for w_ in case["want"]]:
                print("want", case["want"])
                rep.violation(obj.get("signature", "replay"), "replayed failure reproduces", case)
        elif req.startswith("blame.meta ") and case.get("want") is not None and resp[1].startswith("ok x"):
            got = unx(resp[1].split()[1])
            if (case["want"] not in got) if "attribution" in obj.get("signature", "") else (got != case["want"]):
                print("want", repr(case["want"]))
                rep.violation(obj.get("signature", "replay"), "replayed failure reproduces", case)
    else:
        run(ctx, rep)
