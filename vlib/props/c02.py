"""C02 — --color-only is a line-for-line, text-preserving filter (git add -p contract)."""
import hashlib
import os

from .. import machine as M
from ..core import parallel_map, b64, hx, BUILD, LEAN, LineProc

DRIVERS = ["drv_machine"]
GENERATED = ["Handlers", "Markers", "ColorOnlyCfg", "OptionsTables", "PaintLine", "PaintPrefix"]

EXTRA = [[], ["--side-by-side"], ["--line-numbers"], ["--navigate"], ["--diff-so-fancy"], ["--diff-highlight"],
         ["--side-by-side", "--line-numbers"], ["--commit-decoration-style", "box"], ["--file-decoration-style", "ul"],
         ["--hunk-header-decoration-style", "box ul"], ["--commit-style", "omit"], ["--file-style", "omit"],
         ["--hunk-header-style", "omit"], ["--commit-style", "raw"], ["--file-style", "red"], ["--hunk-header-style", "syntax"],
         ["--relative-paths"], ["--hyperlinks"], ["--max-line-distance", "0.3"], ["--line-buffer-size", "1"], ["--width", "20"],
         ["--keep-plus-minus-markers"], ["--zero-style", "raw"], ["--minus-style", "syntax"],
         # decoration words inside the element's own style string (the older syntax), all three elements
         ["--file-style", "yellow box"], ["--commit-style", "bold yellow box ul"], ["--hunk-header-style", "blue box"],
         ["--file-style", "red underline overline"], ["--hunk-header-style", "syntax overline"], ["--commit-style", "raw box"],
         ["--hunk-header-style", "file line-number syntax box"], ["--tabs", "4"], ["--tabs", "0"], ["--hunk-label", "§"],
         ["--features", "decorations"], ["--features", "line-numbers side-by-side"], ["--dark"], ["--light"],
         ["--word-diff-regex", "."], ["--wrap-max-lines", "0", "--side-by-side"], ["--max-line-length", "20"],
         # the other mode that passes lines through: raw has priority over color-only when the features are gathered, and
         # raw alone is NOT line for line (binary sections, submodule bumps); asking for both must still be
         ["--raw"], ["--raw"], ["--raw", "--side-by-side"], ["--raw", "--navigate"], ["--raw", "--diff-so-fancy"],
         ["--raw", "--file-style", "yellow box"], ["--raw", "--commit-decoration-style", "box"], ["--features", "raw"]]
# options that explicitly override one of the presets the mode implies: the text may then change, the line count may not
OVERRIDES_TEXT = {"--line-numbers", "--commit-style", "--file-style", "--hunk-header-style", "--tabs", "--hyperlinks", "--relative-paths",
                  "--features", "--max-line-length", "--hunk-label"}
# option sets delta refuses at start-up
MUTEX = [{"--light", "--dark"}]

GIT_COLOURS = {"-": "\x1b[31m", "+": "\x1b[32m", "@": "\x1b[36m", "d": "\x1b[1m", "i": "\x1b[1m"}


def compatible(a, b):
    """may the two option lists be given together? (clap rejects a repeated option, delta rejects --light with --dark)"""
    na = {x for x in a if x.startswith("--")}
    nb = {x for x in b if x.startswith("--")}
    if na & nb:
        return False
    return not any(len(mx & (na | nb)) > 1 for mx in MUTEX)


def colourise(lines):
    out = []
    for l in lines:
        c = GIT_COLOURS.get(l[:1])
        out.append(c + l + "\x1b[m" if c and l else l)
    return out


# file sections whose lines the handlers treat specially outside color-only mode (swallowed, merged, re-written)
STRUCTURAL_KINDS = ["binary", "binary_added", "binary_noindex", "submodule", "submodule_added", "submodule_deleted", "mode_only",
                    "mode_changed", "renamed", "copied", "empty_added"]


def gen_stream(rng):
    r = rng.random()
    if r < 0.18:
        n = rng.randint(1, 4)
        kinds = [rng.choice(STRUCTURAL_KINDS) if rng.random() < 0.75 else rng.choice(M.FILE_KINDS) for _ in range(n)]
        lines, _ = M.gen_git_diff(rng, nfiles=n, kinds=kinds)
    elif r < 0.6:
        lines, _ = M.gen_git_diff(rng)
    elif r < 0.72:
        lines = M.gen_commit(rng) + [" a.rs | 2 +-", " 1 file changed, 1 insertion(+), 1 deletion(-)", ""] + M.gen_git_diff(rng, with_commit=False)[0]
    elif r < 0.81:
        lines, _ = M.gen_combined_diff(rng)
    elif r < 0.9:
        lines, _ = M.gen_plain_diff(rng)
    else:
        lines, _ = M.gen_git_diff(rng)
        lines = M.mutate_lines(rng, lines)
        # a hunk header must be followed by a hunk line for git to have produced it; keep mutated streams plausible
        lines = [l for i, l in enumerate(lines) if not (l.startswith("@@") and (i + 1 == len(lines) or lines[i + 1][:1] not in " +-\\"))]
    if rng.random() < 0.4:
        lines = colourise(lines)
    return lines


def input_class(lines):
    """which specially handled constructs the stream holds (part of a violation's signature)"""
    plain = [M.strip_ansi(l.encode()).decode("utf-8", "replace") for l in lines]
    c = []
    if any(l.startswith("Binary files ") for l in plain):
        c.append("binary-section")
    if any(l.startswith(("-Subproject commit ", "+Subproject commit ")) for l in plain):
        c.append("submodule-section")
    if any(l.startswith(("old mode ", "new mode ")) for l in plain):
        c.append("mode-lines")
    return "+".join(c) or "text-sections"


GIT_FIRST = ("commit ", "diff --git ", "diff --cc ", "diff --combined ")


def theorem_applies(lines):
    """hypotheses of Props/C02.lean `color_only_line_for_line` (first line identifies a git diff; every `@@` line is followed
    by a hunk-body line; the stream does not end in one), evaluated on the generated stream"""
    if not lines or not lines[0].startswith(GIT_FIRST):
        return "first-line-not-git"
    for i, l in enumerate(lines):
        if l.startswith("@@"):
            if i + 1 >= len(lines):
                return "ends-in-hunk-header"
            nx = lines[i + 1]
            if not (nx == "" or nx[0] in " +-\\"):
                return "hunk-header-not-followed-by-body"
    return "yes"


# ------------------------------------------------------------------ companions of --color-only at the hook level

# builtin feature flags given together with --color-only; `Props/C02.lean: color_only_config_normal_form` says the
# configuration stays the one of color-only mode (config.color_only on, no decorations, side-by-side off) whatever else is
# set, so the model is run with the same `Cfg` as without them
HOOK_COMPANIONS = [["--raw"], ["--raw"], ["--raw"], ["--side-by-side"], ["--navigate"], ["--diff-highlight"], ["--diff-so-fancy"],
                   ["--raw", "--side-by-side"], ["--raw", "--navigate"], ["--raw", "--diff-so-fancy"]]


class CoCfg(M.VCfg):
    """a color-only verification configuration with further feature flags on the command line, before or after"""

    def __init__(self, base, extra, front):
        self.d = dict(base.d)
        self.extra = list(extra)
        self.front = front
        if "--raw" in extra:
            self.d["mergeConflicts"] = 0        # `handle_merge_conflicts: !opt.raw`

    def key(self):
        return M.VCfg.key(self) + (tuple(self.extra), self.front)

    def args(self):
        a = M.VCfg.args(self)
        return self.extra + a if self.front else a + self.extra


# ------------------------------------------------------------------ where the request and its companions come from

PLAIN_FLAGS = ["raw", "raw", "raw", "navigate", "diff-highlight", "diff-so-fancy"]
GUTTER_FLAGS = ["side-by-side", "line-numbers", "hyperlinks"]       # ask for a gutter / links: text may change, line count not
FLAG_SOURCES = ["cli", "main", "feature-section", "features-list", "param"]
CO_SOURCES = ["cli", "cli", "cli", "main", "feature-section", "param"]
CARRIERS = ["main", "cli", "env", "env+"]     # where the one features list of a run is given


def gen_sources(rng):
    """--color-only asked for through one of its sources and 1-2 other builtin feature flags through theirs.
    Returns dict(args, gitconfig, env, tags, text_ok)."""
    co_src = rng.choice(CO_SOURCES)
    comps = [rng.choice(PLAIN_FLAGS)]
    if rng.random() < 0.35:
        c2 = rng.choice(PLAIN_FLAGS + GUTTER_FLAGS)
        if c2 not in comps:
            comps.append(c2)
    main, section, words, params, args = [], [], [], [], []
    tags = ["color-only@" + co_src]
    mdl = dict(cli=[], cliFeatures=None, envFeatures=None, main=[], sections=[], params=[])   # the same, for the Lean model

    def place(name, src):
        if src == "cli":
            args.append("--" + name); mdl["cli"].append((name, "true"))
        elif src == "main":
            main.append(f"{name} = true"); mdl["main"].append((name, "true"))
        elif src == "feature-section":
            section.append(f"{name} = true"); mdl["sections"].append(("cf", name, "true"))
        elif src == "features-list":
            words.append(name)
        elif src == "param":
            params.append(f"'delta.{name}=true'"); mdl["params"].append((name, "true"))
    place("color-only", co_src)
    text_ok = True
    for c in comps:
        src = rng.choice(FLAG_SOURCES)
        place(c, src)
        tags.append(f"{c}@{src}")
        # an emulation preset that outranks the color-only feature (anything but both given as command-line flags, where
        # color-only is gathered later and wins) brings its own header styles: explicit overrides of the presets
        if c in GUTTER_FLAGS or (c in ("diff-highlight", "diff-so-fancy") and not (src == "cli" and co_src == "cli")):
            text_ok = False
    rng.shuffle(args)
    if section:
        words.append("cf")
    rng.shuffle(words)
    env = {}
    if words:
        carrier = rng.choice(CARRIERS)
        tags.append("features@" + carrier)
        if carrier == "main":
            main.append("features = " + " ".join(words)); mdl["main"].append(("features", " ".join(words)))
        elif carrier == "cli":
            args[rng.randint(0, len(args)):0] = ["--features", " ".join(words)]; mdl["cliFeatures"] = " ".join(words)
        else:
            env["DELTA_FEATURES"] = ("+" if carrier == "env+" else "") + " ".join(words)
            mdl["envFeatures"] = env["DELTA_FEATURES"]
    if params:
        env["GIT_CONFIG_PARAMETERS"] = " ".join(params)
    text = "[core]\n    abbrev = 12\n"
    if main:
        text += "[delta]\n" + "".join(f"    {l}\n" for l in main)
    if section:
        text += '[delta "cf"]\n' + "".join(f"    {l}\n" for l in section)
    return dict(args=args, gitconfig=text, env=env, tags=tags, text_ok=text_ok, model=mdl)


# `sorted_feature_names`: the flag loops of gather_features enumerate the builtin features in sorted order
PI = ["color-only", "diff-highlight", "diff-so-fancy", "hyperlinks", "line-numbers", "navigate", "raw", "side-by-side"]


def cocfg_request(m):
    """request to lean/Driver/ColorOnlyCfg.lean (`ColorOnlyCfg.cfgOfInputs` on the sources of one run)"""
    opt = lambda s: "-" if s is None else hx(s)
    cli = "\n".join(f"{k}\t{v}" for k, v in m["cli"])
    gf = "\n".join([f"m\t{k}\t{v}" for k, v in m["main"]] + [f"s\t{f}\t{k}\t{v}" for f, k, v in m["sections"]])
    params = "\n".join(f"{k}\t{v}" for k, v in m["params"])
    return " ".join(["cocfg.resolve", hx(" ".join(PI)), hx(cli), opt(m["cliFeatures"]), opt(m["envFeatures"]), "0", "0",
                     hx(gf), "-", hx(params), "0"])


def home_for(text):
    """a scratch HOME whose ~/.gitconfig is `text` (named by its content: replays find it again)"""
    h = os.path.join(BUILD, "c02-home-s" + hashlib.sha256(text.encode()).hexdigest()[:12])
    os.makedirs(h, exist_ok=True)
    p = os.path.join(h, ".gitconfig")
    if not os.path.exists(p) or open(p).read() != text:
        with open(p, "w") as f:
            f.write(text)
    return h


def run_case(ctx, case, data, more_args=()):
    """run the real binary on a stored case (args, optional @gitconfig marker / gitconfig text / env)"""
    args = list(case["args"])
    env = dict(case.get("env") or {})
    if args and args[0].startswith("@gitconfig:"):
        env["HOME"] = os.path.join(BUILD, "c02-home-" + args[0].split(":")[1])
        args = args[1:]
    if case.get("gitconfig") is not None:
        env["HOME"] = home_for(case["gitconfig"])
    return ctx.run_delta(args + list(more_args), data, env=env or None)


def show_config(out):
    cfg = {}
    for l in M.strip_ansi(out).decode("utf-8", "replace").split("\n"):
        if " = " in l:
            k, v = l.split(" = ", 1)
            cfg[k.strip()] = v.strip()
    return cfg


DECO_WORDS = {"box", "ul", "ol", "underline", "overline"}


# ------------------------------------------------------------------ the bytes painted for a hunk line (session 4, T16)

# styles / options that change how a hunk line is painted (sections, colours, fill) but not what it shows
PAINT_EXTRA = [[], [], ["--minus-style", "red"], ["--plus-style", "bold green ul"], ["--syntax-theme", "none"], ["--zero-style", "blue"],
               ["--minus-emph-style", "bold red 52", "--max-line-distance", "0.9"], ["--plus-emph-style", "black green"],
               ["--width", "20"], ["--minus-style", "syntax 52", "--plus-style", "syntax 22"], ["--line-fill-method", "spaces"],
               ["--true-color", "always"], ["--keep-plus-minus-markers"], ["--minus-non-emph-style", "dim red"]]
# a context-line style with a background colour: `paint_zero_line` asks for the space fill (see `zero_style_background_pads_context_lines`)
ZERO_BG = [["--zero-style", "normal red"], ["--zero-style", "syntax 17"]]
PAINT_BODIES = [b for b in M.BODIES if not b.startswith(("<<<", "===", ">>>", "|||"))] + ["\tlet a = 1;", "\tlet b = 20;", "a\tb\tc", "x  "]


def split_body(rng, b):
    """the text of a line cut into 1-3 sections (the model paints them in different styles)"""
    cuts = sorted(rng.randint(0, len(b)) for _ in range(rng.choice([0, 0, 1, 2])))
    parts, prev = [], 0
    for c in cuts + [len(b)]:
        parts.append(b[prev:c]); prev = c
    return parts


def gen_painted_diff(rng):
    """a git stream with one combined-diff section whose removed / added blocks mix different prefix columns (lines changed
    relative to different parents next to each other), and a unified section. Returns (lines, meta): meta[i] = None for a
    line that is not a hunk line, else dict(kind m|z|p, dt u|c, pre, body, secs, block) — `block` numbers the runs of
    consecutive lines of one kind (what one call of paint_lines gets)."""
    n = rng.choice([2, 2, 2, 3, 4])
    p = rng.choice(M.PATHS)
    lines, meta = [], []

    def add(l, m=None):
        lines.append(l); meta.append(m)
    add(f"diff --cc {p}"); add("index " + ",".join(["1111111"] * n) + "..0000000"); add(f"--- a/{p}"); add(f"+++ b/{p}")
    ats = "@" * (n + 1)
    add(ats + "".join(" -1,9" for _ in range(n)) + " +1,9 " + ats + rng.choice(["", " fn main() {"]))
    block = [0]

    def hunk_line(kind, dt, pre, body):
        prev = next((m for m in reversed(meta) if True), None)
        if not (prev and prev["kind"] == kind and prev["dt"] == dt):
            block[0] += 1
        add(pre + body, dict(kind=kind, dt=dt, pre=pre, body=body, secs=split_body(rng, body), block=block[0]))

    def cols(ch):
        while True:
            c = "".join(rng.choice([ch, " "]) for _ in range(n))
            if ch in c:
                return c
    for _ in range(rng.randint(1, 3)):
        for _ in range(rng.randint(0, 2)):
            hunk_line("z", "c", " " * n, rng.choice(PAINT_BODIES))
        if rng.random() < 0.8:
            for _ in range(rng.randint(2, 4)):
                hunk_line("m", "c", cols("-"), rng.choice(PAINT_BODIES))
        if rng.random() < 0.8:
            for _ in range(rng.randint(2, 4)):
                hunk_line("p", "c", cols("+"), rng.choice(PAINT_BODIES))
    hunk_line("z", "c", " " * n, rng.choice(PAINT_BODIES))
    if rng.random() < 0.6:
        q = rng.choice(M.PATHS)
        add(f"diff --git a/{q} b/{q}"); add("index 1111111..2222222 100644"); add(f"--- a/{q}"); add(f"+++ b/{q}")
        add("@@ -1,5 +1,5 @@")
        for _ in range(rng.randint(1, 2)):
            hunk_line("z", "u", " ", rng.choice(PAINT_BODIES))
            for _ in range(rng.randint(0, 2)):
                hunk_line("m", "u", "-", rng.choice(PAINT_BODIES))
            for _ in range(rng.randint(0, 2)):
                hunk_line("p", "u", "+", rng.choice(PAINT_BODIES))
        hunk_line("z", "u", " ", rng.choice(PAINT_BODIES))
    return lines, meta


def painted_class(meta, k):
    """input class of line k for a violation signature"""
    m = meta[k]
    if m is None:
        return "header-line"
    if m["dt"] == "u":
        return "unified"
    same = {x["pre"] for x in meta if x and x["block"] == m["block"]}
    return f"combined-{len(m['pre'])}-parents:" + ("mixed-prefix-block" if len(same) > 1 else "uniform-block")


def copaint_requests(meta, olines):
    """one `copaint.block` request per block (lean/Driver/Machine.lean): keep-markers 1 = the preset of color-only"""
    reqs, idx = [], []
    cur = None
    for k, m in enumerate(meta):
        if m is None:
            continue
        f = "/".join([m["kind"], m["dt"], hx(m["pre"]), ".".join(hx(x) for x in m["secs"]), hx(olines[k])])
        if cur is not None and cur == m["block"]:
            reqs[-1] += " " + f; idx[-1].append(k)
        else:
            reqs.append("copaint.block 1 " + f); idx.append([k]); cur = m["block"]
    return reqs, idx


def run_painted(ctx, rep):
    """(4) model's painted bytes vs the real line, both stripped by the Lean terminal model, on combined diffs with mixed
    prefix columns; the oracle `output line i shows input line i` on the same runs"""
    rng = ctx.rng
    jobs = []
    for i in range(ctx.n(40, 1200)):
        lines, meta = gen_painted_diff(rng)
        extra = list(rng.choice(PAINT_EXTRA))
        zero_bg = i % 10 == 9
        if zero_bg:
            extra = list(rng.choice(ZERO_BG))
        jobs.append(dict(args=["--no-gitconfig", "--color-only"] + extra, lines=lines, meta=meta, zero_bg=zero_bg,
                         tag="+".join(x for x in extra if x.startswith("--")) or "plain"))

    def case_of(j):
        return dict(args=j["args"], input_b64=b64(("\n".join(j["lines"]) + "\n").encode()), family="painted")

    def one(j):
        return run_case(ctx, case_of(j), ("\n".join(j["lines"]) + "\n").encode())
    mdl = ctx.model("drv_machine") if ctx.drivers_ok else None
    allreqs, owner = [], []
    results = list(zip(jobs, parallel_map(one, jobs)))
    for jn, (j, (rc, out, err)) in enumerate(results):
        lines, meta = j["lines"], j["meta"]
        case = case_of(j)
        rep.case(key=("painted", tuple(j["args"]), tuple(lines)), nontrivial=True,
                 sample=dict(level="painted", args=j["args"], head=lines[4:8]))
        rep.count("painted-opt:" + j["tag"])
        if rc != 0:
            rep.violation(f"exit:{rc}:painted", f"delta {' '.join(j['args'])} exited {rc}: {err[-200:]!r}", case); continue
        olines = out.split(b"\n")
        if olines and olines[-1] == b"":
            olines.pop()
        if len(olines) != len(lines):
            rep.violation("line-count:painted:" + j["tag"], f"{len(olines)} output lines for {len(lines)} input lines", case); continue
        j["olines"] = olines
        for k, (o, l) in enumerate(zip(olines, lines)):
            want, got = l.encode(), M.strip_ansi(o)
            if got != want:
                if j["zero_bg"] and meta[k] and meta[k]["kind"] == "z" and got.rstrip(b" ") == want.rstrip(b" ") and len(got) > len(want):
                    sig = "text-changed:painted:zero-style-background:trailing-blanks"
                else:
                    sig = "text-changed:painted:" + painted_class(meta, k) + (":zero-style-background" if j["zero_bg"] else "")
                rep.violation(sig, f"line {k}: shows {got[:80]!r} for input {want[:80]!r}", dict(case, line=k))
                break
        if mdl and not j["zero_bg"]:
            reqs, idx = copaint_requests(meta, olines)
            for r, ks in zip(reqs, idx):
                allreqs.append(r); owner.append((jn, ks))
    if mdl and allreqs:
        resp = mdl.ask(allreqs)
        if resp and resp[0].startswith("ERR") and "bad" not in resp[0] and not any(r.startswith("ok") for r in resp):
            rep.notes["copaint-driver"] = "answers: " + resp[0][:120]
        for r, (jn, ks) in zip(resp, owner):
            j = jobs[jn]
            dis = []
            if not r.startswith("ok "):
                dis.append("model: " + r[:80])
            else:
                for k, f in zip(ks, r[3:].split(";")):
                    mv, rv, row = f.split("/")
                    want = hx(j["lines"][k])
                    if not (mv == rv == row == want):
                        dis.append(f"line {k} ({painted_class(j['meta'], k)}): model shows {mv}, the real line {rv}, machine row {row}, input {want}")
            rep.corr_case("copaint.block", not dis, dict(case_of(j), lines=ks, disagreement=dis[:2]))
    elif not mdl:
        rep.count("copaint.block:no-model-driver(skipped)")


def run(ctx, rep):
    rep.rule = ("streams git can hand to a pager / interactive.diffFilter (plain or git-coloured diffs, commit metadata + diffstat, all file "
                "events incl. binary sections and submodule bumps, combined diffs, plain diff -u, lightly mutated ones) x --color-only crossed "
                "with side-by-side, line numbers, navigate, raw, decorations, omit/raw styles, emulation presets, given on the command line "
                "(before / after), in [delta], in a custom feature, a features list (gitconfig, --features, DELTA_FEATURES) or "
                "GIT_CONFIG_PARAMETERS: one output line per input line; visible text equal unless a preset is overridden; the Config "
                "reported by --show-config is in the normal form; non-trivial = stream has >= 1 hunk and >= 2 line kinds; distinct by "
                "(args, sources, input)")
    rng = ctx.rng
    # (1) model correspondence in color-only mode
    cases, meta = [], []
    for _ in range(ctx.n(200, 4000)):
        cfg = M.gen_cfg(rng, color_only=True)
        if rng.random() < 0.5:
            cfg = CoCfg(cfg, rng.choice(HOOK_COMPANIONS), rng.random() < 0.5)
        lines = gen_stream(rng)
        if any("\x1b" in l for l in lines):
            lines = [M.strip_ansi(l.encode()).decode() for l in lines]   # the machine model covers uncoloured hunk lines
        cases.append((cfg, [l.encode() for l in lines])); meta.append((cfg, lines))
    res = M.observe(ctx, cases)
    for (cfg, lines), (impl, model) in zip(meta, res):
        case = dict(args=cfg.args(), model_cfg=cfg.d, input="\n".join(lines))
        extra = getattr(cfg, "extra", [])
        comp = (":" + "+".join(x.lstrip("-") for x in extra)) if extra else ""
        rep.case(key=("hook", cfg.key(), tuple(lines)), nontrivial=len({l[:1] for l in lines}) >= 3,
                 sample=dict(level="hook", head=lines[:4], n=len(lines), companions=extra))
        rep.count("hook-companions:" + (comp[1:] or "none"))
        if impl.panic:
            rep.violation("panic:" + impl.msg[:60], impl.msg[:200], case); continue
        if not impl.ok:
            continue
        dis = M.compare(cfg, impl, model)
        rep.corr_case("machine.run", not dis, dict(case, disagreement=dis[:2]))
        rep.count("theorem-hypotheses:" + theorem_applies(lines))
        nout = impl.out.count(b"\n")
        if nout != len(lines):
            ambiguous = not any(l.startswith("diff --git") or l.startswith("diff --cc") for l in lines) and \
                any(l.startswith("+++ ") and not l.startswith("+++ y/") for l in lines)
            rep.violation("plain-diff-plusplus-body-taken-as-header" if ambiguous else
                          "line-count:hook" + (comp + ":" + input_class(lines) if comp else ""),
                          f"{nout} output lines for {len(lines)} input lines", case)
    # (2) the real binary, option matrix
    jobs = []
    for _ in range(ctx.n(300, 10000)):
        lines = gen_stream(rng)
        extra = list(rng.choice(EXTRA))
        if rng.random() < 0.25:
            e2 = list(rng.choice(EXTRA))
            if compatible(extra, e2):
                extra += e2
        # the request first (as git's interactive.diffFilter setting usually has it) or last
        args = ["--no-gitconfig", "--color-only"] + extra if rng.random() < 0.7 else ["--no-gitconfig"] + extra + ["--color-only"]
        jobs.append(dict(args=args, lines=lines, tag="+".join(x for x in extra if x.startswith("--")) or "plain",
                         text_ok=not (set(extra) & OVERRIDES_TEXT)))

    # color-only switched on through gitconfig (main section / a custom feature) instead of the command line, together with
    # decorations or side-by-side asked for in gitconfig or on the command line: the marker "@gitconfig:<k>" as first
    # argument selects a scratch HOME whose ~/.gitconfig is GITCONFIGS[k]
    GITCONFIGS = [
        "[delta]\n    color-only = true\n",
        "[delta]\n    color-only = true\n    commit-decoration-style = bold yellow box ul\n    file-decoration-style = blue ul\n"
        "    hunk-header-decoration-style = blue box\n",
        "[delta]\n    color-only = true\n    side-by-side = true\n    line-numbers = true\n",
        "[delta]\n    features = co\n[delta \"co\"]\n    color-only = true\n    file-decoration-style = yellow box\n",
        "[delta]\n    color-only = true\n    features = decorations\n",
    ]
    for k, text in enumerate(GITCONFIGS):
        h = os.path.join(BUILD, f"c02-home-{k}")
        os.makedirs(h, exist_ok=True)
        with open(os.path.join(h, ".gitconfig"), "w") as f:
            f.write(text)
    for _ in range(ctx.n(40, 1200)):
        k = rng.randrange(len(GITCONFIGS))
        extra = rng.choice([[], ["--side-by-side"], ["--file-decoration-style", "red box"], ["--commit-decoration-style", "ul"],
                            ["--hunk-header-decoration-style", "box ul"], ["--line-numbers"], ["--raw"]])
        # color-only from gitconfig does not remove the side-by-side *feature* (only its panels): the line-number gutter that
        # feature implies stays, i.e. asking for side-by-side there is asking for a gutter (the line count must still hold)
        gutter = k == 2 or "--side-by-side" in extra
        jobs.append(dict(args=[f"@gitconfig:{k}"] + extra, lines=gen_stream(rng), tag=(extra[0] if extra else "none"),
                         text_ok=not (set(extra) & OVERRIDES_TEXT) and not gutter))

    # the request and other builtin feature flags (raw above all), each through one of its sources
    for _ in range(ctx.n(140, 4000)):
        s = gen_sources(rng)
        lines = gen_stream(rng)
        if rng.random() < 0.5 and input_class(lines) == "text-sections":
            lines = gen_stream(rng)          # lean towards streams with specially handled sections
        jobs.append(dict(args=s["args"], gitconfig=s["gitconfig"], env=s["env"], lines=lines, tags=s["tags"], model=s["model"],
                         tag="sources:" + "+".join(t for t in s["tags"] if not t.startswith("color-only@cli")), text_ok=s["text_ok"]))

    def case_of(j):
        c = dict(args=j["args"], input_b64=b64(("\n".join(j["lines"]) + "\n").encode()))
        if "gitconfig" in j:
            c.update(gitconfig=j["gitconfig"], env=j["env"], sources=j["tags"])
        return c

    def one(j):
        return run_case(ctx, case_of(j), ("\n".join(j["lines"]) + "\n").encode())
    refusals = {}
    for j, (rc, out, err) in zip(jobs, parallel_map(one, jobs)):
        lines, args = j["lines"], j["args"]
        case = case_of(j)
        rep.case(key=("bin", tuple(args), j.get("gitconfig"), tuple(sorted((j.get("env") or {}).items())), tuple(lines)),
                 nontrivial=len({l[:1] for l in lines}) >= 3,
                 sample=dict(level="binary", args=args, sources=j.get("tags"), head=lines[:3]))
        rep.count("opt:" + j["tag"])
        rep.count("input:" + input_class(lines))
        if rc != 0:
            # a configuration delta refuses at start-up (clap / option validation: same status and no output whatever the
            # input, e.g. on an empty one) is not a configuration `--color-only` runs under; a non-zero status that depends
            # on the input is a failure of the filter
            key = (tuple(args), j.get("gitconfig"), tuple(sorted((j.get("env") or {}).items())))
            if key not in refusals:
                rc0, out0, _ = run_case(ctx, case, b"")
                refusals[key] = (rc0 == rc and out0 == b"")
            if refusals[key] and out == b"":
                rep.count("configuration-not-accepted:" + err.decode("utf-8", "replace").strip().split("\n")[0][:60])
                continue
            rep.violation(f"exit:{rc}", f"delta {' '.join(args)} exited {rc}: {err[-200:]!r}", case); continue
        plain = [M.strip_ansi(l.encode()).decode("utf-8", "replace") for l in lines]
        # plain `diff -u` streams: an added line `++ x` (input `+++ x`) inside a hunk is taken for a file header
        # (known finding shared with C14: there is no plus-side counter)
        ambiguous = not any(l.startswith("diff --git") or l.startswith("diff --cc") for l in plain) and \
            any(l.startswith("+++ ") and not l.startswith("+++ y/") for l in plain)
        olines = out.split(b"\n")
        if olines and olines[-1] == b"":
            olines.pop()
        cls = (":" + input_class(lines)) if (j["tag"].startswith("sources:") or "raw" in j["tag"]) else ""
        if len(olines) != len(lines):
            rep.violation("plain-diff-plusplus-body-taken-as-header" if ambiguous else "line-count:" + j["tag"] + cls,
                          f"{len(olines)} output lines for {len(lines)} input lines", case)
            continue
        if j["text_ok"]:
            for k, (o, l) in enumerate(zip(olines, lines)):
                want = M.strip_ansi(l.encode()).rstrip(b"\r")
                got = M.strip_ansi(o)
                if got != want:
                    rep.violation("plain-diff-plusplus-body-taken-as-header" if ambiguous else "text-changed:" + j["tag"] + cls,
                                  f"line {k}: shows {got[:80]!r} for input {want[:80]!r}", dict(case, line=k))
                    break

    # (3) the configuration itself (`--show-config` reports fields of the Config the handlers read): what
    # `color_only_any_source_normal_form` / `color_only_config_presets` (Props/C02.lean) say about every request
    sjobs = [j for j in jobs if "gitconfig" in j][:ctx.n(40, 600)]

    def show(j):
        return run_case(ctx, case_of(j), b"", more_args=["--show-config"])
    # the Lean model of the same step (`ColorOnlyCfg.cfgOfInputs`: C13's resolution, the tail of set_options, Config::from
    # with the generated field initialisers) on the same sources; no lean_exe is registered for it: interpreted
    mresp = []
    if ctx.lean_ok and sjobs:
        drv = LineProc(["lake", "env", "lean", "--run", "Driver/ColorOnlyCfg.lean"], cwd=LEAN)
        try:
            mresp = drv.ask([cocfg_request(j["model"]) for j in sjobs], timeout=ctx.n(240, 1500))
        except Exception as ex:      # noqa: the correspondence is then reported as not run
            rep.notes["cocfg-driver"] = repr(ex)[:200]
    if len(mresp) != len(sjobs) or not all(r.startswith("ok ") for r in mresp):
        rep.notes["cocfg-driver"] = rep.notes.get("cocfg-driver") or ("unusable answers: " + repr(mresp[:1])[:200])
        mresp = [None] * len(sjobs)
    FIELDS = {"side_by_side": "side-by-side", "line_numbers": "line-numbers", "keep_plus_minus_markers": "keep-plus-minus-markers",
              "navigate": "navigate", "hyperlinks": "hyperlinks"}
    for j, (rc, out, err), mr in zip(sjobs, parallel_map(show, sjobs), mresp):
        if rc != 0:
            continue
        cfg = show_config(out)
        case = dict(case_of(j), show_config=True)
        if mr is not None:
            mv = dict(f.split("=", 1) for f in mr.split(" ")[1:])
            dis = []
            if mv.get("requested") != "1":
                dis.append("the model does not see the request: requested=" + str(mv.get("requested")))
            for mf, sf in FIELDS.items():
                if {"1": "true", "0": "false"}.get(mv.get(mf)) != cfg.get(sf):
                    dis.append(f"{sf}: implementation {cfg.get(sf)} vs model {mv.get(mf)}")
            if mv.get("tab") != cfg.get("tabs"):
                dis.append(f"tabs: implementation {cfg.get('tabs')} vs model {mv.get('tab')}")
            for mf, sf in (("commit_style", "commit-style"), ("file_style", "file-style"), ("hunk_header_style", "hunk-header-style")):
                if (mv.get(mf) == hx("raw")) != (cfg.get(sf) == "raw"):
                    dis.append(f"{sf}: implementation {cfg.get(sf)!r} vs model style string {mv.get(mf)}")
            rep.corr_case("cocfg.resolve", not dis, dict(case, model=mr, disagreement=dis[:3]))
        src = "+".join(t for t in j["tags"] if not t.startswith("color-only@cli"))
        rep.case(key=("show-config", tuple(j["args"]), j["gitconfig"], tuple(sorted(j["env"].items()))), nontrivial=True,
                 sample=dict(level="show-config", sources=j["tags"], side_by_side=cfg.get("side-by-side"), tabs=cfg.get("tabs")))
        if cfg.get("side-by-side") != "false":
            rep.violation("config:side-by-side-on:" + src, f"--show-config reports side-by-side = {cfg.get('side-by-side')}", case)
        for k in ("commit-style", "file-style", "hunk-header-style"):
            if set(cfg.get(k, "").split()) & DECO_WORDS:
                rep.violation(f"config:decoration:{k}:" + src, f"--show-config reports {k} = {cfg.get(k)}", case)
        if j["text_ok"]:
            want = {"commit-style": "raw", "file-style": "raw", "hunk-header-style": "raw", "keep-plus-minus-markers": "true", "tabs": "0"}
            for k, v in want.items():
                if cfg.get(k) != v:
                    rep.violation(f"config:preset-missing:{k}:" + src, f"--show-config reports {k} = {cfg.get(k)!r}, the preset is {v!r}", case)

    # (4) the bytes painted for hunk lines
    run_painted(ctx, rep)


def replay(ctx, rep, obj):
    import base64
    c = obj["case"]
    if c.get("show_config"):
        rc, out, err = run_case(ctx, c, b"", more_args=["--show-config"])
        cfg = show_config(out)
        print("rc", rc, {k: cfg.get(k) for k in ("side-by-side", "commit-style", "file-style", "hunk-header-style", "keep-plus-minus-markers", "tabs")})
        if cfg.get("side-by-side") != "false" or any(set(cfg.get(k, "").split()) & DECO_WORDS for k in ("commit-style", "file-style", "hunk-header-style")):
            rep.violation(obj.get("signature", "config"), "replayed", c)
        return
    if "input_b64" in c:
        data = base64.b64decode(c["input_b64"])
    elif "input" in c:
        data = (c["input"] + "\n").encode()       # a hook-level case: the same arguments to the real binary
    else:
        return
    rc, out, err = run_case(ctx, c, data)
    n_in, n_out = data.count(b"\n"), out.count(b"\n")
    print("rc", rc, "lines in/out", n_in, n_out)
    if n_in != n_out:
        rep.violation(obj.get("signature", "line-count"), "replayed", c)
    elif c.get("line") is not None and c.get("family") == "painted":
        k = c["line"]
        want, got = data.split(b"\n")[k], M.strip_ansi(out.split(b"\n")[k])
        print("line", k, "shows", got[:80], "for", want[:80])
        if got != want:
            rep.violation(obj.get("signature", "text-changed:painted"), "replayed", c)
