"""C02 — --color-only is a line-for-line, text-preserving filter (git add -p contract)."""
from .. import machine as M
from ..core import parallel_map, b64

DRIVERS = ["drv_machine"]
GENERATED = ["Handlers", "Markers"]

EXTRA = [[], ["--side-by-side"], ["--line-numbers"], ["--navigate"], ["--diff-so-fancy"], ["--diff-highlight"],
         ["--side-by-side", "--line-numbers"], ["--commit-decoration-style", "box"], ["--file-decoration-style", "ul"],
         ["--hunk-header-decoration-style", "box ul"], ["--commit-style", "omit"], ["--file-style", "omit"],
         ["--hunk-header-style", "omit"], ["--commit-style", "raw"], ["--file-style", "red"], ["--hunk-header-style", "syntax"],
         ["--relative-paths"], ["--hyperlinks"], ["--max-line-distance", "0.3"], ["--line-buffer-size", "1"], ["--width", "20"],
         ["--keep-plus-minus-markers"], ["--zero-style", "raw"], ["--minus-style", "syntax"],
         # decoration words inside the element's own style string (the older syntax), all three elements
         ["--file-style", "yellow box"], ["--commit-style", "bold yellow box ul"], ["--hunk-header-style", "blue box"],
         ["--file-style", "red underline overline"], ["--hunk-header-style", "syntax overline"], ["--commit-style", "raw box"],
         ["--hunk-header-style", "file line-number syntax box"], ["--tabs", "4"], ["--tabs", "0"], ["--hunk-label", "§"],
         ["--features", "decorations"], ["--features", "line-numbers side-by-side"], ["--dark"], ["--light"],
         ["--word-diff-regex", "."], ["--wrap-max-lines", "0", "--side-by-side"], ["--max-line-length", "20"]]
# options that explicitly override one of the presets the mode implies: the text may then change, the line count may not
OVERRIDES_TEXT = {"--line-numbers", "--commit-style", "--file-style", "--hunk-header-style", "--tabs", "--hyperlinks", "--relative-paths",
                  "--features", "--max-line-length", "--hunk-label"}

GIT_COLOURS = {"-": "\x1b[31m", "+": "\x1b[32m", "@": "\x1b[36m", "d": "\x1b[1m", "i": "\x1b[1m"}


def colourise(lines):
    out = []
    for l in lines:
        c = GIT_COLOURS.get(l[:1])
        out.append(c + l + "\x1b[m" if c and l else l)
    return out


def gen_stream(rng):
    r = rng.random()
    if r < 0.55:
        lines, _ = M.gen_git_diff(rng)
    elif r < 0.7:
        lines = M.gen_commit(rng) + [" a.rs | 2 +-", " 1 file changed, 1 insertion(+), 1 deletion(-)", ""] + M.gen_git_diff(rng, with_commit=False)[0]
    elif r < 0.8:
        lines, _ = M.gen_combined_diff(rng)
    elif r < 0.9:
        lines, _ = M.gen_plain_diff(rng)
    else:
        lines, _ = M.gen_git_diff(rng)
        lines = M.mutate_lines(rng, lines)
        # a hunk header must be followed by a hunk line for git to have produced it; keep mutated streams plausible
        lines = [l for i, l in enumerate(lines) if not (l.startswith("@@") and (i + 1 == len(lines) or lines[i + 1][:1] not in " +-\\"))]
    if rng.random() < 0.4:
        lines = colourise(lines)
    return lines


GIT_FIRST = ("commit ", "diff --git ", "diff --cc ", "diff --combined ")


def theorem_applies(lines):
    """hypotheses of Props/C02.lean `color_only_line_for_line` (first line identifies a git diff; every `@@` line is followed
    by a hunk-body line; the stream does not end in one), evaluated on the generated stream"""
    if not lines or not lines[0].startswith(GIT_FIRST):
        return "first-line-not-git"
    for i, l in enumerate(lines):
        if l.startswith("@@"):
            if i + 1 >= len(lines):
                return "ends-in-hunk-header"
            nx = lines[i + 1]
            if not (nx == "" or nx[0] in " +-\\"):
                return "hunk-header-not-followed-by-body"
    return "yes"


def run(ctx, rep):
    rep.rule = ("streams git can hand to a pager / interactive.diffFilter (plain or git-coloured diffs, commit metadata + diffstat, all file "
                "events, combined diffs, plain diff -u, lightly mutated ones) x --color-only crossed with side-by-side, line numbers, "
                "navigate, decorations, omit/raw styles, emulation presets: one output line per input line; visible text equal unless a preset "
                "is overridden; non-trivial = stream has >= 1 hunk and >= 2 line kinds; distinct by (args, input)")
    rng = ctx.rng
    # (1) model correspondence in color-only mode
    cases, meta = [], []
    for _ in range(ctx.n(200, 4000)):
        cfg = M.gen_cfg(rng, color_only=True)
        lines = gen_stream(rng)
        if any("\x1b" in l for l in lines):
            lines = [M.strip_ansi(l.encode()).decode() for l in lines]   # the machine model covers uncoloured hunk lines
        cases.append((cfg, [l.encode() for l in lines])); meta.append((cfg, lines))
    res = M.observe(ctx, cases)
    for (cfg, lines), (impl, model) in zip(meta, res):
        case = dict(args=cfg.args(), model_cfg=cfg.d, input="\n".join(lines))
        rep.case(key=("hook", cfg.key(), tuple(lines)), nontrivial=len({l[:1] for l in lines}) >= 3,
                 sample=dict(level="hook", head=lines[:4], n=len(lines)))
        if impl.panic:
            rep.violation("panic:" + impl.msg[:60], impl.msg[:200], case); continue
        if not impl.ok:
            continue
        dis = M.compare(cfg, impl, model)
        rep.corr_case("machine.run", not dis, dict(case, disagreement=dis[:2]))
        rep.count("theorem-hypotheses:" + theorem_applies(lines))
        nout = impl.out.count(b"\n")
        if nout != len(lines):
            ambiguous = not any(l.startswith("diff --git") or l.startswith("diff --cc") for l in lines) and \
                any(l.startswith("+++ ") and not l.startswith("+++ y/") for l in lines)
            rep.violation("plain-diff-plusplus-body-taken-as-header" if ambiguous else "line-count:hook",
                          f"{nout} output lines for {len(lines)} input lines", case)
    # (2) the real binary, option matrix
    jobs = []
    for _ in range(ctx.n(300, 10000)):
        lines = gen_stream(rng)
        extra = list(rng.choice(EXTRA))
        if rng.random() < 0.25:
            e2 = list(rng.choice(EXTRA))
            if not ({x for x in e2 if x.startswith("--")} & {x for x in extra if x.startswith("--")}):
                extra += e2
        jobs.append((["--no-gitconfig", "--color-only"] + extra, lines))

    # color-only switched on through gitconfig (main section / a custom feature) instead of the command line, together with
    # decorations or side-by-side asked for in gitconfig or on the command line: the marker "@gitconfig:<k>" as first
    # argument selects a scratch HOME whose ~/.gitconfig is GITCONFIGS[k]
    import os as _os
    from ..core import BUILD as _BUILD
    GITCONFIGS = [
        "[delta]\n    color-only = true\n",
        "[delta]\n    color-only = true\n    commit-decoration-style = bold yellow box ul\n    file-decoration-style = blue ul\n"
        "    hunk-header-decoration-style = blue box\n",
        "[delta]\n    color-only = true\n    side-by-side = true\n    line-numbers = true\n",
        "[delta]\n    features = co\n[delta \"co\"]\n    color-only = true\n    file-decoration-style = yellow box\n",
        "[delta]\n    color-only = true\n    features = decorations\n",
    ]
    homes = []
    for k, text in enumerate(GITCONFIGS):
        h = _os.path.join(_BUILD, f"c02-home-{k}")
        _os.makedirs(h, exist_ok=True)
        with open(_os.path.join(h, ".gitconfig"), "w") as f:
            f.write(text)
        homes.append(h)
    for _ in range(ctx.n(40, 1200)):
        k = rng.randrange(len(GITCONFIGS))
        extra = rng.choice([[], ["--side-by-side"], ["--file-decoration-style", "red box"], ["--commit-decoration-style", "ul"],
                            ["--hunk-header-decoration-style", "box ul"], ["--line-numbers"]])
        jobs.append(([f"@gitconfig:{k}"] + extra, gen_stream(rng)))

    def one(j):
        args, lines = j
        if args and args[0].startswith("@gitconfig:"):
            return ctx.run_delta(args[1:], ("\n".join(lines) + "\n").encode(), env={"HOME": homes[int(args[0].split(":")[1])]})
        return ctx.run_delta(args, ("\n".join(lines) + "\n").encode())
    for (args, lines), (rc, out, err) in zip(jobs, parallel_map(one, jobs)):
        data = ("\n".join(lines) + "\n").encode()
        case = dict(args=args, input_b64=b64(data))
        rep.case(key=("bin", tuple(args), tuple(lines)), nontrivial=len({l[:1] for l in lines}) >= 3,
                 sample=dict(level="binary", args=args, head=lines[:3]))
        rep.count("opt:" + (args[2] if len(args) > 2 else "none"))
        if rc != 0:
            rep.violation(f"exit:{rc}", f"delta {' '.join(args)} exited {rc}: {err[-200:]!r}", case); continue
        plain = [M.strip_ansi(l.encode()).decode("utf-8", "replace") for l in lines]
        # plain `diff -u` streams: an added line `++ x` (input `+++ x`) inside a hunk is taken for a file header
        # (known finding shared with C14: there is no plus-side counter)
        ambiguous = not any(l.startswith("diff --git") or l.startswith("diff --cc") for l in plain) and \
            any(l.startswith("+++ ") and not l.startswith("+++ y/") for l in plain)
        olines = out.split(b"\n")
        if olines and olines[-1] == b"":
            olines.pop()
        if len(olines) != len(lines):
            rep.violation("plain-diff-plusplus-body-taken-as-header" if ambiguous else "line-count:" + (args[2] if len(args) > 2 else "plain"),
                          f"{len(olines)} output lines for {len(lines)} input lines", case)
            continue
        # color-only from gitconfig does not remove the side-by-side *feature* (only its panels): the line-number gutter that
        # feature implies stays, i.e. asking for side-by-side there is asking for a gutter (the line count must still hold)
        gutter = args[0].startswith("@gitconfig:") and (args[0].endswith(":2") or "--side-by-side" in args)
        if not (set(args) & OVERRIDES_TEXT) and not gutter:
            for k, (o, l) in enumerate(zip(olines, lines)):
                want = M.strip_ansi(l.encode()).rstrip(b"\r")
                got = M.strip_ansi(o)
                if got != want:
                    rep.violation("plain-diff-plusplus-body-taken-as-header" if ambiguous else "text-changed:" + (args[2] if len(args) > 2 else "plain"),
                                  f"line {k}: shows {got[:80]!r} for input {want[:80]!r}", dict(case, line=k))
                    break


def replay(ctx, rep, obj):
    import base64
    c = obj["case"]
    if "input_b64" in c:
        data = base64.b64decode(c["input_b64"])
        if c["args"] and c["args"][0].startswith("@gitconfig:"):
            import os
            from ..core import BUILD
            rc, out, err = ctx.run_delta(c["args"][1:], data, env={"HOME": os.path.join(BUILD, "c02-home-" + c["args"][0].split(":")[1])})
        else:
            rc, out, err = ctx.run_delta(c["args"], data)
        n_in, n_out = data.count(b"\n"), out.count(b"\n")
        print("rc", rc, "lines in/out", n_in, n_out)
        if n_in != n_out:
            rep.violation(obj.get("signature", "line-count"), "replayed", c)
