"""C08 — git's default colouring is ignored; moved-line and raw colours are preserved.

Correspondence: the ANSI element iterator and its consumers (hook ops `ansi.*`) against the Lean
model driver `drv_ansi`, on random lines mixing text, SGR in many forms, CSI with intermediates /
private markers, OSC 8, DCS/APC strings, stray ESC, C0 controls and truncated sequences.

Direct oracle (real binary): every generated diff is rendered plain and under several git-style
colourings in several rendering modes; stdout must be byte-identical.  Moved-line colours (an SGR
rendition other than git's plain red/green on a +/- line) must be shown with exactly that
rendition (decoded with the independent SGR interpreter below), or with the style `--map-styles`
assigns; raw-styled elements keep the input colouring.  The same pairs are also run under gitconfigs
that set color.diff.old / color.diff.new (three sources), with the input coloured with git's built-in
red/green and with the configured colours: both are plain removed/added colouring and must be ignored,
every other colour kept.  The model of the callers of `maybe_raw_line` (which styles count as ordinary,
per line kind and gitconfig: `Ansi.hunkLineKeepsRaw`) is compared with the binary (`corr_raw_callers`).

Whole streams through the line state machine (session 4, T2; theorems `machine_ignores_raw_line`,
`machine_ignores_git_colouring`): generated diffs (git / plain `diff -u` / combined with conflict regions,
random unified-view configurations incl. raw header styles) are run plain and under a git default colouring
through the hook op `machine.run` (the real `delta()` in-process, observed per line) and through the model
(`drv_machine`): (a) correspondence of the *coloured* stream hook vs model (states, buffers, rows per line,
classified rows), (b) the model rows of the two runs satisfy the relation of the theorem (`RowRel`), (c) direct
oracle on the implementation: the per-line facts agree (`Agree`), the same rows in the same order with the same
kinds, byte-identical output on every row that is not raw-styled, and raw-styled rows that show the coloured
input line itself (`machine_whole_streams`).
"""
import os
import re
import threading

from ..core import hx, unhx, parallel_map, sha

DRIVERS = ["drv_ansi", "drv_machine"]
_SEEN = {}


def report(rep, signature, what, replay):
    """rep.violation, at most 3 times per signature (core keeps only the first 50 violations of a run:
    one noisy signature must not crowd out the others)."""
    n = _SEEN.get(signature, 0)
    _SEEN[signature] = n + 1
    if n < 3:
        rep.violation(signature, what, replay)


GENERATED = ["VteTable", "AnsiSgr", "RawLine", "MapStyles", "RawUse", "Handlers", "Markers"]
ESC = "\x1b"

# ------------------------------------------------------------------ independent SGR interpreter


class Rend:
    """Terminal rendition: 8 attributes + fg/bg (None | ('p', n) | ('r', r, g, b))."""
    __slots__ = ("a", "fg", "bg")

    def __init__(self):
        self.a = [False] * 8  # bold dim italic underline blink reverse hidden strike
        self.fg = None
        self.bg = None

    def copy(self):
        r = Rend()
        r.a, r.fg, r.bg = list(self.a), self.fg, self.bg
        return r

    def key(self):
        return (tuple(self.a), self.fg, self.bg)

    def enc(self):
        def c(x):
            if x is None:
                return "_"
            if x[0] == "p":
                return "p%d" % x[1]
            return "r%d.%d.%d" % x[1:]
        return "".join("1" if b else "0" for b in self.a) + "," + c(self.fg) + "," + c(self.bg)


def parse_params(text):
    """'1;38:2::1:2:3' -> [[1],[38,2,0,1,2,3]] (empty = 0; values saturate at 65535)."""
    out = []
    for p in text.split(";"):
        out.append([min(int(x), 65535) if x else 0 for x in p.split(":")])
    return out


def apply_sgr(r, groups):
    """ECMA-48 / xterm meaning of one CSI ... m, written from the xterm ctlseqs documentation."""
    i = 0
    while i < len(groups):
        g = groups[i]
        x = g[0]
        i += 1
        if x == 0:
            r.a = [False] * 8
            r.fg = r.bg = None
        elif 1 <= x <= 9:
            if x == 4 and g[1:] == [0]:
                r.a[3] = False
            else:
                r.a[{1: 0, 2: 1, 3: 2, 4: 3, 5: 4, 6: 4, 7: 5, 8: 6, 9: 7}[x]] = True
        elif x == 21:
            r.a[3] = True
        elif x == 22:
            r.a[0] = r.a[1] = False
        elif 23 <= x <= 25:
            r.a[{23: 2, 24: 3, 25: 4}[x]] = False
        elif 27 <= x <= 29:
            r.a[{27: 5, 28: 6, 29: 7}[x]] = False
        elif 30 <= x <= 37:
            r.fg = ("p", x - 30)
        elif 40 <= x <= 47:
            r.bg = ("p", x - 40)
        elif 90 <= x <= 97:
            r.fg = ("p", x - 82)
        elif 100 <= x <= 107:
            r.bg = ("p", x - 92)
        elif x == 39:
            r.fg = None
        elif x == 49:
            r.bg = None
        elif x in (38, 48):
            col = None
            if len(g) > 1:  # colon form
                s = g[1:]
                if len(s) == 2 and s[0] == 5 and s[1] <= 255:
                    col = ("p", s[1])
                elif len(s) in (4, 5) and s[0] == 2 and all(v <= 255 for v in s[-3:]):
                    col = ("r",) + tuple(s[-3:])
            else:  # semicolon form: consumes following parameters
                if i < len(groups):
                    sel = groups[i][0]
                    i += 1
                    if sel == 5:
                        if i < len(groups):
                            n = groups[i][0]
                            i += 1
                            if n <= 255:
                                col = ("p", n)
                    elif sel == 2:
                        vals = []
                        while len(vals) < 3 and i < len(groups):
                            v = groups[i][0]
                            i += 1
                            if v > 255:
                                vals = None
                                break
                            vals.append(v)
                        if vals is not None and len(vals) == 3:
                            col = ("r",) + tuple(vals)
            if col is not None:
                if x == 38:
                    r.fg = col
                else:
                    r.bg = col
    return r


SGR_RE = re.compile(rb"\x1b\[([0-9;:]*)m")
CSI_RE = re.compile(rb"\x1b\[[0-9;:<=>?]*[ -/]*[@-~]")
OSC_RE = re.compile(rb"\x1b\][^\x07\x1b]*(?:\x07|\x1b\\)")


def decode_cells(line):
    """bytes of one output line -> list of (char, Rend key) for printable chars; other CSI and
    OSC sequences are skipped."""
    cells = []
    r = Rend()
    i = 0
    while i < len(line):
        if line[i] == 0x1b:
            m = SGR_RE.match(line, i)
            if m:
                apply_sgr(r, parse_params(m.group(1).decode()))
                i = m.end()
                continue
            m = CSI_RE.match(line, i) or OSC_RE.match(line, i)
            if m:
                i = m.end()
                continue
            i += 1
            continue
        # one UTF-8 char
        b = line[i]
        n = 1 if b < 0x80 else 2 if b < 0xE0 else 3 if b < 0xF0 else 4
        cells.append((line[i:i + n].decode("utf-8", "replace"), r.key()))
        i += n
    return cells


# ------------------------------------------------------------------ generators (hook level)

TEXT_ATOMS = ["a", "b", "xyz", " ", "0", ";", "m", "[", "]", "\\", "é", "日本", "✓", "🙂", "ß", "\t",
              "é", "​", "ﾊ", "한", "-", "+", "@@", "\x07", "\x18", "\x1a", "\x7f", "\x01", "\r",
              "\u1100\uac00"]  # last: one cluster of width 4 (Hangul jamo + syllable)
SGR_FORMS = ["", "0", "1", "31", "32", "1;31", "1;32", "7", "2", "3", "4", "4:3", "4:0", "5", "6", "8", "9",
             "38;5;{n}", "48;5;{n}", "38;2;{r};{g};{b}", "48;2;{r};{g};{b}", "38:5:{n}", "38:2:{r}:{g}:{b}",
             "38:2::{r}:{g}:{b}", "48:2::{r}:{g}:{b}", "9{k}", "10{k}", "3{k}", "4{k}", "22", "39", "49", "21",
             "1;2;3;4;5;7;8;9", "38;5", "38;2;1", "38;2;300;1;1", "38;5;256", "38;7;1", "38", "48;2", "58;5;1",
             "0;1;31", "1;0;31", ";", ";;1", "01;031", "99999999", "1:2:3", "38;5;{n};1", "1;38;2;{r};{g};{b};4;48;5;{n}"]


def gen_sgr(rng):
    f = rng.choice(SGR_FORMS)
    return f.format(n=rng.randint(0, 255), r=rng.randint(0, 255), g=rng.randint(0, 255),
                    b=rng.randint(0, 255), k=rng.randint(0, 7))


def gen_token(rng):
    k = rng.random()
    if k < 0.42:
        return "".join(rng.choice(TEXT_ATOMS) for _ in range(rng.randint(1, 4)))
    if k < 0.62:
        return ESC + "[" + gen_sgr(rng) + "m"
    if k < 0.67:  # many parameters (around the 32 limit)
        n = rng.choice([30, 31, 32, 33, 34, 40])
        sep = rng.choice([";", ";", ":"])
        return ESC + "[" + sep.join(str(rng.randint(0, 9)) for _ in range(n)) + "m"
    if k < 0.77:  # other CSI: private markers, intermediates, finals
        pm = rng.choice(["", "", "?", ">", "<", "="])
        ps = rng.choice(["", "0", "1", "2;3", "25", "1;2:3"])
        im = rng.choice(["", "", " ", "!", "$", "!!", " !", "!!!", "$$"])
        fin = rng.choice(["K", "m", "h", "l", "p", "q", "H", "J", "A", "~", "@"])
        return ESC + "[" + pm + ps + im + fin
    if k < 0.85:  # OSC
        url = rng.choice(["", "file:///a/b.rs", "http://x/y?z=1", "file:///tmp/é日.txt", "u;v"])
        term = rng.choice([ESC + "\\", ESC + "\\", "\x07"])
        body = rng.choice(["8;;" + url, "0;title", "8;id=1;" + url, ""])
        return ESC + "]" + body + term
    if k < 0.89:  # ESC sequences
        return ESC + rng.choice(["c", "7", "8", "(B", "#8", "\\", "=", " F", "%G", "M"])
    if k < 0.93:  # DCS / SOS / PM / APC strings
        intro = rng.choice(["P", "X", "^", "_", "P1;2|", "P$q"])
        body = rng.choice(["abc", "é", "✓x", "q\"p", ""])
        term = rng.choice([ESC + "\\", ESC + "\\", "", "\x18"])
        return ESC + intro + body + term
    if k < 0.97:  # truncated / broken sequences
        return rng.choice([ESC, ESC + "[", ESC + "[3", ESC + "[31;", ESC + "]8;;x", ESC + "[é", ESC + "[3é1m",
                           ESC + "[31" + ESC + "[32m", ESC + ESC, ESC + "[\x18", ESC + "[1\x01m", ESC + "[?"])
    return rng.choice(["\x9b31m".encode("latin1").decode("latin1"), "\u009b", "\u0085", "\u009c"])


def gen_line(rng):
    return "".join(gen_token(rng) for _ in range(rng.randint(0, 7)))


# candidates for ONE grapheme cluster wider than 2 columns (Hangul jamo sequences, emoji + modifiers / ZWJ sequences);
# what the implementation's tables say is read per case (`text.graphemes`) and counted: `ansi.truncate:cut-at-cluster-width=N`
WIDE_CLUSTERS = ["\u1100\uac00", "\u1100\u1100\u1161", "\u1100\uac00\u11a8", "\U0001f44d\U0001f3fd",
                 "\U0001f468\u200d\U0001f469\u200d\U0001f467", "\U0001f926\U0001f3fc\u200d\u2642\ufe0f", "\u2764\u200d\U0001f525",
                 "\u1100\u1100\uac00"]
_WIDE_AT = {}  # line -> number of one-column characters in front of its wide cluster


def gen_wide_line(rng):
    """`k` one-column characters (escape sequences in between), a wide cluster, a suffix: truncation to k .. k+2 (+ tail)
    columns cuts inside the wide cluster (the `width_of_grapheme > 2` arm of `truncate_str_impl`)."""
    k = rng.randint(0, 4)
    pre = [rng.choice("abxyz0-+") for _ in range(k)]
    out = []
    for ch in pre:
        if rng.random() < 0.3:
            out.append(ESC + "[" + gen_sgr(rng) + "m")
        out.append(ch)
    if rng.random() < 0.4:
        out.append(ESC + "[" + gen_sgr(rng) + "m")
    out.append(rng.choice(WIDE_CLUSTERS))
    if rng.random() < 0.4:
        out.append(ESC + "[m")
    out.append(rng.choice(["", "a", "bc", "日", " x", rng.choice(WIDE_CLUSTERS) + "z"]))
    if rng.random() < 0.3:
        out.append(ESC + "[0m")
    line = "".join(out)
    _WIDE_AT[line] = k
    return line


STYLE_POOL = ["00000000,n1,_", "00000000,n2,_", "10000000,n1,_", "00000000,f1,_", "00000000,f9,_",
              "00000000,_,_", "10000000,n5,_", "00010000,r1.2.3,f4", "00000100,n2,n0"]


def ok_bytes(resp):
    return unhx(resp[3:]) if resp.startswith("ok x") else None


def text_slices(elements_resp, sbytes):
    """Text slices of a string according to an `ansi.elements` answer."""
    out = []
    if not elements_resp.startswith("ok"):
        return out
    for e in elements_resp.split()[1:]:
        p = e.split(":")
        if p[0] == "T":
            out.append(sbytes[int(p[1]):int(p[2])])
    return out


def corr_basic(ctx, rep, hook, mdl):
    n = ctx.n(900, 20000)
    lines = [gen_line(ctx.rng) for _ in range(n)]
    # a few fixed regression inputs (defect #10 and relatives)
    lines[:6] = [ESC + "[!!maaaaaéaaaa" + ESC + "[0m", ESC + "[" + ";".join(["1"] * 33) + "mé" + ESC + "[m",
                 ESC + "[?1$pé" + ESC + "[m", ESC + "Pq" + "é" + ESC + "\\" + "x" + ESC + "[m",
                 ESC + "[31m0123" + ESC + "[m\n", ESC + "]8;;u" + ESC + "\x18x" + ESC + "[31m"]
    # lines with a cluster wider than 2 columns at a known column (truncated there by corr_widths)
    nw = min(ctx.n(80, 800), max(0, len(lines) - 6))
    lines[6:6 + nw] = [gen_wide_line(ctx.rng) for _ in range(nw)]
    reqs = []
    for s in lines:
        h = hx(s)
        reqs += [f"ansi.elements {h}", f"ansi.strip {h}", f"ansi.parse_style_sections {h}",
                 f"ansi.first_style {h}", f"ansi.starts_with_sgr {h}",
                 f"ansi.slice {h} {ctx.rng.randint(0, 6)}", f"ansi.index {h} {ctx.rng.randint(0, 8)}",
                 f"ansi.has_style_other_than {h} " + " ".join(ctx.rng.sample(STYLE_POOL, ctx.rng.randint(0, 3)))]
        reqs[-1] = reqs[-1].rstrip()
    impl = hook.ask(reqs)
    model = mdl.ask(reqs) if mdl else [None] * len(reqs)
    per = 8
    for k, s in enumerate(lines):
        ir, mr = impl[k * per:(k + 1) * per], model[k * per:(k + 1) * per]
        els = ir[0].split()[1:] if ir[0].startswith("ok") else []
        kinds = "".join(sorted({e[0] for e in els}))
        panicked = any(x.startswith("PANIC") for x in ir)
        rep.count("elements:kinds=" + kinds)
        if panicked:
            rep.count("impl-panics")
        rep.case(key=("line", s), nontrivial=len(kinds) >= 2,
                 sample=dict(op="ansi.elements", line=s, impl=ir[0]))
        for r, (i, m) in zip(reqs[k * per:(k + 1) * per], zip(ir, mr)):
            if m is None:
                continue
            op = r.split()[0]
            agree = (i == m) or (i.startswith("PANIC") and m.startswith("PANIC"))
            rep.corr_case(op, agree, dict(request=r, line=s, impl=i, model=m))
    oracle_partition(rep, hook, lines, [impl[k * per] for k in range(len(lines))])
    return lines, impl


IGNORED_CSI_RE = re.compile(r"\x1b\[[0-9;:<=>?]*[ -/]*[@-~]")


def is_partition(el, sb):
    if not el.startswith("ok"):
        return False
    pos = 0
    for e in el.split()[1:]:
        p = e.split(":")
        a, b = int(p[1]), int(p[2])
        if a != pos or b < a or b > len(sb) or (b < len(sb) and 0x80 <= sb[b] < 0xC0):
            return False
        pos = b
    return pos == len(sb)


def drop_ignored_csi(s):
    """Replace the CSI sequences the parser ignores (more than one intermediate - a private marker
    counts as one - or more than 32 parameters) by a plain CSI sequence."""
    def f(m):
        t = m.group(0)[2:-1]
        params = t.rstrip(" !\"#$%&'()*+,-./")
        inter = len(t) - len(params) + (1 if params[:1] in "<=>?" and params else 0)
        nsep = params.count(";") + params.count(":")
        return "\x1b[0K" if inter > 1 or nsep >= 32 else m.group(0)
    return IGNORED_CSI_RE.sub(f, s)


def oracle_partition(rep, hook, lines, els):
    """`vte_partition` on the implementation, for arbitrary lines: element ranges must be contiguous
    from 0 to the length on char boundaries. Known to fail (defect #10 and relatives)."""
    bad = [(s, e) for s, e in zip(lines, els) if not is_partition(e, s.encode())]
    reduced = [drop_ignored_csi(s) for s, _ in bad]
    again = hook.ask([f"ansi.elements {hx(r)}" for r in reduced]) if bad else []
    for (s, e), r, e2 in zip(bad, reduced, again):
        if r != s and is_partition(e2, r.encode()):
            sig = "vte-partition:ignored-csi"
        else:
            sig = "vte-partition:aborted-or-unterminated-sequence"
        rep.count(sig)
        report(rep, sig, "the element iterator's ranges are not a partition of the line (bytes of an escape "
                      "sequence dropped from its bookkeeping)", dict(kind="hook", op="ansi.elements", line=s, got=e))


def cut_cluster_width(c, wtab, gtab):
    """Width of the first cluster that does not fit (None: the line fits / data missing), as `truncate_str_impl` walks."""
    total = wtab.get(c["strip"]) if c["strip"] is not None else None
    if total is None or total <= c["dw"]:
        return None
    used = 0
    for t in text_slices(c["rt_el"], c["rt"] or b""):
        if t not in wtab:
            return None
        used += wtab[t]
    for t in text_slices(c["el"], c["sb"]):
        if t not in gtab:
            return None
        for _, wd in gtab[t]:
            if used + wd > c["dw"]:
                return wd
            used += wd
    return None


def corr_widths(ctx, rep, hook, mdl, lines, impl):
    """measure / truncate: the Unicode data the model needs is fetched from the implementation."""
    per = 8
    cases = []
    for k, s in enumerate(lines[:ctx.n(500, 8000)]):
        sb = s.encode()
        el = impl[k * per]
        if any(x.startswith("PANIC") for x in impl[k * per:k * per + 2]):
            continue
        tail = ctx.rng.choice(["", "", "→", "…", "日", ESC + "[7m>" + ESC + "[m", "ab"])
        dw = ctx.rng.randint(0, 7)
        fill = ctx.rng.randint(0, 1)
        if s in _WIDE_AT and ctx.rng.random() < 0.85:  # cut inside the wide cluster
            tail = ctx.rng.choice(["", "", "→", ESC + "[7m>" + ESC + "[m"])
            dw = _WIDE_AT[s] + (1 if tail else 0) + ctx.rng.randint(0, 2)
            fill = 0 if ctx.rng.random() < 0.2 else 1
        cases.append(dict(s=s, sb=sb, el=el, tail=tail, dw=dw, fill=fill, strip=ok_bytes(impl[k * per + 1])))
    # stage A: tail elements/strip, truncation of the tail
    reqs = []
    for c in cases:
        t = hx(c["tail"])
        reqs += [f"ansi.elements {t}", f"ansi.strip {t}", f"ansi.truncate {t} {c['dw']} x {c['fill']}"]
    a = hook.ask(reqs)
    reqs = []
    for k, c in enumerate(cases):
        c["tail_el"], c["tail_strip"], c["rt"] = a[3 * k], ok_bytes(a[3 * k + 1]), ok_bytes(a[3 * k + 2])
        reqs.append("ansi.elements " + hx(c["rt"] if c["rt"] is not None else b""))
    b = hook.ask(reqs)
    # stage B: graphemes of every text slice of s and tail
    greqs, gidx = [], {}
    for k, c in enumerate(cases):
        c["rt_el"] = b[k]
        c["texts"] = text_slices(c["el"], c["sb"]) + text_slices(c["tail_el"], c["tail"].encode())
        for t in c["texts"]:
            if t not in gidx:
                try:
                    t.decode()
                except UnicodeDecodeError:
                    continue
                gidx[t] = len(greqs)
                greqs.append("text.graphemes " + hx(t))
    g = hook.ask(greqs)
    gtab = {}
    for t, i in gidx.items():
        if g[i].startswith("ok"):
            gtab[t] = [(unhx(x.split(":")[0]), int(x.split(":")[1])) for x in g[i].split()[1:]]
    # stage C: widths of whole strings
    wreqs, widx = [], {}
    for c in cases:
        c["wkeys"] = set(text_slices(c["el"], c["sb"]))
        c["wkeys"] |= set(text_slices(c["rt_el"], c["rt"] or b""))
        for x in (c["strip"], c["tail_strip"]):
            if x is not None:
                c["wkeys"].add(x)
        for t in c["wkeys"]:
            if t not in widx:
                try:
                    t.decode()
                except UnicodeDecodeError:
                    continue
                widx[t] = len(wreqs)
                wreqs.append("ansi.width " + hx(t))
    w = hook.ask(wreqs)
    wtab = {t: int(w[i].split()[1]) for t, i in widx.items() if w[i].startswith("ok ")}
    reqs = []
    for c in cases:
        wt = dict((t, wtab[t]) for t in c["wkeys"] if t in wtab)
        gt = {}
        for t in c["texts"]:
            if t in gtab:
                gt[t] = [x for x, _ in gtab[t]]
                for x, wd in gtab[t]:
                    wt[x] = wd
        wf = f"{len(wt)} " + " ".join(f"{hx(t)} {n}" for t, n in sorted(wt.items()))
        gf = f"{len(gt)} " + " ".join(f"{hx(t)} {len(gs)} " + " ".join(hx(x) for x in gs) for t, gs in sorted(gt.items()))
        cw = cut_cluster_width(c, wtab, gtab)
        if cw is not None:
            rep.count("ansi.truncate:cut-at-cluster-width=%s" % (cw if cw < 5 else "5+"))
            if cw > 2:
                rep.count("ansi.truncate:wide-cluster-at-cut:fill=%d" % c["fill"])
        reqs.append((f"ansi.measure {hx(c['s'])}", wf.strip()))
        reqs.append((f"ansi.truncate {hx(c['s'])} {c['dw']} {hx(c['tail'])} {c['fill']}", (wf.strip() + " " + gf.strip()).strip()))
    impl2 = hook.ask([r for r, _ in reqs])
    model2 = mdl.ask([(r + " " + t).strip() for r, t in reqs]) if mdl else [None] * len(reqs)
    for (r, _), i, m, c in zip(reqs, impl2, model2, [c for c in cases for _ in (0, 1)]):
        op = r.split()[0]
        rep.case(key=(op, c["s"], c["dw"], c["tail"], c["fill"]), nontrivial=ESC in c["s"],
                 sample=dict(op=op, line=c["s"], width=c["dw"], tail=c["tail"], impl=i))
        if i.startswith("PANIC"):
            rep.count(op + ":impl-panic")
        if m is not None:
            agree = (i == m) or (i.startswith("PANIC") and m.startswith("PANIC"))
            rep.corr_case(op, agree, dict(request=r, line=c["s"], impl=i, model=m))


def corr_sgr(ctx, rep, hook, mdl):
    """SGR parameter text -> style (impl vs model), rendition (oracle decoder vs model), re-emission."""
    ps = []
    for n in range(0, 120):
        ps.append(str(n))
    for _ in range(ctx.n(600, 20000)):
        k = ctx.rng.randint(1, 4)
        ps.append(";".join(gen_sgr(ctx.rng) for _ in range(k)))
    ps = [p for p in ps if p.count(";") + p.count(":") < 40]
    reqs = [f"ansi.sgr_to_style {hx(p)}" for p in ps]
    impl = hook.ask(reqs)
    model = mdl.ask(reqs) if mdl else [None] * len(reqs)
    rend = mdl.ask([f"ansi.round_trip {hx(p)}" for p in ps]) if mdl else [None] * len(ps)
    paint_reqs = []
    for p, i, m, rt in zip(ps, impl, model, rend):
        rep.case(key=("sgr", p), nontrivial=";" in p or ":" in p, sample=dict(op="ansi.sgr_to_style", params=p, impl=i))
        if m is not None:
            rep.corr_case("ansi.sgr_to_style", i == m, dict(params=p, impl=i, model=m))
        if rt is not None and rt.startswith("ok ") and rt != "ok none":
            # the model's terminal semantics against the oracle's decoder
            want = apply_sgr(Rend(), parse_params(p)).enc()
            rep.corr_case("ansi.rendition(decoder)", rt.split()[2] == want, dict(params=p, model=rt, decoder=want))
        if i.startswith("ok ") and i != "ok none":
            paint_reqs.append((p, i.split()[1]))
    # re-emission: ansi_term's paint against the model's emit, and the decoded rendition of the emitted prefix
    reqs = [f"ansi.paint {st} {hx('t')}" for _, st in paint_reqs]
    impl = hook.ask(reqs)
    model = mdl.ask(reqs) if mdl else [None] * len(reqs)
    for (p, st), i, m in zip(paint_reqs, impl, model):
        if m is not None:
            rep.corr_case("ansi.paint", i == m, dict(params=p, style=st, impl=i, model=m))
    return paint_reqs, impl


# ------------------------------------------------------------------ supported SGR items (as in the theorem)

def gen_supported_item(rng):
    k = rng.random()
    if k < 0.3:
        return str(rng.choice([1, 2, 3, 4, 5, 7, 8, 9]))
    if k < 0.45:
        return str(rng.choice([30, 40, 90, 100]) + rng.randint(0, 7))
    if k < 0.65:
        return f"{rng.choice([38, 48])};5;{rng.randint(0, 255)}"
    if k < 0.85:
        return f"{rng.choice([38, 48])};2;{rng.randint(0, 255)};{rng.randint(0, 255)};{rng.randint(0, 255)}"
    if k < 0.93:
        return f"{rng.choice([38, 48])}:2:{rng.randint(0, 255)}:{rng.randint(0, 255)}:{rng.randint(0, 255)}"
    return f"{rng.choice([38, 48])}:5:{rng.randint(0, 255)}"


def oracle_round_trip(ctx, rep, hook):
    """Direct oracle on the implementation for `moved_colours_round_trip`: parse a supported SGR
    sequence with delta, re-emit with ansi_term, decode both with the independent interpreter."""
    ps = [str(n) for n in list(range(1, 10)) + list(range(30, 38)) + list(range(40, 48)) + list(range(90, 98)) + list(range(100, 108))]
    ps += [f"38;5;{n}" for n in range(256)] + [f"48;5;{n}" for n in range(256)]
    for _ in range(ctx.n(400, 6000)):
        ps.append(";".join(gen_supported_item(ctx.rng) for _ in range(ctx.rng.randint(1, 4))))
    sty = hook.ask([f"ansi.sgr_to_style {hx(p)}" for p in ps])
    reqs = [f"ansi.paint {s.split()[1]} {hx('t')}" if s.startswith("ok ") and s != "ok none" else "ansi.paint bad x" for s in sty]
    out = hook.ask(reqs)
    for p, s, o in zip(ps, sty, out):
        want = apply_sgr(Rend(), parse_params(p))
        got = None
        b = ok_bytes(o)
        if b is not None:
            cells = decode_cells(b)
            got = cells[0][1] if cells else None
        rep.case(key=("rt", p), nontrivial=True, sample=dict(op="round-trip", params=p, style=s, painted=o))
        rep.count("round-trip:items=%d" % (p.count(";") + 1 if "38" not in p and "48" not in p else 0))
        if got != want.key():
            report(rep, "sgr-round-trip:" + re.sub(r"\d+", "N", p)[:30],
                          "a supported SGR sequence is not re-emitted with the same rendition",
                          dict(kind="round-trip", params=p, style=s, painted=o, want=want.enc()))


# ------------------------------------------------------------------ hook-level oracle on git colouring

def gen_plain_text(rng):
    return "".join(rng.choice(["a", "bc", " ", "é", "日本", "🙂", "\t", "x=1;", "[m", "-", "+", "0"]) for _ in range(rng.randint(0, 8)))


GIT_SGR = ["", "0", "1", "31", "32", "1;31", "1;32", "36", "33", "1;35", "1;36", "7", "2", "7;31", "38;5;9", "1;38;2;1;2;3"]


def colour_randomly(rng, text):
    """Insert git-style SGR sequences between characters."""
    out = []
    for ch in text:
        if rng.random() < 0.3:
            out.append(ESC + "[" + rng.choice(GIT_SGR) + "m")
        out.append(ch)
    if rng.random() < 0.6:
        out.append(ESC + "[m")
    return "".join(out)


def oracle_strip(ctx, rep, hook):
    n = ctx.n(500, 10000)
    cases = []
    for _ in range(n):
        plain = gen_plain_text(ctx.rng)
        cases.append((plain, colour_randomly(ctx.rng, plain)))
    reqs = []
    for plain, col in cases:
        reqs += [f"ansi.strip {hx(col)}", f"ansi.measure {hx(col)}", f"ansi.measure {hx(plain)}", f"ansi.elements {hx(col)}"]
    r = hook.ask(reqs)
    for k, (plain, col) in enumerate(cases):
        s, mc, mp, el = r[4 * k:4 * k + 4]
        rep.case(key=("strip", col), nontrivial=ESC in col, sample=dict(op="strip(git colouring)", plain=plain, coloured=col, impl=s))
        if ok_bytes(s) != plain.encode():
            report(rep, "strip-git-colouring", "strip(coloured) differs from the plain line",
                          dict(kind="hook", op="ansi.strip", coloured=col, plain=plain, got=s))
        if mc != mp:
            # width is not additive over clusters split by a colour boundary only for ligatures; none in this alphabet
            report(rep, "measure-git-colouring", "measure(coloured) differs from measure(plain)",
                          dict(kind="hook", op="ansi.measure", coloured=col, plain=plain, got=mc, want=mp))
        # partition: contiguous, from 0 to len, on char boundaries
        cb = col.encode()
        pos, ok = 0, el.startswith("ok")
        for e in el.split()[1:]:
            p = e.split(":")
            a, b = int(p[1]), int(p[2])
            if a != pos or b < a or b > len(cb) or (b < len(cb) and 0x80 <= cb[b] < 0xC0):
                ok = False
            pos = b
        if not ok or pos != len(cb):
            report(rep, "partition-git-colouring", "element ranges of a git-coloured line are not a partition",
                          dict(kind="hook", op="ansi.elements", coloured=col, got=el))


# ------------------------------------------------------------------ binary level

WORDS = ["foo", "bar", "x=1;", "return", "日本語", "é", "🙂", "a_b", "(1)", "[m", "0", "let", "if",
         "ｗｉｄｅ", "tab\there", "--", "++", "@@", "end."]


def gen_body(rng, long=False):
    n = rng.randint(0, 6) if not long else rng.randint(10, 18)
    ws = [rng.choice(WORDS) for _ in range(n)]
    body = " ".join(ws)
    if rng.random() < 0.15:
        body += rng.choice([" ", "  ", "\t"])  # trailing whitespace (git marks it on added lines)
    return body


def gen_diff(rng, long_lines=False, commit=None):
    """A small git diff as a list of (kind, text): kind in commit/meta/hunk/' '/'-'/'+'/other."""
    rows = []
    if commit if commit is not None else rng.random() < 0.4:
        h = "".join(rng.choice("0123456789abcdef") for _ in range(40))
        rows += [("commit", "commit " + h), ("other", "Author: A U Thor <a@example.com>"),
                 ("other", "Date:   Thu Jan 1 00:00:00 1970 +0000"), ("other", ""),
                 ("other", "    " + gen_body(rng)), ("other", "")]
    for _ in range(rng.randint(1, 3)):
        name = rng.choice(["src/a.rs", "b.txt", "dir/c.py", "d e.md", "é.txt", "Makefile"])
        rows += [("meta", f"diff --git a/{name} b/{name}"), ("meta", "index 1111111..2222222 100644"),
                 ("meta", f"--- a/{name}"), ("meta", f"+++ b/{name}")]
        line = rng.randint(1, 90)
        for _ in range(rng.randint(1, 3)):
            body = []
            for _ in range(rng.randint(1, 4)):
                k = rng.random()
                if k < 0.3:
                    body += [(" ", gen_body(rng, long_lines and rng.random() < 0.3))]
                elif k < 0.6:
                    body += [("-", gen_body(rng, long_lines and rng.random() < 0.5)) for _ in range(rng.randint(1, 3))]
                    body += [("+", gen_body(rng, long_lines and rng.random() < 0.5)) for _ in range(rng.randint(0, 3))]
                elif k < 0.8:
                    body += [("+", gen_body(rng, long_lines and rng.random() < 0.5)) for _ in range(rng.randint(1, 3))]
                else:
                    body += [("-", gen_body(rng)) for _ in range(rng.randint(1, 2))]
            nm = sum(1 for k, _ in body if k in " -")
            npl = sum(1 for k, _ in body if k in " +")
            ctxt = rng.choice(["", "", " fn main() {", " class A:"]) if not long_lines else ""
            rows.append(("hunk", f"@@ -{line},{nm} +{line},{npl} @@{ctxt}"))
            rows += body
            line += nm + rng.randint(1, 30)
    return rows


def sgr(p):
    return ESC + "[" + p + "m"


def colour_rows(rows, scheme, rng, cols=("31", "32")):
    """git-style colourings with git's default palette (`cols` = the SGR parameters of removed / added
    lines: git's built-in 31 / 32, or what git emits for a configured color.diff.old / new). `scheme`:
    per-line | per-marker | per-word | reset0 | ws-error. Context lines are never coloured
    (color.diff.context = normal)."""
    reset = sgr("0") if scheme == "reset0" else sgr("")
    out = []
    for kind, text in rows:
        if kind == "meta":
            out.append(sgr("1") + text + reset)
        elif kind == "commit":
            out.append(sgr("33") + text + reset)
        elif kind == "hunk":
            i = text.index(" @@") + 3
            out.append(sgr("36") + text[:i] + reset + text[i:])
        elif kind in ("-", "+"):
            col = cols[0] if kind == "-" else cols[1]
            if scheme == "per-line" or scheme == "reset0":
                out.append(sgr(col) + kind + text + reset)
            elif scheme == "per-marker":
                out.append(sgr(col) + kind + reset + (sgr(col) + text + reset if text else ""))
            elif scheme == "ws-error":
                core = text.rstrip(" \t")
                ws = text[len(core):]
                line = sgr(col) + kind + reset + (sgr(col) + core + reset if core else "")
                if ws and kind == "+":
                    line += sgr("41") + ws + reset
                else:
                    line += ws
                out.append(line)
            else:  # per-word: every word coloured separately, resets in between, some doubled
                parts = re.split(r"( +)", text)
                line = sgr(col) + kind + reset
                for w in parts:
                    if w.strip():
                        line += sgr(col) + w + reset + (reset if rng.random() < 0.2 else "")
                    else:
                        line += w
                out.append(line)
        elif kind == " ":
            out.append(" " + text)
        else:
            out.append(text)
    return out


SCHEMES = ["per-line", "per-marker", "per-word", "reset0", "ws-error"]
MODES = [[], ["--side-by-side", "--width", "100"], ["--line-numbers"], ["--color-only"], ["--diff-so-fancy"],
         ["--diff-highlight"], ["--keep-plus-minus-markers"],
         ["--side-by-side", "--line-numbers", "--width", "64", "--wrap-max-lines", "3"],
         ["--hunk-header-style", "omit", "--file-style", "omit"], ["--navigate", "--line-numbers"],
         ["--word-diff-regex", "."], ["--max-line-distance", "1.0", "--minus-emph-style", "reverse red"]]
RAW_MODES = [["--file-style", "raw", "--file-decoration-style", "none", "--hunk-header-style", "raw",
              "--hunk-header-decoration-style", "none", "--commit-style", "raw"],
             ["--minus-style", "raw", "--plus-style", "raw"],
             ["--minus-style", "raw", "--plus-style", "raw", "--inspect-raw-lines", "false"],
             ["--minus-style", "raw", "--plus-style", "raw", "--zero-style", "raw", "--inspect-raw-lines", "true"],
             ["--minus-style", "raw", "--plus-style", "raw", "--zero-style", "raw", "--inspect-raw-lines", "false",
              "--side-by-side", "--width", "120"],
             # one side only: each caller of maybe_raw_line passes the is_raw of its own style
             ["--minus-style", "raw", "--inspect-raw-lines", "false"], ["--plus-style", "raw", "--inspect-raw-lines", "false"],
             ["--minus-style", "raw"], ["--plus-style", "raw", "--line-numbers"]]
TRUNC_MODE = ["--max-line-length", "50"]


def enc_lines(lines):
    return ("\n".join(lines) + "\n").encode()


def strip_py(b):
    """Independent stripping of CSI / OSC sequences (oracle side)."""
    return OSC_RE.sub(b"", CSI_RE.sub(b"", b))


# ---- gitconfigs that customise git's own colours (color.diff.old / color.diff.new)
#
# (value as written in the gitconfig, SGR parameters git emits for it: attributes in numeric order, then
# foreground, then background - git's color.c, the same table as delta's GIT_STYLE_STRING_EXAMPLES)
GIT_COLOURS = [("red bold", "1;31"), ("green bold", "1;32"), ("bold red", "1;31"), ("magenta", "35"), ("brightred", "91"),
               ("brightgreen", "92"), ("yellow", "33"), ("red reverse", "7;31"), ("ul green", "4;32"), ("214", "38;5;214"),
               ("#ff8000", "38;2;255;128;0"), ("red black", "31;40"), ("green #002800", "32;48;2;0;40;0"), ("bold 1", "1;31"),
               ("1", "31"), ("green", "32"), ("dim green", "2;32"), ("italic cyan", "3;36"), ("red strike", "9;31"),
               ("bold #aabbcc ul 19 strike", "1;4;9;38;2;170;187;204;48;5;19"), ("blue", "34"), ("green red", "32;41")]
GIT_SGR_OF = dict(GIT_COLOURS)
GIT_SOURCES = ["file", "file", "repo", "home"]
_CFG_LOCK = threading.Lock()


def write_once(path, text):
    """Atomic, idempotent (cases run concurrently, and several checks may run at once)."""
    if not os.path.exists(path):
        os.makedirs(os.path.dirname(path), exist_ok=True)
        tmp = f"{path}.{os.getpid()}.{threading.get_ident()}.tmp"
        with open(tmp, "w", encoding="utf-8") as f:
            f.write(text)
        os.replace(tmp, path)
    return path


def git_colours_invocation(git):
    """`git` = dict(old=<git colour string>|None, new=…|None, source=file|env|home) -> (args, env, cwd):
    how delta gets to see that configuration. file: `--config FILE`; repo: the .git/config of the repository
    delta is started in; home: ~/.gitconfig, delta started outside any repository. (GIT_CONFIG_PARAMETERS, i.e.
    `git -c color.diff.old=…`, is not a source: delta reads only `delta.*` keys from it.)"""
    if not git:
        return ["--no-gitconfig"], {}, None
    items = [(k, git.get(k)) for k in ("old", "new") if git.get(k)]
    text = '[color "diff"]\n' + "".join('\t%s = "%s"\n' % (k, v.replace('"', '\\"')) for k, v in items)
    base = os.path.join("/tmp", "verif-c08-gitcfg")
    src = git.get("source", "file")
    if src == "repo":   # the repository's own .git/config, delta started inside the work tree, nothing in ~
        root = os.path.join(base, "repo-" + sha(text)[:12])
        for d in ("objects", "refs/heads"):
            os.makedirs(os.path.join(root, ".git", d), exist_ok=True)
        write_once(os.path.join(root, ".git", "HEAD"), "ref: refs/heads/main\n")
        write_once(os.path.join(root, ".git", "config"), "[core]\n\trepositoryformatversion = 0\n\tbare = false\n" + text)
        os.makedirs(os.path.join(root, "sub"), exist_ok=True)
        return [], {"HOME": os.path.join(base, "nohome"), "XDG_CONFIG_HOME": os.path.join(base, "nohome", ".config")}, os.path.join(root, "sub")
    if src == "home":
        home = os.path.join(base, "home-" + sha(text)[:12])
        write_once(os.path.join(home, ".gitconfig"), text)
        return [], {"HOME": home, "XDG_CONFIG_HOME": os.path.join(home, ".config")}, home
    return ["--config", write_once(os.path.join(base, sha(text)[:12] + ".gitconfig"), text)], {}, None


def git_tag(git):
    return "" if not git else "old=%s,new=%s,%s" % (git.get("old"), git.get("new"), git.get("source", "file"))


def run_pair(ctx, args, plain, coloured, git=None):
    cfg, env, cwd = git_colours_invocation(git)
    a = ctx.run_delta(cfg + args, enc_lines(plain), env=env, cwd=cwd)
    b = ctx.run_delta(cfg + args, enc_lines(coloured), env=env, cwd=cwd)
    return a, b


def first_diff_row(a, b, raw_ok=None):
    la, lb = a.split(b"\n"), b.split(b"\n")
    for i in range(max(len(la), len(lb))):
        x = la[i] if i < len(la) else None
        y = lb[i] if i < len(lb) else None
        if x != y:
            if raw_ok and x in raw_ok and y == raw_ok[x]:
                continue
            return i, x, y
    return None


_RAW_CACHE = {}


def raw_kinds_of_mode(ctx, mode):
    """Which header elements are raw-styled in this mode (asked from delta itself: --show-config)."""
    key = tuple(mode)
    if key not in _RAW_CACHE:
        rc, out, _ = ctx.run_delta(["--no-gitconfig"] + list(mode) + ["--show-config"], b"")
        txt = CSI_RE.sub(b"", out).decode("utf-8", "replace")
        kinds = set()
        for opt, kind in (("commit-style", "commit"), ("file-style", "meta"), ("hunk-header-style", "hunk")):
            m = re.search(r"^\s*%s\s*=\s*(.*)$" % re.escape(opt), txt, re.M)
            if m and m.group(1).strip().split()[:1] == ["raw"]:
                kinds.add(kind)
        _RAW_CACHE[key] = kinds
    return _RAW_CACHE[key]


def binary_case_default(ctx, rep, case):
    """stdout(coloured) == stdout(plain) in a non-raw mode. `case`: rows, scheme, mode, colour seed; with
    `git` (a gitconfig that sets color.diff.old / new, see git_colours_invocation) both runs see that
    configuration and `input` says whether the diff is coloured with git's built-in red/green ("default":
    it was produced where that configuration was not in force) or with the configured colours ("configured":
    what git emits when delta is its pager) - either is git's plain removed/added colouring and is ignored."""
    import random
    rows = [tuple(r) for r in case["rows"]]
    plain = [k + t if k in (" ", "-", "+") else t for k, t in rows]
    git = case.get("git")
    cols = ("31", "32")
    if git and case.get("input") == "configured":
        cols = (GIT_SGR_OF[git["old"]] if git.get("old") else "31", GIT_SGR_OF[git["new"]] if git.get("new") else "32")
    coloured = colour_rows(rows, case["scheme"], random.Random(case["cseed"]), cols)
    (rc1, o1, e1), (rc2, o2, e2) = run_pair(ctx, case["mode"], plain, coloured, git)
    n_esc = sum(c.count(ESC) for c, (k, _) in zip(coloured, rows) if k in ("-", "+"))
    rep.case(key=("bin", case["scheme"], tuple(case["mode"]), sha(repr(rows))[:12], git_tag(git), case.get("input")), nontrivial=n_esc > 0,
             sample=dict(op="binary coloured-vs-plain", scheme=case["scheme"], mode=case["mode"], first_lines=coloured[:8],
                         **({"git": git, "input": case.get("input")} if git else {})))
    rep.count("binary:scheme=" + case["scheme"])
    rep.count("binary:mode=" + " ".join(case["mode"])[:40])
    if git:
        rep.count("binary:color.diff-configured:%s:input=%s" % (git.get("source", "file"), case.get("input")))
    if rc1 != 0 or rc2 != 0 or rc1 != rc2:
        report(rep, "binary:exit-status", f"delta exit status {rc1}/{rc2} on plain/coloured input",
                      dict(kind="binary", sub="default", stderr=(e1 + e2)[-400:].decode("utf-8", "replace"), case=case))
        return
    # rows of raw-styled elements keep the input colouring by design: with the default
    # `commit-style = raw` that is the commit line, which must then appear exactly as it came in
    raw_kinds = raw_kinds_of_mode(ctx, case["mode"])
    raw_ok = {enc_lines([p])[:-1]: enc_lines([c])[:-1] for p, c, (k, _) in zip(plain, coloured, rows) if k in raw_kinds}
    d = first_diff_row(o1, o2, raw_ok)
    if d is not None:
        sig = "coloured-vs-plain:" + case["scheme"]
        if git:   # the input class: which colours the diff carries while color.diff.old/new are configured
            sig = "coloured-vs-plain:color.diff-configured:%s-colours" % case.get("input")
        if "--max-line-length" in case["mode"] and d and d[1] is not None and d[2] is not None:
            tp, tc = strip_py(d[1]).decode("utf-8", "replace"), strip_py(d[2]).decode("utf-8", "replace")
            if "→" in tp and "→" in tc and len(tc.rstrip()) > len(tp.rstrip()):
                sig = "truncate:text-after-cut"
        report(rep, sig, "output for git-coloured input differs from output for the uncoloured input",
                      dict(kind="binary", sub="default", row=d[0] if d else None,
                           plain_row=repr(d[1]) if d else None, coloured_row=repr(d[2]) if d else None, case=case))


def binary_case_raw(ctx, rep, case):
    """Raw-styled elements keep the input colouring; everything else is unchanged."""
    import random
    rows = [tuple(r) for r in case["rows"]]
    plain = [k + t if k in (" ", "-", "+") else t for k, t in rows]
    coloured = colour_rows(rows, case["scheme"], random.Random(case["cseed"]))
    (rc1, o1, e1), (rc2, o2, e2) = run_pair(ctx, case["mode"], plain, coloured)
    rep.case(key=("raw", case["scheme"], tuple(case["mode"]), sha(repr(rows))[:12]), nontrivial=True,
             sample=dict(op="binary raw styles", scheme=case["scheme"], mode=case["mode"]))
    rep.count("binary:raw-mode")
    if rc1 != 0 or rc2 != 0:
        report(rep, "binary:exit-status", f"delta exit status {rc1}/{rc2}",
                      dict(kind="binary", sub="raw", case=case))
        return
    if "--file-style" in case["mode"]:
        # header elements are raw: same text, and every coloured header line appears verbatim
        if strip_py(o1) != strip_py(o2):
            report(rep, "raw-headers:text-differs", "raw header styles: visible text differs between coloured and plain input",
                          dict(kind="binary", sub="raw", case=case))
        out_lines = set(o2.split(b"\n"))
        for (k, _), c in zip(rows, coloured):
            if k in ("meta", "commit", "hunk") and c.encode() not in out_lines:
                report(rep, "raw-headers:colouring-lost", "a raw-styled header line did not keep its input colouring",
                              dict(kind="binary", sub="raw", line=c, case=case))
                break
    else:
        # minus/plus raw: the coloured run shows the input colours on those lines
        if strip_py(o1) != strip_py(o2):
            report(rep, "raw-lines:text-differs", "raw minus/plus styles: visible text differs between coloured and plain input",
                          dict(kind="binary", sub="raw", case=case))
            return
        want = {"-": ("p", 1), "+": ("p", 2)}
        raw_sides = [k for k, o in (("-", "--minus-style"), ("+", "--plus-style")) if o in case["mode"]]
        decoded = [decode_cells(l) for l in o2.split(b"\n")]
        for k, t in rows:
            if k in raw_sides and len(t.strip()) >= 3 and "\t" not in t:
                word = t.split()[0]
                hit = False
                for cells in decoded:
                    txt = "".join(c for c, _ in cells)
                    j = txt.find(word)
                    while j >= 0 and not hit:       # every occurrence in the row (side-by-side: both panels)
                        hit = any(r[1] == want[k] for _, r in cells[j:j + len(word)])
                        j = txt.find(word, j + 1)
                    if hit:
                        break
                if not hit:
                    report(rep, "raw-lines:colouring-lost", "a raw-styled changed line did not keep its input colour",
                                  dict(kind="binary", sub="raw", line=k + t, case=case))
                    break


MOVED_MODES = [[], ["--side-by-side", "--width", "120"], ["--line-numbers"], ["--keep-plus-minus-markers"],
               ["--inspect-raw-lines", "true"],
               # a raw style keeps the input colours whatever --inspect-raw-lines says
               ["--minus-style", "raw", "--plus-style", "raw", "--inspect-raw-lines", "false"],
               ["--minus-style", "raw", "--plus-style", "raw", "--zero-style", "raw"]]
# replacement colours that are exact entries of the 256-colour cube (52 = #5f0000, 22 = #005f00), so the
# expected rendition is known at both colour depths without re-implementing the quantisation
MAP = "bold purple => red \"#5f0000\", bold cyan => blue \"#005f00\""


def binary_case_moved(ctx, rep, case):
    """A +/- line coloured with rendition R (not git's plain red/green) is shown with exactly R."""
    params, kind, form, mode = case["params"], case["kind"], case["form"], case["mode"]
    word = "mv" + sha(params + kind)[:6] + "q"
    body = word + " tail"
    if form == "per-line":
        ml = sgr(params) + kind + body + sgr("")
    else:
        ml = sgr(params) + kind + sgr("") + sgr(params) + body + sgr("")
    other = "+" if kind == "-" else "-"
    lines = ["diff --git a/m.txt b/m.txt", "index 1..2 100644", "--- a/m.txt", "+++ b/m.txt", "@@ -1,3 +1,3 @@",
             " ctx", ml, sgr("31" if other == "-" else "32") + other + "unrelated" + sgr(""), " ctx2"]
    if case.get("mapkey"):
        mapping = f"{case['mapkey']} => {case['mapval']}"
    else:
        mapping = MAP
    git = case.get("git")
    if git:   # the unrelated line carries the colour git gives it under that configuration
        oc = (GIT_SGR_OF[git["old"]] if git.get("old") else "31") if other == "-" else (GIT_SGR_OF[git["new"]] if git.get("new") else "32")
        lines[7] = sgr(oc if case.get("input") == "configured" else ("31" if other == "-" else "32")) + other + "unrelated" + sgr("")
    cfg, env, cwd = git_colours_invocation(git)
    args = cfg + mode + (["--map-styles", mapping, "--true-color", case.get("depth", "always")] if case.get("map") else [])
    rc, out, err = ctx.run_delta(args, enc_lines(lines), env=env, cwd=cwd)
    want = apply_sgr(Rend(), parse_params(params))
    if case.get("map"):
        # the two mapped styles (equality key: bold + magenta/cyan, named or palette 5/6)
        deep = case.get("depth", "always") == "always"
        if case.get("mapkey"):
            if case.get("hit", True):
                want = Rend()
                if case["mapval"] == "bold yellow":
                    want.a[0] = True; want.fg = ("p", 3)
                else:   # blue "#005f00"
                    want.fg = ("p", 4); want.bg = ("r", 0, 0x5f, 0) if deep else ("p", 22)
        elif want.key() == ((True,) + (False,) * 7, ("p", 5), None):
            want = Rend(); want.fg = ("p", 1); want.bg = ("r", 0x5f, 0, 0) if deep else ("p", 52)
        elif want.key() == ((True,) + (False,) * 7, ("p", 6), None):
            want = Rend(); want.fg = ("p", 4); want.bg = ("r", 0, 0x5f, 0) if deep else ("p", 22)
    rep.case(key=("moved", params, kind, form, tuple(mode), bool(case.get("map")), git_tag(git)), nontrivial=True,
             sample=dict(op="binary moved-line colours", params=params, line=ml, mode=mode))
    rep.count("binary:moved")
    if rc != 0:
        report(rep, "binary:exit-status", f"delta exit status {rc}", dict(kind="binary", sub="moved", case=case))
        return
    got = None
    for l in out.split(b"\n"):
        cells = decode_cells(l)
        txt = "".join(c for c, _ in cells)
        j = txt.find(word)
        if j >= 0:
            got = {r for _, r in cells[j:j + len(body)]}
            break
    if git:
        rep.count("binary:moved:color.diff-configured")
    if got != {want.key()}:
        report(rep, "moved-colours:" + ("color.diff-configured" if git else ("mapped:" + case.get("depth", "always")) if case.get("map") else re.sub(r"\d+", "N", params)[:24]),
                      "a moved-line colour is not shown with exactly the input rendition",
                      dict(kind="binary", sub="moved", want=want.enc(), got=repr(got), case=case))


def binary_case_moved_off(ctx, rep, case):
    """`--inspect-raw-lines=false` (and no raw style): moved-line colours are ignored like git's
    default ones - the output is that of the uncoloured input."""
    params, kind, mode = case["params"], case["kind"], case["mode"]
    other = "+" if kind == "-" else "-"
    def lines(col):
        ml = (sgr(params) + kind + "moved text" + sgr("")) if col else kind + "moved text"
        ol = (sgr("31" if other == "-" else "32") + other + "unrelated" + sgr("")) if col else other + "unrelated"
        return ["diff --git a/m.txt b/m.txt", "index 1..2 100644", "--- a/m.txt", "+++ b/m.txt", "@@ -1,3 +1,3 @@", " ctx", ml, ol, " ctx2"]
    args = ["--inspect-raw-lines", "false"] + mode
    (rc1, o1, e1), (rc2, o2, e2) = run_pair(ctx, args, lines(False), lines(True))
    rep.case(key=("moved-off", params, kind, tuple(mode)), nontrivial=True,
             sample=dict(op="binary inspect-raw-lines=false", params=params, mode=args))
    rep.count("binary:moved-off")
    if rc1 != 0 or rc2 != 0:
        report(rep, "binary:exit-status", f"delta exit status {rc1}/{rc2}", dict(kind="binary", sub="moved-off", case=case))
    elif o1 != o2:
        d = first_diff_row(o1, o2)
        report(rep, "inspect-off:colours-not-ignored", "with --inspect-raw-lines=false a moved-line colour changes the output",
               dict(kind="binary", sub="moved-off", plain_row=repr(d[1]), coloured_row=repr(d[2]), case=case))


def binary_case_worddiff(ctx, rep, case):
    """Calling process `git diff --word-diff` (pinned with DELTA_VERIF_FORCE_GUESS): every hunk line
    keeps its input colouring, with --inspect-raw-lines true and false."""
    lines = ["diff --git a/f.txt b/f.txt", "index 1..2 100644", "--- a/f.txt", "+++ b/f.txt", "@@ -1,2 +1,2 @@", " ctx",
             " keep " + sgr(case["minus"]) + "[-oldword-]" + sgr("") + sgr(case["plus"]) + "{+newword+}" + sgr("") + " tail"]
    rc, out, err = ctx.run_delta(["--no-gitconfig", "--inspect-raw-lines", case["inspect"]] + case["mode"], enc_lines(lines),
                                 env={"DELTA_VERIF_FORCE_GUESS": "git diff --word-diff"})
    rep.case(key=("worddiff", case["minus"], case["plus"], case["inspect"], tuple(case["mode"])), nontrivial=True,
             sample=dict(op="binary word-diff caller", line=lines[-1], inspect=case["inspect"]))
    rep.count("binary:worddiff")
    if rc != 0:
        report(rep, "binary:exit-status", f"delta exit status {rc}", dict(kind="binary", sub="worddiff", case=case))
        return
    wm, wp = apply_sgr(Rend(), parse_params(case["minus"])).key(), apply_sgr(Rend(), parse_params(case["plus"])).key()
    got = {}
    for l in out.split(b"\n"):
        cells = decode_cells(l)
        txt = "".join(c for c, _ in cells)
        for word in ("[-oldword-]", "{+newword+}"):
            j = txt.find(word)
            if j >= 0:
                got[word] = {r for _, r in cells[j:j + len(word)]}
    if got.get("[-oldword-]") != {wm} or got.get("{+newword+}") != {wp}:
        report(rep, "word-diff:colouring-lost", "under git diff --word-diff a hunk line did not keep its input colouring",
               dict(kind="binary", sub="worddiff", got=repr(got), case=case))


# ------------------------------------------------------------------ model vs binary: the callers of maybe_raw_line

RAWCALLERS_LEAN = r"""
import DeltaModel.RawLineCallers
open Ansi

def sgrParams (s : String) : List (List Nat) := (s.splitOn ";").map fun x => [x.toNat!]

def gitColours (o n : String) : GitColors :=
  (if o == "_" then [] else [("color.diff.old", sgrToStyle (sgrParams o))]) ++
  (if n == "_" then [] else [("color.diff.new", sgrToStyle (sgrParams n))])

def answer (q : String) : String :=
  match q.trimAscii.toString.splitOn " " with
  | [w, i, rm, rz, rp, o, n, c, p] =>
    let ch : Char := if c == "m" then '-' else if c == "p" then '+' else if c == "z" then ' ' else '\\'
    let isRaw : Generated.HunkKind → Bool := fun k =>
      match k with | .minus => rm == "1" | .zero => rz == "1" | .plus => rp == "1"
    let line : String := (if p == "_" then "" else "\x1b[" ++ p ++ "m") ++ String.singleton ch ++ "word tail\x1b[m"
    match hunkLineKeepsRaw (w == "1") (i == "1") isRaw (gitColours o n) ch false line.toUTF8.toList with
    | some true => "kept"
    | some false => "dropped"
    | none => "no-hunk-line"
  | _ => "bad-request"

def main (args : List String) : IO Unit := do
  match args with
  | [path] =>
    for q in (← IO.FS.lines path) do
      IO.println (answer q)
  | _ => IO.println "usage"
"""


def corr_raw_callers(ctx, rep):
    """The executable model of the callers (`Ansi.hunkLineKeepsRaw` over the generated arms of new_line_state and the
    generated origin of config.git_*_style) against the real binary: is a hunk line that starts with a given SGR
    sequence kept with its input colouring, for a gitconfig that sets color.diff.old / new or not, each of
    `--minus/zero/plus-style raw`, `--inspect-raw-lines`, and a word-diff caller? (No hook op reaches
    new_line_state; the model is run with `lake env lean --run`: there is no registered lean_exe for it.)"""
    import subprocess
    from .. import core
    rng = ctx.rng
    simple = [(c, p) for c, p in GIT_COLOURS]
    qs = []
    for _ in range(ctx.n(70, 1500)):
        kind = rng.choice("mmppz")
        old, new = rng.choice([None] + simple), rng.choice([None] + simple)
        own = {"m": ["31"] + ([old[1]] if old else []), "p": ["32"] + ([new[1]] if new else []), "z": []}[kind]
        other = {"m": ["32"] + ([new[1]] if new else []), "p": ["31"] + ([old[1]] if old else []), "z": ["31", "32"]}[kind]
        p = rng.choice(own + own + other + ["1;35", "1;36", "7", "38;5;208", "_"])
        raws = [rng.random() < 0.15 for _ in range(3)]
        qs.append(dict(w=rng.random() < 0.08, i=rng.random() < 0.75, raw=raws, old=old, new=new, kind=kind, p=p))
    if not ctx.lean_ok and not core.lake_build(["DeltaModel.RawLineCallers"])[0]:
        rep.corr_case("rawline.callers(binary)", False, dict(error="DeltaModel.RawLineCallers does not build"))
        return
    work = os.path.join(core.BUILD, "c08-rawcallers-%d" % os.getpid())
    os.makedirs(work, exist_ok=True)
    open(os.path.join(work, "Run.lean"), "w").write(RAWCALLERS_LEAN)
    with open(os.path.join(work, "queries.txt"), "w") as f:
        for q in qs:
            f.write(" ".join([str(int(q["w"])), str(int(q["i"]))] + [str(int(b)) for b in q["raw"]] +
                             [q["old"][1] if q["old"] else "_", q["new"][1] if q["new"] else "_", q["kind"], q["p"]]) + "\n")
    pr = subprocess.run(["lake", "env", "lean", "--run", os.path.join(work, "Run.lean"), os.path.join(work, "queries.txt")],
                        cwd=core.LEAN, stdout=subprocess.PIPE, stderr=subprocess.STDOUT, text=True)
    model = pr.stdout.split("\n")[:len(qs)]
    if pr.returncode != 0 or len(model) != len(qs) or any(m not in ("kept", "dropped") for m in model):
        rep.corr_case("rawline.callers(binary)", False, dict(error="model run failed", output=pr.stdout[-600:]))
        return

    def observe(q):
        ch = {"m": "-", "p": "+", "z": " "}[q["kind"]]
        ml = (sgr(q["p"]) if q["p"] != "_" else "") + ch + "word tail" + sgr("")
        lines = ["diff --git a/m.txt b/m.txt", "index 1..2 100644", "--- a/m.txt", "+++ b/m.txt", "@@ -1,3 +1,3 @@",
                 " ctx", ml, " ctx2"]
        git = dict(old=q["old"][0] if q["old"] else None, new=q["new"][0] if q["new"] else None, source="file")
        cfg, env, cwd = git_colours_invocation(git if (git["old"] or git["new"]) else None)
        args = cfg + ["--inspect-raw-lines", "true" if q["i"] else "false"]
        for b, o in zip(q["raw"], ("--minus-style", "--zero-style", "--plus-style")):
            if b:
                args += [o, "raw"]
        if q["w"]:
            env = dict(env, DELTA_VERIF_FORCE_GUESS="git diff --word-diff")
        rc, out, err = ctx.run_delta(args, enc_lines(lines), env=env, cwd=cwd)
        want = apply_sgr(Rend(), parse_params(q["p"])).key() if q["p"] != "_" else Rend().key()
        for l in out.split(b"\n"):
            cells = decode_cells(l)
            txt = "".join(c for c, _ in cells)
            j = txt.find("word tail")
            if j >= 0:
                return "kept" if {r for _, r in cells[j:j + 9]} == {want} else "dropped"
        return "rc=%s no such line" % rc
    seen = parallel_map(observe, qs)
    for q, m, o in zip(qs, model, seen):
        rep.count("rawline.callers:" + o)
        rep.case(key=("rawcallers", repr(sorted(q.items(), key=str))), nontrivial=q["p"] != "_",
                 sample=dict(op="rawline.callers(binary)", query=q, impl=o))
        rep.corr_case("rawline.callers(binary)", m == o, dict(query=q, impl=o, model=m))
    import shutil
    shutil.rmtree(work, ignore_errors=True)


def moved_params(rng):
    items = [gen_supported_item(rng) for _ in range(rng.randint(1, 3))]
    return ";".join(items)


def binary_cases(ctx):
    rng = ctx.rng
    cases = []
    nd = ctx.n(36, 1200)
    for d in range(nd):
        rows = gen_diff(rng)
        for scheme in SCHEMES:
            for mode in rng.sample(MODES, ctx.n(2, 4)):
                cases.append(("default", dict(rows=rows, scheme=scheme, mode=mode, cseed=rng.randint(0, 1 << 30))))
        cases.append(("raw", dict(rows=rows, scheme=rng.choice(SCHEMES[:2]), mode=rng.choice(RAW_MODES),
                                  cseed=rng.randint(0, 1 << 30))))
    for d in range(ctx.n(10, 300)):
        rows = gen_diff(rng, long_lines=True, commit=False)
        for scheme in ("per-line", "per-word", "per-marker"):
            cases.append(("default", dict(rows=rows, scheme=scheme, mode=TRUNC_MODE + rng.choice([[], ["--side-by-side"]]),
                                          cseed=rng.randint(0, 1 << 30))))
    # a gitconfig that customises git's own colours (color.diff.old / color.diff.new -> config.git_minus_style /
    # git_plus_style) x input coloured with git's BUILT-IN red/green (the diff was made where that configuration
    # was not in force: another machine, a saved `git diff --color`, `diff -u --color`) or with the CONFIGURED
    # colours (delta as git's pager): both are plain removed/added colouring, output = that of the plain diff
    def rk(c):
        return apply_sgr(Rend(), parse_params(c)).key()

    def git_cfg(i=None):
        old = GIT_COLOURS[i][0] if i is not None and i % 2 == 0 else rng.choice([None] + [c for c, _ in GIT_COLOURS])
        new = GIT_COLOURS[i][0] if i is not None and i % 2 == 1 else rng.choice([None] + [c for c, _ in GIT_COLOURS])
        if old is None and new is None:
            old = "red bold"
        return dict(old=old, new=new, source=rng.choice(GIT_SOURCES))
    for i in list(range(len(GIT_COLOURS))) + [None] * ctx.n(10, 250):
        rows = gen_diff(rng)
        git = git_cfg(i)
        for inp in ("default", "configured"):
            for scheme in rng.sample(SCHEMES, ctx.n(1, 2)):
                cases.append(("default", dict(rows=rows, scheme=scheme, mode=rng.choice(MODES), cseed=rng.randint(0, 1 << 30),
                                              git=git, input=inp)))
    # ... and moved-line colours are still shown as they are under such a configuration (a colour that is neither
    # the built-in nor the configured one of that side; the other side's colours count as moved colours too)
    for _ in range(ctx.n(24, 600)):
        git = git_cfg(rng.randrange(len(GIT_COLOURS)) if rng.random() < 0.5 else None)
        kind = rng.choice("-+")
        own = [rk("31" if kind == "-" else "32")] + ([rk(GIT_SGR_OF[git["old" if kind == "-" else "new"]])] if git.get("old" if kind == "-" else "new") else [])
        pool = ["1;35", "1;36", "7", "38;5;208", "32" if kind == "-" else "31", "1;34", "35;1"]
        if git.get("new" if kind == "-" else "old"):
            pool.append(GIT_SGR_OF[git["new" if kind == "-" else "old"]])
        pool += [moved_params(rng) for _ in range(2)]
        pool = [p for p in pool if rk(p) not in own]
        cases.append(("moved", dict(params=rng.choice(pool), kind=kind, form=rng.choice(["per-line", "per-marker"]),
                                    mode=rng.choice(MOVED_MODES[:5]), git=git, input=rng.choice(["default", "configured"]))))
    # moved-line colours: every palette number, every attribute, random RGB / combinations
    singles = [str(n) for n in [1, 2, 3, 4, 5, 7, 8, 9]] + [f"38;5;{n}" for n in range(256)] + [f"48;5;{n}" for n in range(256)]
    singles += [str(n) for n in list(range(30, 38)) + list(range(40, 48)) + list(range(90, 98)) + list(range(100, 108))]
    if ctx.quick():
        singles = [p for i, p in enumerate(singles) if i % 4 == d % 4 or len(p) <= 3]
    for p in singles + [moved_params(rng) for _ in range(ctx.n(80, 3000))]:
        kind = rng.choice("-+")
        k = apply_sgr(Rend(), parse_params(p)).key()
        own = ((False,) * 8, ("p", 1 if kind == "-" else 2), None)
        if k == own:
            kind = "+" if kind == "-" else "-"   # git's own colour for that side (31 / 38;5;1 …) is not a moved colour
        cases.append(("moved", dict(params=p, kind=kind, form=rng.choice(["per-line", "per-marker"]),
                                    mode=rng.choice(MOVED_MODES))))
    # git's own colour plus something else is a moved-line style too (bold red on a removed line …)
    for p, kind in [("1;31", "-"), ("31;1", "-"), ("7;31", "-"), ("31;48;5;3", "-"), ("38;5;1", "+"), ("1;32", "+"),
                    ("32;4", "+"), ("2;32", "+"), ("32;40", "+"), ("38;5;2;1", "+")]:
        for form in ("per-line", "per-marker"):
            cases.append(("moved", dict(params=p, kind=kind, form=form, mode=rng.choice(MOVED_MODES))))
    for p in ["1;35", "1;36", "1;38;5;5", "35;1", "1;38;5;6", "1;34", "35", "1;35;4"]:
        for kind in "-+":
            for depth in ("always", "never"):
                cases.append(("moved", dict(params=p, kind=kind, form="per-line", mode=[], map=True, depth=depth)))
    # --map-styles keys in 8 / 16 / 256 / 24-bit form x colour depth x the moved line's colour in the same forms:
    # the key is compared with the style read from the input line, so it must match at either depth
    pairs = [("bold purple", "1;35", True), ("bold purple", "1;38;5;5", True), ("purple", "35", True), ("brightred", "91", True),
             ("brightred", "38;5;9", True), ("bold 201", "1;38;5;201", True), ("201", "38;5;201", True),
             ("#ff0080", "38;2;255;0;128", True), ("bold #ff0080", "1;38;2;255;0;128", True), ("#5f0000", "38;2;95;0;0", True),
             ("normal #102030", "48;2;16;32;48", True), ("ul #ff0080 #000080", "4;38;2;255;0;128;48;2;0;0;128", True),
             # near misses: not mapped, the input colour is shown as it is
             ("#ff0080", "38;2;255;0;129", False), ("201", "38;5;200", False), ("#5f0000", "38;5;52", False), ("bold purple", "35", False)]
    for key, params, hit in pairs:
        for depth in ("always", "never"):
            for kind in "-+":
                cases.append(("moved", dict(params=params, kind=kind, form=rng.choice(["per-line", "per-marker"]),
                                            mode=rng.choice([[], ["--line-numbers"]]), map=True, depth=depth, mapkey=key,
                                            mapval=rng.choice(["bold yellow", 'blue "#005f00"']), hit=hit)))
    # the decision of maybe_raw_line under every option combination
    for p in ["1;35", "1;36", "7", "38;5;208", "1;31", "32;4"] + [moved_params(rng) for _ in range(ctx.n(6, 200))]:
        for kind in "-+":
            cases.append(("moved-off", dict(params=p, kind=kind, mode=rng.choice([[], ["--side-by-side"], ["--line-numbers"]]))))
    for inspect in ("true", "false"):
        for minus, plus in [("31", "32"), ("1;31", "1;32"), ("38;5;9", "38;5;10")]:
            cases.append(("worddiff", dict(minus=minus, plus=plus, inspect=inspect, mode=rng.choice([[], ["--line-numbers"]]))))
    return cases


def binary_one(ctx, rep, sub, case):
    if sub == "default":
        binary_case_default(ctx, rep, case)
    elif sub == "raw":
        binary_case_raw(ctx, rep, case)
    elif sub == "moved-off":
        binary_case_moved_off(ctx, rep, case)
    elif sub == "worddiff":
        binary_case_worddiff(ctx, rep, case)
    else:
        binary_case_moved(ctx, rep, case)


def binary_run(ctx, rep):
    cases = binary_cases(ctx)
    import threading
    lock = threading.Lock()

    class Shim:
        """Serialise Report updates from worker threads."""
        def __getattr__(self, name):
            f = getattr(rep, name)
            def g(*a, **k):
                with lock:
                    return f(*a, **k)
            return g
    shim = Shim()
    parallel_map(lambda sc: binary_one(ctx, shim, sc[0], sc[1]), cases)


def binary_replay(ctx, rep, case):
    binary_one(ctx, rep, case.get("sub", "default"), case["case"])



# ------------------------------------------------------------------ whole streams through the state machine (S4 T2)

def colour_stream(lines, states, scheme, rng):
    """A git default colouring of a diff given as text lines; `states` = the state delta was in after each line of
    the *plain* run (what kind of line git wrote). Removed / added lines 31 / 32 (whole line for combined diffs),
    file-header lines bold, commit lines yellow, the `@@ … @@` part cyan; unchanged lines, `\\ No newline` and
    everything else uncoloured (git's defaults)."""
    reset = sgr("0") if scheme == "reset0" else sgr("")
    out = []
    for ln, st in zip(lines, states):
        if st in ("HunkMinus", "HunkPlus") and ln[:1] in ("-", "+") and scheme in ("per-marker", "per-word", "ws-error"):
            col = "31" if st == "HunkMinus" else "32"
            out.append(colour_rows([(ln[0], ln[1:])], scheme, rng, ("31", "32"))[0] if (ln[0] == "-") == (col == "31")
                       else sgr(col) + ln + reset)
        elif st == "HunkMinus" and ln:
            out.append(sgr("31") + ln + reset)
        elif st == "HunkPlus" and ln:
            out.append(sgr("32") + ln + reset)
        elif st == "HunkHeader" and " @@" in ln[2:]:
            i = ln.index(" @@", 2) + 3
            while i < len(ln) and ln[i] == "@":
                i += 1
            out.append(sgr("36") + ln[:i] + reset + ln[i:])
        elif st == "DiffHeader" and ln:
            out.append(sgr("1") + ln + reset)
        elif st == "CommitMeta" and ln.startswith("commit "):
            out.append(sgr("33") + ln + reset)
        else:
            out.append(ln)
    return out


def rowrel_model(mp, mc, raws_p, raws_c, tab):
    """`Machine.RowRel (rawAt ls) (rawAt ls') tab` between the model rows of the plain and of the coloured run."""
    if len(mp.rows) != len(mc.rows):
        return "row count %d vs %d" % (len(mp.rows), len(mc.rows))
    exp = lambda t: t if tab == 0 else t.replace("\t", " " * tab)
    for j, ((k, t, s), (k2, t2, s2)) in enumerate(zip(mp.rows, mc.rows)):
        if k != k2 or s != s2:
            return "row %d: kind/src %r vs %r" % (j, (k, s), (k2, s2))
        if t == t2:
            continue
        rp = raws_p[s] if s < len(raws_p) else ""
        rc = raws_c[s] if s < len(raws_c) else ""
        if k == "raw" and any(t == rp + pad and t2 == rc + pad for pad in ("", " ")):
            continue
        if k == "other" and t == exp(rp) and t2 == exp(rc):
            continue
        return "row %d (%s): texts differ outside the raw-carrying rows: %r vs %r" % (j, k, t[:40], t2[:40])
    return None


def machine_whole_streams(ctx, rep):
    from .. import machine as M
    rng = ctx.rng
    n = ctx.n(26, 400)
    cases = []
    for i in range(n):
        r = rng.random()
        if r < 0.55:
            lines, _ = M.gen_git_diff(rng); src = "git"
        elif r < 0.75:
            lines, _ = M.gen_plain_diff(rng); src = "diff-u"
        else:
            lines = M.gen_combined_diff(rng); src = "combined"
            if isinstance(lines, tuple):
                lines = lines[0]
        if rng.random() < 0.15:
            lines = M.mutate_lines(rng, list(lines))
        cfg = M.gen_cfg(rng, color_only=(rng.random() < 0.2))
        cases.append(dict(cfg=cfg, lines=list(lines), src=src, scheme=rng.choice(SCHEMES), cseed=rng.randrange(1 << 30)))
    enc = lambda ls: [l.encode("utf-8", "surrogateescape") for l in ls]
    have_model = bool(ctx.drivers_ok)
    plain_runs = M.observe(ctx, [(c["cfg"], enc(c["lines"])) for c in cases])
    import random
    todo = []
    for c, (ip, mp) in zip(cases, plain_runs):
        c["ip"], c["mp"] = ip, mp
        if not ip.ok:
            rep.count("machine-streams:plain-run-" + ("panic" if ip.panic else "error"))
            continue
        states = [o["state"] for o in ip.obs[:-1]]
        c["coloured"] = colour_stream(c["lines"], states, c["scheme"], random.Random(c["cseed"]))
        todo.append(c)
    col_runs = M.observe(ctx, [(c["cfg"], enc(c["coloured"])) for c in todo])
    for c, (ic, mc) in zip(todo, col_runs):
        ip, mp, cfg = c["ip"], c["mp"], c["cfg"]
        n_esc = sum(l.count(ESC) for l in c["coloured"])
        cls = "%s:%s%s" % (c["src"], c["scheme"], ":color-only" if cfg.d["colorOnly"] else "")
        replay = dict(kind="machine-stream", args=cfg.args(), plain=c["lines"], coloured=c["coloured"])
        rep.case(key=("mstream", c["src"], c["scheme"], cfg.key(), sha(repr(c["lines"]))[:12]), nontrivial=n_esc > 0,
                 sample=dict(op="machine.run plain vs coloured", source=c["src"], scheme=c["scheme"], n_lines=len(c["lines"]),
                             first_coloured=c["coloured"][:6]))
        rep.count("machine-streams:source=" + c["src"])
        rep.count("machine-streams:scheme=" + c["scheme"])
        for k in ("commitRaw", "fileRaw", "hhRaw"):
            if cfg.d[k]:
                rep.count("machine-streams:" + k)
        if not ic.ok:
            report(rep, "machine-noninterference:%s:coloured-run-fails" % cls,
                   "the plain stream is processed, the coloured one %s: %s" % ("panics" if ic.panic else "fails", ic.msg[:120]), replay)
            continue
        # (a) correspondence of the coloured stream: hook vs model
        if mc is not None:
            dis = M.compare(cfg, ic, mc)
            rep.corr_case("machine.run(coloured stream)", not dis, dict(replay, disagreement=dis[:2]))
        # (b) the theorem's relation on the rows the model driver computes
        if mp is not None and mc is not None and mp.ok and mc.ok:
            raws_p = [o["raw"].decode("utf-8", "replace") for o in ip.obs[:-1]]
            raws_c = [o["raw"].decode("utf-8", "replace") for o in ic.obs[:-1]]
            bad = rowrel_model(mp, mc, raws_p, raws_c, cfg.d["tab"])
            rep.corr_case("machine.rowrel(model plain vs coloured)", bad is None, dict(replay, disagreement=bad))
        # (c) the property on the implementation
        agree = len(ip.obs) == len(ic.obs) and all(
            (a["text"], a["commitRe"], a["blame"], a["grep"], a["submodule"]) == (b["text"], b["commitRe"], b["blame"], b["grep"], b["submodule"])
            for a, b in zip(ip.obs[:-1], ic.obs[:-1]))
        if not agree:
            bad_text = len(ip.obs) != len(ic.obs) or any(a["text"] != b["text"] for a, b in zip(ip.obs[:-1], ic.obs[:-1]))
            if bad_text:
                report(rep, "machine-noninterference:%s:stripped-line-differs" % cls,
                       "the stripped line of a coloured input line is not the plain line", replay)
            else:
                # `MachineRaw.ingestLine` makes the per-line facts functions of the *stripped* line; the grep / blame
                # parsers look at the raw line by design (C16 / C17) and are outside that claim
                only_gb = all((a["commitRe"], a["submodule"]) == (b["commitRe"], b["submodule"]) for a, b in zip(ip.obs[:-1], ic.obs[:-1]))
                if only_gb:
                    rep.count("machine-streams:grep/blame-facts-differ(skipped)")
                else:
                    rep.corr_case("machineraw.ingest_facts(coloured vs plain)", False, dict(replay, disagreement="commit-regex / submodule fact of a line depends on its colouring"))
            continue
        rep.corr_case("machineraw.ingest_facts(coloured vs plain)", True)
        rep.count("machine-streams:agree")
        lp, lc = ip.out.split(b"\n"), ic.out.split(b"\n")
        rp, rc = ip.rows, ic.rows
        if len(rp) != len(rc) or [k for k, _ in rp] != [k for k, _ in rc]:
            report(rep, "machine-noninterference:%s:rows-differ" % cls,
                   "number / kinds of output rows differ between the plain and the coloured stream: %r vs %r"
                   % ([k for k, _ in rp][:12], [k for k, _ in rc][:12]), replay)
            continue
        col_stripped = set(strip_py(x.encode("utf-8", "surrogateescape")) for x in c["coloured"])
        for j, ((k, t), (_, t2)) in enumerate(zip(rp, rc)):
            if k != "raw":
                if lp[j] != lc[j]:
                    report(rep, "machine-noninterference:%s:%s-row-differs" % (cls, k),
                           "row %d (%s) differs: %r vs %r" % (j, k, lp[j][:80], lc[j][:80]), replay)
                    break
            elif t != t2:
                report(rep, "machine-noninterference:%s:raw-row-text" % cls,
                       "raw row %d shows different text: %r vs %r" % (j, t[:60], t2[:60]), replay)
                break
        else:
            rep.count("machine-streams:rows-identical")


def run(ctx, rep):
    rep.rule = ("hook level: random lines of text / SGR / CSI / OSC / ESC / DCS / broken-sequence tokens; a case is "
                "non-trivial when the iterator yields >= 2 element kinds (resp. the SGR has several parameters); "
                "distinct by input. binary level: generated diffs x colourings x modes; non-trivial = the colouring "
                "inserted at least one escape sequence into a hunk line")
    hook = ctx.hook()
    mdl = ctx.model("drv_ansi") if ctx.drivers_ok else None
    lines, impl = corr_basic(ctx, rep, hook, mdl)
    corr_widths(ctx, rep, hook, mdl, lines, impl)
    corr_sgr(ctx, rep, hook, mdl)
    oracle_round_trip(ctx, rep, hook)
    oracle_strip(ctx, rep, hook)
    binary_run(ctx, rep)
    corr_raw_callers(ctx, rep)
    machine_whole_streams(ctx, rep)


def replay(ctx, rep, obj):
    case = obj.get("case", {})
    if case.get("kind") == "binary":
        binary_replay(ctx, rep, case)
    else:
        run(ctx, rep)
