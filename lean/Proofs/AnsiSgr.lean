import DeltaModel.Ansi
/-!
SGR round trip: for a supported parameter sequence, re-emitting the parsed `ansi_term::Style`
(`write_prefix`, generated emit table) shows the same rendition on a terminal as the input
parameters (`applySgr`). All facts about the generated parse/emit tables are checked by
evaluation, so an edit to either table re-checks them.
-/
namespace Ansi

/-! ### The rendition a style stands for (closed form) -/

def colorR : Color → RColor
  | .named n => .palette n
  | .fixed n => .palette n
  | .rgb r g b => .rgb r g b

def optR : Option Color → RColor
  | none => .default
  | some c => colorR c

/-- What a terminal shows for a style: attributes as they are; named colour `n` and `Fixed(n)`
are both palette entry `n`. -/
def styleR (s : Style) : Rendition :=
  { bold := s.bold, dim := s.dimmed, italic := s.italic, underline := s.underline,
    blink := s.blink, reverse := s.reverse, hidden := s.hidden, strike := s.strike,
    fg := optR s.fg, bg := optR s.bg }

def ColorWF : Color → Prop
  | .named n => n < 8
  | .fixed n => n ≤ 255
  | .rgb r g b => r ≤ 255 ∧ g ≤ 255 ∧ b ≤ 255

def StyleWF (s : Style) : Prop := (∀ c, s.fg = some c → ColorWF c) ∧ (∀ c, s.bg = some c → ColorWF c)

/-! ### Supported parameter sequences -/

/-- One supported item of an SGR parameter list (as parameter groups). -/
inductive SupItem : List (List Nat) → Prop
  | attr (c : Nat) : 1 ≤ c → c ≤ 9 → SupItem [[c]]
  | fg (c : Nat) : 30 ≤ c → c ≤ 37 → SupItem [[c]]
  | bg (c : Nat) : 40 ≤ c → c ≤ 47 → SupItem [[c]]
  | brightFg (c : Nat) : 90 ≤ c → c ≤ 97 → SupItem [[c]]
  | brightBg (c : Nat) : 100 ≤ c → c ≤ 107 → SupItem [[c]]
  | idx (x n : Nat) : x = 38 ∨ x = 48 → n ≤ 255 → SupItem [[x], [5], [n]]
  | rgb (x r g b : Nat) : x = 38 ∨ x = 48 → r ≤ 255 → g ≤ 255 → b ≤ 255 →
      SupItem [[x], [2], [r], [g], [b]]
  | idxColon (x n : Nat) : x = 38 ∨ x = 48 → n ≤ 255 → SupItem [[x, 5, n]]
  | rgbColon (x r g b : Nat) : x = 38 ∨ x = 48 → r ≤ 255 → g ≤ 255 → b ≤ 255 →
      SupItem [[x, 2, r, g, b]]
  | rgbColonCs (x cs r g b : Nat) : x = 38 ∨ x = 48 → r ≤ 255 → g ≤ 255 → b ≤ 255 →
      SupItem [[x, 2, cs, r, g, b]]

/-- The supported parameter sequences: 1–9, 30–37, 40–47, 90–97, 100–107, `38;5;n`, `38;2;r;g;b`,
`48;…` (and their colon forms), in any number and order. -/
inductive Supported : List (List Nat) → Prop
  | nil : Supported []
  | cons {i rest : List (List Nat)} : SupItem i → Supported rest → Supported (i ++ rest)

/-! ### Parse side and terminal side, item by item -/

def parseFold (acc : Style × Mode) (ps : List (List Nat)) : Style × Mode := ps.foldl sgrStep acc
def termFold (acc : Rendition × RMode) (ps : List (List Nat)) : Rendition × RMode := ps.foldl applyOne acc

/-- The simulation step: from related states in normal mode, an item leaves related states in
normal mode, and keeps the style's colours in range. -/
def ItemOk (i : List (List Nat)) : Prop :=
  ∀ st : Style, StyleWF st →
    (parseFold (st, .normal) i).2 = .normal ∧ (termFold (styleR st, .normal) i).2 = .normal ∧
    styleR (parseFold (st, .normal) i).1 = (termFold (styleR st, .normal) i).1 ∧
    StyleWF (parseFold (st, .normal) i).1

theorem wf_setFg {st : Style} (h : StyleWF st) (c : Color) (hc : ColorWF c) :
    StyleWF { st with fg := some c } :=
  ⟨fun c' e => by simp at e; subst e; exact hc, h.2⟩

theorem wf_setBg {st : Style} (h : StyleWF st) (c : Color) (hc : ColorWF c) :
    StyleWF { st with bg := some c } :=
  ⟨h.1, fun c' e => by simp at e; subst e; exact hc⟩

/-- Single-parameter items: checked against the generated parse table code by code. -/
theorem single_ok (c : Nat) (hc : (1 ≤ c ∧ c ≤ 9) ∨ (30 ≤ c ∧ c ≤ 37) ∨ (40 ≤ c ∧ c ≤ 47) ∨
    (90 ≤ c ∧ c ≤ 97) ∨ (100 ≤ c ∧ c ≤ 107)) : ItemOk [[c]] := by
  have hcases : c = 1 ∨ c = 2 ∨ c = 3 ∨ c = 4 ∨ c = 5 ∨ c = 6 ∨ c = 7 ∨ c = 8 ∨ c = 9 ∨
      c = 30 ∨ c = 31 ∨ c = 32 ∨ c = 33 ∨ c = 34 ∨ c = 35 ∨ c = 36 ∨ c = 37 ∨
      c = 40 ∨ c = 41 ∨ c = 42 ∨ c = 43 ∨ c = 44 ∨ c = 45 ∨ c = 46 ∨ c = 47 ∨
      c = 90 ∨ c = 91 ∨ c = 92 ∨ c = 93 ∨ c = 94 ∨ c = 95 ∨ c = 96 ∨ c = 97 ∨
      c = 100 ∨ c = 101 ∨ c = 102 ∨ c = 103 ∨ c = 104 ∨ c = 105 ∨ c = 106 ∨ c = 107 := by omega
  intro st hst
  obtain ⟨b1, b2, b3, b4, b5, b6, b7, b8, fg, bg⟩ := st
  rcases hcases with h | h | h | h | h | h | h | h | h | h | h | h | h | h | h | h | h | h | h | h |
    h | h | h | h | h | h | h | h | h | h | h | h | h | h | h | h | h | h | h | h | h <;> subst h <;>
    refine ⟨rfl, rfl, rfl, ?_⟩
  all_goals first
    | exact hst
    | exact wf_setFg hst _ (by simp [mkColor, ColorWF])
    | exact wf_setBg hst _ (by simp [mkColor, ColorWF])

theorem extField_38 : extField 38 Generated.sgrExtArms = some 8 := by decide
theorem extField_48 : extField 48 Generated.sgrExtArms = some 9 := by decide
theorem sel_vals : Generated.sgrSelRgb = 2 ∧ Generated.sgrSelFixed = 5 := by decide

theorem idx_ok (x n : Nat) (hx : x = 38 ∨ x = 48) (hn : n ≤ 255) : ItemOk [[x], [5], [n]] := by
  intro st hst
  have hn' : ¬ n > 255 := by omega
  rcases hx with rfl | rfl
  · refine ⟨?_, ?_, ?_, ?_⟩ <;>
      simp [parseFold, termFold, sgrStep, applyOne, extField_38, sel_vals, hn', Style.setColor,
        Rendition.setColor, styleR, optR, colorR]
    exact wf_setFg hst _ hn
  · refine ⟨?_, ?_, ?_, ?_⟩ <;>
      simp [parseFold, termFold, sgrStep, applyOne, extField_48, sel_vals, hn', Style.setColor,
        Rendition.setColor, styleR, optR, colorR]
    exact wf_setBg hst _ hn

theorem rgb_ok (x r g b : Nat) (hx : x = 38 ∨ x = 48) (hr : r ≤ 255) (hg : g ≤ 255) (hb : b ≤ 255) :
    ItemOk [[x], [2], [r], [g], [b]] := by
  intro st hst
  have hr' : ¬ r > 255 := by omega
  have hg' : ¬ g > 255 := by omega
  have hb' : ¬ b > 255 := by omega
  rcases hx with rfl | rfl
  · refine ⟨?_, ?_, ?_, ?_⟩ <;>
      simp [parseFold, termFold, sgrStep, applyOne, extField_38, sel_vals, hr', hg', hb', Style.setColor,
        Rendition.setColor, styleR, optR, colorR]
    exact wf_setFg hst _ ⟨hr, hg, hb⟩
  · refine ⟨?_, ?_, ?_, ?_⟩ <;>
      simp [parseFold, termFold, sgrStep, applyOne, extField_48, sel_vals, hr', hg', hb', Style.setColor,
        Rendition.setColor, styleR, optR, colorR]
    exact wf_setBg hst _ ⟨hr, hg, hb⟩

theorem idxColon_ok (x n : Nat) (hx : x = 38 ∨ x = 48) (hn : n ≤ 255) : ItemOk [[x, 5, n]] := by
  intro st hst
  rcases hx with rfl | rfl
  · refine ⟨?_, ?_, ?_, ?_⟩ <;>
      simp [parseFold, termFold, sgrStep, applyOne, extField_38, sel_vals, hn, Style.setColor,
        Rendition.setColor, styleR, optR, colorR, parseSgrColor, colonColor]
    exact wf_setFg hst _ hn
  · refine ⟨?_, ?_, ?_, ?_⟩ <;>
      simp [parseFold, termFold, sgrStep, applyOne, extField_48, sel_vals, hn, Style.setColor,
        Rendition.setColor, styleR, optR, colorR, parseSgrColor, colonColor]
    exact wf_setBg hst _ hn

theorem rgbColon_ok (x r g b : Nat) (hx : x = 38 ∨ x = 48) (hr : r ≤ 255) (hg : g ≤ 255) (hb : b ≤ 255) :
    ItemOk [[x, 2, r, g, b]] := by
  intro st hst
  rcases hx with rfl | rfl
  · refine ⟨?_, ?_, ?_, ?_⟩ <;>
      simp [parseFold, termFold, sgrStep, applyOne, extField_38, sel_vals, hr, hg, hb, Style.setColor,
        Rendition.setColor, styleR, optR, colorR, parseSgrColor, colonColor]
    exact wf_setFg hst _ ⟨hr, hg, hb⟩
  · refine ⟨?_, ?_, ?_, ?_⟩ <;>
      simp [parseFold, termFold, sgrStep, applyOne, extField_48, sel_vals, hr, hg, hb, Style.setColor,
        Rendition.setColor, styleR, optR, colorR, parseSgrColor, colonColor]
    exact wf_setBg hst _ ⟨hr, hg, hb⟩

theorem rgbColonCs_ok (x cs r g b : Nat) (hx : x = 38 ∨ x = 48) (hr : r ≤ 255) (hg : g ≤ 255)
    (hb : b ≤ 255) : ItemOk [[x, 2, cs, r, g, b]] := by
  intro st hst
  rcases hx with rfl | rfl
  · refine ⟨?_, ?_, ?_, ?_⟩ <;>
      simp [parseFold, termFold, sgrStep, applyOne, extField_38, sel_vals, hr, hg, hb, Style.setColor,
        Rendition.setColor, styleR, optR, colorR, parseSgrColor, colonColor]
    exact wf_setFg hst _ ⟨hr, hg, hb⟩
  · refine ⟨?_, ?_, ?_, ?_⟩ <;>
      simp [parseFold, termFold, sgrStep, applyOne, extField_48, sel_vals, hr, hg, hb, Style.setColor,
        Rendition.setColor, styleR, optR, colorR, parseSgrColor, colonColor]
    exact wf_setBg hst _ ⟨hr, hg, hb⟩

theorem supItem_ok {i : List (List Nat)} (h : SupItem i) : ItemOk i := by
  cases h with
  | attr c h1 h2 => exact single_ok c (Or.inl ⟨h1, h2⟩)
  | fg c h1 h2 => exact single_ok c (Or.inr (Or.inl ⟨h1, h2⟩))
  | bg c h1 h2 => exact single_ok c (Or.inr (Or.inr (Or.inl ⟨h1, h2⟩)))
  | brightFg c h1 h2 => exact single_ok c (Or.inr (Or.inr (Or.inr (Or.inl ⟨h1, h2⟩))))
  | brightBg c h1 h2 => exact single_ok c (Or.inr (Or.inr (Or.inr (Or.inr ⟨h1, h2⟩))))
  | idx x n hx hn => exact idx_ok x n hx hn
  | rgb x r g b hx hr hg hb => exact rgb_ok x r g b hx hr hg hb
  | idxColon x n hx hn => exact idxColon_ok x n hx hn
  | rgbColon x r g b hx hr hg hb => exact rgbColon_ok x r g b hx hr hg hb
  | rgbColonCs x cs r g b hx hr hg hb => exact rgbColonCs_ok x cs r g b hx hr hg hb

/-- Parsing a supported sequence and interpreting it on a terminal stay in step. -/
theorem supported_sim {ps : List (List Nat)} (h : Supported ps) : ∀ st : Style, StyleWF st →
    (parseFold (st, .normal) ps).2 = .normal ∧
    styleR (parseFold (st, .normal) ps).1 = (termFold (styleR st, .normal) ps).1 ∧
    StyleWF (parseFold (st, .normal) ps).1 := by
  induction h with
  | nil => intro st hst; exact ⟨rfl, rfl, hst⟩
  | cons hi _ ih =>
    intro st hst
    obtain ⟨m1, m2, e, wf⟩ := supItem_ok hi st hst
    rename_i i rest _
    have p1 : parseFold (st, .normal) (i ++ rest) =
        parseFold ((parseFold (st, .normal) i).1, .normal) rest := by
      simp only [parseFold, List.foldl_append]
      congr 1
      exact Prod.ext rfl m1
    have p2 : termFold (styleR st, .normal) (i ++ rest) =
        termFold (styleR (parseFold (st, .normal) i).1, .normal) rest := by
      simp only [termFold, List.foldl_append]
      congr 1
      exact Prod.ext e.symm m2
    rw [p1, p2]
    exact ih _ wf

/-! ### Emission side: what ansi_term's prefix shows -/

theorem termFold_append (acc : Rendition × RMode) (a b : List (List Nat)) :
    termFold acc (a ++ b) = termFold (termFold acc a) b := by
  simp [termFold, List.foldl_append]

theorem termFold_nil (acc : Rendition × RMode) : termFold acc [] = acc := rfl

theorem attrs_fold (b1 b2 b3 b4 b5 b6 b7 b8 : Bool) (fg bg : Option Color) :
    termFold ({}, .normal) (emitAttrs ⟨b1, b2, b3, b4, b5, b6, b7, b8, fg, bg⟩ Generated.sgrEmitAttrs) =
      ({ bold := b1, dim := b2, italic := b3, underline := b4, blink := b5, reverse := b6,
         hidden := b7, strike := b8 }, .normal) := by
  cases b1 <;> cases b2 <;> cases b3 <;> cases b4 <;> cases b5 <;> cases b6 <;> cases b7 <;>
    cases b8 <;> rfl

theorem bg_fold (r : Rendition) (c : Color) (hc : ColorWF c) :
    termFold (r, .normal)
        (emitColor Generated.sgrEmitBgNamed Generated.sgrEmitBgFixed Generated.sgrEmitBgRgb c) =
      ({ r with bg := colorR c }, .normal) := by
  cases c with
  | named n =>
    have hn : n < 8 := hc
    have : n = 0 ∨ n = 1 ∨ n = 2 ∨ n = 3 ∨ n = 4 ∨ n = 5 ∨ n = 6 ∨ n = 7 := by omega
    rcases this with h | h | h | h | h | h | h | h <;> subst h <;> rfl
  | fixed n =>
    have hn : ¬ n > 255 := by have : n ≤ 255 := hc; omega
    simp [emitColor, Generated.sgrEmitBgFixed, termFold, applyOne, hn, Rendition.setColor, colorR]
  | rgb x y z =>
    obtain ⟨h1, h2, h3⟩ := hc
    have h1' : ¬ x > 255 := by omega
    have h2' : ¬ y > 255 := by omega
    have h3' : ¬ z > 255 := by omega
    simp [emitColor, Generated.sgrEmitBgRgb, termFold, applyOne, h1', h2', h3', Rendition.setColor, colorR]

theorem fg_fold (r : Rendition) (c : Color) (hc : ColorWF c) :
    termFold (r, .normal)
        (emitColor Generated.sgrEmitFgNamed Generated.sgrEmitFgFixed Generated.sgrEmitFgRgb c) =
      ({ r with fg := colorR c }, .normal) := by
  cases c with
  | named n =>
    have hn : n < 8 := hc
    have : n = 0 ∨ n = 1 ∨ n = 2 ∨ n = 3 ∨ n = 4 ∨ n = 5 ∨ n = 6 ∨ n = 7 := by omega
    rcases this with h | h | h | h | h | h | h | h <;> subst h <;> rfl
  | fixed n =>
    have hn : ¬ n > 255 := by have : n ≤ 255 := hc; omega
    simp [emitColor, Generated.sgrEmitFgFixed, termFold, applyOne, hn, Rendition.setColor, colorR]
  | rgb x y z =>
    obtain ⟨h1, h2, h3⟩ := hc
    have h1' : ¬ x > 255 := by omega
    have h2' : ¬ y > 255 := by omega
    have h3' : ¬ z > 255 := by omega
    simp [emitColor, Generated.sgrEmitFgRgb, termFold, applyOne, h1', h2', h3', Rendition.setColor, colorR]

/-- Text painted with `st` by ansi_term is shown with the rendition `styleR st`. -/
theorem rendition_of_emit (st : Style) (hwf : StyleWF st) : renditionOfStyle st = styleR st := by
  unfold renditionOfStyle applySgr emitParams
  by_cases hp : st = {}
  · subst hp; rfl
  · simp only [hp, if_false]
    obtain ⟨b1, b2, b3, b4, b5, b6, b7, b8, fg, bg⟩ := st
    have hbf : Generated.sgrEmitBgFirst = true := by decide
    simp only [hbf, if_true]
    show (termFold _ _).1 = _
    rw [termFold_append, attrs_fold, termFold_append]
    cases bg with
    | none =>
      cases fg with
      | none => rfl
      | some c =>
        simp only [termFold_nil]
        rw [fg_fold _ c (hwf.1 c rfl)]; rfl
    | some d =>
      simp only []
      rw [bg_fold _ d (hwf.2 d rfl)]
      cases fg with
      | none => rfl
      | some c =>
        simp only []
        rw [fg_fold _ c (hwf.1 c rfl)]; rfl

theorem styleWF_default : StyleWF {} := ⟨fun c e => by simp at e, fun c e => by simp at e⟩

/-- **Round trip**: for a supported parameter sequence, the re-emitted parsed style shows the
rendition the input parameters denote. -/
theorem round_trip {ps : List (List Nat)} (h : Supported ps) :
    renditionOfStyle (sgrToStyle ps) = applySgr {} ps := by
  obtain ⟨_, e, wf⟩ := supported_sim h {} styleWF_default
  have e0 : styleR ({} : Style) = ({} : Rendition) := rfl
  rw [e0] at e
  have : sgrToStyle ps = (parseFold ({}, .normal) ps).1 := rfl
  rw [this, rendition_of_emit _ wf, e]
  rfl

end Ansi
