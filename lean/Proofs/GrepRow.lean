/-
Lemmas about `DeltaModel/GrepRow.lean` (C16, session 4 / T10b): the layout of a classic-style
grep row and what a reader gets from it.
-/
import DeltaModel.GrepRow

namespace GrepRow

open Grep Generated.GrepRowShape

theorem isCode_file : isCode Paint.file = false := rfl
theorem isCode_number : isCode Paint.number = false := rfl
theorem isCode_plain : isCode Paint.plain = false := rfl

/-- The code cells are painted in code styles only and spell the sections. -/
theorem codeCells_code (kind : Kind) (secs : List (Bool × Bytes)) :
    (codeCells kind secs).filter (fun c => isCode c.1) = codeCells kind secs ∧
    (codeCells kind secs).filter (fun c => c.1 == Paint.file) = [] ∧
    (codeCells kind secs).filter (fun c => c.1 == Paint.number) = [] ∧
    (codeCells kind secs).flatMap (·.2) = secsText secs := by
  induction secs with
  | nil => simp [codeCells, secsText]
  | cons s rest ih =>
    obtain ⟨b, t⟩ := s
    obtain ⟨h1, h2, h3, h4⟩ := ih
    simp only [codeCells, List.map_cons] at h1 h2 h3 h4 ⊢
    refine ⟨?_, ?_, ?_, ?_⟩
    · rw [List.filter_cons_of_pos, h1]
      cases kind <;> cases b <;> simp [paintOfStyle, wordStyle, lineStyle, contextStyle, isCode]
    · rw [List.filter_cons_of_neg, h2]
      cases kind <;> cases b <;> simp [paintOfStyle, wordStyle, lineStyle, contextStyle]
    · rw [List.filter_cons_of_neg, h3]
      cases kind <;> cases b <;> simp [paintOfStyle, wordStyle, lineStyle, contextStyle]
    · simp only [List.flatMap_cons, h4, secsText]

theorem markerCells_plain (cfg : GrepRow.Cfg) (kind : Kind) :
    (markerCells cfg kind).filter (fun c => isCode c.1) = [] ∧
    (markerCells cfg kind).filter (fun c => c.1 == Paint.file) = [] ∧
    (markerCells cfg kind).filter (fun c => c.1 == Paint.number) = [] := by
  unfold markerCells
  split <;> simp [isCode]

/-- The row, written out: marker, path, (separator, number,) separator, padding, code. -/
theorem classicRow_eq (cfg : GrepRow.Cfg) (kind : Kind) (path : List Char) (num : Option Nat)
    (secs : List (Bool × Bytes)) :
    classicRow cfg kind path num secs =
      markerCells cfg kind ++ (Paint.file, RipGrepJson.bytesOfChars path) ::
      ((match num with
        | some n => [(Paint.plain, sepOf cfg kind), (Paint.number, digitsOf n), (Paint.plain, sepOf cfg kind)] ++
                    (if cfg.out.pad = true then [(Paint.plain, padOf n)] else [])
        | none => [(Paint.plain, sepOf cfg kind)]) ++ codeCells kind secs) := by
  cases num <;> cases hp : cfg.out.pad <;>
    simp [classicRow, classicOrder, classicPart, prefixCells, pushOrder, prefixPart, fileStyle, numberStyle,
      terminateWithSeparator, padFlag, paintOfStyle, hp]

/-- What a reader gets from the row: the path once, the number once when there is one, the code. -/
theorem reading_classicRow (cfg : GrepRow.Cfg) (kind : Kind) (path : List Char) (num : Option Nat)
    (secs : List (Bool × Bytes)) :
    reading (classicRow cfg kind path num secs) =
      ([RipGrepJson.bytesOfChars path], num.toList.map digitsOf, secsText secs) := by
  obtain ⟨c1, c2, c3, c4⟩ := codeCells_code kind secs
  obtain ⟨m1, m2, m3⟩ := markerCells_plain cfg kind
  rw [classicRow_eq]
  cases num <;> cases hp : cfg.out.pad <;>
    simp [reading, List.filter_append, List.filter_cons, c1, c2, c3, c4, m1, m2, m3, isCode_file, isCode_number, isCode_plain]

end GrepRow
