import DeltaModel.ThemeChoice
/-!
`ThemeChoice.run` in closed form (`run_spec`): the interpretation of the generated statement list, mode chain and decision
arms of the pinned tree equals the documented order of the sources.
-/
namespace ThemeChoice
open Options Generated.ThemeChoice

/-- `opt.light` / `opt.dark` after the light / dark `set_options!`: the command line if it gave either flag, else git config. -/
def lightOf (i : In) : Bool := if i.cliLight || i.cliDark then i.cliLight else i.git.light.getD false
def darkOf (i : In) : Bool := if i.cliLight || i.cliDark then i.cliDark else i.git.dark.getD false
/-- `opt.syntax_theme`: command line, else git config, else `BAT_THEME`. -/
def themeOf (i : In) : Option String := i.cliTheme.or (i.git.theme.or i.bat)

theorem steps_spec (i : In) :
    steps i subMacroSteps (initial i) =
      if i.cliLight && i.cliDark then none
      else if lightOf i && darkOf i then none
      else some ⟨lightOf i, darkOf i, themeOf i⟩ := by
  obtain ⟨cl, cd, ct, ⟨gl, gd, gt⟩, bat, sd, det⟩ := i
  cases cl <;> cases cd <;> rcases gl with _ | _ | _ <;> rcases gd with _ | _ | _ <;> cases ct <;> cases gt <;>
    simp [subMacroSteps, steps, step, macroField, initial, lightOf, darkOf, themeOf]

theorem modeOf_spec (i : In) (s : St) :
    modeOf i s modeChain =
      if s.light then some .light else if s.dark then some .dark
      else if i.shouldDetect then i.detected else none := by
  simp [modeChain, modeOf]

/-- The mode `get_color_mode_and_syntax_theme_name` settles on. -/
def finalMode (theme : Option String) (mode : Option Mode) : Mode :=
  match mode with
  | some m => m
  | none => match theme with
    | some t => if isLightTheme t then .light else .dark
    | none => .dark

/-- … and the theme name. -/
def finalTheme (theme : Option String) (mode : Option Mode) : String :=
  match theme with
  | some t => t
  | none => if mode = some .light then defaultLight else defaultDark

theorem decision_spec (theme : Option String) (mode : Option Mode) :
    decision theme mode = some (finalMode theme mode, finalTheme theme mode) := by
  cases theme <;> rcases mode with _ | _ | _ <;>
    simp [decision, decisionArms, modeTag, finalMode, finalTheme]

/-- The mode `get_color_mode` returns. -/
def askedMode (i : In) : Option Mode :=
  if lightOf i then some .light else if darkOf i then some .dark
  else if i.shouldDetect then i.detected else none

theorem run_spec (i : In) :
    run i =
      if i.cliLight && i.cliDark then .fatal
      else if lightOf i && darkOf i then .fatal
      else .chosen ⟨lightOf i, darkOf i, themeOf i⟩ (finalMode (themeOf i) (askedMode i))
        (finalTheme (themeOf i) (askedMode i)) := by
  unfold run
  rw [steps_spec]
  by_cases h1 : (i.cliLight && i.cliDark) = true
  · simp [h1]
  · by_cases h2 : (lightOf i && darkOf i) = true
    · simp [h1, h2]
    · simp only [h1, h2, if_false, Bool.false_eq_true]
      rw [modeOf_spec, decision_spec]
      rfl

end ThemeChoice
