import Proofs.WholeDiffSbsLines
set_option linter.unusedSimpArgs false
set_option linter.unusedVariables false
/-!
Helper lemmas for C05, whole runs in the side-by-side view, part 2: `handle_hunk_line` on the lines of a hunk.
-/
namespace LineNumbers.WholeSbs
open Generated.HunkInit Generated.SbsDispatch Generated.LineNum LineNumbers.Whole

/-- added lines are buffered only while the state is `HunkPlus` -/
def SU.inv (u : SU) : Prop := u.plusBuf ≠ [] → u.prevPlus = true

theorem bufOk_flushed (u : SU) (rows : List SbsRow) (n m : Nat) (ok : BufOk u n m) : BufOk (flushed u rows) n m := by
  refine ⟨?_, ?_, ?_, ?_⟩
  · intro l hl; simp [flushed] at hl
  · intro l hl; simp [flushed] at hl
  · have := ok.left; simp [flushed]; omega
  · have := ok.right; simp [flushed]; omega

/-- a flush under a condition -/
theorem optFlush_spec (al : AlignOf) (hal : ValidAlign al) (u : SU) (n m : Nat) (ok : BufOk u n m) (cond : Bool) :
    ∃ u1 bs, (if cond = true then flushS al u else .ok u) = .ok u1 ∧ Adv al u u1 bs [] ∧ BufOk u1 n m ∧
      u1.prevPlus = u.prevPlus ∧ (cond = true → u1.minusBuf = [] ∧ u1.plusBuf = []) ∧ (cond = false → u1 = u) := by
  cases cond with
  | true =>
    obtain ⟨rows, hf, hs⟩ := flushS_spec al hal u n m ok
    refine ⟨flushed u rows, _, by simpa using hf, adv_flush al u rows ⟨ok.rowsM, ok.rowsP⟩ hs, bufOk_flushed u rows n m ok,
      rfl, ?_, ?_⟩
    · intro _; exact ⟨rfl, rfl⟩
    · intro h; cases h
  | false =>
    refine ⟨u, [], by simp, Adv.refl al u, ok, rfl, ?_, ?_⟩
    · intro h; cases h
    · intro _; rfl

theorem cnt_single (k : Kind) (l : SLine) :
    cntOld [(k, l)] = (if k.isOld then 1 else 0) ∧ cntNew [(k, l)] = (if k.isNew then 1 else 0) := by
  cases k <;> simp [cntOld, cntNew, countOld, countNew, Kind.isOld, Kind.isNew, List.filter]

/-- one hunk line (header already written): the step succeeds, paints whole blocks only, and the line joins the
    buffered ones or is painted -/
theorem stepLineS_spec (bsz : Nat) (al : AlignOf) (hal : ValidAlign al) (u : SU) (k : Kind) (l : SLine) (n m : Nat)
    (hl : 1 ≤ l.rows) (hinv : u.inv)
    (ok : BufOk u (n + (if k.isOld then 1 else 0)) (m + (if k.isNew then 1 else 0))) :
    ∃ u' bs, stepLineS bsz al u (some k) l = .ok u' ∧ u'.inv ∧ Adv al u u' bs [(k, l)] ∧ BufOk u' n m := by
  obtain ⟨u1, bs1, h1, a1, ok1, pp1, emp1, same1⟩ := optFlush_spec al hal u _ _ ok
    (overFull bsz u.minusBuf.length || overFull bsz u.plusBuf.length)
  have hinv1 : u1.inv := by
    intro hne
    cases hc : (overFull bsz u.minusBuf.length || overFull bsz u.plusBuf.length) with
    | true => exact absurd (emp1 hc).2 hne
    | false => rw [same1 hc] at hne ⊢; exact hinv hne
  unfold stepLineS preFlushS
  rw [h1]
  cases k with
  | minus =>
    simp only [Kind.isOld, Kind.isNew, if_true, if_false, Nat.add_zero] at ok1 ok ⊢
    obtain ⟨u2, bs2, h2, a2, ok2, pp2, emp2, same2⟩ := optFlush_spec al hal u1 _ _ ok1 u1.prevPlus
    have hp2 : u2.plusBuf = [] := by
      cases hc : u1.prevPlus with
      | true => exact (emp2 hc).2
      | false =>
        rw [same2 hc]
        cases hpb : u1.plusBuf with
        | nil => rfl
        | cons x xs => have := hinv1 (by rw [hpb]; simp); rw [hc] at this; cases this
    refine ⟨{ u2 with minusBuf := u2.minusBuf ++ [l], prevPlus := false }, bs1 ++ bs2 ++ [], ?_, ?_, ?_, ?_⟩
    · simp only [pushLineS]
      rw [h2]
    · intro hne; exact absurd hp2 hne
    · have := Adv.trans (Adv.trans a1 a2) (adv_minus al u2 l hp2)
      simpa using this
    · refine ⟨?_, ?_, ?_, ?_⟩
      · intro x hx
        rcases List.mem_append.mp hx with h | h
        · exact ok2.rowsM x h
        · simp at h; subst h; exact hl
      · intro x hx; rw [hp2] at hx; cases hx
      · have := ok2.left; simp; omega
      · have := ok2.right; simpa using this
  | plus =>
    simp only [Kind.isOld, Kind.isNew, if_true, if_false, Nat.add_zero] at ok1 ok ⊢
    refine ⟨{ u1 with plusBuf := u1.plusBuf ++ [l], prevPlus := true }, bs1 ++ [], rfl, fun _ => rfl, ?_, ?_⟩
    · have := Adv.trans a1 (adv_plus al u1 l)
      simpa using this
    · refine ⟨ok1.rowsM, ?_, ?_, ?_⟩
      · intro x hx
        rcases List.mem_append.mp hx with h | h
        · exact ok1.rowsP x h
        · simp at h; subst h; exact hl
      · have := ok1.left; simpa using this
      · have := ok1.right; simp; omega
  | ctx =>
    simp only [Kind.isOld, Kind.isNew, if_true] at ok1 ok ⊢
    obtain ⟨rows, hf, hs⟩ := flushS_spec al hal u1 _ _ ok1
    have okf := bufOk_flushed u1 rows _ _ ok1
    obtain ⟨zr, hz, hzs⟩ := paintBlockS_spec al hal (flushed u1 rows) (.zero l) trivial
      (by rw [(tOld_zero al l).1]; have := okf.left; simp [flushed] at this ⊢; omega)
      (by rw [(tOld_zero al l).2]; have := okf.right; simp [flushed] at this ⊢; omega)
    have az := adv_zero al (flushed u1 rows) l zr rfl rfl hzs
    refine ⟨{ flushed u1 rows with
        c := ⟨(flushed u1 rows).c.left + tOld al [.zero l], (flushed u1 rows).c.right + tNew al [.zero l]⟩,
        out := (flushed u1 rows).out ++ zr, prevPlus := false },
      bs1 ++ [.sub u1.minusBuf u1.plusBuf] ++ [.zero l], ?_, ?_, ?_, ?_⟩
    · simp only [pushLineS, hf, hz]
    · intro hne; exact absurd rfl hne
    · have := Adv.trans (Adv.trans a1 (adv_flush al u1 rows ⟨ok1.rowsM, ok1.rowsP⟩ hs)) az
      simpa using this
    · refine ⟨?_, ?_, ?_, ?_⟩
      · intro x hx; simp [flushed] at hx
      · intro x hx; simp [flushed] at hx
      · have := okf.left; simp [flushed, (tOld_zero al l).1] at this ⊢; omega
      · have := okf.right; simp [flushed, (tOld_zero al l).2] at this ⊢; omega

/-- the lines of a hunk after its header row -/
theorem stepLinesS_spec (bsz : Nat) (al : AlignOf) (hal : ValidAlign al) : ∀ (ls : List LK) (u : SU) (n m : Nat),
    (∀ x ∈ ls, 1 ≤ x.2.rows) → u.inv → BufOk u (n + cntOld ls) (m + cntNew ls) →
    ∃ u' bs, stepLinesS bsz al u ls = .ok u' ∧ u'.inv ∧ Adv al u u' bs ls ∧ BufOk u' n m
  | [], u, n, m, _, hinv, ok => ⟨u, [], rfl, hinv, Adv.refl al u, by simpa [cntOld, cntNew, countOld, countNew] using ok⟩
  | (k, l) :: ls, u, n, m, hr, hinv, ok => by
    have hc : cntOld ((k, l) :: ls) = cntOld ls + (if k.isOld then 1 else 0) ∧
        cntNew ((k, l) :: ls) = cntNew ls + (if k.isNew then 1 else 0) := by
      have e1 := cntOld_append [(k, l)] ls
      have e2 := cntNew_append [(k, l)] ls
      rw [(cnt_single k l).1] at e1
      rw [(cnt_single k l).2] at e2
      simp only [List.singleton_append] at e1 e2
      omega
    obtain ⟨u1, bs1, h1, hinv1, a1, ok1⟩ := stepLineS_spec bsz al hal u k l (n + cntOld ls) (m + cntNew ls)
      (hr (k, l) (List.mem_cons_self ..)) hinv
      (by rw [hc.1, hc.2] at ok; exact ⟨ok.rowsM, ok.rowsP, by have := ok.left; omega, by have := ok.right; omega⟩)
    obtain ⟨u2, bs2, h2, hinv2, a2, ok2⟩ := stepLinesS_spec bsz al hal ls u1 n m
      (fun x hx => hr x (List.mem_cons_of_mem _ hx)) hinv1 ok1
    refine ⟨u2, bs1 ++ bs2, ?_, hinv2, ?_, ok2⟩
    · simp only [stepLinesS, h1, h2]
    · have := Adv.trans a1 a2
      simpa using this

end LineNumbers.WholeSbs
