/-
C16, session 4 / T23: from the input line text to the visible text of the rendered classic-style row.
Composes the parse theorems (`parseColoured_fmtColoured`, `parsePlain_*`) through the dispatch of
`GrepInput.lineOfInput` with `Grep.emit` and the row layout of `DeltaModel/GrepRow.lean`.
-/
import DeltaModel.GrepInput
import Proofs.GrepRowEmit
import Proofs.GrepColoured
import Proofs.GrepPlainA
import Proofs.GrepPlainB
import Proofs.GrepPlainC
import Proofs.GrepPlainD
import Proofs.GrepLongest

namespace GrepInput

open Grep GrepRow

/-- The visible text of every classic-style hit row, in order. -/
def rowsText (rcfg : GrepRow.Cfg) (rows : List Row) : List Bytes :=
  rows.filterMap fun r => (rowCells rcfg r).map rowText

/-- The visible text of a classic-style row for (kind, path, number, code): navigate marker (if any), path,
separator, (number, separator, padding,) code with tabs expanded. -/
def classicText (rcfg : GrepRow.Cfg) (w : Nat) (kind : Kind) (path : List Char) (num : Option Nat)
    (code : Bytes) : Bytes :=
  rowText (markerCells rcfg kind) ++ RipGrepJson.bytesOfChars path ++
    (match num with
     | some n => sepOf rcfg kind ++ digitsOf n ++ sepOf rcfg kind ++ (if rcfg.out.pad = true then padOf n else [])
     | none => sepOf rcfg kind) ++ expandB w code

theorem rowText_classicRow (rcfg : GrepRow.Cfg) (w : Nat) (kind : Kind) (path : List Char) (num : Option Nat)
    (secs : List (Bool × Bytes)) (code : Bytes) (hs : secsText secs = expandB w code) :
    rowText (classicRow rcfg kind path num secs) = classicText rcfg w kind path num code := by
  obtain ⟨_, _, _, c4⟩ := codeCells_code kind secs
  rw [classicRow_eq]
  cases num <;> cases hp : rcfg.out.pad <;>
    simp [rowText, classicText, List.flatMap_append, c4, hs, hp]

theorem stepHit_classic_shape (cfg : Grep.Cfg) (st : St) (h : Hit) (st' : St) (rows : List Row)
    (hs : cfg.outputType.getD h.gtype = .classic)
    (hh : (h.kind = .contextHeader && cfg.headerAsHunkHeader) = false)
    (hk : h.kind ≠ .ignore)
    (e : stepHit cfg st h = .ok (st', rows)) :
    ∃ secs t, codeSections cfg .classic h = .ok (secs, t) ∧
      rows = [Row.code (some h.path) h.num h.kind secs false] := by
  unfold stepHit at e
  split at e
  · contradiction
  · simp only at e
    split at e
    · cases e
    · rw [hs] at e
      simp only [hh] at e
      split at e
      · rename_i hc; simp at hc
      · split at e
        · cases e
        · rename_i secs t hcs
          cases e
          exact ⟨secs, t, hcs, rfl⟩

def hitText (rcfg : GrepRow.Cfg) (w : Nat) (h : Hit) : Bytes :=
  classicText rcfg w h.kind h.path h.num h.code

theorem rowsText_append (rcfg : GrepRow.Cfg) (a b : List Row) :
    rowsText rcfg (a ++ b) = rowsText rcfg a ++ rowsText rcfg b := by
  simp [rowsText, List.filterMap_append]

theorem hitOk_kind {cfg : Grep.Cfg} {style : GrepType} {h : Hit} (hok : hitOk cfg style h = true) :
    h.kind ≠ .ignore := by
  intro hk
  simp [hitOk, hk] at hok

/-- Classic emission: the visible texts of the rows are the texts of the hits, one row per hit, in order. -/
theorem emitFrom_classic_text (cfg : Grep.Cfg) (rcfg : GrepRow.Cfg) :
    ∀ (lines : List Line) (st : St) (rows : List Row),
    (∀ h, Line.hit h ∈ lines → cfg.outputType.getD h.gtype = .classic) →
    (∀ h, Line.hit h ∈ lines → (h.kind = .contextHeader && cfg.headerAsHunkHeader) = false) →
    (∀ h, Line.hit h ∈ lines → hitOk cfg .classic h = true) →
    emitFrom cfg st lines = .ok rows →
    rowsText rcfg rows = (hitsOf lines).map (hitText rcfg cfg.tabWidth)
  | [], _, rows, _, _, _, e => by simp [emitFrom] at e; subst e; rfl
  | .other raw :: rest, st, rows, h1, h2, h3, e => by
    simp only [emitFrom] at e
    split at e
    · cases e
    · rename_i more hm
      cases e
      have ih := emitFrom_classic_text cfg rcfg rest st more (fun h hh => h1 h (List.mem_cons_of_mem _ hh))
        (fun h hh => h2 h (List.mem_cons_of_mem _ hh)) (fun h hh => h3 h (List.mem_cons_of_mem _ hh)) hm
      simpa [rowsText, rowCells, hitsOf] using ih
  | .hit h :: rest, st, rows, h1, h2, h3, e => by
    simp only [emitFrom] at e
    split at e
    · cases e
    · rename_i st' r0 hstep
      split at e
      · cases e
      · rename_i more hm
        cases e
        have hok := h3 h (List.mem_cons_self ..)
        obtain ⟨secs, t, hcs, hr0⟩ := stepHit_classic_shape cfg st h st' r0 (h1 h (List.mem_cons_self ..))
          (h2 h (List.mem_cons_self ..)) (hitOk_kind hok) hstep
        obtain ⟨secs', t', hcs', htxt⟩ := codeSections_ok cfg .classic h hok
        rw [hcs] at hcs'
        cases hcs'
        have ih := emitFrom_classic_text cfg rcfg rest st' more (fun h hh => h1 h (List.mem_cons_of_mem _ hh))
          (fun h hh => h2 h (List.mem_cons_of_mem _ hh)) (fun h hh => h3 h (List.mem_cons_of_mem _ hh)) hm
        rw [rowsText_append, ih, hr0]
        simp [rowsText, rowCells, hitsOf, hitText, rowText_classicRow rcfg cfg.tabWidth h.kind h.path h.num secs h.code htxt]

/-! ## The dispatch: an admissible source line is read as the hit it means -/

theorem textKind_not_ignore {k : Kind} (h : textKinds.contains k = true) : k ≠ .ignore := by
  intro hk; subst hk; rw [textKinds_eq] at h; exact absurd h (by decide)

theorem parseLine_gtype {v : RipGrepJson.JVal} {r : Rec} (h : RipGrepJson.parseLine v = some r) :
    r.gtype = .ripgrep := by
  unfold RipGrepJson.parseLine at h
  split at h
  · simp only [Option.map_eq_some_iff] at h
    obtain ⟨j, _, hj⟩ := h
    subst hj; rfl
  · split at h
    · split at h
      · unfold RipGrepJson.metaRec at h
        simp only [Option.map_eq_some_iff] at h
        obtain ⟨k, _, hk⟩ := h
        subst hk; rfl
      · cases h
    · cases h

theorem frag_textKind (p : Parsed)
    (h : (fragNumbered p || fragUnnumbered p || fragUnnumberedExt p || fragNoExt p) = true) :
    textKinds.contains p.kind = true := by
  cases hk : textKinds.contains p.kind
  · exfalso
    have hk' : ¬ p.kind ∈ textKinds := by simpa using hk
    cases hd : p.digits <;>
      simp [fragNumbered, fragUnnumbered, fragUnnumberedExt, fragNoExt, hk', hd] at h
  · rfl

theorem frag_parse (p : Parsed)
    (h : (fragNumbered p || fragUnnumbered p || fragUnnumberedExt p || fragNoExt p) = true) :
    parsePlain (fmtPlain p) = some p := by
  simp only [Bool.or_eq_true] at h
  rcases h with ((h | h) | h) | h
  · exact parsePlain_numbered p h
  · exact parsePlain_unnumbered p h
  · exact parsePlain_unnumbered_ext p h
  · exact parsePlain_noext p h

theorem head_ne_of_not_contains {l : List Char} {c : Char} (h : l.contains c = false) : l.head? ≠ some c := by
  cases l with
  | nil => simp
  | cons a t =>
    intro ha
    simp at ha
    subst ha
    simp at h

theorem fmtColoured_head (p : Parsed) (hk : textKinds.contains p.kind = true) :
    (fmtColoured p).head? = some esc := by
  obtain ⟨s, hs, _⟩ := sep_of_textKind hk
  simp [fmtColoured, hs, sgrPathOn, sgr]

/-- The hit an admissible source line is read as. -/
theorem lineOfInput_src (w : Nat) (strip : List Char → List Char)
    (hstrip : ∀ s : List Char, s.contains esc = false → strip s = s) (s : Src) (ha : s.Admissible) :
    ∃ h, lineOfInput w strip s.input = .hit h ∧ h.gtype = s.gtype ∧ h.kind ≠ .ignore ∧
      h.kind = (s.meaning strip).1 ∧ h.path = (s.meaning strip).2.1 ∧ h.num = (s.meaning strip).2.2.1 ∧
      h.code = RipGrepJson.bytesOfChars (s.meaning strip).2.2.2 := by
  cases s with
  | coloured p =>
    obtain ⟨hk, hpath, hd, hcode, hamb⟩ := ha
    refine ⟨hitOfParsed w (strip p.code) p, ?_, rfl, textKind_not_ignore hk, rfl, rfl, rfl, rfl⟩
    simp [Src.input, lineOfInput, lineOfInputWith, fmtColoured_head p hk,
      parseColoured_fmtColoured p hk hpath hd hcode hamb]
  | plain p =>
    obtain ⟨hf, hesc, hbrace⟩ := ha
    refine ⟨hitOfParsed w p.code p, ?_, rfl, textKind_not_ignore (frag_textKind p hf), rfl, rfl, rfl, rfl⟩
    -- either shape of `parse_grep_line`: `{` lines to the JSON reader only (then the line does not begin with `{`),
    -- or the regexes after the JSON reader's `None`
    by_cases hfl : Generated.Grep.jsonFailureFallsBackToRegexes = false
    · simp [Src.input, lineOfInput, lineOfInputWith, plainLine, head_ne_of_not_contains hesc, hstrip _ hesc,
        hbrace hfl, frag_parse p hf]
    · simp [Src.input, lineOfInput, lineOfInputWith, plainLine, head_ne_of_not_contains hesc, hstrip _ hesc,
        hfl, frag_parse p hf]
  | json v raw =>
    obtain ⟨r, hr, hk⟩ := ha
    refine ⟨{ gtype := r.gtype, kind := r.kind, path := r.path, num := r.num, prefixOk := true,
              code := RipGrepJson.bytesOfChars r.code, subs := r.subs }, ?_, ?_, ?_, ?_, ?_, ?_, ?_⟩
    · simp only [Src.input, lineOfInput, lineOfInputWith, RipGrepJson.lineOf, hr]
    · exact parseLine_gtype hr
    all_goals simp [Src.meaning, hr, hk]

/-! ## Whole streams -/

/-- With the five repairs of notes/C16.md in the source (regenerated flags) `hitOk` only asks that the line is not a
begin / end / summary record. -/
theorem hitOk_of_kind (cfg : Grep.Cfg) (style : GrepType) (h : Hit) (hk : h.kind ≠ .ignore) :
    hitOk cfg style h = true := by
  cases style <;> cases hsb : h.subs <;>
    simp [hitOk, hk, hsb, Generated.Grep.fixLineNumberZero, Generated.Grep.fixPrefixCheck,
      Generated.Grep.fixSectionsGuard, Generated.Grep.fixEmptyRow, Generated.Grep.fixHeaderNumber]

/-- The stream delta's emission logic sees for the source lines `srcs`. -/
def srcLines (w : Nat) (strip : List Char → List Char) (srcs : List Src) : List Line :=
  srcs.map fun s => lineOfInput w strip s.input

/-- The visible text of the classic-style row for what the source line says. -/
def srcText (rcfg : GrepRow.Cfg) (w : Nat) (strip : List Char → List Char) (s : Src) : Bytes :=
  classicText rcfg w (s.meaning strip).1 (s.meaning strip).2.1 (s.meaning strip).2.2.1
    (RipGrepJson.bytesOfChars (s.meaning strip).2.2.2)

theorem hits_srcLines (rcfg : GrepRow.Cfg) (w : Nat) (strip : List Char → List Char)
    (hstrip : ∀ s : List Char, s.contains esc = false → strip s = s) :
    ∀ (srcs : List Src), (∀ s, s ∈ srcs → s.Admissible) →
    (hitsOf (srcLines w strip srcs)).map (hitText rcfg w) = srcs.map (srcText rcfg w strip)
  | [], _ => rfl
  | s :: rest, ha => by
    obtain ⟨h, hl, _, _, h1, h2, h3, h4⟩ := lineOfInput_src w strip hstrip s (ha s List.mem_cons_self)
    have ih := hits_srcLines rcfg w strip hstrip rest (fun s hs => ha s (List.mem_cons_of_mem _ hs))
    simp only [srcLines, List.map_cons, hl, hitsOf]
    simp only [srcLines] at ih
    rw [ih]
    simp [hitText, srcText, h1, h2, h3, h4]

theorem stream_classic_text (cfg : Grep.Cfg) (rcfg : GrepRow.Cfg) (strip : List Char → List Char)
    (hstrip : ∀ s : List Char, s.contains esc = false → strip s = s) (srcs : List Src)
    (hadm : ∀ s, s ∈ srcs → s.Admissible)
    (hstyle : ∀ s, s ∈ srcs → cfg.outputType.getD s.gtype = .classic)
    (hhdr : ∀ s, s ∈ srcs → ((s.meaning strip).1 = .contextHeader && cfg.headerAsHunkHeader) = false) :
    ∃ rows, emit cfg (srcLines cfg.tabWidth strip srcs) = .ok rows ∧
      rowsText rcfg rows = srcs.map (srcText rcfg cfg.tabWidth strip) := by
  have key : ∀ h, Line.hit h ∈ srcLines cfg.tabWidth strip srcs →
      cfg.outputType.getD h.gtype = .classic ∧
      (h.kind = .contextHeader && cfg.headerAsHunkHeader) = false ∧ h.kind ≠ .ignore := by
    intro h hm
    simp only [srcLines, List.mem_map] at hm
    obtain ⟨s, hs, hl⟩ := hm
    obtain ⟨h', hl', hg, hk, h1, _⟩ := lineOfInput_src cfg.tabWidth strip hstrip s (hadm s hs)
    rw [hl'] at hl
    cases hl
    exact ⟨by rw [hg]; exact hstyle s hs, by rw [h1]; exact hhdr s hs, hk⟩
  have hok : ∀ h, Line.hit h ∈ srcLines cfg.tabWidth strip srcs → hitOk cfg .classic h = true :=
    fun h hm => hitOk_of_kind cfg .classic h (key h hm).2.2
  obtain ⟨rows, he, _⟩ := emit_one_row_per_hit cfg .classic _ (fun h hm => (key h hm).1) hok
  refine ⟨rows, he, ?_⟩
  rw [emitFrom_classic_text cfg rcfg _ none rows (fun h hm => (key h hm).1) (fun h hm => (key h hm).2.1) hok he]
  exact hits_srcLines rcfg cfg.tabWidth strip hstrip srcs hadm

end GrepInput
