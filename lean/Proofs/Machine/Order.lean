import Proofs.Machine.Basic
/-!
The ordering invariant `Inv` is preserved by every handler, by `step` and by `finish`.

`Calm m`: in order so far and nothing waiting in the line buffers. Most handlers flush the
line buffers first and then only emit / write / update header fields, which keeps `Calm`.
-/
set_option linter.unusedSimpArgs false
set_option linter.unusedVariables false
namespace Machine
open Headers

theorem bind_ok {ε α β : Type} (x : Except ε α) (f : α → Except ε β) (b : β) :
    (x >>= f) = .ok b ↔ ∃ a, x = .ok a ∧ f a = .ok b := by
  cases x <;> simp [bind, Except.bind]

structure Calm (m : M) : Prop where
  order : m.orderOk = true
  minus : m.minus = []
  plus : m.plus = []

theorem Calm.inv {m : M} (h : Calm m) : Inv m := ⟨h.order, fun _ => ⟨h.minus, h.plus⟩⟩

theorem calm_flushMP {m : M} (h : m.orderOk = true) : Calm (flushMP m) := ⟨by simp [h], by simp, by simp⟩

theorem calm_emit {m : M} (h : Calm m) : Calm (emit m) := ⟨by simp [h.order], by simp [h.minus], by simp [h.plus]⟩

theorem calm_direct {m : M} (rows : List Row) (h : Calm m) (hb : m.buf = []) : Calm (direct m rows) :=
  ⟨by rw [direct_orderOk m rows hb h.minus h.plus]; exact h.order, by simp [h.minus], by simp [h.plus]⟩

@[simp] theorem writeGeneric_minus (cfg : Cfg) (m : M) (t r : Str) : (writeGeneric cfg m t r).minus = m.minus := by
  unfold writeGeneric; split <;> simp
@[simp] theorem writeGeneric_plus (cfg : Cfg) (m : M) (t r : Str) : (writeGeneric cfg m t r).plus = m.plus := by
  unfold writeGeneric; split <;> simp
@[simp] theorem writeGeneric_buf (cfg : Cfg) (m : M) (t r : Str) : (writeGeneric cfg m t r).buf = m.buf := by
  unfold writeGeneric; split <;> simp
@[simp] theorem writeGeneric_st (cfg : Cfg) (m : M) (t r : Str) : (writeGeneric cfg m t r).st = m.st := by
  unfold writeGeneric; split <;> simp
@[simp] theorem writeGeneric_n (cfg : Cfg) (m : M) (t r : Str) : (writeGeneric cfg m t r).n = m.n := by
  unfold writeGeneric; split <;> simp

theorem calm_writeGeneric (cfg : Cfg) {m : M} (t r : Str) (h : Calm m) (hb : m.buf = []) :
    Calm (writeGeneric cfg m t r) := by
  unfold writeGeneric
  split
  · exact h
  · have := calm_direct
      ((if cfg.colorOnly = true then [] else [{ kind := RowKind.blank, text := [], src := m.n }]) ++
        drawRows cfg.fileStyle RowKind.file t r m.modeInfo m.n) h hb
    exact ⟨this.order, this.minus, this.plus⟩

theorem calm_handleHeaderLine (cfg : Cfg) {m : M} (c : Bool) (h : Calm m) (hb : m.buf = []) :
    Calm (handleHeaderLine cfg m c) := by
  unfold handleHeaderLine; exact calm_writeGeneric cfg _ _ h hb

@[simp] theorem handleHeaderLine_st (cfg : Cfg) (m : M) (c : Bool) : (handleHeaderLine cfg m c).st = m.st := by
  unfold handleHeaderLine; simp

theorem calm_emitLineUnchanged {m : M} (l : L) (h : m.orderOk = true) : Calm (emitLineUnchanged m l) := by
  unfold emitLineUnchanged
  exact calm_direct _ (calm_emit (calm_flushMP h)) (by simp)

@[simp] theorem emitLineUnchanged_st (m : M) (l : L) : (emitLineUnchanged m l).st = m.st := by
  unfold emitLineUnchanged; simp

/-- updating fields other than the buffers / order flag keeps `Calm` -/
theorem calm_of_eq {m m' : M} (h : Calm m) (ho : m'.orderOk = m.orderOk) (hm : m'.minus = m.minus)
    (hp : m'.plus = m.plus) : Calm m' := ⟨ho ▸ h.order, hm ▸ h.minus, hp ▸ h.plus⟩

theorem pendingDiffName_calm (cfg : Cfg) {m m' : M} (h : Calm m)
    (e : pendingDiffName cfg m = .ok m') : Calm m' ∧ m'.st = m.st := by
  unfold pendingDiffName at e
  split at e
  · cases e; exact ⟨h, rfl⟩
  · split at e
    · simp only [bind_ok, pure, Except.pure, Except.ok.injEq] at e
      obtain ⟨a, _, rfl⟩ := e
      exact ⟨calm_writeGeneric _ _ _ (calm_emit h) (by simp), by simp⟩
    · split at e
      · cases e; exact ⟨h, rfl⟩
      · simp only [bind_ok, pure, Except.pure, Except.ok.injEq] at e
        obtain ⟨a, _, e⟩ := e
        split at e
        · cases e
          have := calm_handleHeaderLine cfg (decide (m.source = Source.diffUnified)) (calm_emit h) (by simp)
          exact ⟨⟨this.order, this.minus, this.plus⟩, by simp⟩
        · cases e; exact ⟨h, rfl⟩

-- ---------------------------------------------------------------- handlers

theorem handleCommitMeta_inv {cfg : Cfg} {m m' : M} {l : L} {b : Bool}
    (e : handleCommitMeta cfg m l = .ok (b, m')) (h : Inv m) : Inv m' := by
  unfold handleCommitMeta at e
  split at e
  · cases e; exact h
  · simp only [bind_ok, pure, Except.pure, Except.ok.injEq] at e
    obtain ⟨m1, e1, e⟩ := e
    obtain ⟨c1, _⟩ := pendingDiffName_calm cfg (calm_flushMP h.order) e1
    have c2 : Calm { m1 with st := State.commitMeta } := calm_of_eq c1 rfl rfl rfl
    obtain ⟨sh, _, e⟩ := e
    split at e
    · split at e
      · cases e; exact (calm_emit c2).inv
      · cases e; exact (calm_direct _ (calm_emit c2) (by simp)).inv
    · cases e; exact c2.inv

theorem handleDiffStat_inv {cfg : Cfg} {m m' : M} {l : L} {b : Bool}
    (e : handleDiffStat cfg m l = .ok (b, m')) (h : Inv m) : Inv m' := by
  unfold handleDiffStat at e; cases e; exact h

theorem handleDiffHeaderDiff_inv {cfg : Cfg} {m m' : M} {l : L} {b : Bool}
    (e : handleDiffHeaderDiff cfg m l = .ok (b, m')) (h : Inv m) : Inv m' := by
  unfold handleDiffHeaderDiff at e
  split at e
  · cases e; exact h
  · simp only [bind_ok, pure, Except.pure, Except.ok.injEq] at e
    obtain ⟨m2, e2, name, _, sk, _, e⟩ := e
    have c1 : Calm { flushMP m with st := (if startsWithAny l.text Generated.Markers.combinedDiffLine = true
        then State.diffHeader (.combined .unknown false) else State.diffHeader .unified) } :=
      calm_of_eq (calm_flushMP h.order) rfl rfl rfl
    obtain ⟨c2, _⟩ := pendingDiffName_calm cfg c1 e2
    split at e
    · cases e; exact Calm.inv (calm_of_eq c2 rfl rfl rfl)
    · cases e
      exact Calm.inv (calm_emitLineUnchanged l (by exact c2.order))

theorem shouldWriteGeneric_calm (cfg : Cfg) (m : M) (l : L) (h : m.orderOk = true) :
    (shouldWriteGeneric cfg m l).1 = true → Calm (shouldWriteGeneric cfg m l).2 := by
  unfold shouldWriteGeneric
  split
  · intro _; exact calm_writeGeneric cfg _ _ (calm_emit (calm_flushMP h)) (by simp)
  · intro hh; cases hh

theorem shouldWriteGeneric_false (cfg : Cfg) (m : M) (l : L) :
    (shouldWriteGeneric cfg m l).1 = false → (shouldWriteGeneric cfg m l).2 = m := by
  unfold shouldWriteGeneric; split <;> simp

@[simp] theorem shouldWriteGeneric_st (cfg : Cfg) (m : M) (l : L) : (shouldWriteGeneric cfg m l).2.st = m.st := by
  unfold shouldWriteGeneric; split <;> simp

/-- field updates that touch neither the state, the line buffers nor the order flag -/
theorem inv_of_eq {m m' : M} (h : Inv m) (ho : m'.orderOk = m.orderOk) (hs : m'.st = m.st)
    (hm : m'.minus = m.minus) (hp : m'.plus = m.plus) : Inv m' :=
  ⟨ho ▸ h.order, fun q => by rw [hm, hp]; exact h.quiet (hs ▸ q)⟩

/-- changing the state to a non-quiet one keeps `Inv` -/
theorem inv_set_st {m m' : M} (h : Inv m) (ho : m'.orderOk = m.orderOk) (hq : quietState m'.st = false) : Inv m' :=
  ⟨ho ▸ h.order, fun q => by simp [hq] at q⟩

theorem fileOpUpdate_inv {m : M} (ev : FileEvent) (nm : Str) (h : Inv m) : Inv (fileOpUpdate m ev nm) := by
  unfold fileOpUpdate
  split <;> first | exact inv_of_eq h rfl rfl rfl rfl | exact h

theorem fileOpFinish_inv {cfg : Cfg} {m1 m' : M} {l : L} {b : Bool}
    (e : fileOpFinish cfg m1 l = .ok (b, m')) (h : Inv m1) : Inv m' := by
  unfold fileOpFinish at e
  split at e
  · rename_i hw
    simp only [Except.ok.injEq, Prod.mk.injEq] at e
    obtain ⟨_, rfl⟩ := e
    exact (shouldWriteGeneric_calm cfg m1 l h.order hw).inv
  · split at e
    · cases e
    · simp only [Except.ok.injEq, Prod.mk.injEq] at e
      obtain ⟨_, rfl⟩ := e
      exact h

theorem handleFileOperation_inv {cfg : Cfg} {m m' : M} {l : L} {b : Bool}
    (e : handleFileOperation cfg m l = .ok (b, m')) (h : Inv m) : Inv m' := by
  unfold handleFileOperation at e
  split at e
  · cases e; exact h
  · split at e
    · cases e
    · split at e
      · cases e
      · exact fileOpFinish_inv e (fileOpUpdate_inv _ _ h)

theorem shouldWriteGeneric_inv_of_calm (cfg : Cfg) {m : M} (l : L) (c : Calm m) :
    Inv (shouldWriteGeneric cfg m l).2 := by
  cases hw : (shouldWriteGeneric cfg m l).1
  · rw [shouldWriteGeneric_false cfg m l hw]; exact c.inv
  · exact (shouldWriteGeneric_calm cfg m l c.order hw).inv

theorem handleMinusLine_inv {cfg : Cfg} {m m' : M} {l : L} {b : Bool}
    (e : handleMinusLine cfg m l = .ok (b, m')) (h : Inv m) : Inv m' := by
  unfold handleMinusLine at e
  split at e
  · cases e; exact h
  · split at e
    · cases e
    · simp only [Except.ok.injEq] at e
      obtain rfl : m' = _ := (congrArg Prod.snd e).symm
      exact shouldWriteGeneric_inv_of_calm cfg l (calm_flushMP h.order)

theorem plusLineFinish_inv {cfg : Cfg} {m1 m' : M} {l : L} {b : Bool}
    (e : plusLineFinish cfg m1 l = .ok (b, m')) (h : Calm m1) : Inv m' := by
  unfold plusLineFinish at e
  split at e
  · rename_i hw
    simp only [Except.ok.injEq, Prod.mk.injEq] at e
    obtain ⟨_, rfl⟩ := e
    exact (shouldWriteGeneric_calm cfg m1 l h.order hw).inv
  · split at e
    · cases e
    · split at e
      · simp only [Except.ok.injEq, Prod.mk.injEq] at e
        obtain ⟨_, rfl⟩ := e
        have := calm_handleHeaderLine cfg (decide (m1.source = Source.diffUnified)) (calm_emit h) (by simp)
        exact Calm.inv ⟨this.order, this.minus, this.plus⟩
      · simp only [Except.ok.injEq, Prod.mk.injEq] at e
        obtain ⟨_, rfl⟩ := e
        exact h.inv

theorem handlePlusLine_inv {cfg : Cfg} {m m' : M} {l : L} {b : Bool}
    (e : handlePlusLine cfg m l = .ok (b, m')) (h : Inv m) : Inv m' := by
  unfold handlePlusLine at e
  split at e
  · cases e; exact h
  · split at e
    · cases e
    · exact plusLineFinish_inv e (calm_flushMP h.order)

end Machine
