import Proofs.Machine.Basic
/-!
The ordering invariant `Inv` is preserved by every handler, by `step` and by `finish`.

`Calm m`: in order so far and nothing waiting in the line buffers. Most handlers flush the
line buffers first and then only emit / write / update header fields, which keeps `Calm`.
-/
set_option linter.unusedSimpArgs false
set_option linter.unusedVariables false
namespace Machine
open Headers

theorem bind_ok {ε α β : Type} (x : Except ε α) (f : α → Except ε β) (b : β) :
    (x >>= f) = .ok b ↔ ∃ a, x = .ok a ∧ f a = .ok b := by
  cases x <;> simp [bind, Except.bind]

structure Calm (m : M) : Prop where
  order : m.orderOk = true
  minus : m.minus = []
  plus : m.plus = []

theorem Calm.inv {m : M} (h : Calm m) : Inv m := ⟨h.order, fun _ => ⟨h.minus, h.plus⟩⟩

theorem calm_flushMP {m : M} (h : m.orderOk = true) : Calm (flushMP m) := ⟨by simp [h], by simp, by simp⟩

theorem calm_emit {m : M} (h : Calm m) : Calm (emit m) := ⟨by simp [h.order], by simp [h.minus], by simp [h.plus]⟩

theorem calm_direct {m : M} (rows : List Row) (h : Calm m) (hb : m.buf = []) : Calm (direct m rows) :=
  ⟨by rw [direct_orderOk m rows hb h.minus h.plus]; exact h.order, by simp [h.minus], by simp [h.plus]⟩

@[simp] theorem writeGeneric_minus (cfg : Cfg) (m : M) (t r : Str) : (writeGeneric cfg m t r).minus = m.minus := by
  unfold writeGeneric; split <;> simp
@[simp] theorem writeGeneric_plus (cfg : Cfg) (m : M) (t r : Str) : (writeGeneric cfg m t r).plus = m.plus := by
  unfold writeGeneric; split <;> simp
@[simp] theorem writeGeneric_buf (cfg : Cfg) (m : M) (t r : Str) : (writeGeneric cfg m t r).buf = m.buf := by
  unfold writeGeneric; split <;> simp
@[simp] theorem writeGeneric_st (cfg : Cfg) (m : M) (t r : Str) : (writeGeneric cfg m t r).st = m.st := by
  unfold writeGeneric; split <;> simp
@[simp] theorem writeGeneric_n (cfg : Cfg) (m : M) (t r : Str) : (writeGeneric cfg m t r).n = m.n := by
  unfold writeGeneric; split <;> simp

theorem calm_writeGeneric (cfg : Cfg) {m : M} (t r : Str) (h : Calm m) (hb : m.buf = []) :
    Calm (writeGeneric cfg m t r) := by
  unfold writeGeneric
  split
  · exact h
  · have := calm_direct
      ((if cfg.colorOnly = true then [] else [{ kind := RowKind.blank, text := [], src := m.n }]) ++
        drawRows cfg.fileStyle RowKind.file t r m.modeInfo m.n) h hb
    exact ⟨this.order, this.minus, this.plus⟩

theorem calm_handleHeaderLine (cfg : Cfg) {m : M} (c : Bool) (h : Calm m) (hb : m.buf = []) :
    Calm (handleHeaderLine cfg m c) := by
  unfold handleHeaderLine; exact calm_writeGeneric cfg _ _ h hb

@[simp] theorem handleHeaderLine_st (cfg : Cfg) (m : M) (c : Bool) : (handleHeaderLine cfg m c).st = m.st := by
  unfold handleHeaderLine; simp

theorem calm_emitLineUnchanged {m : M} (l : L) (h : m.orderOk = true) : Calm (emitLineUnchanged m l) := by
  unfold emitLineUnchanged
  exact calm_direct _ (calm_emit (calm_flushMP h)) (by simp)

@[simp] theorem emitLineUnchanged_st (m : M) (l : L) : (emitLineUnchanged m l).st = m.st := by
  unfold emitLineUnchanged; simp

/-- updating fields other than the buffers / order flag keeps `Calm` -/
theorem calm_of_eq {m m' : M} (h : Calm m) (ho : m'.orderOk = m.orderOk) (hm : m'.minus = m.minus)
    (hp : m'.plus = m.plus) : Calm m' := ⟨ho ▸ h.order, hm ▸ h.minus, hp ▸ h.plus⟩

theorem pendingDiffName_calm (cfg : Cfg) {m m' : M} (h : Calm m)
    (e : pendingDiffName cfg m = .ok m') : Calm m' ∧ m'.st = m.st := by
  unfold pendingDiffName at e
  split at e
  · cases e; exact ⟨h, rfl⟩
  · split at e
    · simp only [bind_ok, pure, Except.pure, Except.ok.injEq] at e
      obtain ⟨a, _, rfl⟩ := e
      exact ⟨calm_writeGeneric _ _ _ (calm_emit h) (by simp), by simp⟩
    · split at e
      · cases e; exact ⟨h, rfl⟩
      · simp only [bind_ok, pure, Except.pure, Except.ok.injEq] at e
        obtain ⟨a, _, e⟩ := e
        split at e
        · cases e
          have := calm_handleHeaderLine cfg (decide (m.source = Source.diffUnified)) (calm_emit h) (by simp)
          exact ⟨⟨this.order, this.minus, this.plus⟩, by simp⟩
        · cases e; exact ⟨h, rfl⟩

-- ---------------------------------------------------------------- handlers

theorem handleCommitMeta_inv {cfg : Cfg} {m m' : M} {l : L} {b : Bool}
    (e : handleCommitMeta cfg m l = .ok (b, m')) (h : Inv m) : Inv m' := by
  unfold handleCommitMeta at e
  split at e
  · cases e; exact h
  · simp only [bind_ok, pure, Except.pure, Except.ok.injEq] at e
    obtain ⟨m1, e1, e⟩ := e
    obtain ⟨c1, _⟩ := pendingDiffName_calm cfg (calm_flushMP h.order) e1
    have c2 : Calm { m1 with st := State.commitMeta } := calm_of_eq c1 rfl rfl rfl
    obtain ⟨sh, _, e⟩ := e
    split at e
    · split at e
      · cases e; exact (calm_emit c2).inv
      · cases e; exact (calm_direct _ (calm_emit c2) (by simp)).inv
    · cases e; exact c2.inv

theorem handleDiffStat_inv {cfg : Cfg} {m m' : M} {l : L} {b : Bool}
    (e : handleDiffStat cfg m l = .ok (b, m')) (h : Inv m) : Inv m' := by
  unfold handleDiffStat at e; cases e; exact h

theorem handleDiffHeaderDiff_inv {cfg : Cfg} {m m' : M} {l : L} {b : Bool}
    (e : handleDiffHeaderDiff cfg m l = .ok (b, m')) (h : Inv m) : Inv m' := by
  unfold handleDiffHeaderDiff at e
  split at e
  · cases e; exact h
  · simp only [bind_ok, pure, Except.pure, Except.ok.injEq] at e
    obtain ⟨m2, e2, name, _, sk, _, e⟩ := e
    have c1 : Calm { flushMP m with st := (if startsWithAny l.text Generated.Markers.combinedDiffLine = true
        then State.diffHeader (.combined .unknown false) else State.diffHeader .unified) } :=
      calm_of_eq (calm_flushMP h.order) rfl rfl rfl
    obtain ⟨c2, _⟩ := pendingDiffName_calm cfg c1 e2
    split at e
    · cases e; exact Calm.inv (calm_of_eq c2 rfl rfl rfl)
    · cases e
      exact Calm.inv (calm_emitLineUnchanged l (by exact c2.order))

theorem shouldWriteGeneric_calm (cfg : Cfg) (m : M) (l : L) (h : m.orderOk = true) :
    (shouldWriteGeneric cfg m l).1 = true → Calm (shouldWriteGeneric cfg m l).2 := by
  unfold shouldWriteGeneric
  split
  · intro _; exact calm_writeGeneric cfg _ _ (calm_emit (calm_flushMP h)) (by simp)
  · intro hh; cases hh

theorem shouldWriteGeneric_false (cfg : Cfg) (m : M) (l : L) :
    (shouldWriteGeneric cfg m l).1 = false → (shouldWriteGeneric cfg m l).2 = m := by
  unfold shouldWriteGeneric; split <;> simp

@[simp] theorem shouldWriteGeneric_st (cfg : Cfg) (m : M) (l : L) : (shouldWriteGeneric cfg m l).2.st = m.st := by
  unfold shouldWriteGeneric; split <;> simp

/-- field updates that touch neither the state, the line buffers nor the order flag -/
theorem inv_of_eq {m m' : M} (h : Inv m) (ho : m'.orderOk = m.orderOk) (hs : m'.st = m.st)
    (hm : m'.minus = m.minus) (hp : m'.plus = m.plus) : Inv m' :=
  ⟨ho ▸ h.order, fun q => by rw [hm, hp]; exact h.quiet (hs ▸ q)⟩

/-- changing the state to a non-quiet one keeps `Inv` -/
theorem inv_set_st {m m' : M} (h : Inv m) (ho : m'.orderOk = m.orderOk) (hq : quietState m'.st = false) : Inv m' :=
  ⟨ho ▸ h.order, fun q => by simp [hq] at q⟩

theorem fileOpUpdate_inv {m : M} (ev : FileEvent) (nm : Str) (h : Inv m) : Inv (fileOpUpdate m ev nm) := by
  unfold fileOpUpdate
  split <;> first | exact inv_of_eq h rfl rfl rfl rfl | exact h

theorem fileOpFinish_inv {cfg : Cfg} {m1 m' : M} {l : L} {b : Bool}
    (e : fileOpFinish cfg m1 l = .ok (b, m')) (h : Inv m1) : Inv m' := by
  unfold fileOpFinish at e
  split at e
  · rename_i hw
    simp only [Except.ok.injEq, Prod.mk.injEq] at e
    obtain ⟨_, rfl⟩ := e
    exact (shouldWriteGeneric_calm cfg m1 l h.order hw).inv
  · split at e
    · cases e
    · simp only [Except.ok.injEq, Prod.mk.injEq] at e
      obtain ⟨_, rfl⟩ := e
      exact h

theorem handleFileOperation_inv {cfg : Cfg} {m m' : M} {l : L} {b : Bool}
    (e : handleFileOperation cfg m l = .ok (b, m')) (h : Inv m) : Inv m' := by
  unfold handleFileOperation at e
  split at e
  · cases e; exact h
  · split at e
    · cases e
    · split at e
      · cases e
      · exact fileOpFinish_inv e (fileOpUpdate_inv _ _ h)

theorem shouldWriteGeneric_inv_of_calm (cfg : Cfg) {m : M} (l : L) (c : Calm m) :
    Inv (shouldWriteGeneric cfg m l).2 := by
  cases hw : (shouldWriteGeneric cfg m l).1
  · rw [shouldWriteGeneric_false cfg m l hw]; exact c.inv
  · exact (shouldWriteGeneric_calm cfg m l c.order hw).inv

theorem handleMinusLine_inv {cfg : Cfg} {m m' : M} {l : L} {b : Bool}
    (e : handleMinusLine cfg m l = .ok (b, m')) (h : Inv m) : Inv m' := by
  unfold handleMinusLine at e
  split at e
  · cases e; exact h
  · split at e
    · cases e
    · simp only [Except.ok.injEq] at e
      obtain rfl : m' = _ := (congrArg Prod.snd e).symm
      exact shouldWriteGeneric_inv_of_calm cfg l (calm_flushMP h.order)

theorem plusLineFinish_inv {cfg : Cfg} {m1 m' : M} {l : L} {b : Bool}
    (e : plusLineFinish cfg m1 l = .ok (b, m')) (h : Calm m1) : Inv m' := by
  unfold plusLineFinish at e
  split at e
  · rename_i hw
    simp only [Except.ok.injEq, Prod.mk.injEq] at e
    obtain ⟨_, rfl⟩ := e
    exact (shouldWriteGeneric_calm cfg m1 l h.order hw).inv
  · split at e
    · cases e
    · split at e
      · simp only [Except.ok.injEq, Prod.mk.injEq] at e
        obtain ⟨_, rfl⟩ := e
        have := calm_handleHeaderLine cfg (decide (m1.source = Source.diffUnified)) (calm_emit h) (by simp)
        exact Calm.inv ⟨this.order, this.minus, this.plus⟩
      · simp only [Except.ok.injEq, Prod.mk.injEq] at e
        obtain ⟨_, rfl⟩ := e
        exact h.inv

theorem handlePlusLine_inv {cfg : Cfg} {m m' : M} {l : L} {b : Bool}
    (e : handlePlusLine cfg m l = .ok (b, m')) (h : Inv m) : Inv m' := by
  unfold handlePlusLine at e
  split at e
  · cases e; exact h
  · split at e
    · cases e
    · exact plusLineFinish_inv e (calm_flushMP h.order)

theorem handleHunkHeader_inv {cfg : Cfg} {m m' : M} {l : L} {b : Bool}
    (e : handleHunkHeader cfg m l = .ok (b, m')) (h : Inv m) : Inv m' := by
  unfold handleHunkHeader at e
  split at e
  · cases e; exact h
  · split at e
    · cases e
    · cases e; exact h
    · cases e; exact inv_set_st h rfl rfl

theorem handleModeLine_inv {cfg : Cfg} {m m' : M} {l : L} {b : Bool}
    (e : handleModeLine cfg m l = .ok (b, m')) (h : Inv m) : Inv m' := by
  unfold handleModeLine at e
  split at e
  · split at e
    · cases e
    · split at e <;> (cases e; exact inv_set_st h rfl rfl)
  · split at e
    · split at e
      · cases e
      · split at e <;> (cases e; exact inv_set_st h rfl rfl)
    · cases e; exact h

theorem handleAdditionalCases_inv {cfg : Cfg} {m m' : M} {l : L} {b : Bool} {to : State}
    (e : handleAdditionalCases cfg m l to = .ok (b, m')) (h : Inv m) : Inv m' := by
  unfold handleAdditionalCases at e
  have c : Calm { flushMP m with st := to } := calm_of_eq (calm_flushMP h.order) rfl rfl rfl
  split at e
  · cases e
  · cases e; exact (calm_writeGeneric cfg _ _ (calm_emit c) (by simp)).inv
  · cases e; exact c.inv

theorem handleMisc_inv {cfg : Cfg} {m m' : M} {l : L} {b : Bool}
    (e : handleMisc cfg m l = .ok (b, m')) (h : Inv m) : Inv m' := by
  unfold handleMisc at e
  simp only at e
  split at e
  · cases e; exact h
  · split at e
    · split at e
      · cases e
        exact Calm.inv (calm_of_eq (calm_emitLineUnchanged l h.order) rfl rfl rfl)
      · cases e; exact inv_of_eq h rfl rfl rfl rfl
    · exact handleAdditionalCases_inv e h

theorem handleSubmoduleLog_inv {cfg : Cfg} {m m' : M} {l : L} {b : Bool}
    (e : handleSubmoduleLog cfg m l = .ok (b, m')) (h : Inv m) : Inv m' := by
  unfold handleSubmoduleLog at e
  split at e
  · cases e; exact h
  · exact handleAdditionalCases_inv e h

theorem handleSubmoduleShort_inv {cfg : Cfg} {m m' : M} {l : L} {b : Bool}
    (e : handleSubmoduleShort cfg m l = .ok (b, m')) (h : Inv m) : Inv m' := by
  unfold handleSubmoduleShort at e
  split at e
  · cases e; exact h
  · split at e
    · cases e; exact h
    · split at e
      · cases e; exact inv_set_st h rfl rfl
      · cases e; exact (calm_direct _ (calm_emit (calm_flushMP h.order)) (by simp)).inv
      · cases e; exact h

theorem inv_emit {m : M} (h : Inv m) : Inv (emit m) := inv_of_eq h rfl rfl rfl rfl

theorem inv_flushMP {m : M} (h : Inv m) : Inv (flushMP m) := (calm_flushMP h.order).inv

theorem emitHunkHeader_calm {cfg : Cfg} {m m' : M} {hh : HunkHeader} {line raw : Str} {src : Nat}
    (e : emitHunkHeader cfg m hh line raw src = .ok m') (h : m.orderOk = true) : Calm m' ∧ m'.st = m.st := by
  unfold emitHunkHeader at e
  split at e
  · cases e
  · cases e
    exact ⟨calm_direct _ (calm_emit (calm_flushMP h)) (by simp), by simp⟩

theorem hunkLinePre_inv {cfg : Cfg} {m m' : M} (e : hunkLinePre cfg m = .ok m') (h : Inv m) :
    Inv m' ∧ m'.st = m.st := by
  unfold hunkLinePre at e
  simp only at e
  split at e
  · rename_i hst
    have ho : (if m.minus.length > cfg.bufSize ∨ m.plus.length > cfg.bufSize then flushMP m else m).orderOk = true := by
      split <;> simp [h.order]
    have hs : (if m.minus.length > cfg.bufSize ∨ m.plus.length > cfg.bufSize then flushMP m else m).st = m.st := by
      split <;> simp
    obtain ⟨c, hst'⟩ := emitHunkHeader_calm e ho
    exact ⟨c.inv, hst'.trans hs⟩
  · cases e
    split
    · exact ⟨inv_flushMP h, by simp⟩
    · exact ⟨h, rfl⟩

theorem hunkLinePush_inv {cfg : Cfg} {m m' : M} {l : L} (e : hunkLinePush cfg m l = .ok m') (h : Inv m) :
    Inv m' := by
  unfold hunkLinePush at e
  split at e
  · cases e
  · split at e
    · cases e
    · cases e
      refine inv_set_st (m := m) h ?_ rfl
      simp only; split <;> simp
  · split at e
    · cases e
    · cases e; exact inv_set_st h rfl rfl
  · split at e
    · cases e
    · cases e; exact inv_set_st (m := m) h (by simp) rfl
  · cases e; exact inv_set_st (m := m) h (by simp) rfl

theorem handleHunkLine_inv {cfg : Cfg} {m m' : M} {l : L} {b : Bool}
    (e : handleHunkLine cfg m l = .ok (b, m')) (h : Inv m) : Inv m' := by
  unfold handleHunkLine at e
  split at e
  · cases e; exact h
  · split at e
    · cases e
    · rename_i m2 e2
      split at e
      · cases e
      · rename_i m3 e3
        cases e
        exact inv_emit (hunkLinePush_inv e3 (hunkLinePre_inv e2 h).1)

theorem mcPaintOne_calm (cfg : Cfg) {m : M} (name : Option Str) (derived : List HLine)
    (c : Calm m) (hb : m.buf = []) : Calm (mcPaintOne cfg m name derived) ∧ (mcPaintOne cfg m name derived).buf = [] := by
  unfold mcPaintOne
  have c2 := calm_emit (calm_direct (mcHeaderRows cfg m name m.n) c hb)
  exact ⟨calm_emit (calm_of_eq c2 rfl rfl rfl), by simp⟩

theorem paintMergeConflict_calm (cfg : Cfg) {m : M} (mp : MergeParents) (c : Calm m) :
    Calm (paintMergeConflict cfg m mp) := by
  unfold paintMergeConflict
  have c1 := calm_direct [{ kind := RowKind.mcBar, text := cfg.mcBeginSymbol, src := m.n }] (calm_emit c) (by simp)
  have hb1 : (direct (emit m) [{ kind := RowKind.mcBar, text := cfg.mcBeginSymbol, src := m.n }]).buf = [] := by simp
  obtain ⟨c2, hb2⟩ := mcPaintOne_calm cfg
    (direct (emit m) [{ kind := RowKind.mcBar, text := cfg.mcBeginSymbol, src := m.n }]).mcNameOurs
    (direct (emit m) [{ kind := RowKind.mcBar, text := cfg.mcBeginSymbol, src := m.n }]).mcOurs c1 hb1
  obtain ⟨c3, hb3⟩ := mcPaintOne_calm cfg (mcPaintOne cfg _ _ _).mcNameTheirs (mcPaintOne cfg _ _ _).mcTheirs c2 hb2
  have c4 := calm_direct [{ kind := RowKind.mcBar, text := cfg.mcEndSymbol, src := m.n }] c3 hb3
  exact calm_of_eq c4 rfl rfl rfl

theorem calm_of_quiet {m : M} (h : Inv m) (q : quietState m.st = true) : Calm m :=
  ⟨h.order, (h.quiet q).1, (h.quiet q).2⟩

theorem storeLine_inv {cfg : Cfg} {m m' : M} {l : L} {c : MCCommit} {mp : MergeParents} {k : RowKind}
    (e : storeLine cfg m l c mp k = .ok m') (h : Inv m) : Inv m' := by
  unfold storeLine at e
  split at e
  · cases e
  · simp only at e
    split at e <;> (cases e; exact inv_of_eq h rfl rfl rfl rfl)

theorem enterAncestral_inv {m m' : M} {l : L} {mp : MergeParents} (e : enterAncestral m l mp = some m')
    (c : Calm m) : Inv m' := by
  unfold enterAncestral at e
  simp only [Option.map_eq_some_iff] at e
  obtain ⟨_, _, rfl⟩ := e
  exact Calm.inv (calm_of_eq c rfl rfl rfl)

theorem enterTheirs_inv {m m' : M} {l : L} {mp : MergeParents} (e : enterTheirs m l mp = some m')
    (c : Calm m) : Inv m' := by
  unfold enterTheirs at e
  split at e
  · cases e; exact Calm.inv (calm_of_eq c rfl rfl rfl)
  · cases e

theorem exitMergeConflict_inv {cfg : Cfg} {m m' : M} {l : L} {mp : MergeParents}
    (e : exitMergeConflict cfg m l mp = some m') (c : Calm m) : Inv m' := by
  unfold exitMergeConflict at e
  simp only [Option.map_eq_some_iff] at e
  obtain ⟨_, _, rfl⟩ := e
  refine Calm.inv (paintMergeConflict_calm cfg mp ?_)
  exact calm_of_eq c rfl rfl rfl

theorem storeOr_inv {o : Option M} {alt : Except String M} {b : Bool} {m' : M}
    (e : storeOr o alt = .ok (b, m')) (ho : ∀ x, o = some x → Inv x) (ha : ∀ x, alt = .ok x → Inv x) : Inv m' := by
  unfold storeOr at e
  split at e
  · cases e; exact ho _ rfl
  · split at e
    · cases e
    · cases e; exact ha _ rfl

theorem orElse_some {α : Type} {a b : Option α} {x : α} (h : (a <|> b) = some x) : a = some x ∨ b = some x := by
  cases a with
  | some v => left; simpa using h
  | none => right; simpa using h

theorem handleMergeConflict_inv {cfg : Cfg} {m m' : M} {l : L} {b : Bool}
    (e : handleMergeConflict cfg m l = .ok (b, m')) (h : Inv m) : Inv m' := by
  unfold handleMergeConflict at e
  split at e
  · cases e; exact h
  · split at e
    all_goals first
      | (split at e
         · cases e; exact Calm.inv (calm_of_eq (calm_flushMP h.order) rfl rfl rfl)
         · cases e; exact h)
      | (rename_i hst
         have c : Calm m := calm_of_quiet h (by rw [hst]; rfl)
         refine storeOr_inv e ?_ (fun x hx => storeLine_inv hx h)
         intro x hx
         first
           | (rcases orElse_some hx with h1 | h2
              · exact enterAncestral_inv h1 c
              · rcases orElse_some h2 with h3 | h4
                · exact enterTheirs_inv h3 c
                · exact exitMergeConflict_inv h4 c)
           | (rcases orElse_some hx with h3 | h4
              · exact enterTheirs_inv h3 c
              · exact exitMergeConflict_inv h4 c)
           | exact exitMergeConflict_inv hx c)
      | (cases e; exact h)

theorem handleGitShowFile_inv {cfg : Cfg} {m m' : M} {l : L} {b : Bool}
    (e : handleGitShowFile cfg m l = .ok (b, m')) (h : Inv m) : Inv m' := by
  unfold handleGitShowFile at e; cases e; exact inv_emit h

theorem handleBlame_inv {cfg : Cfg} {m m' : M} {l : L} {b : Bool}
    (e : handleBlame cfg m l = .ok (b, m')) (h : Inv m) : Inv m' := by
  unfold handleBlame at e
  simp only at e
  split at e
  · rename_i hc
    cases e
    have c : Calm m := calm_of_quiet h (by rcases hc.1 with h1 | h1 <;> (rw [h1]; rfl))
    exact Calm.inv (calm_of_eq (calm_direct _ (calm_emit c) (by simp)) rfl rfl rfl)
  · cases e; exact inv_emit h

theorem handleGrep_inv {cfg : Cfg} {m m' : M} {l : L} {b : Bool}
    (e : handleGrep cfg m l = .ok (b, m')) (h : Inv m) : Inv m' := by
  unfold handleGrep at e
  simp only at e
  split at e
  · rename_i hc
    have c : Calm m := calm_of_quiet h (by rcases hc.1 with h1 | h1 <;> (rw [h1]; rfl))
    split at e
    · cases e; exact inv_emit h
    · cases e
      exact Calm.inv (calm_of_eq (calm_direct _ (calm_emit c) (by simp)) rfl rfl rfl)
  · cases e; exact inv_emit h

theorem handleShouldSkip_inv {cfg : Cfg} {m m' : M} {l : L} {b : Bool}
    (e : handleShouldSkip cfg m l = .ok (b, m')) (h : Inv m) : Inv m' := by
  unfold handleShouldSkip at e
  split at e
  · cases e
  · cases e; exact h

theorem handleEmitUnchanged_inv {cfg : Cfg} {m m' : M} {l : L} {b : Bool}
    (e : handleEmitUnchanged cfg m l = .ok (b, m')) (h : Inv m) : Inv m' := by
  unfold handleEmitUnchanged at e; cases e; exact (calm_emitLineUnchanged l h.order).inv

/-- every handler of the model preserves the ordering invariant -/
theorem handlerOf_inv {name : String} {hd : Handler} (hn : handlerOf name = some hd)
    {cfg : Cfg} {m m' : M} {l : L} {b : Bool} (e : hd cfg m l = .ok (b, m')) (h : Inv m) : Inv m' := by
  unfold handlerOf at hn
  split at hn <;> first
    | (cases hn
       first
         | exact handleCommitMeta_inv e h | exact handleDiffStat_inv e h | exact handleDiffHeaderDiff_inv e h
         | exact handleFileOperation_inv e h | exact handleMinusLine_inv e h | exact handlePlusLine_inv e h
         | exact handleHunkHeader_inv e h | exact handleModeLine_inv e h | exact handleMisc_inv e h
         | exact handleSubmoduleLog_inv e h | exact handleSubmoduleShort_inv e h
         | exact handleMergeConflict_inv e h | exact handleHunkLine_inv e h | exact handleGitShowFile_inv e h
         | exact handleBlame_inv e h | exact handleGrep_inv e h | exact handleShouldSkip_inv e h
         | exact handleEmitUnchanged_inv e h)
    | cases hn

theorem chain_inv {cfg : Cfg} {l : L} : ∀ (names : List String) {m m' : M},
    chain cfg l names m = .ok m' → Inv m → Inv m'
  | [], m, m', e, h => by simp only [chain] at e; cases e; exact h
  | name :: rest, m, m', e, h => by
    simp only [chain] at e
    split at e
    · cases e
    · rename_i hd hn
      split at e
      · cases e
      · rename_i m1 e1
        cases e; exact handlerOf_inv hn e1 h
      · rename_i m1 e1
        exact chain_inv rest e (handlerOf_inv hn e1 h)

theorem stepInit_inv {m : M} (l : L) (h : Inv m) : Inv (stepInit m l) := by
  unfold stepInit armCounter
  repeat' split
  all_goals first | exact h | exact inv_of_eq h rfl rfl rfl rfl

theorem step_inv {cfg : Cfg} {m m' : M} {l : L} (e : step cfg m l = .ok m') (h : Inv m) : Inv m' := by
  unfold step at e
  split at e
  · cases e
  · rename_i m2 e2
    cases e
    exact inv_of_eq (chain_inv _ e2 (stepInit_inv l h)) rfl rfl rfl rfl

theorem runFrom_inv {cfg : Cfg} : ∀ (ls : List L) {m m' : M}, runFrom cfg m ls = .ok m' → Inv m → Inv m'
  | [], m, m', e, h => by simp only [runFrom] at e; cases e; exact h
  | l :: ls, m, m', e, h => by
    simp only [runFrom] at e
    split at e
    · cases e
    · rename_i m1 e1
      exact runFrom_inv ls e (step_inv e1 h)

theorem tailOp_order {cfg : Cfg} {m m' : M} {op : String} (e : tailOp cfg m op = .ok m')
    (h : m.orderOk = true) (hq : op = "handle_pending_line_with_diff_name" → m.minus = [] ∧ m.plus = []) :
    m'.orderOk = true ∧ (m.minus = [] ∧ m.plus = [] → m'.minus = [] ∧ m'.plus = []) := by
  unfold tailOp at e
  split at e
  · cases e; exact ⟨by simp [h], fun _ => by simp⟩
  · obtain ⟨hm, hp⟩ := hq rfl
    obtain ⟨c, _⟩ := pendingDiffName_calm cfg ⟨h, hm, hp⟩ e
    exact ⟨c.order, fun _ => ⟨c.minus, c.plus⟩⟩
  · cases e; exact ⟨by simp [h], fun q => by simpa using q⟩
  · cases e

/-- The tail of `consume`, in the statement order extracted from the source, keeps the order flag.
(Re-checked against `Generated.Markers.consumeTail` on every run.) -/
theorem finish_order {cfg : Cfg} {m m' : M} (e : finish cfg m = .ok m') (h : Inv m) : m'.orderOk = true := by
  unfold finish at e
  simp only [Generated.Markers.consumeTail, tailOps] at e
  split at e
  · cases e
  · rename_i m1 e1
    obtain ⟨o1, _⟩ := tailOp_order e1 h.order (by intro hh; exact absurd hh (by decide))
    have q1 : m1.minus = [] ∧ m1.plus = [] := by
      simp only [tailOp] at e1; cases e1; exact ⟨by simp, by simp⟩
    split at e
    · cases e
    · rename_i m2 e2
      obtain ⟨o2, k2⟩ := tailOp_order e2 o1 (fun _ => q1)
      split at e
      · cases e
      · rename_i m3 e3
        cases e
        exact (tailOp_order e3 o2 (by intro hh; exact absurd hh (by decide))).1

theorem inv_init : Inv ({} : M) := ⟨rfl, fun _ => ⟨rfl, rfl⟩⟩

/-- Whatever the input and the configuration: when the run completes, no row was written to the
output while an earlier row was still held back in the output buffer or the line buffers. -/
theorem run_order {cfg : Cfg} {ls : List L} {m : M} (e : run cfg ls = .ok m) : m.orderOk = true := by
  unfold run at e
  split at e
  · cases e
  · rename_i m1 e1
    exact finish_order e (runFrom_inv ls e1 inv_init)

end Machine
