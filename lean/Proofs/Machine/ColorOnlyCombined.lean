import Proofs.Machine.ColorOnlyText
/-!
`--color-only` with the presets it implies, *combined* diffs (`diff --cc`, `@@@ … @@@` hunks with any
number of parents) included: every row written shows the visible text of its input line unchanged.

In color-only mode `handle_merge_conflict_line` returns at once (`config.color_only`), so the lines
of a conflict region (`++<<<<<<<`, `++|||||||`, `++=======`, `++>>>>>>>` and what lies between) are
ordinary hunk lines of the combined diff and the state never carries `InMergeConflict::Yes`.

A hunk line of a combined diff with `n` parents is painted as `prefix ++ rest`, where `prefix` is
the longest run of whole characters that fits in the first `n` bytes of the line (`bytePrefix`) and
`rest` is obtained by removing `prefix.len()` (bytes!) *columns* (`prepare`): a byte slice when those
columns are ASCII, otherwise that many grapheme clusters. The two agree exactly when the prefix is
ASCII. A prefix is only used when it classifies the line (it contains `+` or `-`, or is all
blanks), so the condition is `ColsOK n l`: if the first `n` bytes of the line contain a `+` or a `-`
they are ASCII. It is monotone in `n`, the `n` of the machine never grows inside a file section
(`StB`: it starts as the number of `@` of the hunk header minus one and is afterwards the byte length
of the previous line's prefix), and it is vacuous for `n ≤ 2` (`ColsOK_two`: a non-ASCII character
takes at least two bytes). Hence: two-parent merges need no assumption at all; for `N ≥ 3` parents
the first `N` columns have to be what git writes there (`+`, `-`, blank).

Reuses `ColorOnly.lean` (`COInv`, `handlerOf_co`, `step_co`, `runFrom_co`: the count development is
already independent of the kind of git diff) and every per-handler text lemma of `ColorOnlyText.lean`
that does not assume a unified diff; new here: the diff line, the misc line, the hunk line, and the
state invariant `StB` through every handler.
-/
set_option linter.unusedSimpArgs false
set_option linter.unusedVariables false
namespace Machine
open Headers

def isAscii (c : Char) : Bool := decide (c.toNat < 128)
def isPM (c : Char) : Bool := c == '+' || c == '-'

theorem utf8Size_ascii {c : Char} (h : c.toNat < 128) : c.utf8Size = 1 := by
  unfold Char.utf8Size
  have : c.val.toNat < 128 := h
  have h2 : c.val ≤ 127 := by
    rw [UInt32.le_iff_toNat_le]; simp; omega
  simp [h2]

theorem utf8Size_nonascii {c : Char} (h : ¬ c.toNat < 128) : 2 ≤ c.utf8Size := by
  unfold Char.utf8Size
  have : ¬ c.val.toNat < 128 := h
  simp only
  split
  · rename_i h1
    rw [UInt32.le_iff_toNat_le] at h1; simp at h1; omega
  · split <;> try omega
    split <;> omega

theorem prefixBytes_foldl (p : Str) (a : Nat) :
    p.foldl (fun a c => a + c.utf8Size) a = a + prefixBytes p := by
  induction p generalizing a with
  | nil => simp [prefixBytes]
  | cons c cs ih =>
    simp only [prefixBytes, List.foldl_cons, Nat.zero_add]
    rw [ih, ih c.utf8Size]; unfold prefixBytes; omega

theorem prefixBytes_cons (c : Char) (cs : Str) : prefixBytes (c :: cs) = c.utf8Size + prefixBytes cs := by
  show (c :: cs).foldl _ 0 = _
  rw [List.foldl_cons, prefixBytes_foldl]; omega

@[simp] theorem prefixBytes_nil : prefixBytes [] = 0 := rfl

theorem prefixBytes_ascii {p : Str} (h : p.all isAscii = true) : prefixBytes p = p.length := by
  induction p with
  | nil => rfl
  | cons c cs ih =>
    simp only [List.all_cons, Bool.and_eq_true] at h
    rw [prefixBytes_cons, ih h.2, utf8Size_ascii (by simpa [isAscii] using h.1)]
    simp; omega

theorem prefixBytes_bytePrefix_le : ∀ (n : Nat) (s : Str), prefixBytes (bytePrefix n s) ≤ n
  | 0, s => by cases s <;> simp [bytePrefix]
  | n + 1, [] => by simp [bytePrefix]
  | n + 1, c :: cs => by
    unfold bytePrefix
    split
    · rw [prefixBytes_cons]
      have := prefixBytes_bytePrefix_le (n + 1 - c.utf8Size) cs
      omega
    · simp
termination_by n s => s.length

/-- `bytePrefix n s` is an initial segment of `s` -/
theorem bytePrefix_append : ∀ (n : Nat) (s : Str), bytePrefix n s ++ s.drop (bytePrefix n s).length = s
  | 0, s => by cases s <;> simp [bytePrefix]
  | n + 1, [] => by simp [bytePrefix]
  | n + 1, c :: cs => by
    unfold bytePrefix
    split
    · simp [bytePrefix_append (n + 1 - c.utf8Size) cs]
    · simp
termination_by n s => s.length

/-- a shorter byte budget gives an initial segment of the longer one -/
theorem bytePrefix_mono : ∀ (n N : Nat) (s : Str), n ≤ N → ∃ t, bytePrefix N s = bytePrefix n s ++ t
  | 0, N, s, _ => ⟨bytePrefix N s, by cases s <;> simp [bytePrefix]⟩
  | n + 1, 0, s, h => by omega
  | n + 1, N + 1, [], _ => ⟨[], by simp [bytePrefix]⟩
  | n + 1, N + 1, c :: cs, h => by
    unfold bytePrefix
    by_cases h1 : c.utf8Size ≤ n + 1
    · have h2 : c.utf8Size ≤ N + 1 := by omega
      simp only [h1, h2, if_true]
      obtain ⟨t, ht⟩ := bytePrefix_mono (n + 1 - c.utf8Size) (N + 1 - c.utf8Size) cs (by omega)
      exact ⟨t, by rw [ht]; simp⟩
    · simp only [h1, if_false]
      exact ⟨_, (List.nil_append _).symm⟩
termination_by n N s => s.length

/-- the prefix columns of a combined-diff line, for a byte budget `N`: if they contain a `+` or a `-`
they are ASCII -/
def ColsOK (N : Nat) (l : L) : Bool :=
  !((bytePrefix N l.text).any isPM) || (bytePrefix N l.text).all isAscii

theorem ColsOK.mono {n N : Nat} {l : L} (h : ColsOK N l = true) (hn : n ≤ N) : ColsOK n l = true := by
  obtain ⟨t, ht⟩ := bytePrefix_mono n N l.text hn
  unfold ColsOK at *
  rw [ht] at h
  simp only [List.any_append, List.all_append, Bool.or_eq_true, Bool.not_eq_true', Bool.or_eq_false_iff,
    Bool.and_eq_true] at h ⊢
  rcases h with h | h
  · exact Or.inl h.1
  · exact Or.inr h.1

/-- with at most two prefix columns nothing is assumed: a non-ASCII character takes at least two
bytes, so a prefix of two bytes that contains one contains nothing else -/
theorem ColsOK_two (l : L) {n : Nat} (hn : n ≤ 2) : ColsOK n l = true := by
  refine ColsOK.mono (N := 2) ?_ hn
  unfold ColsOK
  cases ht : l.text with
  | nil => simp [bytePrefix]
  | cons c cs =>
    by_cases hc : c.toNat < 128
    · have h1 := utf8Size_ascii hc
      cases cs with
      | nil => simp [bytePrefix, h1, isAscii, hc]
      | cons d ds =>
        by_cases hd : d.toNat < 128
        · have h2 := utf8Size_ascii hd
          simp [bytePrefix, h1, h2, isAscii, hc, hd]
        · have h2 := utf8Size_nonascii hd
          have : ¬ d.utf8Size ≤ 1 := by omega
          simp [bytePrefix, h1, this, isAscii, hc]
    · have h1 := utf8Size_nonascii hc
      by_cases h2 : c.utf8Size ≤ 2
      · have h3 : c.utf8Size = 2 := by omega
        have hpm : isPM c = false := by
          unfold isPM
          cases hq : (c == '+' || c == '-')
          · rfl
          · exfalso
            simp only [Bool.or_eq_true, beq_iff_eq] at hq
            rcases hq with rfl | rfl <;> exact hc (by decide)
        cases cs <;> simp [bytePrefix, h3, hpm]
      · simp [bytePrefix, h2]



theorem all_space_ascii {p : Str} (h : p.all (· = ' ') = true) : p.all isAscii = true := by
  rw [List.all_eq_true] at h ⊢
  intro c hc
  have := h c hc
  simp only [decide_eq_true_eq] at this
  subst this; decide

theorem find_pm_any {p : Str} {ch : Char} (h : p.find? (fun ch => ch = '-' ∨ ch = '+') = some ch) :
    p.any isPM = true := by
  have hm := List.mem_of_find?_eq_some h
  have hp := List.find?_some h
  rw [List.any_eq_true]
  refine ⟨ch, hm, ?_⟩
  simp only [decide_eq_true_eq] at hp
  unfold isPM
  rcases hp with rfl | rfl <;> decide

/-- with markers kept and tab width 0, a combined-diff hunk line whose prefix columns are ASCII is
painted as its own visible text: the prefix columns, then the rest -/
theorem classifyCombined_text {cfg : Cfg} (ps : Preset cfg) {l : L} {n : Nat} {k : LineKind} {dt : DiffType}
    (hc : ColsOK n l = true) (h : classifyCombined n false l = some (k, dt)) :
    ∃ pre, dt = .combined (.pre pre) false ∧ prefixBytes pre ≤ n ∧
      paintedPrefix cfg k dt ++ prepare cfg (prefixBytes pre) l = l.text := by
  have hle := prefixBytes_bytePrefix_le n l.text
  have happ := bytePrefix_append n l.text
  -- the prefix is ASCII whenever the line is classified
  have hasc : (bytePrefix n l.text).all isAscii = true := by
    unfold classifyCombined at h
    simp only at h
    cases hf : (bytePrefix n l.text).find? (fun ch => ch = '-' ∨ ch = '+') with
    | some ch =>
      have := find_pm_any hf
      unfold ColsOK at hc
      simpa [this] using hc
    | none =>
      simp only [hf] at h
      by_cases hs : (bytePrefix n l.text).all (· = ' ') = true
      · exact all_space_ascii hs
      · simp [hs] at h
  have hdt : dt = .combined (.pre (bytePrefix n l.text)) false := by
    unfold classifyCombined at h
    simp only at h
    split at h <;> first | (cases h; rfl) | cases h
  refine ⟨bytePrefix n l.text, hdt, hle, ?_⟩
  subst hdt
  have hpb := prefixBytes_ascii hasc
  rw [hpb]
  have hpp : paintedPrefix cfg k (.combined (.pre (bytePrefix n l.text)) false) = bytePrefix n l.text := rfl
  rw [hpp]
  generalize hq : bytePrefix n l.text = pre at *
  unfold prepare
  by_cases he : l.text = []
  · rw [he] at happ
    have : pre = [] := by
      cases pre with
      | nil => rfl
      | cons a as => simp at happ
    simp [he, this]
  · have hlen : pre.length ≤ l.text.length := by
      have := congrArg List.length happ
      simp at this; omega
    have htake : l.text.take pre.length = pre := by
      conv => lhs; rw [← happ]
      simp
    have hall : (l.text.take pre.length).all (fun c => decide (c.toNat < 128)) = true := by
      rw [htake]; exact hasc
    simp only [he, if_false, hlen, hall, and_self, if_true, Text.expand, ps.tab0]
    exact happ



-- state invariant -------------------------------------------------------------------

/-- a diff type as it occurs in color-only mode: never inside a conflict region, the number of
parents known and at most `N` -/
def DtB (N : Nat) : DiffType → Prop
  | .unified => True
  | .combined (.number n) c => c = false ∧ n ≤ N
  | .combined (.pre p) c => c = false ∧ prefixBytes p ≤ N
  | .combined .unknown _ => False

def StB (N : Nat) : State → Prop
  | .diffHeader dt => dt = .unified ∨ dt = .combined .unknown false
  | .hunkHeader dt .. | .hunkZero dt | .hunkMinus dt | .hunkPlus dt => DtB N dt
  | _ => True

/-- the `@` run that opens a hunk header announces at most `N` parents -/
def AtB (N : Nat) (l : L) : Bool := decide ((l.text.takeWhile (· = '@')).length - 1 ≤ N)

theorem StB_of_unif {N : Nat} {s : State} (h : Unif s) : StB N s := by
  cases s <;> simp_all [Unif, StB, DtB]

/-- what a handler does, as far as row texts go (no assumption on the kind of diff) -/
structure TS2 (l : L) (m m' : M) : Prop where
  n : m'.n = m.n
  rows : ∃ new, timeline m' = timeline m ++ new ∧ ∀ r ∈ new, NewOK l m r
  pendRaw : ∀ dt hh line raw src, m'.st = .hunkHeader dt hh line raw src →
      m.st = .hunkHeader dt hh line raw src ∨ (raw = l.raw ∧ src = m.n)

theorem TS.to2 {l : L} {m m' : M} (h : TS l m m') : TS2 l m m' := ⟨h.n, h.rows, h.pendRaw⟩

theorem TS2.refl (l : L) (m : M) : TS2 l m m := (TS.refl l m).to2

theorem TS2.quiet {l : L} {m m' : M} (hn : m'.n = m.n) (ht : timeline m' = timeline m)
    (hs : m'.st = m.st ∨ isHunkHeader m'.st = false) : TS2 l m m' := by
  refine ⟨hn, ⟨[], by simp [ht], by simp⟩, ?_⟩
  intro dt hh line raw src h
  rcases hs with h1 | h1
  · exact Or.inl (h1 ▸ h)
  · rw [h] at h1; simp [isHunkHeader] at h1

theorem TS2.row {l : L} {m m' : M} {row : Row} (hn : m'.n = m.n) (ht : timeline m' = timeline m ++ [row])
    (hsrc : row.src = m.n) (htx : row.text = l.raw ∨ row.text = l.text)
    (hs : m'.st = m.st ∨ isHunkHeader m'.st = false) : TS2 l m m' := by
  refine ⟨hn, ⟨[row], ht, ?_⟩, ?_⟩
  · intro r hr; simp at hr; subst hr; exact Or.inl ⟨hsrc, htx⟩
  · intro dt hh line raw src h
    rcases hs with h1 | h1
    · exact Or.inl (h1 ▸ h)
    · rw [h] at h1; simp [isHunkHeader] at h1

theorem NewOK.mono2 {l : L} {m m1 : M} {r : Row} (h1 : TS2 l m m1) (h : NewOK l m1 r) : NewOK l m r := by
  rcases h with ⟨hs, ht⟩ | ⟨dt, hh, line, raw, src, hst, hs, ht⟩
  · exact Or.inl ⟨hs.trans h1.n, ht⟩
  · rcases h1.pendRaw dt hh line raw src hst with h2 | ⟨h2, h3⟩
    · exact Or.inr ⟨dt, hh, line, raw, src, h2, hs, ht⟩
    · exact Or.inl ⟨hs.trans h3, Or.inl (ht.trans h2)⟩

theorem TS2.trans {l : L} {m m1 m' : M} (h1 : TS2 l m m1) (h2 : TS2 l m1 m') : TS2 l m m' := by
  obtain ⟨n1, t1, ok1⟩ := h1.rows
  obtain ⟨n2, t2, ok2⟩ := h2.rows
  refine ⟨h2.n.trans h1.n, ⟨n1 ++ n2, by rw [t2, t1, List.append_assoc], ?_⟩, ?_⟩
  · intro r hr
    rcases List.mem_append.mp hr with h | h
    · exact ok1 r h
    · exact (ok2 r h).mono2 h1
  · intro dt hh line raw src h
    rcases h2.pendRaw dt hh line raw src h with h3 | ⟨h3, h4⟩
    · exact h1.pendRaw dt hh line raw src h3
    · exact Or.inr ⟨h3, h4.trans h1.n⟩

-- the three handlers whose text lemma in `ColorOnlyText` assumes a unified diff ---------------

theorem handleDiffHeaderDiff_ts2 {cfg : Cfg} {m m' : M} {l : L} {b : Bool} (ps : Preset cfg)
    (hmi : m.modeInfo = []) (e : handleDiffHeaderDiff cfg m l = .ok (b, m')) : TS2 l m m' := by
  have hco := ps.nf.1
  unfold handleDiffHeaderDiff at e
  split at e
  · cases e; exact TS2.refl l m
  · have hmi' : ({ flushMP m with st := diffLineState l } : M).modeInfo = [] := (flushMP_modeInfo m).trans hmi
    rw [pendingDiffName_co hco hmi', shouldSkipLine_co _ hco] at e
    simp only [Bool.false_eq_true, if_false] at e
    cases e
    unfold emitLineUnchanged
    refine TS2.row (row := { kind := .raw, text := l.raw, src := (diffLineFields { flushMP m with st := diffLineState l } l).n })
      ?_ ?_ (flushMP_n m) (Or.inl rfl) (Or.inr ?_)
    · rw [direct_n, emit_n, flushMP_n]; exact flushMP_n m
    · rw [timeline_direct_flushed]
      exact congrArg (· ++ _) (timeline_flushMP m)
    · rw [direct_st, emit_st, flushMP_st]
      show isHunkHeader (diffLineState l) = false
      unfold diffLineState; split <;> rfl

theorem handleAdditionalCases_ts2 {cfg : Cfg} {m m' : M} {l : L} {b : Bool} {to : State} (ps : Preset cfg)
    (hst : getStyle cfg to = some cfg.fileStyle) (hq : isHunkHeader to = false)
    (e : handleAdditionalCases cfg m l to = .ok (b, m')) : TS2 l m m' := by
  unfold handleAdditionalCases at e
  have hsh : shouldHandle cfg ({ flushMP m with st := to } : M) = false :=
    shouldHandle_raw (st := cfg.fileStyle) hst ps.fileRaw ps.nf.2.2.1
  simp only [hsh, Bool.false_eq_true, if_false] at e
  cases e
  exact TS2.quiet (flushMP_n m) (timeline_flushMP m) (Or.inr hq)

theorem handleMisc_ts2 {cfg : Cfg} {m m' : M} {l : L} {b : Bool} (ps : Preset cfg)
    (e : handleMisc cfg m l = .ok (b, m')) : TS2 l m m' := by
  have hco := ps.nf.1
  unfold handleMisc at e
  simp only [hco, not_true_eq_false, false_and, if_false] at e
  split at e
  · cases e; exact TS2.refl l m
  · refine handleAdditionalCases_ts2 ps ?_ ?_ e
    · split
      · rename_i hd; cases hs : m.st <;> simp_all [isDiffHeader, getStyle]
      · rfl
    · split
      · rename_i hd
        cases hs : m.st <;> simp_all [isDiffHeader, isHunkHeader]
      · rfl



-- hunk lines --------------------------------------------------------------------------

theorem hunkDiffType_stb {N : Nat} {s : State} (hh : isHunkState s = true) (hb : StB N s) :
    Unif s ∨ ∃ n, n ≤ N ∧ hunkDiffType s = some (.combined (.number n) false) := by
  cases s with
  | hunkHeader dt hh' line raw src =>
    cases dt with
    | unified => exact Or.inl rfl
    | combined mp c =>
      cases mp with
      | number n => obtain ⟨rfl, hn⟩ := hb; exact Or.inr ⟨n, hn, rfl⟩
      | pre p => obtain ⟨rfl, hn⟩ := hb; exact Or.inr ⟨_, hn, rfl⟩
      | unknown => exact absurd hb (by simp [StB, DtB])
  | hunkZero dt =>
    cases dt with
    | unified => exact Or.inl rfl
    | combined mp c =>
      cases mp with
      | number n => obtain ⟨rfl, hn⟩ := hb; exact Or.inr ⟨n, hn, rfl⟩
      | pre p => obtain ⟨rfl, hn⟩ := hb; exact Or.inr ⟨_, hn, rfl⟩
      | unknown => exact absurd hb (by simp [StB, DtB])
  | hunkMinus dt =>
    cases dt with
    | unified => exact Or.inl rfl
    | combined mp c =>
      cases mp with
      | number n => obtain ⟨rfl, hn⟩ := hb; exact Or.inr ⟨n, hn, rfl⟩
      | pre p => obtain ⟨rfl, hn⟩ := hb; exact Or.inr ⟨_, hn, rfl⟩
      | unknown => exact absurd hb (by simp [StB, DtB])
  | hunkPlus dt =>
    cases dt with
    | unified => exact Or.inl rfl
    | combined mp c =>
      cases mp with
      | number n => obtain ⟨rfl, hn⟩ := hb; exact Or.inr ⟨n, hn, rfl⟩
      | pre p => obtain ⟨rfl, hn⟩ := hb; exact Or.inr ⟨_, hn, rfl⟩
      | unknown => exact absurd hb (by simp [StB, DtB])
  | _ => simp [isHunkState] at hh

theorem DtB_stateDiffType {N : Nat} {s : State} (hh : isHunkState s = true) (hb : StB N s) :
    DtB N (stateDiffType s) := by
  cases s <;> simp_all [isHunkState, stateDiffType, StB]

/-- the second part of `handle_hunk_line` under the presets, any kind of diff: one row, carrying the
raw line or the visible text of the line -/
theorem hunkLinePush_cb {cfg : Cfg} (ps : Preset cfg) {N : Nat} {m m' : M} {l : L} (hh : isHunkState m.st = true)
    (hb : StB N m.st) (hc : ColsOK N l = true) (hplus : isHunkPlus m.st = false → m.plus = [])
    (e : hunkLinePush cfg m l = .ok m') :
    (∃ r : Row, timeline m' = timeline m ++ [r] ∧ r.src = m.n ∧ (r.text = l.raw ∨ r.text = l.text)) ∧
      StB N m'.st ∧ isHunkHeader m'.st = false ∧ m'.n = m.n := by
  rcases hunkDiffType_stb hh hb with hu | ⟨n, hn, hdt⟩
  · obtain ⟨h1, h2, h3, h4⟩ := hunkLinePush_ps ps hh hu hplus e
    exact ⟨h1, StB_of_unif h2, h3, h4⟩
  · unfold hunkLinePush at e
    have hnl : newLineState m.st l = .ok (classifyCombined n false l) := by
      unfold newLineState; rw [hdt]
    rw [hnl] at e
    cases hcl : classifyCombined n false l with
    | none =>
      simp only [hcl] at e
      cases e
      refine ⟨⟨{ kind := .other, text := Text.expand cfg.tab l.raw, src := m.n }, ?_, rfl, Or.inl ?_⟩,
        DtB_stateDiffType hh hb, rfl, by simp⟩
      · rw [timeline_of_flushed m]; simp [timeline]
      · simp [Text.expand, ps.tab0]
    | some p =>
      obtain ⟨k, dt⟩ := p
      obtain ⟨px, hdt', hpb, htext⟩ := classifyCombined_text ps (ColsOK.mono hc hn) hcl
      subst hdt'
      have hst : ∀ s : State, (s = .hunkMinus (DiffType.combined (MergeParents.pre px) false) ∨ s = .hunkPlus (DiffType.combined (MergeParents.pre px) false) ∨
          s = .hunkZero (DiffType.combined (MergeParents.pre px) false)) → StB N s ∧ isHunkHeader s = false := by
        intro s hs
        rcases hs with rfl | rfl | rfl <;> exact ⟨⟨rfl, by omega⟩, rfl⟩
      simp only [hcl, nParents] at e
      cases k with
      | minus =>
        simp only at e
        cases e
        cases hpl : isHunkPlus m.st
        · have hp0 := hplus hpl
          simp only [Bool.false_eq_true, if_false]
          refine ⟨⟨HLine.row { kind := .minus, pre := paintedPrefix cfg .minus (DiffType.combined (MergeParents.pre px) false), text := prepare cfg (prefixBytes px) l, src := m.n }, ?_, rfl, Or.inr htext⟩,
            (hst _ (Or.inl rfl)).1, (hst _ (Or.inl rfl)).2, by first | rfl | trivial | simp⟩
          simp [timeline, hp0]
        · simp only [if_true]
          refine ⟨⟨HLine.row { kind := .minus, pre := paintedPrefix cfg .minus (DiffType.combined (MergeParents.pre px) false), text := prepare cfg (prefixBytes px) l, src := m.n }, ?_, rfl, Or.inr htext⟩,
            (hst _ (Or.inl rfl)).1, (hst _ (Or.inl rfl)).2, by first | rfl | trivial | simp⟩
          rw [timeline_of_flushed m]; simp [timeline]
      | plus =>
        simp only at e
        cases e
        refine ⟨⟨HLine.row { kind := .plus, pre := paintedPrefix cfg .plus (DiffType.combined (MergeParents.pre px) false), text := prepare cfg (prefixBytes px) l, src := m.n }, ?_, rfl, Or.inr htext⟩,
          (hst _ (Or.inr (Or.inl rfl))).1, (hst _ (Or.inr (Or.inl rfl))).2, by first | rfl | trivial | simp⟩
        simp [timeline]
      | zero =>
        simp only at e
        cases e
        refine ⟨⟨{ kind := .zero, text := paintedPrefix cfg .zero (DiffType.combined (MergeParents.pre px) false) ++ prepare cfg (prefixBytes px) l, src := m.n }, ?_, rfl, Or.inr htext⟩,
          (hst _ (Or.inr (Or.inr rfl))).1, (hst _ (Or.inr (Or.inr rfl))).2, by first | rfl | trivial | simp⟩
        rw [timeline_of_flushed m]; simp [timeline]

theorem handleHunkLine_ts2 {cfg : Cfg} {m m' : M} {l : L} {b : Bool} (ps : Preset cfg) {N : Nat} (g : Good m)
    (hb : StB N m.st) (hc : ColsOK N l = true) (e : handleHunkLine cfg m l = .ok (b, m')) :
    TS2 l m m' ∧ StB N m'.st := by
  unfold handleHunkLine at e
  split at e
  · cases e; exact ⟨TS2.refl l m, hb⟩
  · rename_i hst
    have hs' : isHunkState m.st = true := by simpa using hst
    split at e
    · cases e
    · rename_i m2 e2
      split at e
      · cases e
      · rename_i m3 e3
        cases e
        obtain ⟨⟨pre, htl2, hpre⟩, hst2, hn2⟩ := hunkLinePre_ps (l := l) ps e2
        obtain ⟨r2, _, hhdr, _, _⟩ := hunkLinePre_spec e2 g
        have hplus : isHunkPlus m2.st = false → m2.plus = [] := by
          intro hnp
          rw [hst2] at hnp
          rcases isHunkState_cases hs' with h | ⟨dt, h⟩ | ⟨dt, h⟩ | ⟨dt, h⟩
          · exact (hhdr h).2
          · have := (g.quiet (by rw [h]; rfl)).2
            rcases r2.shrink.2 with s | s <;> simp [s, this]
          · have := g.noPlus (by rw [h]; rfl)
            rcases r2.shrink.2 with s | s <;> simp [s, this]
          · rw [h] at hnp; simp [isHunkPlus] at hnp
        obtain ⟨⟨r, htl3, hrsrc, hrtx⟩, hb3, hnh3, hn3⟩ :=
          hunkLinePush_cb ps (by rw [hst2]; exact hs') (by rw [hst2]; exact hb) hc hplus e3
        refine ⟨⟨by rw [emit_n, hn3, hn2], ⟨pre ++ [r], ?_, ?_⟩, ?_⟩, hb3⟩
        · rw [timeline_emit, htl3, htl2, List.append_assoc]
        · intro x hx
          rcases List.mem_append.mp hx with h | h
          · exact hpre x h
          · simp at h; subst h
            exact Or.inl ⟨hrsrc.trans hn2, hrtx⟩
        · intro dt hh line raw src h
          rw [emit_st] at h; rw [h] at hnh3; simp [isHunkHeader] at hnh3



-- the state invariant through every handler -------------------------------------------

theorem StB_diffLineState (N : Nat) (l : L) : StB N (diffLineState l) := by
  unfold diffLineState; split
  · exact Or.inr rfl
  · exact Or.inl rfl

theorem DtB_hunkHeaderDiffType {N : Nat} {m : M} {l : L} (ha : AtB N l = true) (hb : StB N m.st) :
    DtB N (hunkHeaderDiffType m l) := by
  have ha' : (l.text.takeWhile (· = '@')).length - 1 ≤ N := by simpa [AtB] using ha
  unfold hunkHeaderDiffType
  split
  · exact ⟨rfl, ha'⟩
  · rename_i dt hne hs
    rw [hs] at hb
    rcases hb with rfl | rfl
    · trivial
    · exact (hne rfl).elim
  · rename_i dt hs; rw [hs] at hb; exact hb
  · rename_i dt hs; rw [hs] at hb; exact hb
  · rename_i dt hs; rw [hs] at hb; exact hb
  · trivial

theorem handleAdditionalCases_st {cfg : Cfg} {m m' : M} {l : L} {b : Bool} {to : State}
    (e : handleAdditionalCases cfg m l to = .ok (b, m')) : m'.st = to := by
  unfold handleAdditionalCases at e
  split at e <;> (cases e; simp)

theorem handlerOf_stb {name : String} {hd : Handler} (hn : handlerOf name = some hd)
    {cfg : Cfg} {m m' : M} {l : L} {b : Bool} (ps : Preset cfg) {N : Nat} (inv : COInv m) (g : Good m)
    (ha : AtB N l = true) (hc : ColsOK N l = true) (hb : StB N m.st) (e : hd cfg m l = .ok (b, m')) :
    StB N m'.st := by
  have hco := ps.nf.1
  unfold handlerOf at hn
  split at hn <;> cases hn
  · -- commit meta
    unfold handleCommitMeta at e
    split at e
    · cases e; exact hb
    · have hmi : (flushMP m).modeInfo = [] := by simp [inv.mode]
      rw [pendingDiffName_co hco hmi] at e
      split at e
      · split at e <;> (cases e; simp [StB])
      · cases e; simp [StB]
  · unfold handleDiffStat at e; cases e; exact hb
  · -- diff line
    unfold handleDiffHeaderDiff at e
    split at e
    · cases e; exact hb
    · have hmi : ({ flushMP m with st := diffLineState l } : M).modeInfo = [] := (flushMP_modeInfo m).trans inv.mode
      rw [pendingDiffName_co hco hmi, shouldSkipLine_co _ hco] at e
      simp only [Bool.false_eq_true, if_false] at e
      cases e
      rw [emitLineUnchanged_st]
      exact StB_diffLineState N l
  · -- file operation
    unfold handleFileOperation at e
    split at e
    · cases e; exact hb
    · unfold fileOpFinish at e
      simp only [shouldWriteGeneric_fst hco, if_true] at e
      obtain ⟨rfl, rfl⟩ := ok_pair e
      unfold shouldWriteGeneric
      simp only [hco, if_true]
      rw [writeGeneric_st, emit_st, flushMP_st]
      unfold fileOpUpdate; split <;> exact hb
  · -- minus line
    unfold handleMinusLine at e
    split at e
    · cases e; exact hb
    · simp only at e
      have hsrc : (m.source = Source.diffUnified) = False := by simp [inv.source]
      simp only [hsrc, if_false] at e
      obtain ⟨rfl, rfl⟩ := ok_pair e
      unfold shouldWriteGeneric
      simp only [hco, if_true]
      simp only [writeGeneric_st, emit_st, flushMP_st]; exact hb
  · -- plus line
    unfold handlePlusLine at e
    split at e
    · cases e; exact hb
    · simp only at e
      unfold plusLineFinish at e
      simp only [shouldWriteGeneric_fst hco, if_true] at e
      obtain ⟨rfl, rfl⟩ := ok_pair e
      unfold shouldWriteGeneric
      simp only [hco, if_true]
      simp only [writeGeneric_st, emit_st, flushMP_st]; exact hb
  · -- hunk header
    unfold handleHunkHeader at e
    split at e
    · cases e; exact hb
    · split at e
      · cases e; exact hb
      · cases e; exact DtB_hunkHeaderDiffType ha hb
  · -- mode line
    unfold handleModeLine at e
    simp only [hco, not_true_eq_false, and_false, false_and, if_false] at e
    split at e
    · cases e; exact Or.inl rfl
    · split at e
      · cases e; exact Or.inl rfl
      · cases e; exact hb
  · -- misc
    unfold handleMisc at e
    simp only [hco, not_true_eq_false, false_and, if_false] at e
    split at e
    · cases e; exact hb
    · rw [handleAdditionalCases_st e]
      split
      · exact hb
      · exact Or.inl rfl
  · -- submodule log
    unfold handleSubmoduleLog at e
    split at e
    · cases e; exact hb
    · rw [handleAdditionalCases_st e]; trivial
  · unfold handleSubmoduleShort at e
    simp only [hco, Bool.or_true, if_true] at e
    cases e; exact hb
  · unfold handleMergeConflict at e
    simp only [hco, true_or, if_true] at e
    cases e; exact hb
  · exact (handleHunkLine_ts2 ps g hb hc e).2
  · unfold handleGitShowFile at e; cases e; exact hb
  · unfold handleBlame at e
    simp only at e
    split at e <;> (cases e; first | exact hb | simp [StB])
  · unfold handleGrep at e
    simp only at e
    split at e
    · split at e <;> (cases e; first | exact hb | simp [StB])
    · cases e; exact hb
  · unfold handleShouldSkip at e; cases e; exact hb
  · unfold handleEmitUnchanged at e; cases e; rw [emitLineUnchanged_st]; exact hb



-- chain, step, run ------------------------------------------------------------------------

theorem handlerOf_ts2 {name : String} {hd : Handler} (hn : handlerOf name = some hd)
    {cfg : Cfg} {m m' : M} {l : L} {b : Bool} (ps : Preset cfg) {N : Nat} (inv : COInv m) (g : Good m)
    (hb : StB N m.st) (hg : l.grep ≠ 2) (hc : ColsOK N l = true) (e : hd cfg m l = .ok (b, m')) : TS2 l m m' := by
  unfold handlerOf at hn
  split at hn <;> first
    | (cases hn
       first
         | exact (handleCommitMeta_ts ps inv e).to2 | exact (handleDiffStat_ts e).to2
         | exact handleDiffHeaderDiff_ts2 ps inv.mode e | exact (handleFileOperation_ts ps e).to2
         | exact (handleMinusLine_ts ps inv e).to2 | exact (handlePlusLine_ts ps e).to2
         | exact (handleHunkHeader_ts e).to2 | exact (handleModeLine_ts ps e).to2
         | exact handleMisc_ts2 ps e | exact (handleSubmoduleLog_ts ps inv.mode e).to2
         | exact (handleSubmoduleShort_ts ps e).to2 | exact (handleMergeConflict_ts ps e).to2
         | exact (handleHunkLine_ts2 ps g hb hc e).1 | exact (handleGitShowFile_ts e).to2
         | exact (handleBlame_ts g e).to2 | exact (handleGrep_ts g hg e).to2
         | exact (handleShouldSkip_ts e).to2 | exact (handleEmitUnchanged_ts e).to2)
    | cases hn

theorem chain_ts2 {cfg : Cfg} {l : L} (ps : Preset cfg) {N : Nat} (hg : l.grep ≠ 2) (ha : AtB N l = true)
    (hc : ColsOK N l = true) :
    ∀ (names : List String) {m m' : M}, chain cfg l names m = .ok m' → COInv m → Good m → StB N m.st →
    (pend m = [] ∨ (HunkBody l ∧ safeOrder names = true)) → TS2 l m m' ∧ StB N m'.st
  | [], m, m', e, _, _, hb, _ => by simp only [chain] at e; cases e; exact ⟨TS2.refl l m, hb⟩
  | name :: rest, m, m', e, inv, g, hb, hp => by
    simp only [chain] at e
    split at e
    · cases e
    · rename_i hd hn
      have hp1 : pend m = [] ∨ HunkBody l := hp.imp id (·.1)
      have hne : name = "emit_line_unchanged" → pend m = [] := by
        intro hname
        rcases hp with h | ⟨_, h⟩
        · exact h
        · subst hname; simp [safeOrder] at h
      split at e
      · cases e
      · rename_i m1 e1
        cases e; exact ⟨handlerOf_ts2 hn ps inv g hb hg hc e1, handlerOf_stb hn ps inv g ha hc hb e1⟩
      · rename_i m1 e1
        have t1 := handlerOf_ts2 hn ps inv g hb hg hc e1
        have b1 := handlerOf_stb hn ps inv g ha hc hb e1
        have c1 := handlerOf_co hn ps.nf inv g hg hp1 hne e1
        have g1 := (handlerOf_step hn e1 g).good
        have hp' : pend m1 = [] ∨ (HunkBody l ∧ safeOrder rest = true) := by
          rcases hp with h | ⟨hb, h⟩
          · exact Or.inl ((c1.passed rfl).2.trans h)
          · by_cases hpm : pend m = []
            · exact Or.inl ((c1.passed rfl).2.trans hpm)
            · refine Or.inr ⟨hb, ?_⟩
              unfold safeOrder at h
              split at h
              · rename_i hname
                exfalso
                subst hname
                simp only [handlerOf, Option.some.injEq] at hn
                subst hn
                rcases handleHunkLine_spec e1 g with ⟨_, _, hs⟩ | ⟨hb', _, _⟩
                · rw [hunkState_of_hh (hh_of_pend hpm)] at hs; cases hs
                · cases hb'
              · split at h
                · cases h
                · exact h
        obtain ⟨t2, b2⟩ := chain_ts2 ps hg ha hc rest e c1.inv g1 b1 hp'
        exact ⟨t1.trans t2, b2⟩

theorem step_ts2 {cfg : Cfg} {m m' : M} {l : L} (ps : Preset cfg) {N : Nat} (inv : COInv m) (g : Good m)
    (hb : StB N m.st) (hg : l.grep ≠ 2) (ha : AtB N l = true) (hc : ColsOK N l = true)
    (hp : pend m = [] ∨ HunkBody l) (e : step cfg m l = .ok m') :
    (∃ new, timeline m' = timeline m ++ new ∧ ∀ r ∈ new, NewOK l m r) ∧ StB N m'.st ∧
      (∀ dt hh line raw src, m'.st = .hunkHeader dt hh line raw src →
        m.st = .hunkHeader dt hh line raw src ∨ (raw = l.raw ∧ src = m.n)) := by
  unfold step at e
  have hinit : stepInit m l = m := by unfold stepInit; simp [inv.source]
  rw [hinit] at e
  split at e
  · cases e
  · rename_i m2 e2
    cases e
    obtain ⟨t, b⟩ := chain_ts2 ps hg ha hc _ e2 inv g hb (hp.imp id (fun h => ⟨h, safeOrder_generated⟩))
    exact ⟨t.rows, b, t.pendRaw⟩

/-- invariant over a run: every row on the timeline is `TxRow`, a pending header carries the raw
text of its line, the state is one of color-only mode -/
structure TXB (N : Nat) (all : List L) (m : M) : Prop where
  rows : ∀ r ∈ timeline m, TxRow all r
  pend : ∀ dt hh line raw src, m.st = .hunkHeader dt hh line raw src → ∃ l, all[src]? = some l ∧ raw = l.raw
  stb : StB N m.st

theorem runFrom_txb {cfg : Cfg} (ps : Preset cfg) {N : Nat} (all : List L) : ∀ (ls : List L) {m m' : M} {p : Bool},
    runFrom cfg m ls = .ok m' → COInv m → Good m → TXB N all m →
    (∀ i l, ls[i]? = some l → all[m.n + i]? = some l) →
    (∀ l ∈ ls, l.grep ≠ 2 ∧ AtB N l = true ∧ ColsOK N l = true) → (pend m = [] ∨ p = true) → Followed p ls →
    TXB N all m'
  | [], m, m', p, e, _, _, tx, _, _, _, _ => by simp only [runFrom] at e; cases e; exact tx
  | l :: ls, m, m', p, e, inv, g, tx, hidx, hl, hp, hf => by
    simp only [runFrom] at e
    split at e
    · cases e
    · rename_i m1 e1
      obtain ⟨hbody, hrest⟩ := hf
      obtain ⟨hg, ha, hc⟩ := hl l (List.mem_cons_self ..)
      have hp1 : pend m = [] ∨ HunkBody l := hp.imp id hbody
      have hcur : all[m.n]? = some l := by simpa using hidx 0 l rfl
      obtain ⟨inv1, g1, _, hn1, hfresh⟩ := step_co ps.nf inv g hg hp1 e1
      obtain ⟨⟨new, htl, hnew⟩, hb1, hpend1⟩ := step_ts2 ps inv g tx.stb hg ha hc hp1 e1
      have tx1 : TXB N all m1 := by
        refine ⟨?_, ?_, hb1⟩
        · intro r hr
          rw [htl] at hr
          rcases List.mem_append.mp hr with h | h
          · exact tx.rows r h
          · rcases hnew r h with ⟨hs, ht⟩ | ⟨dt, hh, line, raw, src, hst, hs, ht⟩
            · exact ⟨l, by rw [hs]; exact hcur, ht⟩
            · obtain ⟨l0, h0, hraw⟩ := tx.pend dt hh line raw src hst
              exact ⟨l0, by rw [hs]; exact h0, Or.inl (ht.trans hraw)⟩
        · intro dt hh line raw src hst
          rcases hpend1 dt hh line raw src hst with h | ⟨h1, h2⟩
          · exact tx.pend dt hh line raw src h
          · exact ⟨l, by rw [h2]; exact hcur, h1⟩
      refine runFrom_txb ps all ls e inv1 g1 tx1 ?_ (fun x hx => hl x (List.mem_cons_of_mem _ hx)) hfresh hrest
      intro i x hx
      have := hidx (i + 1) x (by simpa using hx)
      rw [hn1]; rw [show m.n + 1 + i = m.n + (i + 1) by omega]; exact this

/-- **`--color-only` preserves the text of every line, combined diffs included** (presets in force,
git input): if no hunk header announces more than `N` parents and the first `N` bytes of every line,
when they contain a `+` or a `-`, are ASCII, every row of delta's output carries the raw line or the
visible text of the input line it is stamped with. -/
theorem run_color_only_text_combined {cfg : Cfg} (ps : Preset cfg) (N : Nat) {d : L} {ls : List L} {m : M}
    (hd : detectSource d.text = .gitDiff)
    (hl : ∀ l ∈ d :: ls, l.grep ≠ 2 ∧ AtB N l = true ∧ ColsOK N l = true)
    (hf : Followed false (d :: ls)) (e : run cfg (d :: ls) = .ok m) :
    ∀ r ∈ m.out, TxRow (d :: ls) r := by
  have hout := (run_spec e).2
  unfold run at e
  split at e
  · cases e
  · rename_i m1 e1
    have hsame : (timeline (stepInit ({} : M) d) = [] ∧ (stepInit ({} : M) d).st = .unknown ∧
        (stepInit ({} : M) d).modeInfo = [] ∧ (stepInit ({} : M) d).n = 0) ∧
        (stepInit ({} : M) d).source = .gitDiff ∧
        (stepInit ({} : M) d).minus = [] ∧ (stepInit ({} : M) d).plus = [] ∧ (stepInit ({} : M) d).orderOk = true := by
      unfold stepInit armCounter
      simp only [hd, if_true]
      split
      · split <;> exact ⟨⟨rfl, rfl, rfl, rfl⟩, rfl, rfl, rfl, rfl⟩
      · split <;> exact ⟨⟨rfl, rfl, rfl, rfl⟩, rfl, rfl, rfl, rfl⟩
    obtain ⟨⟨htl0, hst0, hmode0, hn0⟩, hsrc0, hmin0, hpl0, hord0⟩ := hsame
    have hidem : stepInit (stepInit ({} : M) d) d = stepInit ({} : M) d := by
      generalize stepInit ({} : M) d = x at hsrc0
      unfold stepInit; simp [hsrc0]
    have hfirst : runFrom cfg (stepInit ({} : M) d) (d :: ls) = .ok m1 := by
      simp only [runFrom, step] at e1 ⊢
      rw [hidem]; exact e1
    have inv0 : COInv (stepInit ({} : M) d) :=
      ⟨hmode0, hsrc0, fun dt hh line raw src h => by rw [hst0] at h; cases h⟩
    have g0 : Good (stepInit ({} : M) d) := ⟨hord0, fun _ => ⟨hmin0, hpl0⟩, fun _ => hpl0⟩
    have hp00 : pend (stepInit ({} : M) d) = [] := by unfold pend; rw [hst0]
    have tx0 : TXB N (d :: ls) (stepInit ({} : M) d) := by
      refine ⟨?_, ?_, ?_⟩
      · rw [htl0]; simp
      · intro dt hh line raw src h; rw [hst0] at h; cases h
      · rw [hst0]; trivial
    have tx1 := runFrom_txb ps (d :: ls) (d :: ls) hfirst inv0 g0 tx0 (by intro i l h; rw [hn0]; simpa using h) hl
      (Or.inl hp00) hf
    obtain ⟨inv1, _, _, _⟩ := runFrom_co ps.nf (d :: ls) hfirst inv0 g0 (fun l h => (hl l h).1) (Or.inl hp00) hf
    have htl : timeline m = timeline m1 := tailOps_co ps.nf.1 _ e inv1.mode
    intro r hr
    rw [← hout, htl] at hr
    exact tx1.rows r hr

/-- two parents (every hunk header has at most three `@`): no assumption on the prefix columns -/
theorem run_color_only_text_two_parents {cfg : Cfg} (ps : Preset cfg) {d : L} {ls : List L} {m : M}
    (hd : detectSource d.text = .gitDiff) (hl : ∀ l ∈ d :: ls, l.grep ≠ 2 ∧ AtB 2 l = true)
    (hf : Followed false (d :: ls)) (e : run cfg (d :: ls) = .ok m) :
    ∀ r ∈ m.out, TxRow (d :: ls) r :=
  run_color_only_text_combined ps 2 hd (fun l h => ⟨(hl l h).1, (hl l h).2, ColsOK_two l (Nat.le_refl 2)⟩) hf e

-- a Boolean form of `Followed`, for `decide` on concrete inputs ------------------------------

def hunkBodyB (l : L) : Bool := !l.commitRe && l.text.head?.all bodyChar

def followedB : Bool → List L → Bool
  | p, [] => !p
  | p, l :: rest => (!p || hunkBodyB l) && followedB (isHH l) rest

theorem Followed_of_B : ∀ (ls : List L) (p : Bool), followedB p ls = true → Followed p ls
  | [], p, h => by cases p <;> simp_all [followedB, Followed]
  | l :: rest, p, h => by
    simp only [followedB, Bool.and_eq_true, Bool.or_eq_true, Bool.not_eq_true'] at h
    refine ⟨fun hp => ?_, Followed_of_B rest _ h.2⟩
    rcases h.1 with h1 | h1
    · rw [hp] at h1; cases h1
    · simpa [hunkBodyB, HunkBody] using h1

end Machine
