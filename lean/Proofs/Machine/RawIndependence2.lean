import Proofs.Machine.RawIndependence
import Proofs.Machine.Frame
/-!
Noninterference in `raw_line`, part 2: every handler of the chain maps related machines (`MRel`) and
related lines (`LRel`) to related results — same `handled` answer, same error, related machines.
-/
set_option linter.unusedVariables false
set_option linter.unusedSimpArgs false
namespace Machine
open Headers Generated

section
variable {ρ ρ' : Nat → Str}

/-- results of a `(handled, machine)` pair -/
def PRel (ρ ρ' : Nat → Str) (tab : Nat) (p p' : Bool × M) : Prop := p'.1 = p.1 ∧ MRel ρ ρ' tab p.2 p'.2

/-- results of a handler -/
abbrev HRel (ρ ρ' : Nat → Str) (tab : Nat) := ERel (PRel ρ ρ' tab)

theorem Agree.exists_raw {l l' : L} (h : Agree l l') : ∃ r', l' = { l with raw := r' } := by
  obtain ⟨a, b, c, d, e, f⟩ := h
  cases l; cases l'
  simp only at a b c d e f
  subst a b c d e f
  exact ⟨_, rfl⟩

theorem MRel.appendBuf {tab : Nat} {m m' : M} (h : MRel ρ ρ' tab m m') {rows rows' : List Row}
    (hr : RowsRel ρ ρ' tab rows rows') :
    MRel ρ ρ' tab { m with buf := m.buf ++ rows } { m' with buf := m'.buf ++ rows' } := by
  obtain ⟨s', b', o', hs, hb, ho, rfl⟩ := h
  exact ⟨s', b' ++ rows', o', hs, hb.append hr, ho, rfl⟩

@[simp] theorem handleHeaderLine_n (cfg : Cfg) (m : M) (c : Bool) : (handleHeaderLine cfg m c).n = m.n := by
  unfold handleHeaderLine; simp

@[simp] theorem pendingDiffName_n (cfg : Cfg) (m : M) : (pendingDiffName cfg m).n = m.n := by
  unfold pendingDiffName
  repeat' split
  all_goals simp

variable {cfg : Cfg} {m m' : M} {l l' : L}

theorem HRel.ok {tab : Nat} {b : Bool} {a a' : M} (h : MRel ρ ρ' tab a a') :
    HRel ρ ρ' tab (.ok (b, a)) (.ok (b, a')) := ⟨rfl, h⟩

theorem PRel.mk' {tab : Nat} {b : Bool} {a a' : M} (h : MRel ρ ρ' tab a a') : PRel ρ ρ' tab (b, a) (b, a') := ⟨rfl, h⟩

theorem ERel.ok {α : Type} {R : α → α → Prop} {a a' : α} (h : R a a') : ERel R (.ok a) (.ok a') := h

-- setters: the same update of fields other than `st`, `buf`, `out` on both sides ---------------------

theorem MRel.setHandled {tab : Nat} {a a' : M} (h : MRel ρ ρ' tab a a') :
    MRel ρ ρ' tab { a with handledPair := a.currentPair } { a' with handledPair := a'.currentPair } :=
  h.upd (fun x => { x with handledPair := x.currentPair }) (fun _ _ _ _ => rfl)

theorem MRel.setFiles {tab : Nat} {a a' : M} (h : MRel ρ ρ' tab a a') (f g : Str) :
    MRel ρ ρ' tab { a with minusFile := f, plusFile := g } { a' with minusFile := f, plusFile := g } :=
  h.upd (fun x => { x with minusFile := f, plusFile := g }) (fun _ _ _ _ => rfl)

theorem MRel.setModeInfo {tab : Nat} {a a' : M} (h : MRel ρ ρ' tab a a') (f : Str) :
    MRel ρ ρ' tab { a with modeInfo := f } { a' with modeInfo := f } :=
  h.upd (fun x => { x with modeInfo := f }) (fun _ _ _ _ => rfl)

theorem MRel.setCounter {tab : Nat} {a a' : M} (h : MRel ρ ρ' tab a a') (c : Int) :
    MRel ρ ρ' tab { a with counter := c } { a' with counter := c } :=
  h.upd (fun x => { x with counter := c }) (fun _ _ _ _ => rfl)

theorem MRel.setMinusSide {tab : Nat} {a a' : M} (h : MRel ρ ρ' tab a a') (f : Str) (e : FileEvent)
    (hp : Option (Str × Str)) :
    MRel ρ ρ' tab { a with minusFile := f, minusEvent := e, handledPair := hp }
      { a' with minusFile := f, minusEvent := e, handledPair := hp } :=
  h.upd (fun x => { x with minusFile := f, minusEvent := e, handledPair := hp }) (fun _ _ _ _ => rfl)

theorem MRel.setPlusSide {tab : Nat} {a a' : M} (h : MRel ρ ρ' tab a a') (f : Str) (e : FileEvent)
    (cp : Option (Str × Str)) :
    MRel ρ ρ' tab { a with plusFile := f, plusEvent := e, currentPair := cp }
      { a' with plusFile := f, plusEvent := e, currentPair := cp } :=
  h.upd (fun x => { x with plusFile := f, plusEvent := e, currentPair := cp }) (fun _ _ _ _ => rfl)

theorem MRel.setMcNames {tab : Nat} {a a' : M} (h : MRel ρ ρ' tab a a') (o n : Option Str) :
    MRel ρ ρ' tab { a with mcNameOurs := o, mcNameAnc := n } { a' with mcNameOurs := o, mcNameAnc := n } :=
  h.upd (fun x => { x with mcNameOurs := o, mcNameAnc := n }) (fun _ _ _ _ => rfl)

theorem MRel.setMcNameAnc {tab : Nat} {a a' : M} (h : MRel ρ ρ' tab a a') (n : Option Str) :
    MRel ρ ρ' tab { a with mcNameAnc := n } { a' with mcNameAnc := n } :=
  h.upd (fun x => { x with mcNameAnc := n }) (fun _ _ _ _ => rfl)

theorem MRel.setMcNameTheirs {tab : Nat} {a a' : M} (h : MRel ρ ρ' tab a a') (n : Option Str) :
    MRel ρ ρ' tab { a with mcNameTheirs := n } { a' with mcNameTheirs := n } :=
  h.upd (fun x => { x with mcNameTheirs := n }) (fun _ _ _ _ => rfl)

theorem MRel.setMcOurs {tab : Nat} {a a' : M} (h : MRel ρ ρ' tab a a') (v : List HLine) :
    MRel ρ ρ' tab { a with mcOurs := v } { a' with mcOurs := v } :=
  h.upd (fun x => { x with mcOurs := v }) (fun _ _ _ _ => rfl)

theorem MRel.setMcAnc {tab : Nat} {a a' : M} (h : MRel ρ ρ' tab a a') (v : List HLine) :
    MRel ρ ρ' tab { a with mcAnc := v } { a' with mcAnc := v } :=
  h.upd (fun x => { x with mcAnc := v }) (fun _ _ _ _ => rfl)

theorem MRel.setMcTheirs {tab : Nat} {a a' : M} (h : MRel ρ ρ' tab a a') (v : List HLine) :
    MRel ρ ρ' tab { a with mcTheirs := v } { a' with mcTheirs := v } :=
  h.upd (fun x => { x with mcTheirs := v }) (fun _ _ _ _ => rfl)

theorem MRel.clearMc {tab : Nat} {a a' : M} (h : MRel ρ ρ' tab a a') :
    MRel ρ ρ' tab { a with mcOurs := [], mcAnc := [], mcTheirs := [] } { a' with mcOurs := [], mcAnc := [], mcTheirs := [] } :=
  h.upd (fun x => { x with mcOurs := [], mcAnc := [], mcTheirs := [] }) (fun _ _ _ _ => rfl)

theorem MRel.pushMinus {tab : Nat} {a a' : M} (h : MRel ρ ρ' tab a a') (v : HLine) :
    MRel ρ ρ' tab { a with minus := a.minus ++ [v], counter := a.counter - 1 }
      { a' with minus := a'.minus ++ [v], counter := a'.counter - 1 } :=
  h.upd (fun x => { x with minus := x.minus ++ [v], counter := x.counter - 1 }) (fun _ _ _ _ => rfl)

theorem MRel.pushPlus {tab : Nat} {a a' : M} (h : MRel ρ ρ' tab a a') (v : HLine) :
    MRel ρ ρ' tab { a with plus := a.plus ++ [v] } { a' with plus := a'.plus ++ [v] } :=
  h.upd (fun x => { x with plus := x.plus ++ [v] }) (fun _ _ _ _ => rfl)

theorem MRel.decCounter {tab : Nat} {a a' : M} (h : MRel ρ ρ' tab a a') :
    MRel ρ ρ' tab { a with counter := a.counter - 1 } { a' with counter := a'.counter - 1 } :=
  h.upd (fun x => { x with counter := x.counter - 1 }) (fun _ _ _ _ => rfl)

-- handlers ----------------------------------------------------------------------------------------------

theorem handleCommitMeta_rel (h : MRel ρ ρ' cfg.tab m m') (hl : LRel ρ ρ' m.n l l') :
    HRel ρ ρ' cfg.tab (handleCommitMeta cfg m l) (handleCommitMeta cfg m' l') := by
  have h1 : MRel ρ ρ' cfg.tab { pendingDiffName cfg (flushMP m) with st := .commitMeta }
      { pendingDiffName cfg (flushMP m') with st := .commitMeta } :=
    (pendingDiffName_rel (flushMP_rel h) cfg).setSt (.same _)
  have hr : RawArg ρ ρ' m.n l.raw l'.raw := hl.rawArg
  have hn := h.n
  unfold handleCommitMeta
  rw [shouldHandle_rel h1, hl.agree.commitRe, hl.agree.text, hn]
  split
  · exact HRel.ok h
  · split
    · split
      · exact HRel.ok (emit_rel h1)
      · exact HRel.ok (direct_rel (emit_rel h1) (drawRows_rel hr _ _ _ _))
    · exact HRel.ok h1

theorem handleDiffStat_rel (h : MRel ρ ρ' cfg.tab m m') :
    HRel ρ ρ' cfg.tab (handleDiffStat cfg m l) (handleDiffStat cfg m' l') := HRel.ok h

theorem handleDiffHeaderDiff_rel (h : MRel ρ ρ' cfg.tab m m') (hl : LRel ρ ρ' m.n l l') :
    HRel ρ ρ' cfg.tab (handleDiffHeaderDiff cfg m l) (handleDiffHeaderDiff cfg m' l') := by
  have hX : MRel ρ ρ' cfg.tab
      (diffLineFields (pendingDiffName cfg { flushMP m with st := diffLineState l }) l)
      (diffLineFields (pendingDiffName cfg { flushMP m' with st := diffLineState l }) l) :=
    (pendingDiffName_rel ((flushMP_rel h).setSt (.same _)) cfg).upd (fun m => diffLineFields m l)
      (fun _ _ _ _ => rfl)
  have hn : (diffLineFields (pendingDiffName cfg { flushMP m with st := diffLineState l }) l).n = m.n := by
    show (pendingDiffName cfg { flushMP m with st := diffLineState l }).n = m.n
    simp
  have hl0 := hl
  obtain ⟨r', rfl⟩ := hl.agree.exists_raw
  unfold handleDiffHeaderDiff
  simp only []
  split
  · exact HRel.ok h
  · have e : diffLineState { l with raw := r' } = diffLineState l := rfl
    have e2 : ∀ x : M, diffLineFields x { l with raw := r' } = diffLineFields x l := fun _ => rfl
    rw [e, e2, shouldSkipLine_rel hX]
    split
    · exact HRel.ok hX
    · exact HRel.ok (emitLineUnchanged_rel hX (hn ▸ hl0))

theorem shouldWriteGeneric_rel (h : MRel ρ ρ' cfg.tab m m') (hl : LRel ρ ρ' m.n l l') :
    PRel ρ ρ' cfg.tab (shouldWriteGeneric cfg m l) (shouldWriteGeneric cfg m' l') := by
  have hr : RawArg ρ ρ' (emit (flushMP m)).n l.raw l'.raw := by
    have : (emit (flushMP m)).n = m.n := by simp
    rw [this]; exact hl.rawArg
  unfold shouldWriteGeneric
  rw [hl.agree.text]
  split
  · exact PRel.mk' (writeGeneric_rel (emit_rel (flushMP_rel h)) cfg _ hr)
  · exact PRel.mk' h

theorem fileOpFinish_rel (h : MRel ρ ρ' cfg.tab m m') (hl : LRel ρ ρ' m.n l l') :
    PRel ρ ρ' cfg.tab (fileOpFinish cfg m l) (fileOpFinish cfg m' l') := by
  have h1 := shouldWriteGeneric_rel h hl
  have e1 := h.handledPair
  have e2 := h.currentPair
  unfold fileOpFinish
  rw [h1.1, shouldHandle_rel h]
  split
  · exact ⟨rfl, h1.2⟩
  · exact ⟨by simp only [e1, e2], h⟩

theorem fileOpUpdate_rel (h : MRel ρ ρ' cfg.tab m m') (ev : FileEvent) (nm : Str) :
    MRel ρ ρ' cfg.tab (fileOpUpdate m ev nm) (fileOpUpdate m' ev nm) :=
  h.upd (fun m => fileOpUpdate m ev nm) (by intro m s b o; cases ev <;> rfl)

theorem fileOpUpdate_n (m : M) (ev : FileEvent) (nm : Str) : (fileOpUpdate m ev nm).n = m.n := by
  cases ev <;> rfl

theorem handleFileOperation_rel (h : MRel ρ ρ' cfg.tab m m') (hl : LRel ρ ρ' m.n l l') :
    HRel ρ ρ' cfg.tab (handleFileOperation cfg m l) (handleFileOperation cfg m' l') := by
  have ht : l'.text = l.text := hl.agree.text
  have e1 := h.source
  have e2 := h.diffLine
  have e3 := h.diffLineG
  unfold handleFileOperation
  rw [headerLineTest_rel h, ht]
  split
  · exact HRel.ok h
  · rw [e1, e2, e3]
    exact fileOpFinish_rel (fileOpUpdate_rel h _ _) (by rw [fileOpUpdate_n]; exact hl)

theorem minusLineTest_rel (h : MRel ρ ρ' cfg.tab m m') (hl : Agree l l') : minusLineTest m' l' = minusLineTest m l := by
  unfold minusLineTest
  rw [headerLineTest_rel h, hl.text, h.counter]

theorem handleMinusLine_rel (h : MRel ρ ρ' cfg.tab m m') (hl : LRel ρ ρ' m.n l l') :
    HRel ρ ρ' cfg.tab (handleMinusLine cfg m l) (handleMinusLine cfg m' l') := by
  have ht : l'.text = l.text := hl.agree.text
  unfold handleMinusLine
  rw [minusLineTest_rel h hl.agree, ht]
  split
  · exact HRel.ok h
  · have h0 := h
    obtain ⟨s', b', o', hs, hb, ho, rfl⟩ := h0
    simp only []
    have hs2 : StRel ρ ρ' (if m.source = .diffUnified then State.diffHeader .unified else m.st)
        (if m.source = .diffUnified then State.diffHeader .unified else s') := by
      split
      · exact .same _
      · exact hs
    have h1 := (h.setMinusSide (parseDiffHeaderLine l.text (m.source = .gitDiff)).1
      (parseDiffHeaderLine l.text (m.source = .gitDiff)).2
      (if m.source = .diffUnified then none else m.handledPair)).setSt hs2
    exact shouldWriteGeneric_rel (flushMP_rel h1) (by simpa using hl)

theorem plusLineFinish_rel (h : MRel ρ ρ' cfg.tab m m') (hl : LRel ρ ρ' m.n l l') :
    PRel ρ ρ' cfg.tab (plusLineFinish cfg m l) (plusLineFinish cfg m' l') := by
  have h1 := shouldWriteGeneric_rel h hl
  have e1 := h.handledPair
  have e2 := h.currentPair
  have e3 := h.source
  unfold plusLineFinish
  rw [h1.1, shouldHandle_rel h]
  simp only [e1, e2, e3]
  split
  · exact ⟨rfl, h1.2⟩
  · split
    · exact PRel.mk' (handleHeaderLine_rel (emit_rel h) cfg _).setHandled
    · exact PRel.mk' h

theorem handlePlusLine_rel (h : MRel ρ ρ' cfg.tab m m') (hl : LRel ρ ρ' m.n l l') :
    HRel ρ ρ' cfg.tab (handlePlusLine cfg m l) (handlePlusLine cfg m' l') := by
  have ht : l'.text = l.text := hl.agree.text
  unfold handlePlusLine plusLineTest
  rw [h.stRel.isDiffHeader, ht]
  split
  · exact HRel.ok h
  · have h0 := h
    obtain ⟨s', b', o', hs, hb, ho, rfl⟩ := h0
    simp only []
    have h1 := h.setPlusSide (parseDiffHeaderLine l.text (m.source = .gitDiff)).1
      (parseDiffHeaderLine l.text (m.source = .gitDiff)).2
      (some (m.minusFile, (parseDiffHeaderLine l.text (m.source = .gitDiff)).1))
    exact plusLineFinish_rel (flushMP_rel h1) (by simpa using hl)

theorem hunkHeaderDiffType_rel (h : MRel ρ ρ' cfg.tab m m') (hl : Agree l l') :
    hunkHeaderDiffType m' l' = hunkHeaderDiffType m l := by
  have hs := h.stRel
  unfold hunkHeaderDiffType
  rw [hl.text]
  generalize m.st = s at hs
  generalize m'.st = s' at hs
  cases hs <;> rfl

theorem hunkHeaderCounter_rel (h : MRel ρ ρ' cfg.tab m m') (hh : HunkHeader) :
    hunkHeaderCounter m' hh = hunkHeaderCounter m hh := by
  unfold hunkHeaderCounter; rw [h.counter]

theorem handleHunkHeader_rel (h : MRel ρ ρ' cfg.tab m m') (hl : LRel ρ ρ' m.n l l') :
    HRel ρ ρ' cfg.tab (handleHunkHeader cfg m l) (handleHunkHeader cfg m' l') := by
  have ht : l'.text = l.text := hl.agree.text
  have hraw := hl.raw
  have hraw' := hl.raw'
  unfold handleHunkHeader
  rw [ht, h.stRel.isMergeConflict]
  split
  · exact HRel.ok h
  · split
    · exact HRel.ok h
    · rename_i hh _
      rw [hunkHeaderDiffType_rel h hl.agree, hunkHeaderCounter_rel h, hraw, hraw']
      have h0 := h
      obtain ⟨s', b', o', hs, hb, ho, rfl⟩ := h0
      simp only []
      exact HRel.ok ((h.setCounter (hunkHeaderCounter m hh)).setSt (.hh (hunkHeaderDiffType m l) hh l.text m.n))

theorem handleModeLine_rel (h : MRel ρ ρ' cfg.tab m m') (hl : LRel ρ ρ' m.n l l') :
    HRel ρ ρ' cfg.tab (handleModeLine cfg m l) (handleModeLine cfg m' l') := by
  have ht : l'.text = l.text := hl.agree.text
  have h1 : MRel ρ ρ' cfg.tab { m with st := .diffHeader .unified } { m' with st := .diffHeader .unified } :=
    h.setSt (.same _)
  unfold handleModeLine
  rw [ht, shouldHandle_rel h1]
  have h0 := h
  obtain ⟨s', b', o', hs, hb, ho, rfl⟩ := h0
  simp only []
  split
  · split
    · exact HRel.ok (h1.setModeInfo _)
    · exact HRel.ok h1
  · split
    · split
      · exact HRel.ok (h1.setModeInfo _)
      · exact HRel.ok h1
    · exact HRel.ok h

theorem handleAdditionalCases_rel (h : MRel ρ ρ' cfg.tab m m') (hl : LRel ρ ρ' m.n l l') {to to' : State}
    (hto : StRel ρ ρ' to to') :
    HRel ρ ρ' cfg.tab (handleAdditionalCases cfg m l to) (handleAdditionalCases cfg m' l' to') := by
  have h1 : MRel ρ ρ' cfg.tab { flushMP m with st := to } { flushMP m' with st := to' } := (flushMP_rel h).setSt hto
  have hr : RawArg ρ ρ' (emit { flushMP m with st := to }).n l.raw l'.raw := by
    have : (emit { flushMP m with st := to }).n = m.n := by simp
    rw [this]; exact hl.rawArg
  unfold handleAdditionalCases
  rw [shouldHandle_rel h1, hl.agree.text]
  split
  · exact HRel.ok (writeGeneric_rel (emit_rel h1) cfg _ hr)
  · exact HRel.ok h1

theorem handleMisc_rel (h : MRel ρ ρ' cfg.tab m m') (hl : LRel ρ ρ' m.n l l') :
    HRel ρ ρ' cfg.tab (handleMisc cfg m l) (handleMisc cfg m' l') := by
  have ht : l'.text = l.text := hl.agree.text
  have hto : StRel ρ ρ' (if isDiffHeader m.st then m.st else State.diffHeader .unified)
      (if isDiffHeader m'.st then m'.st else State.diffHeader .unified) := by
    rw [h.stRel.isDiffHeader]
    split
    · exact h.stRel
    · exact .same _
  have h2 := handleAdditionalCases_rel h hl hto
  have h3 := (emitLineUnchanged_rel h hl).setHandled
  unfold handleMisc
  rw [ht]
  revert h2 h3
  generalize handleAdditionalCases cfg m l (if isDiffHeader m.st then m.st else State.diffHeader .unified) = r1
  generalize handleAdditionalCases cfg m' l' (if isDiffHeader m'.st then m'.st else State.diffHeader .unified) = r2
  generalize emitLineUnchanged m l = u1
  generalize emitLineUnchanged m' l' = u2
  intro h2 h3
  have h0 := h
  obtain ⟨s', b', o', hs, hb, ho, rfl⟩ := h0
  simp only []
  split
  · exact HRel.ok h
  · split
    · split
      · exact HRel.ok h3
      · exact HRel.ok (h.setFiles _ _)
    · exact h2

theorem handleSubmoduleLog_rel (h : MRel ρ ρ' cfg.tab m m') (hl : LRel ρ ρ' m.n l l') :
    HRel ρ ρ' cfg.tab (handleSubmoduleLog cfg m l) (handleSubmoduleLog cfg m' l') := by
  have ht : l'.text = l.text := hl.agree.text
  unfold handleSubmoduleLog
  rw [ht]
  split
  · exact HRel.ok h
  · have hX : MRel ρ ρ' cfg.tab (pendingDiffName cfg (flushMP m)) (pendingDiffName cfg (flushMP m')) :=
      pendingDiffName_rel (flushMP_rel h) cfg
    have hn : (pendingDiffName cfg (flushMP m)).n = m.n := by simp
    exact handleAdditionalCases_rel hX (hn ▸ hl) (.same _)

theorem submoduleShortTest_rel (h : MRel ρ ρ' cfg.tab m m') (hl : Agree l l') :
    submoduleShortTest m' l' = submoduleShortTest m l := by
  have hs := h.stRel
  unfold submoduleShortTest
  rw [hs.pairable, hl.text]
  generalize m.st = s at hs
  generalize m'.st = s' at hs
  cases hs <;> rfl

theorem handleSubmoduleShort_rel (h : MRel ρ ρ' cfg.tab m m') (hl : LRel ρ ρ' m.n l l') :
    HRel ρ ρ' cfg.tab (handleSubmoduleShort cfg m l) (handleSubmoduleShort cfg m' l') := by
  have h3 := direct_rel (emit_rel (flushMP_rel h)) (rows := []) (rows' := []) .nil
  unfold handleSubmoduleShort
  rw [submoduleShortTest_rel h hl.agree, hl.agree.submodule]
  split
  · exact HRel.ok h
  · split
    · exact HRel.ok h
    · rename_i commit _
      have hf := emit_rel (flushMP_rel h)
      revert hf
      generalize emit (flushMP m) = f1
      generalize emit (flushMP m') = f2
      intro hf
      have h0 := h
      obtain ⟨s', b', o', hs, hb, ho, rfl⟩ := h0
      simp only []
      generalize hm : m.st = s at hs
      cases hs with
      | same =>
        split
        · exact HRel.ok (h.setSt (.same _))
        · exact HRel.ok (direct_rel hf (RowsRel.refl _))
        · exact HRel.ok h
      | hh dt hd line src => exact HRel.ok (h.setSt (.same _))

-- merge conflicts ---------------------------------------------------------------------------------

theorem mcPendingHeader_rel (h : MRel ρ ρ' cfg.tab m m') :
    ERel (MRel ρ ρ' cfg.tab) (mcPendingHeader cfg m) (mcPendingHeader cfg m') := by
  have hs := h.stRel
  unfold mcPendingHeader
  generalize hm : m.st = s at hs
  generalize hm' : m'.st = s' at hs
  cases hs with
  | same =>
    cases s <;> first
      | exact h
      | exact emitHunkHeader_rel h cfg _ _ (RawArg.same _)
  | hh dt hd line src => exact emitHunkHeader_rel h cfg _ _ (Or.inr ⟨rfl, rfl⟩)

theorem storeLine_rel (h : MRel ρ ρ' cfg.tab m m') (hl : Agree l l') (c : MCCommit) (mp : MergeParents) (k : RowKind) :
    ERel (MRel ρ ρ' cfg.tab) (storeLine cfg m l c mp k) (storeLine cfg m' l' c mp k) := by
  obtain ⟨r', rfl⟩ := hl.exists_raw
  have e : ∀ n, prepare cfg n { l with raw := r' } = prepare cfg n l := fun _ => rfl
  unfold storeLine
  split
  · rfl
  · simp only [e]
    have h0 := h
    obtain ⟨s', b', o', hs, hb, ho, rfl⟩ := h0
    simp only []
    cases c
    · exact ERel.ok (h.setMcOurs _)
    · exact ERel.ok (h.setMcAnc _)
    · exact ERel.ok (h.setMcTheirs _)

/-- results of an optional machine -/
def ORel (ρ ρ' : Nat → Str) (tab : Nat) : Option M → Option M → Prop
  | some a, some a' => MRel ρ ρ' tab a a'
  | none, none => True
  | _, _ => False

theorem ORel.orElse {tab : Nat} {a a' b b' : Option M} (h1 : ORel ρ ρ' tab a a') (h2 : ORel ρ ρ' tab b b') :
    ORel ρ ρ' tab (a <|> b) (a' <|> b') := by
  cases a <;> cases a' <;> first | exact h1.elim | exact h2 | exact h1

theorem enterAncestral_rel (h : MRel ρ ρ' cfg.tab m m') (hl : Agree l l') (mp : MergeParents) :
    ORel ρ ρ' cfg.tab (enterAncestral m l mp) (enterAncestral m' l' mp) := by
  unfold enterAncestral
  rw [hl.text]
  cases parseMergeMarker l.text Markers.mcAncestral with
  | none => exact True.intro
  | some c => exact (h.setMcNameAnc (some c)).setSt (.same _)

theorem enterTheirs_rel (h : MRel ρ ρ' cfg.tab m m') (hl : Agree l l') (mp : MergeParents) :
    ORel ρ ρ' cfg.tab (enterTheirs m l mp) (enterTheirs m' l' mp) := by
  unfold enterTheirs
  rw [hl.text]
  split
  · exact h.setSt (.same _)
  · exact True.intro

theorem mcPaintOne_rel (h : MRel ρ ρ' cfg.tab m m') (name : Option Str) (derived : List HLine) :
    MRel ρ ρ' cfg.tab (mcPaintOne cfg m name derived) (mcPaintOne cfg m' name derived) := by
  unfold mcPaintOne
  simp only []
  have e : mcHeaderRows cfg m' name m'.n = mcHeaderRows cfg m name m.n := by
    unfold mcHeaderRows; rw [h.mcNameAnc, h.n]
  rw [e, h.mcAnc]
  have h2 := emit_rel (direct_rel h (RowsRel.refl (mcHeaderRows cfg m name m.n)))
  have h3 := h2.appendBuf (RowsRel.refl (m.mcAnc.map HLine.row ++ derived.map HLine.row))
  have h4 := emit_rel h3
  simpa [List.append_assoc] using h4

theorem paintMergeConflict_rel (h : MRel ρ ρ' cfg.tab m m') (mp : MergeParents) :
    MRel ρ ρ' cfg.tab (paintMergeConflict cfg m mp) (paintMergeConflict cfg m' mp) := by
  unfold paintMergeConflict
  simp only []
  rw [h.n]
  have h1 := direct_rel (emit_rel h) (RowsRel.refl [({ kind := .mcBar, text := cfg.mcBeginSymbol, src := m.n } : Row)])
  rw [h1.mcNameOurs, h1.mcOurs]
  have h2 := mcPaintOne_rel h1 (direct (emit m) [{ kind := .mcBar, text := cfg.mcBeginSymbol, src := m.n }]).mcNameOurs
    (direct (emit m) [{ kind := .mcBar, text := cfg.mcBeginSymbol, src := m.n }]).mcOurs
  rw [h2.mcNameTheirs, h2.mcTheirs]
  have h3 := mcPaintOne_rel h2 (mcPaintOne cfg (direct (emit m) [{ kind := .mcBar, text := cfg.mcBeginSymbol, src := m.n }])
      (direct (emit m) [{ kind := .mcBar, text := cfg.mcBeginSymbol, src := m.n }]).mcNameOurs
      (direct (emit m) [{ kind := .mcBar, text := cfg.mcBeginSymbol, src := m.n }]).mcOurs).mcNameTheirs
    (mcPaintOne cfg (direct (emit m) [{ kind := .mcBar, text := cfg.mcBeginSymbol, src := m.n }])
      (direct (emit m) [{ kind := .mcBar, text := cfg.mcBeginSymbol, src := m.n }]).mcNameOurs
      (direct (emit m) [{ kind := .mcBar, text := cfg.mcBeginSymbol, src := m.n }]).mcOurs).mcTheirs
  have h4 := direct_rel h3 (RowsRel.refl [({ kind := .mcBar, text := cfg.mcEndSymbol, src := m.n } : Row)])
  exact h4.clearMc.setSt (.same _)

theorem exitMergeConflict_rel (h : MRel ρ ρ' cfg.tab m m') (hl : Agree l l') (mp : MergeParents) :
    ORel ρ ρ' cfg.tab (exitMergeConflict cfg m l mp) (exitMergeConflict cfg m' l' mp) := by
  unfold exitMergeConflict
  rw [hl.text]
  cases parseMergeMarker l.text Markers.mcEnd with
  | none => exact True.intro
  | some c =>
    exact paintMergeConflict_rel (h.setMcNameTheirs (some c)) mp

theorem storeOr_rel {o o' : Option M} {alt alt' : Except String M} (ho : ORel ρ ρ' cfg.tab o o')
    (ha : ERel (MRel ρ ρ' cfg.tab) alt alt') : HRel ρ ρ' cfg.tab (storeOr o alt) (storeOr o' alt') := by
  unfold storeOr
  cases o <;> cases o'
  · cases alt <;> cases alt'
    · exact ha
    · exact ha.elim
    · exact ha.elim
    · exact ⟨rfl, ha⟩
  · exact ho.elim
  · exact ho.elim
  · exact ⟨rfl, ho⟩

theorem handleMergeConflict_rel (h : MRel ρ ρ' cfg.tab m m') (hl : LRel ρ ρ' m.n l l') :
    HRel ρ ρ' cfg.tab (handleMergeConflict cfg m l) (handleMergeConflict cfg m' l') := by
  have ha := hl.agree
  have hs := h.stRel
  unfold handleMergeConflict
  split
  · exact HRel.ok h
  · rw [hs.hunkCombinedParents, ha.text]
    split
    · rename_i mp _
      split
      · rename_i c _
        have h1 := mcPendingHeader_rel (cfg := cfg) h
        revert h1
        cases mcPendingHeader cfg m <;> cases mcPendingHeader cfg m' <;> intro h1
        · exact h1
        · exact h1.elim
        · exact h1.elim
        · exact HRel.ok (((flushMP_rel h1).setMcNames (some c) none).setSt (.same _))
      · exact HRel.ok h
    · rename_i hnone
      by_cases hh : isHunkHeader m.st = true
      · have hh' : isHunkHeader m'.st = true := by rw [hs.isHunkHeader]; exact hh
        obtain ⟨dt, hd, ln, r1, sr, hm⟩ : ∃ dt hd ln r s, m.st = .hunkHeader dt hd ln r s := by
          cases hms : m.st <;> simp_all [isHunkHeader]
        obtain ⟨dt', hd', ln', r1', sr', hm'⟩ : ∃ dt hd ln r s, m'.st = .hunkHeader dt hd ln r s := by
          cases hms : m'.st <;> simp_all [isHunkHeader]
        rw [hm, hm']
        exact HRel.ok h
      · have hh0 : isHunkHeader m.st = false := by simpa using hh
        have e : m'.st = m.st := hs.eq_of_not_hh hh0
        rw [e]
        split
        · exact storeOr_rel ((enterAncestral_rel h ha _).orElse ((enterTheirs_rel h ha _).orElse
            (exitMergeConflict_rel h ha _))) (storeLine_rel h ha _ _ _)
        · exact storeOr_rel ((enterTheirs_rel h ha _).orElse (exitMergeConflict_rel h ha _)) (storeLine_rel h ha _ _ _)
        · exact storeOr_rel (exitMergeConflict_rel h ha _) (storeLine_rel h ha _ _ _)
        · exact HRel.ok h

-- hunk lines ----------------------------------------------------------------------------------------

theorem hunkLinePre_rel (h : MRel ρ ρ' cfg.tab m m') :
    ERel (MRel ρ ρ' cfg.tab) (hunkLinePre cfg m) (hunkLinePre cfg m') := by
  have h1 : MRel ρ ρ' cfg.tab
      (if m.minus.length > cfg.bufSize ∨ m.plus.length > cfg.bufSize then flushMP m else m)
      (if m'.minus.length > cfg.bufSize ∨ m'.plus.length > cfg.bufSize then flushMP m' else m') := by
    rw [h.minus, h.plus]
    split
    · exact flushMP_rel h
    · exact h
  exact mcPendingHeader_rel h1

theorem newLineState_rel (h : MRel ρ ρ' cfg.tab m m') (hl : Agree l l') :
    newLineState m'.st l' = newLineState m.st l := by
  obtain ⟨r', rfl⟩ := hl.exists_raw
  unfold newLineState
  rw [h.stRel.hunkDiffType]
  rfl

theorem hunkLinePush_rel (h : MRel ρ ρ' cfg.tab m m') (hl : LRel ρ ρ' m.n l l') :
    ERel (MRel ρ ρ' cfg.tab) (hunkLinePush cfg m l) (hunkLinePush cfg m' l') := by
  have hnl := newLineState_rel h hl.agree
  have hfl : MRel ρ ρ' cfg.tab (if isHunkPlus m.st then flushMP m else m) (if isHunkPlus m'.st then flushMP m' else m') := by
    rw [h.stRel.isHunkPlus]
    split
    · exact flushMP_rel h
    · exact h
  have hraw := hl.raw
  have hraw' := hl.raw'
  obtain ⟨r', rfl⟩ := hl.agree.exists_raw
  have e : ∀ n, prepare cfg n { l with raw := r' } = prepare cfg n l := fun _ => rfl
  simp only [] at hraw'
  unfold hunkLinePush
  rw [hnl, h.stRel.stateDiffType]
  have h0 := h
  obtain ⟨s', b', o', hs, hb, ho, rfl⟩ := h0
  simp only [e]
  split
  · rfl
  · split
    · rfl
    · exact ERel.ok ((hfl.pushMinus _).setSt (.same _))
  · split
    · rfl
    · exact ERel.ok ((h.pushPlus _).setSt (.same _))
  · split
    · rfl
    · exact ERel.ok ((((flushMP_rel h).appendBuf (RowsRel.refl [_])).decCounter).setSt (.same _))
  · refine ((flushMP_rel h).appendBuf (.cons ?_ .nil)).setSt (.same _)
    exact ⟨rfl, rfl, Or.inr (Or.inr ⟨rfl, by simp [hraw], by simp [hraw']⟩)⟩

theorem hunkLinePre_n {m m2 : M} (e : hunkLinePre cfg m = .ok m2) : m2.n = m.n := by
  unfold hunkLinePre at e
  simp only [] at e
  split at e
  · unfold emitHunkHeader at e
    split at e
    · cases e
    · cases e
      simp
      split <;> simp
  · cases e
    split <;> simp

theorem handleHunkLine_rel (h : MRel ρ ρ' cfg.tab m m') (hl : LRel ρ ρ' m.n l l') :
    HRel ρ ρ' cfg.tab (handleHunkLine cfg m l) (handleHunkLine cfg m' l') := by
  unfold handleHunkLine
  rw [h.stRel.isHunkState]
  split
  · exact ⟨rfl, h⟩
  · have h1 := hunkLinePre_rel (cfg := cfg) h
    revert h1
    cases e1 : hunkLinePre cfg m <;> cases e1' : hunkLinePre cfg m' <;> intro h1
    · exact h1
    · exact h1.elim
    · exact h1.elim
    · rename_i m2 m2'
      have hn : m2.n = m.n := hunkLinePre_n e1
      have h2 := hunkLinePush_rel (cfg := cfg) h1 (hn ▸ hl)
      revert h2
      simp only []
      cases hunkLinePush cfg m2 l <;> cases hunkLinePush cfg m2' l' <;> intro h2
      · exact h2
      · exact h2.elim
      · exact h2.elim
      · exact ⟨rfl, emit_rel h2⟩

-- the tail of the chain -----------------------------------------------------------------------------

theorem handleGitShowFile_rel (h : MRel ρ ρ' cfg.tab m m') :
    HRel ρ ρ' cfg.tab (handleGitShowFile cfg m l) (handleGitShowFile cfg m' l') := ⟨rfl, emit_rel h⟩

theorem StRel.eq_iff {s s' : State} (h : StRel ρ ρ' s s') (t : State) (ht : Machine.isHunkHeader t = false) :
    s' = t ↔ s = t := by
  cases h with
  | same => exact Iff.rfl
  | hh => constructor <;> (intro e; subst e; simp [Machine.isHunkHeader] at ht)

theorem handleBlame_rel (h : MRel ρ ρ' cfg.tab m m') (hl : LRel ρ ρ' m.n l l') :
    HRel ρ ρ' cfg.tab (handleBlame cfg m l) (handleBlame cfg m' l') := by
  have ht : l'.text = l.text := hl.agree.text
  have h1 := emit_rel h
  unfold handleBlame
  simp only []
  simp only [h.stRel.eq_iff .blame rfl, h.stRel.eq_iff .unknown rfl, hl.agree.blame, ht]
  revert h1
  generalize emit m = f1
  generalize emit m' = f2
  intro h1
  have h0 := h
  obtain ⟨s', b', o', hs, hb, ho, rfl⟩ := h0
  simp only []
  split
  · exact HRel.ok ((direct_rel h1 (RowsRel.refl _)).setSt (.same _))
  · exact HRel.ok h1

theorem handleGrep_rel (h : MRel ρ ρ' cfg.tab m m') (hl : LRel ρ ρ' m.n l l') :
    HRel ρ ρ' cfg.tab (handleGrep cfg m l) (handleGrep cfg m' l') := by
  have ht : l'.text = l.text := hl.agree.text
  have h1 := emit_rel h
  unfold handleGrep
  simp only []
  simp only [h.stRel.eq_iff .grep rfl, h.stRel.eq_iff .unknown rfl, hl.agree.grep, ht]
  revert h1
  generalize emit m = f1
  generalize emit m' = f2
  intro h1
  have h0 := h
  obtain ⟨s', b', o', hs, hb, ho, rfl⟩ := h0
  simp only []
  split
  · split
    · exact HRel.ok h1
    · exact HRel.ok ((direct_rel h1 (RowsRel.refl _)).setSt (.same _))
  · exact HRel.ok h1

theorem handleShouldSkip_rel (h : MRel ρ ρ' cfg.tab m m') :
    HRel ρ ρ' cfg.tab (handleShouldSkip cfg m l) (handleShouldSkip cfg m' l') :=
  ⟨shouldSkipLine_rel h cfg, h⟩

theorem handleEmitUnchanged_rel (h : MRel ρ ρ' cfg.tab m m') (hl : LRel ρ ρ' m.n l l') :
    HRel ρ ρ' cfg.tab (handleEmitUnchanged cfg m l) (handleEmitUnchanged cfg m' l') :=
  ⟨rfl, emitLineUnchanged_rel h hl⟩

end
end Machine
