import Proofs.Machine.BodyOrder
/-!
Global ordering of the output (C04 / C01 / C14): over a whole run the ghost stamps `Row.src` of ALL
rows of delta's output - raw pass-through rows, commit / file / hunk-header rows and their
decoration rows, mode / binary / submodule rows, hunk-line rows - are non-decreasing.

What `src` is for the lazily written rows (read off the handlers, confirmed by evaluation):
* pending hunk header: stamped with the index of its `@@` line (stored in the state), written when
  the next hunk line arrives;
* pending file header of a section without `--- `/`+++ ` lines (`pendingDiffName`, mode changes
  included): stamped with the index of the line that TRIGGERS the write (the next `diff ` line, the
  next commit line, or `ls.length` when `finish` writes it), not of the `diff ` line it shows;
* the submodule short form and the buffered minus/plus lines: the index of the line they show
  (`+Subproject` line for the short form, which carries both hashes).

`lo m`: the least stamp that can still be written = the index of the pending `@@` line if a hunk
header is pending, else the current line index. Invariant `Ord`: the timeline is sorted and every
row on it is `≤ lo m`. Every handler appends rows with stamps in `[lo m, lo m']` (`OS`) - unless it
writes a row for the current line while an older hunk header stays pending. Two handlers do that
(`Binary files` line with no file names known; `new file mode` / `deleted file mode` line of a plain
diff under `--color-only`): such a line directly after a `@@` line overtakes the hunk header, in the
model and in the real binary. Hypothesis `NoStray` excludes exactly that.
-/
set_option linter.unusedSimpArgs false
set_option linter.unusedVariables false
namespace Machine
open Headers Generated

-- ------------------------------------------------------------------ definitions

/-- the input index of a pending (not yet written) hunk header -/
def pend : State → Option Nat
  | .hunkHeader _ _ _ _ s => some s
  | _ => none

/-- the least stamp that can still be written -/
def lo (m : M) : Nat := (pend m.st).getD m.n

/-- non-decreasing stamps -/
def Sorted (rows : List Row) : Prop := (rows.map (·.src)).Pairwise (· ≤ ·)

/-- a line that `handle_hunk_header_line` can claim -/
def hhLike (l : L) : Bool := startsWith l.text Markers.hunkHeader && (parseHunkHeader l.text).isSome

/-- a line that is written (or claimed) without resolving a pending hunk header -/
def stray (l : L) : Bool :=
  startsWith l.text Markers.binaryFiles || startsWithAny l.text Markers.fileOperationLine

def noStrayFrom : Bool → List L → Bool
  | _, [] => true
  | armed, l :: ls => !(armed && stray l) && noStrayFrom (hhLike l) ls

/-- no `@@` line is directly followed by a `Binary files …` / `new file mode …` / `deleted file mode …` line -/
def NoStray (ls : List L) : Prop := noStrayFrom false ls = true

instance (ls : List L) : Decidable (NoStray ls) := by unfold NoStray; infer_instance

theorem sorted_nil : Sorted [] := by simp [Sorted]

theorem sorted_append {a b : List Row} :
    Sorted (a ++ b) ↔ Sorted a ∧ Sorted b ∧ ∀ x ∈ a, ∀ y ∈ b, x.src ≤ y.src := by
  unfold Sorted
  rw [List.map_append, List.pairwise_append]
  constructor
  · rintro ⟨h1, h2, h3⟩
    exact ⟨h1, h2, fun x hx y hy => h3 _ (List.mem_map_of_mem hx) _ (List.mem_map_of_mem hy)⟩
  · rintro ⟨h1, h2, h3⟩
    refine ⟨h1, h2, ?_⟩
    intro s hs t ht
    obtain ⟨x, hx, rfl⟩ := List.mem_map.mp hs
    obtain ⟨y, hy, rfl⟩ := List.mem_map.mp ht
    exact h3 x hx y hy

theorem sorted_of_const {rows : List Row} {c : Nat} (h : ∀ x ∈ rows, x.src = c) : Sorted rows := by
  unfold Sorted
  induction rows with
  | nil => simp
  | cons a rest ih =>
    simp only [List.map_cons, List.pairwise_cons, List.mem_map]
    refine ⟨?_, ih (fun x hx => h x (List.mem_cons_of_mem _ hx))⟩
    rintro s ⟨y, hy, rfl⟩
    rw [h a List.mem_cons_self, h y (List.mem_cons_of_mem _ hy)]
    exact Nat.le_refl _

/-- ordering invariant inside one step -/
structure Ord (m : M) : Prop where
  sorted : Sorted (timeline m)
  below : ∀ r ∈ timeline m, r.src ≤ lo m
  hi : lo m ≤ m.n

/-- `x` extends `m0` by the rows `new`, all stamped within `[lo m0, m0.n]`, in order -/
structure WN (m0 x : M) (new : List Row) : Prop where
  n : x.n = m0.n
  tl : timeline x = timeline m0 ++ new
  sorted : Sorted new
  lb : ∀ r ∈ new, lo m0 ≤ r.src
  ub : ∀ r ∈ new, r.src ≤ m0.n
  hi : lo m0 ≤ m0.n

def W (m0 x : M) : Prop := ∃ new, WN m0 x new

/-- … and both line buffers are empty -/
structure WC (m0 x : M) : Prop where
  w : W m0 x
  minus : x.minus = []
  plus : x.plus = []

theorem W.refl {m : M} (hi : lo m ≤ m.n) : W m m :=
  ⟨[], ⟨rfl, by simp, sorted_nil, by simp, by simp, hi⟩⟩

theorem W.same {m0 x x' : M} (h : W m0 x) (ht : timeline x' = timeline x) (hn : x'.n = x.n) : W m0 x' := by
  obtain ⟨new, h⟩ := h
  exact ⟨new, ⟨hn.trans h.n, ht.trans h.tl, h.sorted, h.lb, h.ub, h.hi⟩⟩

/-- appending rows stamped with the current line -/
theorem W.app {m0 x x' : M} {rows : List Row} (h : W m0 x) (ht : timeline x' = timeline x ++ rows)
    (hn : x'.n = x.n) (hr : ∀ r ∈ rows, r.src = m0.n) : W m0 x' := by
  obtain ⟨new, h⟩ := h
  refine ⟨new ++ rows, ⟨hn.trans h.n, by rw [ht, h.tl, List.append_assoc], ?_, ?_, ?_, h.hi⟩⟩
  · rw [sorted_append]
    exact ⟨h.sorted, sorted_of_const hr, fun a ha b hb => by rw [hr b hb]; exact h.ub a ha⟩
  · intro r hr'
    rcases List.mem_append.mp hr' with h1 | h1
    · exact h.lb r h1
    · rw [hr r h1]; exact h.hi
  · intro r hr'
    rcases List.mem_append.mp hr' with h1 | h1
    · exact h.ub r h1
    · rw [hr r h1]; exact Nat.le_refl _

theorem W.n {m0 x : M} (h : W m0 x) : x.n = m0.n := by obtain ⟨_, h⟩ := h; exact h.n

theorem W.emit {m0 x : M} (h : W m0 x) : W m0 (emit x) := h.same (timeline_emit x) rfl

theorem W.flushMP {m0 x : M} (h : W m0 x) : WC m0 (flushMP x) :=
  ⟨h.same (timeline_flushMP x) (flushMP_n x), by simp, by simp⟩

theorem W.upd {m0 x x' : M} (h : W m0 x) (hout : x'.out = x.out) (hb : x'.buf = x.buf) (hm : x'.minus = x.minus)
    (hp : x'.plus = x.plus) (hn : x'.n = x.n) : W m0 x' :=
  h.same (by simp [timeline, hout, hb, hm, hp]) hn

theorem WC.emit {m0 x : M} (h : WC m0 x) : WC m0 (emit x) :=
  ⟨h.w.emit, by simp [h.minus], by simp [h.plus]⟩

theorem WC.upd {m0 x x' : M} (h : WC m0 x) (hout : x'.out = x.out) (hb : x'.buf = x.buf) (hm : x'.minus = x.minus)
    (hp : x'.plus = x.plus) (hn : x'.n = x.n) : WC m0 x' :=
  ⟨h.w.upd hout hb hm hp hn, hm ▸ h.minus, hp ▸ h.plus⟩

theorem WC.direct {m0 x : M} (rows : List Row) (h : WC m0 x) (hb : x.buf = []) (hr : ∀ r ∈ rows, r.src = m0.n) :
    WC m0 (direct x rows) :=
  ⟨h.w.app (rows := rows) (by simp [timeline, hb, h.minus, h.plus]) (by simp) hr,
   by simp [h.minus], by simp [h.plus]⟩

theorem drawRows_src (st : ElemStyle) (k : RowKind) (t r a : Str) (src : Nat) :
    ∀ row ∈ drawRows st k t r a src, row.src = src := by
  intro row hrow
  unfold drawRows at hrow
  cases hd : st.deco <;> cases hraw : st.isRaw <;> simp [hd, hraw] at hrow
  all_goals first
    | (rcases hrow with h | h | h <;> subst h <;> rfl)
    | (rcases hrow with h | h <;> subst h <;> rfl)
    | (subst hrow; rfl)

theorem WC.writeGeneric (cfg : Cfg) {m0 x : M} (t r : Str) (h : WC m0 x) (hb : x.buf = []) :
    WC m0 (writeGeneric cfg x t r) := by
  unfold Machine.writeGeneric
  split
  · exact h.upd rfl rfl rfl rfl rfl
  · refine (h.direct _ hb ?_).upd rfl rfl rfl rfl rfl
    intro row hrow
    rcases List.mem_append.mp hrow with h1 | h1
    · split at h1
      · cases h1
      · simp at h1; subst h1; exact h.w.n
    · rw [drawRows_src _ _ _ _ _ _ row h1]; exact h.w.n

theorem WC.handleHeaderLine (cfg : Cfg) {m0 x : M} (c : Bool) (h : WC m0 x) (hb : x.buf = []) :
    WC m0 (handleHeaderLine cfg x c) := by
  unfold Machine.handleHeaderLine; exact h.writeGeneric cfg _ _ hb

theorem W.emitLineUnchanged {m0 x : M} (l : L) (h : W m0 x) : WC m0 (emitLineUnchanged x l) := by
  unfold Machine.emitLineUnchanged
  refine h.flushMP.emit.direct _ (by simp) ?_
  intro r hr; simp at hr; subst hr; exact h.n

theorem pendingDiffName_wc (cfg : Cfg) {m0 x : M} (h : WC m0 x) : WC m0 (pendingDiffName cfg x) := by
  unfold pendingDiffName
  split
  · exact h
  · split
    · exact (h.emit.writeGeneric cfg _ _ (by simp)).upd rfl rfl rfl rfl rfl
    · split
      · exact h
      · split
        · exact (h.emit.handleHeaderLine cfg (decide (x.source = Source.diffUnified)) (by simp)).upd
            rfl rfl rfl rfl rfl
        · exact h

-- ------------------------------------------------------------------ what a handler delivers

/-- one handler: the timeline grows by rows stamped within `[lo m, lo m']`, in order -/
structure OS (m m' : M) : Prop where
  n : m'.n = m.n
  tl : ∃ new, timeline m' = timeline m ++ new ∧ Sorted new ∧ ∀ r ∈ new, lo m ≤ r.src ∧ r.src ≤ lo m'
  mono : lo m ≤ lo m'
  hi : lo m' ≤ m'.n

theorem OS.refl {m : M} (hi : lo m ≤ m.n) : OS m m :=
  ⟨rfl, ⟨[], by simp, sorted_nil, by simp⟩, Nat.le_refl _, hi⟩

theorem OS.trans {a b c : M} (h1 : OS a b) (h2 : OS b c) : OS a c := by
  obtain ⟨n1, t1, s1, b1⟩ := h1.tl
  obtain ⟨n2, t2, s2, b2⟩ := h2.tl
  refine ⟨h2.n.trans h1.n, ⟨n1 ++ n2, by rw [t2, t1, List.append_assoc], ?_, ?_⟩,
    Nat.le_trans h1.mono h2.mono, h2.hi⟩
  · rw [sorted_append]
    exact ⟨s1, s2, fun x hx y hy => Nat.le_trans (b1 x hx).2 (b2 y hy).1⟩
  · intro r hr
    rcases List.mem_append.mp hr with h | h
    · exact ⟨(b1 r h).1, Nat.le_trans (b1 r h).2 h2.mono⟩
    · exact ⟨Nat.le_trans h1.mono (b2 r h).1, (b2 r h).2⟩

theorem lo_of_pend_none {m : M} (h : pend m.st = none) : lo m = m.n := by simp [lo, h]

theorem OS.ofW {m m' : M} (w : W m m') (hp : pend m'.st = none) : OS m m' := by
  obtain ⟨new, h⟩ := w
  have hl : lo m' = m.n := by rw [lo_of_pend_none hp, h.n]
  exact ⟨h.n, ⟨new, h.tl, h.sorted, fun r hr => ⟨h.lb r hr, by rw [hl]; exact h.ub r hr⟩⟩,
    by rw [hl]; exact h.hi, by rw [hl, h.n]; exact Nat.le_refl _⟩

theorem Ord.step {m m' : M} (o : Ord m) (s : OS m m') : Ord m' := by
  obtain ⟨new, t, sn, b⟩ := s.tl
  refine ⟨?_, ?_, s.hi⟩
  · rw [t, sorted_append]
    exact ⟨o.sorted, sn, fun x hx y hy => Nat.le_trans (o.below x hx) (b y hy).1⟩
  · intro r hr
    rw [t] at hr
    rcases List.mem_append.mp hr with h | h
    · exact Nat.le_trans (o.below r h) s.mono
    · exact (b r h).2

/-- what a handler may assume -/
structure Pre (l : L) (m : M) : Prop where
  nomc : isMergeConflict m.st = false
  good : Good m
  hi : lo m ≤ m.n
  hns : pend m.st ≠ none → stray l = false

/-- what one handler does to the order of the rows -/
structure HS (l : L) (m m' : M) (b : Bool) : Prop where
  os : OS m m'
  nomc : isMergeConflict m'.st = false
  pn : b = false → pend m.st = none → pend m'.st = none
  pk : b = true → pend m'.st ≠ none → hhLike l = true

theorem HS.pass {l : L} {m : M} (p : Pre l m) : HS l m m false :=
  ⟨OS.refl p.hi, p.nomc, fun _ h => h, fun h => by cases h⟩

theorem HS.ofW {l : L} {m m' : M} {b : Bool} (w : W m m') (hp : pend m'.st = none)
    (hmc : isMergeConflict m'.st = false) : HS l m m' b :=
  ⟨OS.ofW w hp, hmc, fun _ _ => hp, fun _ h => absurd hp h⟩

/-- nothing written, state kept, line not claimed -/
theorem HS.keepF {l : L} {m m' : M} (p : Pre l m) (ht : timeline m' = timeline m) (hn : m'.n = m.n)
    (hst : m'.st = m.st) : HS l m m' false := by
  have hl : lo m' = lo m := by simp [lo, hst, hn]
  exact ⟨⟨hn, ⟨[], by simp [ht], sorted_nil, by simp⟩, by rw [hl]; exact Nat.le_refl _, by rw [hl, hn]; exact p.hi⟩,
    by rw [hst]; exact p.nomc, fun _ h => by rw [hst]; exact h, fun h => by cases h⟩

theorem pend_none_of_diffHeader {s : State} (h : isDiffHeader s = true) : pend s = none := by
  cases s <;> simp [isDiffHeader] at h <;> rfl

theorem nomc_of_diffHeader {s : State} (h : isDiffHeader s = true) : isMergeConflict s = false := by
  cases s <;> simp [isDiffHeader] at h <;> rfl

-- ------------------------------------------------------------------ handlers

variable {cfg : Cfg} {m m' : M} {l : L} {b : Bool}

theorem handleCommitMeta_hs (p : Pre l m) (e : handleCommitMeta cfg m l = .ok (b, m')) : HS l m m' b := by
  unfold handleCommitMeta at e
  have c1 : WC m (pendingDiffName cfg (flushMP m)) := pendingDiffName_wc cfg (W.refl p.hi).flushMP
  have c2 : WC m { pendingDiffName cfg (flushMP m) with st := State.commitMeta } := c1.upd rfl rfl rfl rfl rfl
  split at e
  · cases e; exact HS.pass p
  · split at e
    · split at e
      · cases e; exact HS.ofW c2.emit.w rfl rfl
      · cases e
        refine HS.ofW (c2.emit.direct _ (by simp) (drawRows_src _ _ _ _ _ _)).w ?_ ?_
        · rw [direct_st]; rfl
        · rw [direct_st]; rfl
    · cases e; exact HS.ofW c2.w rfl rfl

theorem handleDiffStat_hs (p : Pre l m) (e : handleDiffStat cfg m l = .ok (b, m')) : HS l m m' b := by
  unfold handleDiffStat at e; cases e; exact HS.pass p

theorem diffLineState_pend (l : L) : pend (diffLineState l) = none := by
  unfold diffLineState; split <;> rfl

theorem handleDiffHeaderDiff_hs (p : Pre l m) (e : handleDiffHeaderDiff cfg m l = .ok (b, m')) : HS l m m' b := by
  unfold handleDiffHeaderDiff at e
  have c1 : WC m { flushMP m with st := diffLineState l } := (W.refl p.hi).flushMP.upd rfl rfl rfl rfl rfl
  have c3 : WC m (diffLineFields (pendingDiffName cfg { flushMP m with st := diffLineState l }) l) :=
    (pendingDiffName_wc cfg c1).upd rfl rfl rfl rfl rfl
  have hst : (diffLineFields (pendingDiffName cfg { flushMP m with st := diffLineState l }) l).st = diffLineState l :=
    pendingDiffName_st cfg _
  split at e
  · cases e; exact HS.pass p
  · split at e
    · cases e
      exact HS.ofW c3.w (by rw [hst]; exact diffLineState_pend l) (by rw [hst]; exact diffLineState_nomc l)
    · cases e
      exact HS.ofW (c3.w.emitLineUnchanged l).w (by rw [emitLineUnchanged_st, hst]; exact diffLineState_pend l)
        (by rw [emitLineUnchanged_st, hst]; exact diffLineState_nomc l)

theorem shouldWriteGeneric_wc (cfg : Cfg) {m0 x : M} (l : L) (h : WC m0 x) :
    WC m0 (shouldWriteGeneric cfg x l).2 ∧ (shouldWriteGeneric cfg x l).2.st = x.st := by
  unfold shouldWriteGeneric
  split
  · exact ⟨h.w.flushMP.emit.writeGeneric cfg _ _ (by simp), by simp⟩
  · exact ⟨h, rfl⟩

theorem shouldWriteGeneric_w (cfg : Cfg) {m0 x : M} (l : L) (h : W m0 x) :
    W m0 (shouldWriteGeneric cfg x l).2 ∧ (shouldWriteGeneric cfg x l).2.st = x.st := by
  unfold shouldWriteGeneric
  split
  · exact ⟨(h.flushMP.emit.writeGeneric cfg _ _ (by simp)).w, by simp⟩
  · exact ⟨h, rfl⟩

theorem fileOpUpdate_w {m0 x : M} (ev : FileEvent) (nm : Str) (h : W m0 x) :
    W m0 (fileOpUpdate x ev nm) ∧ (fileOpUpdate x ev nm).st = x.st := by
  unfold fileOpUpdate
  split <;> first | exact ⟨h.upd rfl rfl rfl rfl rfl, rfl⟩ | exact ⟨h, rfl⟩

theorem handleFileOperation_hs (p : Pre l m) (e : handleFileOperation cfg m l = .ok (b, m')) : HS l m m' b := by
  unfold handleFileOperation at e
  split at e
  · cases e; exact HS.pass p
  · rename_i htest
    have htest' : (headerLineTest m && startsWithAny l.text Markers.fileOperationLine) = true := by
      simpa using htest
    have hstray : stray l = true := by
      simp only [Bool.and_eq_true] at htest'
      simp [stray, htest'.2]
    have hp : pend m.st = none := by
      cases hq : pend m.st with
      | none => rfl
      | some s => have := p.hns (by rw [hq]; simp); rw [hstray] at this; cases this
    simp only [Except.ok.injEq] at e
    obtain rfl : m' = _ := (congrArg Prod.snd e).symm
    obtain ⟨r, hs⟩ := fileOpUpdate_w (m0 := m) (parseDiffHeaderLine l.text (decide (m.source = Source.gitDiff))).2
      ((repeatedFilePath m.diffLine m.diffLineG).getD []) (W.refl p.hi)
    unfold fileOpFinish
    split
    · obtain ⟨r2, hs2⟩ := shouldWriteGeneric_w cfg l r
      exact HS.ofW r2 (by rw [hs2, hs]; exact hp) (by rw [hs2, hs]; exact p.nomc)
    · exact HS.ofW r (by rw [hs]; exact hp) (by rw [hs]; exact p.nomc)

theorem handleMinusLine_hs (p : Pre l m) (e : handleMinusLine cfg m l = .ok (b, m')) : HS l m m' b := by
  unfold handleMinusLine at e
  split at e
  · cases e; exact HS.pass p
  · rename_i htest
    have hlt : headerLineTest m = true := by
      have h2 : minusLineTest m l = true := by simpa using htest
      unfold minusLineTest at h2
      simp only [Bool.and_eq_true] at h2
      exact h2.1
    simp only [Except.ok.injEq] at e
    obtain rfl : m' = _ := (congrArg Prod.snd e).symm
    have key : ∀ x : M, timeline x = timeline m → x.n = m.n → pend x.st = none → isMergeConflict x.st = false →
        HS l m (shouldWriteGeneric cfg (flushMP x) l).2 b := by
      intro x ht hn hx1 hx2
      obtain ⟨c2, hst2⟩ := shouldWriteGeneric_wc cfg l (((W.refl p.hi).same ht hn).flushMP)
      exact HS.ofW c2.w (by rw [hst2, flushMP_st]; exact hx1) (by rw [hst2, flushMP_st]; exact hx2)
    have hd : m.source = .diffUnified ∨ isDiffHeader m.st = true := by
      unfold headerLineTest at hlt
      simp only [Bool.or_eq_true, decide_eq_true_eq] at hlt
      rcases hlt with h | h
      · exact Or.inr h
      · exact Or.inl h
    refine key _ rfl rfl ?_ ?_
    · dsimp only
      split
      · rfl
      · rename_i hne
        rcases hd with h | h
        · exact absurd h hne
        · exact pend_none_of_diffHeader h
    · dsimp only
      split
      · rfl
      · exact p.nomc

theorem plusLineFinish_wc (cfg : Cfg) {m0 x : M} (l : L) (h : WC m0 x) :
    WC m0 (plusLineFinish cfg x l).2 ∧ (plusLineFinish cfg x l).2.st = x.st := by
  unfold plusLineFinish
  split
  · exact shouldWriteGeneric_wc cfg l h
  · split
    · exact ⟨(h.emit.handleHeaderLine cfg _ (by simp)).upd rfl rfl rfl rfl rfl, by simp⟩
    · exact ⟨h, rfl⟩

theorem handlePlusLine_hs (p : Pre l m) (e : handlePlusLine cfg m l = .ok (b, m')) : HS l m m' b := by
  unfold handlePlusLine at e
  split at e
  · cases e; exact HS.pass p
  · rename_i htest
    have hd : isDiffHeader m.st = true := by
      have h2 : plusLineTest m l = true := by simpa using htest
      unfold plusLineTest at h2
      simp only [Bool.and_eq_true] at h2
      exact h2.1
    simp only [Except.ok.injEq] at e
    obtain rfl : m' = _ := (congrArg Prod.snd e).symm
    have key : ∀ x : M, timeline x = timeline m → x.n = m.n → x.st = m.st →
        HS l m (plusLineFinish cfg (flushMP x) l).2 b := by
      intro x ht hn hx
      obtain ⟨c2, hst2⟩ := plusLineFinish_wc cfg l (((W.refl p.hi).same ht hn).flushMP)
      exact HS.ofW c2.w (by rw [hst2, flushMP_st, hx]; exact pend_none_of_diffHeader hd)
        (by rw [hst2, flushMP_st, hx]; exact p.nomc)
    exact key _ rfl rfl rfl

theorem handleHunkHeader_hs (p : Pre l m) (e : handleHunkHeader cfg m l = .ok (b, m')) : HS l m m' b := by
  unfold handleHunkHeader at e
  split at e
  · cases e; exact HS.pass p
  · rename_i htest
    split at e
    · cases e; exact HS.pass p
    · rename_i hh hparse
      cases e
      refine ⟨⟨rfl, ⟨[], by simp [timeline], sorted_nil, by simp⟩, ?_, ?_⟩, rfl, (fun h => by cases h), fun _ _ => ?_⟩
      · show lo m ≤ m.n
        exact p.hi
      · show m.n ≤ m.n
        exact Nat.le_refl _
      have h2 : (startsWith l.text Markers.hunkHeader && !isMergeConflict m.st) = true := by simpa using htest
      simp only [Bool.and_eq_true] at h2
      simp [hhLike, h2.1, hparse]

theorem handleModeLine_hs (p : Pre l m) (e : handleModeLine cfg m l = .ok (b, m')) : HS l m m' b := by
  unfold handleModeLine at e
  split at e
  · split at e <;> (cases e; exact HS.ofW ((W.refl p.hi).upd rfl rfl rfl rfl rfl) rfl rfl)
  · split at e
    · split at e <;> (cases e; exact HS.ofW ((W.refl p.hi).upd rfl rfl rfl rfl rfl) rfl rfl)
    · cases e; exact HS.pass p

/-- `handle_additional_cases` run on a machine `m` reached from `m0` by writes stamped with the current line -/
theorem handleAdditionalCases_hs_from {m0 : M} {to : State} (c0 : W m0 m) (hto : isMergeConflict to = false)
    (hpt : pend to = none) (e : handleAdditionalCases cfg m l to = .ok (b, m')) : HS l m0 m' b := by
  unfold handleAdditionalCases at e
  have c : WC m0 { flushMP m with st := to } := c0.flushMP.upd rfl rfl rfl rfl rfl
  split at e
  · cases e; exact HS.ofW (c.emit.writeGeneric cfg _ _ (by simp)).w (by simpa using hpt) (by simpa using hto)
  · cases e; exact HS.ofW c.w hpt hto

theorem handleAdditionalCases_hs {to : State} (p : Pre l m) (hto : isMergeConflict to = false) (hpt : pend to = none)
    (e : handleAdditionalCases cfg m l to = .ok (b, m')) : HS l m m' b :=
  handleAdditionalCases_hs_from (W.refl p.hi) hto hpt e

theorem pend_none_of_stray (p : Pre l m) (h : stray l = true) : pend m.st = none := by
  cases hq : pend m.st with
  | none => rfl
  | some s => have := p.hns (by rw [hq]; simp); rw [h] at this; cases this

theorem handleMisc_hs (p : Pre l m) (e : handleMisc cfg m l = .ok (b, m')) : HS l m m' b := by
  unfold handleMisc at e
  simp only at e
  split at e
  · cases e; exact HS.pass p
  · split at e
    · rename_i hbin
      have hp : pend m.st = none := pend_none_of_stray p (by simp [stray, hbin.2])
      split at e
      · cases e
        refine HS.ofW (m' := { emitLineUnchanged m l with handledPair := (emitLineUnchanged m l).currentPair })
          (((W.refl p.hi).emitLineUnchanged l).upd (x' := { emitLineUnchanged m l with handledPair := (emitLineUnchanged m l).currentPair })
            rfl rfl rfl rfl rfl).w ?_ ?_
        · show pend (emitLineUnchanged m l).st = none
          rw [emitLineUnchanged_st]; exact hp
        · show isMergeConflict (emitLineUnchanged m l).st = false
          rw [emitLineUnchanged_st]; exact p.nomc
      · cases e; exact HS.ofW ((W.refl p.hi).upd rfl rfl rfl rfl rfl) hp p.nomc
    · refine handleAdditionalCases_hs p ?_ ?_ e
      · split
        · exact p.nomc
        · rfl
      · split
        · rename_i hd; exact pend_none_of_diffHeader hd
        · rfl

theorem handleSubmoduleLog_hs (p : Pre l m) (e : handleSubmoduleLog cfg m l = .ok (b, m')) : HS l m m' b := by
  unfold handleSubmoduleLog at e
  split at e
  · cases e; exact HS.pass p
  · exact handleAdditionalCases_hs_from (pendingDiffName_wc cfg (W.refl p.hi).flushMP).w rfl rfl e

theorem handleSubmoduleShort_hs (p : Pre l m) (e : handleSubmoduleShort cfg m l = .ok (b, m')) : HS l m m' b := by
  unfold handleSubmoduleShort at e
  split at e
  · cases e; exact HS.pass p
  · split at e
    · cases e; exact HS.pass p
    · split at e
      · cases e; exact HS.ofW ((W.refl p.hi).upd rfl rfl rfl rfl rfl) rfl rfl
      · rename_i hst
        cases e
        refine HS.ofW ((W.refl p.hi).flushMP.emit.direct _ (by simp) ?_).w ?_ ?_
        · intro r hr; simp at hr; subst hr; simp
        · rw [direct_st, emit_st, flushMP_st, hst]; rfl
        · rw [direct_st, emit_st, flushMP_st]; exact p.nomc
      · rename_i h1 h2
        cases e
        refine HS.ofW (W.refl p.hi) ?_ p.nomc
        cases hs : m.st <;> first | rfl | (exfalso; exact h1 _ _ _ _ _ hs)

theorem handleMergeConflict_hs (p : Pre l m) (hmc : startsWith l.text Generated.Markers.mcBegin = false)
    (e : handleMergeConflict cfg m l = .ok (b, m')) : HS l m m' b := by
  have hs := p.nomc
  unfold handleMergeConflict at e
  split at e
  · cases e; exact HS.pass p
  · split at e
    · have : parseMergeMarker l.text Generated.Markers.mcBegin = none := by
        unfold parseMergeMarker stripPrefix; simp [hmc]
      simp only [this] at e
      cases e; exact HS.pass p
    · split at e <;> first
        | (rename_i hst; rw [hst] at hs; simp [isMergeConflict] at hs)
        | (cases e; exact HS.pass p)

theorem handleGitShowFile_hs (p : Pre l m) (e : handleGitShowFile cfg m l = .ok (b, m')) : HS l m m' b := by
  unfold handleGitShowFile at e; cases e; exact HS.keepF p (timeline_emit m) rfl rfl

theorem quiet_of_blame_unknown (p : Pre l m) (h : m.st = .blame ∨ m.st = .unknown) : m.minus = [] ∧ m.plus = [] :=
  p.good.quiet (by rcases h with h | h <;> (rw [h]; rfl))

theorem handleBlame_hs (p : Pre l m) (e : handleBlame cfg m l = .ok (b, m')) : HS l m m' b := by
  unfold handleBlame at e
  simp only at e
  split at e
  · rename_i hc
    cases e
    obtain ⟨hm, hp⟩ := quiet_of_blame_unknown p hc.1
    have c : WC m m := ⟨W.refl p.hi, hm, hp⟩
    have c2 := c.emit.direct [{ kind := RowKind.blame, text := l.text, src := m.n }] (by simp)
      (by intro r hr; simp at hr; subst hr; rfl)
    exact HS.ofW (c2.upd (x' := { direct (emit m) [{ kind := RowKind.blame, text := l.text, src := m.n }] with st := State.blame })
      rfl rfl rfl rfl rfl).w rfl rfl
  · cases e; exact HS.keepF p (timeline_emit m) rfl rfl

theorem handleGrep_hs (p : Pre l m) (e : handleGrep cfg m l = .ok (b, m')) : HS l m m' b := by
  unfold handleGrep at e
  simp only at e
  split at e
  · rename_i hc
    have hc1 : m.st = .grep ∨ m.st = .unknown := hc.1
    have hq : m.minus = [] ∧ m.plus = [] := p.good.quiet (by rcases hc1 with h | h <;> (rw [h]; rfl))
    have c : WC m m := ⟨W.refl p.hi, hq.1, hq.2⟩
    split at e
    · cases e
      refine HS.ofW c.emit.w ?_ p.nomc
      rw [emit_st]; rcases hc1 with h | h <;> (rw [h]; rfl)
    · cases e
      have c2 := c.emit.direct [{ kind := RowKind.grep, text := l.text, src := m.n }] (by simp)
        (by intro r hr; simp at hr; subst hr; rfl)
      exact HS.ofW (c2.upd (x' := { direct (emit m) [{ kind := RowKind.grep, text := l.text, src := m.n }] with st := State.grep })
        rfl rfl rfl rfl rfl).w rfl rfl
  · cases e; exact HS.keepF p (timeline_emit m) rfl rfl

theorem handleShouldSkip_hs (p : Pre l m) (e : handleShouldSkip cfg m l = .ok (b, m')) : HS l m m' b := by
  unfold handleShouldSkip at e
  cases e
  refine ⟨OS.refl p.hi, p.nomc, fun _ h => h, fun hb hp => ?_⟩
  exfalso
  apply hp
  unfold shouldSkipLine at hb
  simp only [Bool.and_eq_true] at hb
  exact pend_none_of_diffHeader hb.1.1

theorem handleEmitUnchanged_hs (p : Pre l m) (hp : pend m.st = none)
    (e : handleEmitUnchanged cfg m l = .ok (b, m')) : HS l m m' b := by
  unfold handleEmitUnchanged at e; cases e
  exact HS.ofW ((W.refl p.hi).emitLineUnchanged l).w (by rw [emitLineUnchanged_st]; exact hp)
    (by rw [emitLineUnchanged_st]; exact p.nomc)

-- hunk lines ------------------------------------------------------------------

theorem hunkHeaderRows_src {cfg : Cfg} {m1 : M} {hh : HunkHeader} {line raw : Str} {src : Nat} {rows : List Row}
    (e : hunkHeaderRows cfg m1 hh line raw src = .ok rows) : ∀ x ∈ rows, x.src = src := by
  unfold hunkHeaderRows at e
  simp only at e
  split at e
  · cases e
    intro x hx
    simp only [List.mem_append] at hx
    rcases hx with hx | hx
    · split at hx
      · simp at hx; subst hx; rfl
      · simp at hx
    · exact drawRows_src _ _ _ _ _ _ x hx
  · split at e
    · cases e; intro x hx; simp at hx; subst hx; rfl
    · split at e
      · cases e
      · cases e
        intro x hx
        split at hx
        · simp at hx
        · simp at hx; subst hx; rfl
      · cases e
        intro x hx
        simp only [List.mem_append] at hx
        rcases hx with hx | hx
        · split at hx
          · simp at hx
          · simp at hx; subst hx; rfl
        · exact drawRows_src _ _ _ _ _ _ x hx

/-- the rows written by the first part of `handle_hunk_line` are those of the pending hunk header,
stamped with the index of its `@@` line -/
theorem hunkLinePre_src {cfg : Cfg} {m m2 : M} (e : hunkLinePre cfg m = .ok m2) :
    ∃ pre, timeline m2 = timeline m ++ pre ∧ ∀ x ∈ pre, pend m.st = some x.src := by
  unfold hunkLinePre at e
  simp only at e
  have ht : timeline (if m.minus.length > cfg.bufSize ∨ m.plus.length > cfg.bufSize then flushMP m else m) = timeline m := by
    split
    · exact timeline_flushMP m
    · rfl
  have hs : (if m.minus.length > cfg.bufSize ∨ m.plus.length > cfg.bufSize then flushMP m else m).st = m.st := by
    split <;> simp
  split at e
  · rename_i dt hh line raw src hst
    unfold emitHunkHeader at e
    split at e
    · cases e
    · rename_i rows hr
      cases e
      refine ⟨rows, by rw [timeline_direct_flushed, ht], ?_⟩
      intro x hx
      rw [← hs, hst, hunkHeaderRows_src hr x hx]; rfl
  · cases e
    exact ⟨[], by simp [ht], by simp⟩

theorem hunkLinePush_pend {cfg : Cfg} {m m' : M} {l : L} (e : hunkLinePush cfg m l = .ok m') :
    pend m'.st = none ∧ isMergeConflict m'.st = false := by
  unfold hunkLinePush at e
  cases hn : newLineState m.st l with
  | error err => simp [hn] at e
  | ok o =>
    cases o with
    | none => simp only [hn] at e; cases e; exact ⟨rfl, rfl⟩
    | some pr =>
      obtain ⟨k, dt⟩ := pr
      cases hp : nParents dt with
      | error err => cases k <;> simp [hn, hp] at e
      | ok n =>
        cases k <;> (simp only [hn, hp] at e; cases e; exact ⟨rfl, rfl⟩)

theorem handleHunkLine_hs (p : Pre l m) (e : handleHunkLine cfg m l = .ok (b, m')) : HS l m m' b := by
  have g := p.good
  cases hh : isHunkState m.st
  · unfold handleHunkLine at e
    simp only [hh, Bool.not_false, if_true] at e
    cases e; exact HS.pass p
  · have hs' := hh
    unfold handleHunkLine at e
    split at e
    · rename_i hst; simp [hs'] at hst
    · split at e
      · cases e
      · rename_i m2 e2
        split at e
        · cases e
        · rename_i m3 e3
          cases e
          obtain ⟨r2, hst2, hhdr, _, _⟩ := hunkLinePre_spec e2 g
          obtain ⟨pre, htl2, hsrcs⟩ := hunkLinePre_src e2
          have hplus : isHunkPlus m2.st = false → m2.plus = [] := by
            intro hnp
            rw [hst2] at hnp
            rcases isHunkState_cases hs' with h | ⟨dt, h⟩ | ⟨dt, h⟩ | ⟨dt, h⟩
            · exact (hhdr h).2
            · have := (g.quiet (by rw [h]; rfl)).2
              rcases r2.shrink.2 with s | s <;> simp [s, this]
            · have := g.noPlus (by rw [h]; rfl)
              rcases r2.shrink.2 with s | s <;> simp [s, this]
            · rw [h] at hnp; simp [isHunkPlus] at hnp
          obtain ⟨_, ⟨r, htl3, hsrc⟩, _, hn3, _, _, _⟩ := hunkLinePush_spec e3 r2.order hplus
          obtain ⟨hp3, hmc3⟩ := hunkLinePush_pend e3
          have hn2 : m2.n = m.n := r2.ext.n
          have hpre : ∀ x ∈ pre, x.src = lo m := by
            intro x hx
            have := hsrcs x hx
            simp [lo, this]
          have w : WN m (emit m3) (pre ++ [r]) := by
            refine ⟨by simp [hn3, hn2], by rw [timeline_emit, htl3, htl2, List.append_assoc], ?_, ?_, ?_, p.hi⟩
            · rw [sorted_append]
              refine ⟨sorted_of_const hpre, by simp [Sorted], ?_⟩
              intro x hx y hy
              simp at hy; subst hy
              rw [hpre x hx, hsrc, hn2]; exact p.hi
            · intro x hx
              rcases List.mem_append.mp hx with h | h
              · rw [hpre x h]; exact Nat.le_refl _
              · simp at h; subst h; rw [hsrc, hn2]; exact p.hi
            · intro x hx
              rcases List.mem_append.mp hx with h | h
              · rw [hpre x h]; exact p.hi
              · simp at h; subst h; rw [hsrc, hn2]; exact Nat.le_refl _
          exact HS.ofW ⟨_, w⟩ (by rw [emit_st]; exact hp3) (by rw [emit_st]; exact hmc3)

theorem handleHunkLine_false_pend (e : handleHunkLine cfg m l = .ok (false, m')) : pend m'.st = none := by
  unfold handleHunkLine at e
  split at e
  · rename_i hst
    cases e
    cases hs : m.st <;> simp [hs, isHunkState] at hst <;> rfl
  · split at e
    · cases e
    · split at e
      · cases e
      · cases e

-- ------------------------------------------------------------------ chain

theorem handlerOf_hs {name : String} {hd : Handler} (hn : handlerOf name = some hd)
    (p : Pre l m) (hmc : startsWith l.text Generated.Markers.mcBegin = false)
    (hemit : name = "emit_line_unchanged" → pend m.st = none)
    (e : hd cfg m l = .ok (b, m')) :
    HS l m m' b ∧ (name = "handle_hunk_line" → b = false → pend m'.st = none) := by
  unfold handlerOf at hn
  split at hn <;> first
    | (cases hn
       first
         | exact ⟨handleCommitMeta_hs p e, fun h => absurd h (by decide)⟩
         | exact ⟨handleDiffStat_hs p e, fun h => absurd h (by decide)⟩
         | exact ⟨handleDiffHeaderDiff_hs p e, fun h => absurd h (by decide)⟩
         | exact ⟨handleFileOperation_hs p e, fun h => absurd h (by decide)⟩
         | exact ⟨handleMinusLine_hs p e, fun h => absurd h (by decide)⟩
         | exact ⟨handlePlusLine_hs p e, fun h => absurd h (by decide)⟩
         | exact ⟨handleHunkHeader_hs p e, fun h => absurd h (by decide)⟩
         | exact ⟨handleModeLine_hs p e, fun h => absurd h (by decide)⟩
         | exact ⟨handleMisc_hs p e, fun h => absurd h (by decide)⟩
         | exact ⟨handleSubmoduleLog_hs p e, fun h => absurd h (by decide)⟩
         | exact ⟨handleSubmoduleShort_hs p e, fun h => absurd h (by decide)⟩
         | exact ⟨handleMergeConflict_hs p hmc e, fun h => absurd h (by decide)⟩
         | exact ⟨handleHunkLine_hs p e, fun _ hb => by subst hb; exact handleHunkLine_false_pend e⟩
         | exact ⟨handleGitShowFile_hs p e, fun h => absurd h (by decide)⟩
         | exact ⟨handleBlame_hs p e, fun h => absurd h (by decide)⟩
         | exact ⟨handleGrep_hs p e, fun h => absurd h (by decide)⟩
         | exact ⟨handleShouldSkip_hs p e, fun h => absurd h (by decide)⟩
         | exact ⟨handleEmitUnchanged_hs p (hemit rfl) e, fun h => absurd h (by decide)⟩)
    | cases hn

/-- in the handler order, `emit_line_unchanged` is not reached before `handle_hunk_line` had its turn -/
def emitAfterHunk : List String → Bool
  | [] => true
  | n :: rest =>
    if n = "handle_hunk_line" then true
    else if n = "emit_line_unchanged" then false
    else emitAfterHunk rest

/-- the effect of the handler chain on one line -/
structure CS (names : List String) (l : L) (m m' : M) : Prop where
  os : OS m m'
  nomc : isMergeConflict m'.st = false
  good : Good m'
  pk : pend m'.st ≠ none → hhLike l = true ∨ (pend m.st ≠ none ∧ "handle_hunk_line" ∉ names)

theorem chain_hs {cfg : Cfg} {l : L} (hmc : startsWith l.text Generated.Markers.mcBegin = false) :
    ∀ (names : List String) {m m' : M}, chain cfg l names m = .ok m' → Pre l m →
      (emitAfterHunk names = true ∨ pend m.st = none) → CS names l m m'
  | [], m, m', e, p, _ => by
    simp only [chain] at e; cases e
    exact ⟨OS.refl p.hi, p.nomc, p.good, fun h => Or.inr ⟨h, by simp⟩⟩
  | name :: rest, m, m', e, p, hsafe => by
    simp only [chain] at e
    split at e
    · cases e
    · rename_i hd hn
      have hemit : name = "emit_line_unchanged" → pend m.st = none := by
        intro hname
        rcases hsafe with h | h
        · subst hname; simp [emitAfterHunk] at h
        · exact h
      split at e
      · cases e
      · rename_i m1 e1
        cases e
        obtain ⟨c, _⟩ := handlerOf_hs hn p hmc hemit e1
        exact ⟨c.os, c.nomc, (handlerOf_step hn e1 p.good).good, fun h => Or.inl (c.pk rfl h)⟩
      · rename_i m1 e1
        obtain ⟨c, chl⟩ := handlerOf_hs hn p hmc hemit e1
        have g1 := (handlerOf_step hn e1 p.good).good
        have p1 : Pre l m1 := ⟨c.nomc, g1, Nat.le_trans c.os.hi (Nat.le_refl _),
          fun h => p.hns (fun h0 => h (c.pn rfl h0))⟩
        have hsafe1 : emitAfterHunk rest = true ∨ pend m1.st = none := by
          by_cases hhl : name = "handle_hunk_line"
          · exact Or.inr (chl hhl rfl)
          · rcases hsafe with h | h
            · by_cases hem : name = "emit_line_unchanged"
              · simp [emitAfterHunk, hhl, hem] at h
              · left; simpa [emitAfterHunk, hhl, hem] using h
            · exact Or.inr (c.pn rfl h)
        have r := chain_hs hmc rest e p1 hsafe1
        refine ⟨c.os.trans r.os, r.nomc, r.good, ?_⟩
        intro h
        rcases r.pk h with h1 | ⟨h1, h2⟩
        · exact Or.inl h1
        · refine Or.inr ⟨fun h0 => h1 (c.pn rfl h0), ?_⟩
          intro hmem
          rcases List.mem_cons.mp hmem with h3 | h3
          · exact h1 (chl h3.symm rfl)
          · exact h2 h3

-- ------------------------------------------------------------------ step, run

theorem stepInit_lo (m : M) (l : L) : lo (stepInit m l) = lo m := by
  obtain ⟨_, hn, hst⟩ := stepInit_body m l
  simp [lo, hn, hst]

/-- invariant between two input lines -/
structure RI (m : M) : Prop where
  ord : Ord m
  strict : ∀ r ∈ timeline m, r.src < m.n
  nomc : isMergeConflict m.st = false
  good : Good m

theorem ri_init : RI ({} : M) :=
  ⟨⟨by simp [timeline, Sorted], by simp [timeline], by simp [lo, pend]⟩, by simp [timeline], rfl, good_init⟩

/-- one input line: the invariant is kept, the new rows carry stamps in `[lo m, m.n]`, and a hunk
header is pending afterwards only if the line is a hunk-header line -/
theorem step_ri {cfg : Cfg} {m m' : M} {l : L} (hmc : startsWith l.text Generated.Markers.mcBegin = false)
    (hns : pend m.st ≠ none → stray l = false) (ri : RI m) (e : step cfg m l = .ok m') :
    RI m' ∧ m'.n = m.n + 1 ∧ (pend m'.st ≠ none → hhLike l = true) ∧ lo m ≤ lo m' ∧
      ∃ new, timeline m' = timeline m ++ new ∧ ∀ r ∈ new, lo m ≤ r.src ∧ r.src ≤ m.n := by
  unfold step at e
  split at e
  · cases e
  · rename_i m2 e2
    cases e
    obtain ⟨htl, hn, hst⟩ := stepInit_body m l
    have g0 := (stepInit_stepS l ri.good).good
    have hlo := stepInit_lo m l
    have p0 : Pre l (stepInit m l) :=
      ⟨by rw [hst]; exact ri.nomc, g0, by rw [hlo, hn]; exact ri.ord.hi, by rw [hst]; exact hns⟩
    have c := chain_hs hmc _ e2 p0 (Or.inl (by decide))
    have o0 : Ord (stepInit m l) := ⟨by rw [htl]; exact ri.ord.sorted, by rw [htl, hlo]; exact ri.ord.below,
      by rw [hlo, hn]; exact ri.ord.hi⟩
    have o2 : Ord m2 := o0.step c.os
    have hn2 : m2.n = m.n := c.os.n.trans hn
    have hlo2 : lo m2 ≤ m.n := by rw [← hn2]; exact o2.hi
    have hlo' : lo m2 ≤ lo ({ m2 with n := m2.n + 1 } : M) := by
      show lo m2 ≤ (pend m2.st).getD (m2.n + 1)
      unfold lo
      cases pend m2.st <;> simp
    refine ⟨⟨⟨o2.sorted, fun r hr => Nat.le_trans (o2.below r hr) hlo', ?_⟩, ?_, c.nomc,
        ⟨c.good.order, c.good.quiet, c.good.noPlus⟩⟩, ?_, ?_, ?_, ?_⟩
    · show (pend m2.st).getD (m2.n + 1) ≤ m2.n + 1
      have := o2.hi
      unfold lo at this
      cases hq : pend m2.st <;> simp [hq] at this ⊢
      omega
    · intro r hr
      have : r.src ≤ lo m2 := o2.below r hr
      show r.src < m2.n + 1
      omega
    · show m2.n + 1 = m.n + 1
      rw [hn2]
    · intro hp
      rcases c.pk hp with h | ⟨_, h⟩
      · exact h
      · exact absurd (by decide) h
    · have := c.os.mono
      rw [hlo] at this
      exact Nat.le_trans this hlo'
    · obtain ⟨new, t, _, b⟩ := c.os.tl
      refine ⟨new, by show timeline m2 = _; rw [t, htl], ?_⟩
      intro r hr
      have := b r hr
      rw [hlo] at this
      exact ⟨this.1, Nat.le_trans this.2 hlo2⟩

/-- whether the last line before the current one was a hunk-header line -/
def lastArm : Bool → List L → Bool
  | a, [] => a
  | _, l :: ls => lastArm (hhLike l) ls

theorem noStrayFrom_append : ∀ (xs ys : List L) (a : Bool),
    noStrayFrom a (xs ++ ys) = (noStrayFrom a xs && noStrayFrom (lastArm a xs) ys)
  | [], ys, a => by simp [noStrayFrom, lastArm]
  | x :: xs, ys, a => by
    simp only [List.cons_append, noStrayFrom, lastArm, noStrayFrom_append xs ys (hhLike x), Bool.and_assoc]

theorem runFrom_ri {cfg : Cfg} : ∀ (ls : List L) {m m' : M} (armed : Bool), runFrom cfg m ls = .ok m' →
    (∀ l ∈ ls, startsWith l.text Generated.Markers.mcBegin = false) → noStrayFrom armed ls = true →
    (pend m.st ≠ none → armed = true) → RI m →
    RI m' ∧ m'.n = m.n + ls.length ∧ (pend m'.st ≠ none → lastArm armed ls = true) ∧ lo m ≤ lo m' ∧
      ∃ new, timeline m' = timeline m ++ new ∧ ∀ r ∈ new, lo m ≤ r.src
  | [], m, m', _, e, _, _, harm, ri => by
    simp only [runFrom] at e; cases e; exact ⟨ri, rfl, harm, Nat.le_refl _, [], by simp, by simp⟩
  | l :: ls, m, m', armed, e, hmc, hst, harm, ri => by
    simp only [runFrom] at e
    split at e
    · cases e
    · rename_i m1 e1
      simp only [noStrayFrom, Bool.and_eq_true, Bool.not_eq_true', Bool.and_eq_false_iff] at hst
      have hns : pend m.st ≠ none → stray l = false := by
        intro hp
        rcases hst.1 with h | h
        · rw [harm hp] at h; cases h
        · exact h
      obtain ⟨ri1, hn1, hk1, hmono, new1, t1, b1⟩ := step_ri (hmc l (List.mem_cons_self ..)) hns ri e1
      obtain ⟨ri2, hn2, hk2, hmono2, new2, t2, b2⟩ :=
        runFrom_ri ls (hhLike l) e (fun x hx => hmc x (List.mem_cons_of_mem _ hx)) hst.2 hk1 ri1
      refine ⟨ri2, by rw [hn2, hn1, List.length_cons]; omega, hk2, Nat.le_trans hmono hmono2,
        new1 ++ new2, by rw [t2, t1, List.append_assoc], ?_⟩
      intro r hr
      rcases List.mem_append.mp hr with h | h
      · exact (b1 r h).1
      · exact Nat.le_trans hmono (b2 r h)

-- ------------------------------------------------------------------ the tail of `consume`

theorem tailOp_w {cfg : Cfg} {m0 m m' : M} {op : String} (e : tailOp cfg m op = .ok m')
    (h : W m0 m) (hq : op = "handle_pending_line_with_diff_name" → m.minus = [] ∧ m.plus = []) :
    W m0 m' ∧ (m.minus = [] ∧ m.plus = [] → m'.minus = [] ∧ m'.plus = []) ∧
      (op = "painter.paint_buffered_minus_and_plus_lines" → m'.minus = [] ∧ m'.plus = []) := by
  unfold tailOp at e
  split at e
  · cases e; exact ⟨h.flushMP.w, fun _ => by simp, fun _ => by simp⟩
  · obtain ⟨hm, hp⟩ := hq rfl
    cases e
    have c := pendingDiffName_wc cfg (⟨h, hm, hp⟩ : WC m0 m)
    exact ⟨c.w, fun _ => ⟨c.minus, c.plus⟩, fun hh => absurd hh (by decide)⟩
  · cases e; exact ⟨h.emit, fun q => by simpa using q, fun hh => absurd hh (by decide)⟩
  · cases e

/-- the statements after the loop, in the extracted order: whatever they write (buffered lines, a
pending file header) is stamped within `[lo m, m.n]`, in order -/
theorem finish_w {cfg : Cfg} {m m' : M} (e : finish cfg m = .ok m') (hi : lo m ≤ m.n) : W m m' := by
  unfold finish at e
  simp only [Generated.Markers.consumeTail, tailOps] at e
  split at e
  · cases e
  · rename_i m1 e1
    obtain ⟨r1, _, q1⟩ := tailOp_w e1 (W.refl hi) (by intro hh; exact absurd hh (by decide))
    have q1' := q1 rfl
    split at e
    · cases e
    · rename_i m2 e2
      obtain ⟨r2, _, _⟩ := tailOp_w e2 r1 (fun _ => q1')
      split at e
      · cases e
      · rename_i m3 e3
        cases e
        exact (tailOp_w e3 r2 (by intro hh; exact absurd hh (by decide))).1

/-- a run continued from a machine between two lines: everything written from there on is stamped
`≥ lo` of that machine, and the final output is sorted -/
theorem run_from_mid {cfg : Cfg} {post : List L} {mi m1 m : M} (armed : Bool) (ri : RI mi)
    (harm : pend mi.st ≠ none → armed = true)
    (hmc : ∀ l ∈ post, startsWith l.text Generated.Markers.mcBegin = false) (hns : noStrayFrom armed post = true)
    (e1 : runFrom cfg mi post = .ok m1) (e : finish cfg m1 = .ok m) :
    Sorted (timeline m) ∧ (∀ r ∈ timeline m, r.src ≤ mi.n + post.length) ∧
      ∃ new, timeline m = timeline mi ++ new ∧ ∀ r ∈ new, lo mi ≤ r.src := by
  obtain ⟨ri1, hn1, _, hmono, new1, t1, b1⟩ := runFrom_ri post armed e1 hmc hns harm ri
  obtain ⟨new2, w⟩ := finish_w e ri1.ord.hi
  refine ⟨?_, ?_, new1 ++ new2, by rw [w.tl, t1, List.append_assoc], ?_⟩
  · rw [w.tl, sorted_append]
    exact ⟨ri1.ord.sorted, w.sorted, fun x hx y hy => Nat.le_trans (ri1.ord.below x hx) (w.lb y hy)⟩
  · intro r hr
    rw [w.tl] at hr
    rcases List.mem_append.mp hr with h | h
    · have := ri1.strict r h; omega
    · have := w.ub r h; omega
  · intro r hr
    rcases List.mem_append.mp hr with h | h
    · exact b1 r h
    · exact Nat.le_trans hmono (w.lb r h)

theorem lo_init : lo ({} : M) = 0 := rfl

/-- **All rows of the output are in input order** (whole runs, every configuration of the model):
for an input in which no line opens a merge-conflict region and no `@@` line is directly followed by
a `Binary files` / `new file mode` / `deleted file mode` line, the stamps `src` of ALL rows of
delta's output are non-decreasing, and none exceeds the number of input lines. -/
theorem run_rows_sorted {cfg : Cfg} {ls : List L} {m : M}
    (hmc : ∀ l ∈ ls, startsWith l.text Generated.Markers.mcBegin = false) (hns : NoStray ls)
    (e : run cfg ls = .ok m) : Sorted m.out ∧ ∀ r ∈ m.out, r.src ≤ ls.length := by
  have hout := (run_spec e).2
  unfold run at e
  split at e
  · cases e
  · rename_i m1 e1
    obtain ⟨h1, h2, _⟩ := run_from_mid false ri_init (fun h => absurd rfl h) hmc hns e1 e
    rw [← hout]
    exact ⟨h1, fun r hr => by simpa using h2 r hr⟩

end Machine
