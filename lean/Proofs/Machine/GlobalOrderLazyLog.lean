import Proofs.Machine.GlobalOrderLazy
/-!
Where the lazily written file header stands when the section that owes it is followed by a submodule log
(`git diff --submodule=log`: a `Submodule <path> <range>:` line instead of a `diff ` line).

`handle_submodule_log_line` begins like `handle_diff_header_diff_line`: `paint_buffered_minus_and_plus_lines();
handle_pending_line_with_diff_name()?`. So the rows `H` of the owed header stand directly after everything rendered for
the lines before the `Submodule …` line and before every other row of that line (its own header) and of all later
lines — the statement of `run_lazy_file_header_in_place` with a `Submodule ` line as the trigger. (Before the repair of
the handler the header came after the log, or not at all.)
-/
set_option linter.unusedSimpArgs false
set_option linter.unusedVariables false
namespace Machine
open Headers Generated

/-- what a line starting with `Submodule ` does not start with (the development of the file headers,
`FileHeaders*.lean`, has the same facts but cannot be imported next to `GlobalOrder.lean`: both define `pend`) -/
theorem sublogLine_facts {l : L} (h : startsWith l.text Markers.submoduleLog = true) :
    startsWith l.text Markers.diffLine = false ∧ startsWithAny l.text Markers.fileOperationLine = false ∧
      startsWithAny l.text Markers.minusLine = false ∧ startsWithAny l.text Markers.plusLine = false ∧
      startsWith l.text Markers.hunkHeader = false ∧ startsWith l.text Markers.oldMode = false ∧
      startsWith l.text Markers.newMode = false ∧ startsWith l.text Markers.onlyIn = false ∧
      startsWith l.text Markers.binaryFiles = false := by
  obtain ⟨rest, ht⟩ : ∃ rest, l.text = Markers.submoduleLog ++ rest := by
    unfold startsWith at h
    obtain ⟨t, ht⟩ := List.isPrefixOf_iff_prefix.mp h
    exact ⟨t, ht.symm⟩
  refine ⟨by simp [ht, startsWith, Markers.diffLine, Markers.submoduleLog, List.isPrefixOf],
    by simp [ht, startsWithAny, startsWith, Markers.fileOperationLine, Markers.submoduleLog, List.isPrefixOf],
    by simp [ht, startsWithAny, startsWith, Markers.minusLine, Markers.submoduleLog, List.isPrefixOf],
    by simp [ht, startsWithAny, startsWith, Markers.plusLine, Markers.submoduleLog, List.isPrefixOf],
    by simp [ht, startsWith, Markers.hunkHeader, Markers.submoduleLog, List.isPrefixOf],
    by simp [ht, startsWith, Markers.oldMode, Markers.submoduleLog, List.isPrefixOf],
    by simp [ht, startsWith, Markers.newMode, Markers.submoduleLog, List.isPrefixOf],
    by simp [ht, startsWith, Markers.onlyIn, Markers.submoduleLog, List.isPrefixOf],
    by simp [ht, startsWith, Markers.binaryFiles, Markers.submoduleLog, List.isPrefixOf]⟩

/-- a `Submodule …` line runs down the chain to `handle_submodule_log_line`: first the pending header of the section
that ends here, then the line itself (as a file header, or — file style raw without decoration — unchanged) -/
theorem submoduleLog_line_claims (cfg : Cfg) (x : M) (l : L) (hsw : startsWith l.text Markers.submoduleLog = true)
    (hcr : l.commitRe = false) :
    ∃ X own, chain cfg l Generated.handlerOrder x = .ok X ∧
      timeline X = timeline (pendingDiffName cfg (flushMP x)) ++ own ∧
      (∀ r ∈ own, r.src = x.n) ∧ X.st = .submoduleLog ∧ X.n = x.n := by
  obtain ⟨hdiff, hfo, hmn, hpl, hhh, hom, hnm, hoi, hbin⟩ := sublogLine_facts hsw
  have e1 := handleCommitMeta_not_mine cfg x l hcr
  have e3 := handleDiffHeaderDiff_not_mine cfg x l hdiff
  have e4 := handleFileOperation_not_mine cfg x l (by simp [hfo])
  have e5 : handleMinusLine cfg x l = .ok (false, x) := by
    apply handleMinusLine_not_mine
    unfold minusLineTest
    simp only [startsWithAny, Markers.minusLine, List.any_cons, List.any_nil, Bool.or_false, Bool.or_eq_false_iff] at hmn
    obtain ⟨a, b, c⟩ := hmn
    simp [Markers.minusLine, startsWithAny, a, b, c]
  have e6 := handlePlusLine_not_mine cfg x l (by unfold plusLineTest; simp [hpl])
  have e7 := handleHunkHeader_not_mine cfg x l hhh
  have e8 := handleModeLine_not_mine cfg x l hom hnm
  have e9 := handleMisc_not_mine cfg x l hoi hbin
  obtain ⟨y, hy⟩ : ∃ y, y = pendingDiffName cfg (flushMP x) := ⟨_, rfl⟩
  obtain ⟨hym, hyp⟩ : y.minus = [] ∧ y.plus = [] := by rw [hy]; exact pendingDiffName_quiet cfg (by simp) (by simp)
  have hfy : flushMP y = y := by unfold flushMP; simp [hym, hyp]
  have hyn : y.n = x.n := by rw [hy, pendingDiffName_n, flushMP_n]
  obtain ⟨z, hz⟩ : ∃ z : M, z = { y with st := .submoduleLog } := ⟨_, rfl⟩
  have hzt : timeline z = timeline y := by rw [hz]; rfl
  have hzst : z.st = .submoduleLog := by rw [hz]
  have hzn : z.n = x.n := by rw [hz]; exact hyn
  by_cases hsh : shouldHandle cfg z = true
  · have e10 : handleSubmoduleLog cfg x l = .ok (true, writeGeneric cfg (emit z) l.text l.raw) := by
      unfold handleSubmoduleLog handleAdditionalCases
      rw [← hy, hfy, ← hz]
      simp only [hsw, Bool.not_true, Bool.false_eq_true, if_false, hsh, if_true]
    obtain ⟨rows, ht, hr⟩ := writeGeneric_rows cfg (emit z) l.text l.raw (by simp)
      (by rw [emit_minus, hz]; exact hym) (by rw [emit_plus, hz]; exact hyp)
    refine ⟨writeGeneric cfg (emit z) l.text l.raw, rows, ?_, ?_, ?_, ?_, ?_⟩
    · simp only [Generated.handlerOrder, chain, handlerOf, e1, handleDiffStat, e3, e4, e5, e6, e7, e8, e9, e10]
    · rw [ht, timeline_emit, hzt, hy]
    · intro r hr'; rw [hr r hr', emit_n, hzn]
    · rw [writeGeneric_st, emit_st, hzst]
    · rw [writeGeneric_n, emit_n, hzn]
  · have hsh' : shouldHandle cfg z = false := by simpa using hsh
    have e10 : handleSubmoduleLog cfg x l = .ok (false, z) := by
      unfold handleSubmoduleLog handleAdditionalCases
      rw [← hy, hfy, ← hz]
      simp only [hsw, Bool.not_true, Bool.false_eq_true, if_false, hsh']
    have hnd : isDiffHeader z.st = false := by rw [hzst]; rfl
    have e11 : handleSubmoduleShort cfg z l = .ok (false, z) := by
      unfold handleSubmoduleShort submoduleShortTest
      simp [hzst, pairableHunkHeader]
    have e12 := handleMergeConflict_not_mine cfg z l (by rw [hzst]; rfl) (by rw [hzst]; rfl)
    have e13 : handleHunkLine cfg z l = .ok (false, z) := by unfold handleHunkLine; simp [hzst, isHunkState]
    have e15 : handleBlame cfg (emit z) l = .ok (false, emit (emit z)) := by
      unfold handleBlame; simp [hzst]
    have e16 : handleGrep cfg (emit (emit z)) l = .ok (false, emit (emit (emit z))) := by
      unfold handleGrep; simp [hzst]
    have e17 : handleShouldSkip cfg (emit (emit (emit z))) l = .ok (false, emit (emit (emit z))) := by
      unfold handleShouldSkip shouldSkipLine; simp [hnd]
    refine ⟨emitLineUnchanged (emit (emit (emit z))) l, [{ kind := .raw, text := l.raw, src := x.n }], ?_, ?_, ?_, ?_, ?_⟩
    · simp only [Generated.handlerOrder, chain, handlerOf, e1, handleDiffStat, e3, e4, e5, e6, e7, e8, e9, e10, e11, e12,
        e13, handleGitShowFile, e15, e16, e17, handleEmitUnchanged]
    · rw [timeline_emitLineUnchanged, timeline_emit, timeline_emit, timeline_emit, hzt, hy]
      simp [hzn]
    · intro r hr'; simp at hr'; subst hr'; rfl
    · rw [emitLineUnchanged_st]; exact hzst
    · rw [emitLineUnchanged_n]; exact hzn

/-- **The lazily written file header stands before the submodule log** (whole runs). Let `t` be a `Submodule …` line of
the input (not a commit line), `mi` the machine when it arrives. Then delta's output is `timeline mi ++ H ++ rest` where
`timeline mi` is everything rendered for the lines before `t` (all stamped below `t`), `H` are the rows
`handle_pending_line_with_diff_name` writes at this moment for the section that ends here (its file header, if still
owed), stamped with the index of `t`, and `rest` holds every other row of `t` (the header showing the `Submodule …` line)
and of the later lines. -/
theorem run_lazy_file_header_before_submodule_log {cfg : Cfg} {pre post : List L} {t : L} {mi m : M}
    (hmc : ∀ x ∈ pre ++ t :: post, startsWith x.text Generated.Markers.mcBegin = false)
    (hns : NoStray (pre ++ t :: post))
    (ei : runFrom cfg {} pre = .ok mi) (hd : startsWith t.text Markers.submoduleLog = true) (hc : t.commitRe = false)
    (e : run cfg (pre ++ t :: post) = .ok m) :
    ∃ H rest, m.out = timeline mi ++ H ++ rest ∧
      timeline (pendingDiffName cfg (flushMP (stepInit mi t))) = timeline mi ++ H ∧
      (∀ r ∈ timeline mi, r.src < pre.length) ∧ (∀ r ∈ H, r.src = pre.length) ∧
      (∀ r ∈ rest, pre.length ≤ r.src) := by
  have hout := (run_spec e).2
  unfold run at e
  split at e
  · cases e
  · rename_i m2 e2
    rw [runFrom_append, ei] at e2
    simp only [runFrom] at e2
    split at e2
    · cases e2
    · rename_i m1 es
      have hmc_pre : ∀ x ∈ pre, startsWith x.text Generated.Markers.mcBegin = false :=
        fun x hx => hmc x (List.mem_append_left _ hx)
      have hmc_t : startsWith t.text Generated.Markers.mcBegin = false :=
        hmc t (List.mem_append_right _ List.mem_cons_self)
      have hmc_post : ∀ x ∈ post, startsWith x.text Generated.Markers.mcBegin = false :=
        fun x hx => hmc x (List.mem_append_right _ (List.mem_cons_of_mem _ hx))
      have hns' : noStrayFrom false (pre ++ t :: post) = true := hns
      rw [noStrayFrom_append] at hns'
      simp only [Bool.and_eq_true, noStrayFrom, Bool.not_eq_true', Bool.and_eq_false_iff] at hns'
      obtain ⟨hns_pre, hns_t, hns_post⟩ := hns'
      obtain ⟨rii, hni, harm, _, _⟩ := runFrom_ri pre false ei hmc_pre hns_pre (fun h => absurd rfl h) ri_init
      have hni' : mi.n = pre.length := by simpa using hni
      have hnst : pend mi.st ≠ none → stray t = false := by
        intro hp
        rcases hns_t with h | h
        · rw [harm hp] at h; cases h
        · exact h
      obtain ⟨ri1, hn1, _, _, _⟩ := step_ri hmc_t hnst rii es
      obtain ⟨htl0, hn0, hst0⟩ := stepInit_body mi t
      obtain ⟨X, own, hX, htX, hown, hstX, hnX⟩ := submoduleLog_line_claims cfg (stepInit mi t) t hd hc
      obtain ⟨H, htH, hH⟩ := pendingDiffName_rows cfg (flushMP (stepInit mi t)) (by simp) (by simp)
      have htY : timeline (flushMP (stepInit mi t)) = timeline mi := by rw [timeline_flushMP, htl0]
      have hnY : (flushMP (stepInit mi t)).n = pre.length := by rw [flushMP_n, hn0, hni']
      have hm1 : timeline m1 = timeline mi ++ H ++ own ∧ pend m1.st = none := by
        unfold step at es
        rw [hX] at es
        cases es
        exact ⟨by show timeline X = _; rw [htX, htH, htY], by show pend X.st = none; rw [hstX]; rfl⟩
      obtain ⟨_, _, new, tn, bn⟩ := run_from_mid (hhLike t) ri1 (fun h => absurd hm1.2 h) hmc_post hns_post e2 e
      refine ⟨H, own ++ new, by rw [← hout, tn, hm1.1]; simp [List.append_assoc], by rw [htH, htY], ?_, ?_, ?_⟩
      · intro r hr
        have := rii.strict r hr
        omega
      · intro r hr; rw [hH r hr, hnY]
      · intro r hr
        rcases List.mem_append.mp hr with h | h
        · rw [hown r h, hn0, hni']; exact Nat.le_refl _
        · have := bn r h
          rw [lo_of_pend_none hm1.2, hn1, hni'] at this
          omega

end Machine
