import Proofs.Machine.ColorOnly
/-!
`--color-only` with the presets it implies (raw header styles, markers kept, tab width 0): every
row written shows the visible text of its input line unchanged.

`NewOK l m r`: a row written while line `l` is handled either belongs to `l` (its `src` is the
current index and its text is `l.raw` or `l.text`) or is the row of the pending hunk header, which
carries the raw header line stored in the state. Lifted over whole runs of a unified git diff:
every row of the output carries the raw line or the visible text of the input line it is stamped
with (`run_color_only_text`); together with `run_color_only` (row `i` is stamped `i`) this is the
second sentence of C02.
-/
set_option linter.unusedSimpArgs false
set_option linter.unusedVariables false
namespace Machine
open Headers

/-- the presets `--color-only` implies -/
structure Preset (cfg : Cfg) : Prop where
  nf : CONormal cfg
  commitRaw : cfg.commitStyle.isRaw = true
  fileRaw : cfg.fileStyle.isRaw = true
  hhRaw : cfg.hunkHeaderStyle.isRaw = true
  keep : cfg.keepMarkers = true
  tab0 : cfg.tab = 0

/-- the diff type carried by the state is `unified` (no combined diff has been announced) -/
def Unif : State → Prop
  | .diffHeader dt | .hunkHeader dt .. | .hunkZero dt | .hunkMinus dt | .hunkPlus dt => dt = .unified
  | _ => True

def NewOK (l : L) (m : M) (r : Row) : Prop :=
  (r.src = m.n ∧ (r.text = l.raw ∨ r.text = l.text)) ∨
  (∃ dt hh line raw src, m.st = .hunkHeader dt hh line raw src ∧ r.src = src ∧ r.text = raw)

/-- what a handler does, as far as row texts go -/
structure TS (l : L) (m m' : M) : Prop where
  n : m'.n = m.n
  rows : ∃ new, timeline m' = timeline m ++ new ∧ ∀ r ∈ new, NewOK l m r
  pendRaw : ∀ dt hh line raw src, m'.st = .hunkHeader dt hh line raw src →
      m.st = .hunkHeader dt hh line raw src ∨ (raw = l.raw ∧ src = m.n)
  unif : Unif m.st → Unif m'.st

theorem TS.refl (l : L) (m : M) : TS l m m :=
  ⟨rfl, ⟨[], by simp, by simp⟩, fun _ _ _ _ _ h => Or.inl h, id⟩

/-- same timeline, same state (or a state that is neither a pending header nor carries a diff type) -/
theorem TS.quiet {l : L} {m m' : M} (hn : m'.n = m.n) (ht : timeline m' = timeline m)
    (hs : m'.st = m.st ∨ (isHunkHeader m'.st = false ∧ Unif m'.st)) : TS l m m' := by
  refine ⟨hn, ⟨[], by simp [ht], by simp⟩, ?_, ?_⟩
  · intro dt hh line raw src h
    rcases hs with h1 | h1
    · exact Or.inl (h1 ▸ h)
    · rw [h] at h1; simp [isHunkHeader] at h1
  · intro hu
    rcases hs with h1 | h1
    · rw [h1]; exact hu
    · exact h1.2

/-- one new row for the current line, state unchanged or quiet -/
theorem TS.row {l : L} {m m' : M} {row : Row} (hn : m'.n = m.n) (ht : timeline m' = timeline m ++ [row])
    (hsrc : row.src = m.n) (htx : row.text = l.raw ∨ row.text = l.text)
    (hs : m'.st = m.st ∨ (isHunkHeader m'.st = false ∧ Unif m'.st)) : TS l m m' := by
  refine ⟨hn, ⟨[row], ht, ?_⟩, ?_, ?_⟩
  · intro r hr; simp at hr; subst hr; exact Or.inl ⟨hsrc, htx⟩
  · intro dt hh line raw src h
    rcases hs with h1 | h1
    · exact Or.inl (h1 ▸ h)
    · rw [h] at h1; simp [isHunkHeader] at h1
  · intro hu
    rcases hs with h1 | h1
    · rw [h1]; exact hu
    · exact h1.2

theorem NewOK.mono {l : L} {m m1 : M} {r : Row} (h1 : TS l m m1) (h : NewOK l m1 r) : NewOK l m r := by
  rcases h with ⟨hs, ht⟩ | ⟨dt, hh, line, raw, src, hst, hs, ht⟩
  · exact Or.inl ⟨hs.trans h1.n, ht⟩
  · rcases h1.pendRaw dt hh line raw src hst with h2 | ⟨h2, h3⟩
    · exact Or.inr ⟨dt, hh, line, raw, src, h2, hs, ht⟩
    · exact Or.inl ⟨hs.trans h3, Or.inl (ht.trans h2)⟩

theorem TS.trans {l : L} {m m1 m' : M} (h1 : TS l m m1) (h2 : TS l m1 m') : TS l m m' := by
  obtain ⟨n1, t1, ok1⟩ := h1.rows
  obtain ⟨n2, t2, ok2⟩ := h2.rows
  refine ⟨h2.n.trans h1.n, ⟨n1 ++ n2, by rw [t2, t1, List.append_assoc], ?_⟩, ?_, fun hu => h2.unif (h1.unif hu)⟩
  · intro r hr
    rcases List.mem_append.mp hr with h | h
    · exact ok1 r h
    · exact (ok2 r h).mono h1
  · intro dt hh line raw src h
    rcases h2.pendRaw dt hh line raw src h with h3 | ⟨h3, h4⟩
    · exact h1.pendRaw dt hh line raw src h3
    · exact Or.inr ⟨h3, h4.trans h1.n⟩

-- primitives under the presets -----------------------------------------------------

theorem drawRows_raw_none (st : ElemStyle) (k : RowKind) (t r a : Str) (src : Nat) (hraw : st.isRaw = true)
    (hd : st.deco = .none) : drawRows st k t r a src = [{ kind := .raw, text := r, src := src }] := by
  unfold drawRows; simp [hraw, hd]

theorem shouldHandle_raw {cfg : Cfg} {m : M} {st : ElemStyle} (hs : getStyle cfg m.st = some st)
    (hraw : st.isRaw = true) (hd : st.deco = .none) : shouldHandle cfg m = false := by
  unfold shouldHandle; simp [hs, hraw, hd]

/-- `write_generic_diff_header_header_line` after a flush, presets: one raw row with the raw line -/
theorem writeGeneric_ps {cfg : Cfg} (ps : Preset cfg) (m : M) (t raw : Str) :
    timeline (writeGeneric cfg (emit (flushMP m)) t raw) = timeline m ++ [{ kind := .raw, text := raw, src := m.n }] := by
  obtain ⟨hco, _, hfd, _⟩ := ps.nf
  unfold writeGeneric
  simp only [hco, not_true_eq_false, and_false, if_false, if_true, List.nil_append]
  rw [drawRows_raw_none _ _ _ _ _ _ ps.fileRaw hfd]
  have := timeline_direct_flushed m [{ kind := RowKind.raw, text := raw, src := (emit (flushMP m)).n }]
  simpa [timeline] using this

theorem shouldWriteGeneric_fst {cfg : Cfg} (hco : cfg.colorOnly = true) (x : M) (l : L) :
    (shouldWriteGeneric cfg x l).1 = true := by
  unfold shouldWriteGeneric; simp [hco]

theorem shouldWriteGeneric_ts {cfg : Cfg} (ps : Preset cfg) {m x : M} (l : L) (hx : Same m x) :
    TS l m (shouldWriteGeneric cfg x l).2 := by
  have hco := ps.nf.1
  unfold shouldWriteGeneric
  simp only [hco, if_true]
  refine TS.row (row := { kind := .raw, text := l.raw, src := x.n }) ?_ ?_ hx.n (Or.inl rfl) (Or.inl ?_)
  · rw [writeGeneric_n, emit_n, flushMP_n]; exact hx.n
  · rw [writeGeneric_ps ps x l.text l.raw, hx.tl]
  · rw [writeGeneric_st, emit_st, flushMP_st]; exact hx.st

-- handlers ------------------------------------------------------------------

theorem quietSt_commitMeta : isHunkHeader State.commitMeta = false ∧ Unif State.commitMeta := by simp [Unif, isHunkHeader]

theorem handleCommitMeta_ts {cfg : Cfg} {m m' : M} {l : L} {b : Bool} (ps : Preset cfg) (inv : COInv m)
    (e : handleCommitMeta cfg m l = .ok (b, m')) : TS l m m' := by
  have hco := ps.nf.1
  unfold handleCommitMeta at e
  split at e
  · cases e; exact TS.refl l m
  · have hmi : (flushMP m).modeInfo = [] := by simp [inv.mode]
    rw [pendingDiffName_co hco hmi] at e
    have hsh : shouldHandle cfg ({ flushMP m with st := State.commitMeta } : M) = false :=
      shouldHandle_raw (st := cfg.commitStyle) rfl ps.commitRaw ps.nf.2.1
    simp only [hsh, Bool.false_eq_true, if_false] at e
    cases e
    exact TS.quiet (flushMP_n m) (timeline_flushMP m) (Or.inr quietSt_commitMeta)

theorem handleDiffStat_ts {cfg : Cfg} {m m' : M} {l : L} {b : Bool}
    (e : handleDiffStat cfg m l = .ok (b, m')) : TS l m m' := by
  unfold handleDiffStat at e; cases e; exact TS.refl l m

/-- no line announces a combined diff -/
def NotCombined (l : L) : Prop := startsWithAny l.text Generated.Markers.combinedDiffLine = false

theorem diffLineState_unif {l : L} (h : NotCombined l) : diffLineState l = .diffHeader .unified := by
  unfold diffLineState NotCombined at *; simp [h]

theorem handleDiffHeaderDiff_ts {cfg : Cfg} {m m' : M} {l : L} {b : Bool} (ps : Preset cfg) (inv : COInv m)
    (hnc : NotCombined l) (e : handleDiffHeaderDiff cfg m l = .ok (b, m')) : TS l m m' := by
  have hco := ps.nf.1
  unfold handleDiffHeaderDiff at e
  split at e
  · cases e; exact TS.refl l m
  · have hmi : ({ flushMP m with st := diffLineState l } : M).modeInfo = [] := (flushMP_modeInfo m).trans inv.mode
    rw [pendingDiffName_co hco hmi, shouldSkipLine_co _ hco] at e
    simp only [Bool.false_eq_true, if_false] at e
    cases e
    unfold emitLineUnchanged
    refine TS.row (row := { kind := .raw, text := l.raw, src := (diffLineFields { flushMP m with st := diffLineState l } l).n })
      ?_ ?_ (flushMP_n m) (Or.inl rfl) (Or.inr ?_)
    · rw [direct_n, emit_n, flushMP_n]; exact flushMP_n m
    · rw [timeline_direct_flushed]
      exact congrArg (· ++ _) (timeline_flushMP m)
    · rw [direct_st, emit_st, flushMP_st]
      show isHunkHeader (diffLineState l) = false ∧ Unif (diffLineState l)
      rw [diffLineState_unif hnc]; exact ⟨rfl, rfl⟩

theorem handleFileOperation_ts {cfg : Cfg} {m m' : M} {l : L} {b : Bool} (ps : Preset cfg)
    (e : handleFileOperation cfg m l = .ok (b, m')) : TS l m m' := by
  unfold handleFileOperation at e
  split at e
  · cases e; exact TS.refl l m
  · have hx : Same m (fileOpUpdate m (parseDiffHeaderLine l.text (m.source = .gitDiff)).2
        ((repeatedFilePath m.diffLine m.diffLineG).getD [])) := by
      unfold fileOpUpdate; split <;> exact ⟨rfl, rfl, rfl, rfl, rfl⟩
    unfold fileOpFinish at e
    simp only [shouldWriteGeneric_fst ps.nf.1, if_true] at e
    obtain ⟨rfl, rfl⟩ := ok_pair e
    exact shouldWriteGeneric_ts ps l hx

theorem handleMinusLine_ts {cfg : Cfg} {m m' : M} {l : L} {b : Bool} (ps : Preset cfg) (inv : COInv m)
    (e : handleMinusLine cfg m l = .ok (b, m')) : TS l m m' := by
  unfold handleMinusLine at e
  split at e
  · cases e; exact TS.refl l m
  · simp only at e
    have hsrc : (m.source = Source.diffUnified) = False := by simp [inv.source]
    simp only [hsrc, if_false] at e
    have hx : Same m (flushMP { m with minusFile := (parseDiffHeaderLine l.text (m.source = .gitDiff)).1,
                                        minusEvent := (parseDiffHeaderLine l.text (m.source = .gitDiff)).2,
                                        st := m.st, handledPair := m.handledPair }) :=
      Same.flushMP ⟨rfl, rfl, rfl, rfl, rfl⟩
    obtain ⟨rfl, rfl⟩ := ok_pair e
    exact shouldWriteGeneric_ts ps l hx

theorem handlePlusLine_ts {cfg : Cfg} {m m' : M} {l : L} {b : Bool} (ps : Preset cfg)
    (e : handlePlusLine cfg m l = .ok (b, m')) : TS l m m' := by
  unfold handlePlusLine at e
  split at e
  · cases e; exact TS.refl l m
  · simp only at e
    have hx : Same m (flushMP { m with plusFile := (parseDiffHeaderLine l.text (m.source = .gitDiff)).1,
                                        plusEvent := (parseDiffHeaderLine l.text (m.source = .gitDiff)).2,
                                        currentPair := some (m.minusFile, (parseDiffHeaderLine l.text (m.source = .gitDiff)).1) }) :=
      Same.flushMP ⟨rfl, rfl, rfl, rfl, rfl⟩
    unfold plusLineFinish at e
    simp only [shouldWriteGeneric_fst ps.nf.1, if_true] at e
    obtain ⟨rfl, rfl⟩ := ok_pair e
    exact shouldWriteGeneric_ts ps l hx

theorem hunkHeaderDiffType_unif {m : M} {l : L} (hu : Unif m.st) : hunkHeaderDiffType m l = .unified := by
  unfold hunkHeaderDiffType
  cases hs : m.st <;> simp_all [Unif]

theorem handleHunkHeader_ts {cfg : Cfg} {m m' : M} {l : L} {b : Bool}
    (e : handleHunkHeader cfg m l = .ok (b, m')) : TS l m m' := by
  unfold handleHunkHeader at e
  split at e
  · cases e; exact TS.refl l m
  · split at e
    · cases e; exact TS.refl l m
    · cases e
      refine ⟨rfl, ⟨[], by simp [timeline], by simp⟩, ?_, ?_⟩
      · intro dt hh line raw src h
        cases h
        exact Or.inr ⟨rfl, rfl⟩
      · intro hu
        show hunkHeaderDiffType m l = .unified
        exact hunkHeaderDiffType_unif hu

theorem quietSt_diffHeader : isHunkHeader (State.diffHeader .unified) = false ∧ Unif (State.diffHeader .unified) :=
  ⟨rfl, rfl⟩

theorem handleModeLine_ts {cfg : Cfg} {m m' : M} {l : L} {b : Bool} (ps : Preset cfg)
    (e : handleModeLine cfg m l = .ok (b, m')) : TS l m m' := by
  have hco := ps.nf.1
  unfold handleModeLine at e
  simp only [hco, not_true_eq_false, and_false, false_and, if_false] at e
  split at e
  · cases e; exact TS.quiet rfl rfl (Or.inr quietSt_diffHeader)
  · split at e
    · cases e; exact TS.quiet rfl rfl (Or.inr quietSt_diffHeader)
    · cases e; exact TS.refl l m

/-- `handle_additional_cases` with the presets: the raw file style means the line is not claimed -/
theorem handleAdditionalCases_ts {cfg : Cfg} {m m' : M} {l : L} {b : Bool} {to : State} (ps : Preset cfg)
    (hst : getStyle cfg to = some cfg.fileStyle) (hq : isHunkHeader to = false ∧ Unif to)
    (e : handleAdditionalCases cfg m l to = .ok (b, m')) : TS l m m' := by
  unfold handleAdditionalCases at e
  have hsh : shouldHandle cfg ({ flushMP m with st := to } : M) = false :=
    shouldHandle_raw (st := cfg.fileStyle) hst ps.fileRaw ps.nf.2.2.1
  simp only [hsh, Bool.false_eq_true, if_false] at e
  cases e
  exact TS.quiet (flushMP_n m) (timeline_flushMP m) (Or.inr hq)

theorem handleMisc_ts {cfg : Cfg} {m m' : M} {l : L} {b : Bool} (ps : Preset cfg) (inv : COInv m)
    (hu : Unif m.st) (e : handleMisc cfg m l = .ok (b, m')) : TS l m m' := by
  have hco := ps.nf.1
  unfold handleMisc at e
  simp only [inv.source, hco, not_true_eq_false, false_and, if_false] at e
  split at e
  · cases e; exact TS.refl l m
  · refine handleAdditionalCases_ts ps ?_ ?_ e
    · split
      · rename_i hd; cases hs : m.st <;> simp_all [isDiffHeader, getStyle]
      · rfl
    · split
      · rename_i hd
        cases hs : m.st <;> simp_all [isDiffHeader, isHunkHeader]
      · exact quietSt_diffHeader

theorem handleSubmoduleLog_ts {cfg : Cfg} {m m' : M} {l : L} {b : Bool} (ps : Preset cfg) (hm : m.modeInfo = [])
    (e : handleSubmoduleLog cfg m l = .ok (b, m')) : TS l m m' := by
  unfold handleSubmoduleLog at e
  split at e
  · cases e; exact TS.refl l m
  · rw [pendingDiffName_co ps.nf.1 ((flushMP_modeInfo m).trans hm), handleAdditionalCases_flushMP] at e
    exact handleAdditionalCases_ts ps rfl (by simp [Unif, isHunkHeader]) e

theorem handleSubmoduleShort_ts {cfg : Cfg} {m m' : M} {l : L} {b : Bool} (ps : Preset cfg)
    (e : handleSubmoduleShort cfg m l = .ok (b, m')) : TS l m m' := by
  unfold handleSubmoduleShort at e
  simp only [ps.nf.1, Bool.or_true, if_true] at e
  cases e; exact TS.refl l m

theorem handleMergeConflict_ts {cfg : Cfg} {m m' : M} {l : L} {b : Bool} (ps : Preset cfg)
    (e : handleMergeConflict cfg m l = .ok (b, m')) : TS l m m' := by
  unfold handleMergeConflict at e
  simp only [ps.nf.1, true_or, if_true] at e
  cases e; exact TS.refl l m

theorem handleGitShowFile_ts {cfg : Cfg} {m m' : M} {l : L} {b : Bool}
    (e : handleGitShowFile cfg m l = .ok (b, m')) : TS l m m' := by
  unfold handleGitShowFile at e; cases e
  exact TS.quiet rfl (timeline_emit m) (Or.inl rfl)

theorem handleShouldSkip_ts {cfg : Cfg} {m m' : M} {l : L} {b : Bool}
    (e : handleShouldSkip cfg m l = .ok (b, m')) : TS l m m' := by
  unfold handleShouldSkip at e; cases e; exact TS.refl l m

theorem handleEmitUnchanged_ts {cfg : Cfg} {m m' : M} {l : L} {b : Bool}
    (e : handleEmitUnchanged cfg m l = .ok (b, m')) : TS l m m' := by
  unfold handleEmitUnchanged at e; cases e
  unfold emitLineUnchanged
  refine TS.row (row := { kind := .raw, text := l.raw, src := m.n }) ?_ (timeline_direct_flushed m _) rfl (Or.inl rfl)
    (Or.inl ?_)
  · rw [direct_n, emit_n, flushMP_n]
  · rw [direct_st, emit_st, flushMP_st]

theorem handleBlame_ts {cfg : Cfg} {m m' : M} {l : L} {b : Bool} (g : Good m)
    (e : handleBlame cfg m l = .ok (b, m')) : TS l m m' := by
  unfold handleBlame at e
  simp only at e
  split at e
  · rename_i hc
    cases e
    have hq : m.minus = [] ∧ m.plus = [] := g.quiet (by rcases hc.1 with h1 | h1 <;> (rw [h1]; rfl))
    refine TS.row (row := { kind := .blame, text := l.text, src := m.n }) (direct_n _ _)
      (timeline_direct_emit m _ hq.1 hq.2) rfl (Or.inr rfl) (Or.inr (by simp [Unif, isHunkHeader]))
  · cases e; exact TS.quiet rfl (timeline_emit m) (Or.inl rfl)

theorem handleGrep_ts {cfg : Cfg} {m m' : M} {l : L} {b : Bool} (g : Good m) (hg : l.grep ≠ 2)
    (e : handleGrep cfg m l = .ok (b, m')) : TS l m m' := by
  unfold handleGrep at e
  simp only at e
  split at e
  · rename_i hc
    have hq : m.minus = [] ∧ m.plus = [] := g.quiet (by rcases hc.1 with h1 | h1 <;> (rw [h1]; rfl))
    cases e
    refine TS.row (row := { kind := .grep, text := l.text, src := m.n }) (direct_n _ _)
      (timeline_direct_emit m _ hq.1 hq.2) rfl (Or.inr rfl) (Or.inr (by simp [Unif, isHunkHeader]))
  · cases e; exact TS.quiet rfl (timeline_emit m) (Or.inl rfl)

-- hunk lines ------------------------------------------------------------------

theorem hunkDiffType_unif {s : State} (hh : isHunkState s = true) (hu : Unif s) : hunkDiffType s = some .unified := by
  cases s <;> simp_all [isHunkState, Unif, hunkDiffType]

/-- with markers kept and tab width 0 the painted hunk line is the visible text of the input line -/
theorem classifyUnified_text {cfg : Cfg} (ps : Preset cfg) {l : L} {k : LineKind} {dt : DiffType}
    (h : classifyUnified l = some (k, dt)) :
    dt = .unified ∧ paintedPrefix cfg k .unified ++ prepare cfg 1 l = l.text := by
  unfold classifyUnified at h
  cases ht : l.text with
  | nil => simp [ht] at h
  | cons c rest =>
    have hprep : ∀ (hc : c.toNat < 128), prepare cfg 1 l = rest := by
      intro hc
      unfold prepare; simp [ht, hc, Text.expand, ps.tab0]
    simp only [ht, List.head?_cons] at h
    split at h
    · rename_i hc; cases hc; cases h
      exact ⟨rfl, by rw [hprep (by decide)]; simp [paintedPrefix, ps.keep]⟩
    · rename_i hc; cases hc; cases h
      exact ⟨rfl, by rw [hprep (by decide)]; simp [paintedPrefix, ps.keep]⟩
    · rename_i hc; cases hc; cases h
      exact ⟨rfl, by rw [hprep (by decide)]; simp [paintedPrefix, ps.keep]⟩
    · cases h

theorem hunkLinePush_ps {cfg : Cfg} (ps : Preset cfg) {m m' : M} {l : L} (hh : isHunkState m.st = true)
    (hu : Unif m.st) (hplus : isHunkPlus m.st = false → m.plus = []) (e : hunkLinePush cfg m l = .ok m') :
    (∃ r : Row, timeline m' = timeline m ++ [r] ∧ r.src = m.n ∧ (r.text = l.raw ∨ r.text = l.text)) ∧
      Unif m'.st ∧ isHunkHeader m'.st = false ∧ m'.n = m.n := by
  unfold hunkLinePush at e
  have hn : newLineState m.st l = .ok (classifyUnified l) := by
    unfold newLineState; rw [hunkDiffType_unif hh hu]
  rw [hn] at e
  cases hc : classifyUnified l with
  | none =>
    simp only [hc] at e
    cases e
    have hsd : stateDiffType m.st = .unified := by
      cases hst : m.st <;> simp_all [isHunkState, stateDiffType, Unif]
    refine ⟨⟨{ kind := .other, text := Text.expand cfg.tab l.raw, src := m.n }, ?_, rfl, Or.inl ?_⟩, by simp [Unif, hsd], rfl, by simp⟩
    · rw [timeline_of_flushed m]; simp [timeline]
    · simp [Text.expand, ps.tab0]
  | some p =>
    obtain ⟨k, dt⟩ := p
    obtain ⟨hdt, htext⟩ := classifyUnified_text ps hc
    subst hdt
    simp only [hc, nParents] at e
    cases k with
    | minus =>
      simp only at e
      cases e
      cases hpl : isHunkPlus m.st
      · have hp0 := hplus hpl
        simp only [Bool.false_eq_true, if_false]
        refine ⟨⟨HLine.row { kind := .minus, pre := paintedPrefix cfg .minus .unified, text := prepare cfg 1 l, src := m.n },
            ?_, rfl, Or.inr htext⟩, by simp [Unif], by first | rfl | trivial | simp [isHunkHeader], by first | rfl | trivial | simp⟩
        simp [timeline, hp0]
      · simp only [if_true]
        refine ⟨⟨HLine.row { kind := .minus, pre := paintedPrefix cfg .minus .unified, text := prepare cfg 1 l, src := m.n },
            ?_, rfl, Or.inr htext⟩, by simp [Unif], by first | rfl | trivial | simp [isHunkHeader], by first | rfl | trivial | simp⟩
        rw [timeline_of_flushed m]; simp [timeline]
    | plus =>
      simp only at e
      cases e
      refine ⟨⟨HLine.row { kind := .plus, pre := paintedPrefix cfg .plus .unified, text := prepare cfg 1 l, src := m.n },
          ?_, rfl, Or.inr htext⟩, by simp [Unif], by first | rfl | trivial | simp [isHunkHeader], by first | rfl | trivial | simp⟩
      simp [timeline]
    | zero =>
      simp only at e
      cases e
      refine ⟨⟨{ kind := .zero, text := paintedPrefix cfg .zero .unified ++ prepare cfg 1 l, src := m.n },
          ?_, rfl, Or.inr htext⟩, by simp [Unif], by first | rfl | trivial | simp [isHunkHeader], by first | rfl | trivial | simp⟩
      rw [timeline_of_flushed m]; simp [timeline]

/-- the first part of `handle_hunk_line` with a raw hunk-header style: the pending header becomes one
raw row carrying the stored raw header line -/
theorem hunkLinePre_ps {cfg : Cfg} (ps : Preset cfg) {m m2 : M} {l : L} (e : hunkLinePre cfg m = .ok m2) :
    (∃ pre, timeline m2 = timeline m ++ pre ∧ ∀ r ∈ pre, NewOK l m r) ∧ m2.st = m.st ∧ m2.n = m.n := by
  unfold hunkLinePre at e
  simp only at e
  have hx : Same m (if m.minus.length > cfg.bufSize ∨ m.plus.length > cfg.bufSize then flushMP m else m) := by
    split
    · exact (Same.refl m).flushMP
    · exact Same.refl m
  generalize (if m.minus.length > cfg.bufSize ∨ m.plus.length > cfg.bufSize then flushMP m else m) = x at e hx
  split at e
  · rename_i dt hh line raw src hst
    unfold emitHunkHeader hunkHeaderRows at e
    simp only [ps.hhRaw, if_true, ps.nf.2.2.2, ne_eq, not_true_eq_false, if_false, List.nil_append] at e
    cases e
    rw [drawRows_raw_none _ _ _ _ _ _ ps.hhRaw ps.nf.2.2.2]
    refine ⟨⟨[{ kind := .raw, text := raw, src := src }], ?_, ?_⟩, ?_, ?_⟩
    · rw [timeline_direct_flushed, hx.tl]
    · intro r hr; simp at hr; subst hr
      exact Or.inr ⟨dt, hh, line, raw, src, hx.st ▸ hst, rfl, rfl⟩
    · rw [direct_st, emit_st, flushMP_st]; exact hx.st
    · rw [direct_n, emit_n, flushMP_n]; exact hx.n
  · cases e
    exact ⟨⟨[], by simp [hx.tl], by simp⟩, hx.st, hx.n⟩

theorem handleHunkLine_ts {cfg : Cfg} {m m' : M} {l : L} {b : Bool} (ps : Preset cfg) (g : Good m)
    (hu : Unif m.st) (e : handleHunkLine cfg m l = .ok (b, m')) : TS l m m' := by
  unfold handleHunkLine at e
  split at e
  · cases e; exact TS.refl l m
  · rename_i hst
    have hs' : isHunkState m.st = true := by simpa using hst
    split at e
    · cases e
    · rename_i m2 e2
      split at e
      · cases e
      · rename_i m3 e3
        cases e
        obtain ⟨⟨pre, htl2, hpre⟩, hst2, hn2⟩ := hunkLinePre_ps (l := l) ps e2
        obtain ⟨r2, _, hhdr, _, _⟩ := hunkLinePre_spec e2 g
        have hplus : isHunkPlus m2.st = false → m2.plus = [] := by
          intro hnp
          rw [hst2] at hnp
          rcases isHunkState_cases hs' with h | ⟨dt, h⟩ | ⟨dt, h⟩ | ⟨dt, h⟩
          · exact (hhdr h).2
          · have := (g.quiet (by rw [h]; rfl)).2
            rcases r2.shrink.2 with s | s <;> simp [s, this]
          · have := g.noPlus (by rw [h]; rfl)
            rcases r2.shrink.2 with s | s <;> simp [s, this]
          · rw [h] at hnp; simp [isHunkPlus] at hnp
        obtain ⟨⟨r, htl3, hrsrc, hrtx⟩, hu3, hnh3, hn3⟩ :=
          hunkLinePush_ps ps (by rw [hst2]; exact hs') (by rw [hst2]; exact hu) hplus e3
        refine ⟨by rw [emit_n, hn3, hn2], ⟨pre ++ [r], ?_, ?_⟩, ?_, fun _ => hu3⟩
        · rw [timeline_emit, htl3, htl2, List.append_assoc]
        · intro x hx
          rcases List.mem_append.mp hx with h | h
          · exact hpre x h
          · simp at h; subst h
            exact Or.inl ⟨hrsrc.trans hn2, hrtx⟩
        · intro dt hh line raw src h
          rw [emit_st] at h; rw [h] at hnh3; simp [isHunkHeader] at hnh3

-- chain, step, run --------------------------------------------------------------

theorem handlerOf_ts {name : String} {hd : Handler} (hn : handlerOf name = some hd)
    {cfg : Cfg} {m m' : M} {l : L} {b : Bool} (ps : Preset cfg) (inv : COInv m) (g : Good m) (hu : Unif m.st)
    (hg : l.grep ≠ 2) (hnc : NotCombined l) (e : hd cfg m l = .ok (b, m')) : TS l m m' := by
  unfold handlerOf at hn
  split at hn <;> first
    | (cases hn
       first
         | exact handleCommitMeta_ts ps inv e | exact handleDiffStat_ts e
         | exact handleDiffHeaderDiff_ts ps inv hnc e | exact handleFileOperation_ts ps e
         | exact handleMinusLine_ts ps inv e | exact handlePlusLine_ts ps e
         | exact handleHunkHeader_ts e | exact handleModeLine_ts ps e
         | exact handleMisc_ts ps inv hu e | exact handleSubmoduleLog_ts ps inv.mode e
         | exact handleSubmoduleShort_ts ps e | exact handleMergeConflict_ts ps e
         | exact handleHunkLine_ts ps g hu e | exact handleGitShowFile_ts e
         | exact handleBlame_ts g e | exact handleGrep_ts g hg e
         | exact handleShouldSkip_ts e | exact handleEmitUnchanged_ts e)
    | cases hn

/-- the chain: the `COInv` / `Good` / pending facts needed by later handlers come from the count
development (`handlerOf_co`), the row texts from `handlerOf_ts` -/
theorem chain_ts {cfg : Cfg} {l : L} (ps : Preset cfg) (hg : l.grep ≠ 2) (hnc : NotCombined l) :
    ∀ (names : List String) {m m' : M}, chain cfg l names m = .ok m' → COInv m → Good m → Unif m.st →
    (pend m = [] ∨ (HunkBody l ∧ safeOrder names = true)) → TS l m m'
  | [], m, m', e, _, _, _, _ => by simp only [chain] at e; cases e; exact TS.refl l m
  | name :: rest, m, m', e, inv, g, hu, hp => by
    simp only [chain] at e
    split at e
    · cases e
    · rename_i hd hn
      have hp1 : pend m = [] ∨ HunkBody l := hp.imp id (·.1)
      have hne : name = "emit_line_unchanged" → pend m = [] := by
        intro hname
        rcases hp with h | ⟨_, h⟩
        · exact h
        · subst hname; simp [safeOrder] at h
      split at e
      · cases e
      · rename_i m1 e1
        cases e; exact handlerOf_ts hn ps inv g hu hg hnc e1
      · rename_i m1 e1
        have t1 := handlerOf_ts hn ps inv g hu hg hnc e1
        have c1 := handlerOf_co hn ps.nf inv g hg hp1 hne e1
        have g1 := (handlerOf_step hn e1 g).good
        have hp' : pend m1 = [] ∨ (HunkBody l ∧ safeOrder rest = true) := by
          rcases hp with h | ⟨hb, h⟩
          · exact Or.inl ((c1.passed rfl).2.trans h)
          · by_cases hpm : pend m = []
            · exact Or.inl ((c1.passed rfl).2.trans hpm)
            · refine Or.inr ⟨hb, ?_⟩
              unfold safeOrder at h
              split at h
              · rename_i hname
                exfalso
                subst hname
                simp only [handlerOf, Option.some.injEq] at hn
                subst hn
                rcases handleHunkLine_spec e1 g with ⟨_, _, hs⟩ | ⟨hb', _, _⟩
                · rw [hunkState_of_hh (hh_of_pend hpm)] at hs; cases hs
                · cases hb'
              · split at h
                · cases h
                · exact h
        exact t1.trans (chain_ts ps hg hnc rest e c1.inv g1 (t1.unif hu) hp')

theorem step_ts {cfg : Cfg} {m m' : M} {l : L} (ps : Preset cfg) (inv : COInv m) (g : Good m) (hu : Unif m.st)
    (hg : l.grep ≠ 2) (hnc : NotCombined l) (hp : pend m = [] ∨ HunkBody l) (e : step cfg m l = .ok m') :
    (∃ new, timeline m' = timeline m ++ new ∧ ∀ r ∈ new, NewOK l m r) ∧ Unif m'.st ∧
      (∀ dt hh line raw src, m'.st = .hunkHeader dt hh line raw src →
        m.st = .hunkHeader dt hh line raw src ∨ (raw = l.raw ∧ src = m.n)) := by
  unfold step at e
  have hinit : stepInit m l = m := by unfold stepInit; simp [inv.source]
  rw [hinit] at e
  split at e
  · cases e
  · rename_i m2 e2
    cases e
    have t := chain_ts ps hg hnc _ e2 inv g hu (hp.imp id (fun h => ⟨h, safeOrder_generated⟩))
    exact ⟨t.rows, t.unif hu, t.pendRaw⟩

/-- a row shows the raw line or the visible text of the input line it is stamped with -/
def TxRow (all : List L) (r : Row) : Prop := ∃ l, all[r.src]? = some l ∧ (r.text = l.raw ∨ r.text = l.text)

/-- invariant over a run: every row on the timeline is `TxRow`, a pending header carries the raw text of its line -/
structure TX (all : List L) (m : M) : Prop where
  rows : ∀ r ∈ timeline m, TxRow all r
  pend : ∀ dt hh line raw src, m.st = .hunkHeader dt hh line raw src → ∃ l, all[src]? = some l ∧ raw = l.raw
  unif : Unif m.st

theorem runFrom_tx {cfg : Cfg} (ps : Preset cfg) (all : List L) : ∀ (ls : List L) {m m' : M} {p : Bool},
    runFrom cfg m ls = .ok m' → COInv m → Good m → TX all m →
    (∀ i l, ls[i]? = some l → all[m.n + i]? = some l) →
    (∀ l ∈ ls, l.grep ≠ 2 ∧ NotCombined l) → (pend m = [] ∨ p = true) → Followed p ls → TX all m'
  | [], m, m', p, e, _, _, tx, _, _, _, _ => by simp only [runFrom] at e; cases e; exact tx
  | l :: ls, m, m', p, e, inv, g, tx, hidx, hl, hp, hf => by
    simp only [runFrom] at e
    split at e
    · cases e
    · rename_i m1 e1
      obtain ⟨hbody, hrest⟩ := hf
      obtain ⟨hg, hnc⟩ := hl l (List.mem_cons_self ..)
      have hp1 : pend m = [] ∨ HunkBody l := hp.imp id hbody
      have hcur : all[m.n]? = some l := by simpa using hidx 0 l rfl
      obtain ⟨inv1, g1, _, hn1, hfresh⟩ := step_co ps.nf inv g hg hp1 e1
      obtain ⟨⟨new, htl, hnew⟩, hu1, hpend1⟩ := step_ts ps inv g tx.unif hg hnc hp1 e1
      have tx1 : TX all m1 := by
        refine ⟨?_, ?_, hu1⟩
        · intro r hr
          rw [htl] at hr
          rcases List.mem_append.mp hr with h | h
          · exact tx.rows r h
          · rcases hnew r h with ⟨hs, ht⟩ | ⟨dt, hh, line, raw, src, hst, hs, ht⟩
            · exact ⟨l, by rw [hs]; exact hcur, ht⟩
            · obtain ⟨l0, h0, hraw⟩ := tx.pend dt hh line raw src hst
              exact ⟨l0, by rw [hs]; exact h0, Or.inl (ht.trans hraw)⟩
        · intro dt hh line raw src hst
          rcases hpend1 dt hh line raw src hst with h | ⟨h1, h2⟩
          · exact tx.pend dt hh line raw src h
          · exact ⟨l, by rw [h2]; exact hcur, h1⟩
      refine runFrom_tx ps all ls e inv1 g1 tx1 ?_ (fun x hx => hl x (List.mem_cons_of_mem _ hx)) hfresh hrest
      intro i x hx
      have := hidx (i + 1) x (by simpa using hx)
      rw [hn1]; rw [show m.n + 1 + i = m.n + (i + 1) by omega]; exact this

/-- **`--color-only` preserves the text of every line** (presets in force; unified git diffs): every
row of delta's output carries the raw line or the visible text of the input line it is stamped
with. With `run_color_only` (row `i` is stamped `i`): output line `i` shows input line `i`. -/
theorem run_color_only_text {cfg : Cfg} (ps : Preset cfg) {d : L} {ls : List L} {m : M}
    (hd : detectSource d.text = .gitDiff) (hl : ∀ l ∈ d :: ls, l.grep ≠ 2 ∧ NotCombined l)
    (hf : Followed false (d :: ls)) (e : run cfg (d :: ls) = .ok m) :
    ∀ r ∈ m.out, TxRow (d :: ls) r := by
  have hout := (run_spec e).2
  unfold run at e
  split at e
  · cases e
  · rename_i m1 e1
    have hsame : (timeline (stepInit ({} : M) d) = [] ∧ (stepInit ({} : M) d).st = .unknown ∧
        (stepInit ({} : M) d).modeInfo = [] ∧ (stepInit ({} : M) d).n = 0) ∧
        (stepInit ({} : M) d).source = .gitDiff ∧
        (stepInit ({} : M) d).minus = [] ∧ (stepInit ({} : M) d).plus = [] ∧ (stepInit ({} : M) d).orderOk = true := by
      unfold stepInit armCounter
      simp only [hd, if_true]
      split
      · split <;> exact ⟨⟨rfl, rfl, rfl, rfl⟩, rfl, rfl, rfl, rfl⟩
      · split <;> exact ⟨⟨rfl, rfl, rfl, rfl⟩, rfl, rfl, rfl, rfl⟩
    obtain ⟨⟨htl0, hst0, hmode0, hn0⟩, hsrc0, hmin0, hpl0, hord0⟩ := hsame
    have hidem : stepInit (stepInit ({} : M) d) d = stepInit ({} : M) d := by
      generalize stepInit ({} : M) d = x at hsrc0
      unfold stepInit; simp [hsrc0]
    have hfirst : runFrom cfg (stepInit ({} : M) d) (d :: ls) = .ok m1 := by
      simp only [runFrom, step] at e1 ⊢
      rw [hidem]; exact e1
    have inv0 : COInv (stepInit ({} : M) d) :=
      ⟨hmode0, hsrc0, fun dt hh line raw src h => by rw [hst0] at h; cases h⟩
    have g0 : Good (stepInit ({} : M) d) := ⟨hord0, fun _ => ⟨hmin0, hpl0⟩, fun _ => hpl0⟩
    have hp00 : pend (stepInit ({} : M) d) = [] := by unfold pend; rw [hst0]
    have tx0 : TX (d :: ls) (stepInit ({} : M) d) := by
      refine ⟨?_, ?_, ?_⟩
      · rw [htl0]; simp
      · intro dt hh line raw src h; rw [hst0] at h; cases h
      · rw [hst0]; simp [Unif]
    have tx1 := runFrom_tx ps (d :: ls) (d :: ls) hfirst inv0 g0 tx0 (by intro i l h; rw [hn0]; simpa using h) hl
      (Or.inl hp00) hf
    obtain ⟨inv1, _, _, _⟩ := runFrom_co ps.nf (d :: ls) hfirst inv0 g0 (fun l h => (hl l h).1) (Or.inl hp00) hf
    have htl : timeline m = timeline m1 := tailOps_co ps.nf.1 _ e inv1.mode
    intro r hr
    rw [← hout, htl] at hr
    exact tx1.rows r hr

end Machine
