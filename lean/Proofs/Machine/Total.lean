import DeltaModel.Machine
/-!
Totality of the machine model: no error branch (the Rust panics / `delta_unreachable` exits that
the model keeps as explicit errors) is reachable. `wfState` is the invariant on the state that
makes the remaining ones unreachable: hunk states never carry an unknown number of merge parents
or the in-conflict flag, and a parsed hunk header has at least one file coordinate.
-/
set_option linter.unusedSimpArgs false
set_option linter.unusedVariables false
namespace Machine
open Headers

def dtOK : DiffType → Bool
  | .unified => true
  | .combined (.number _) false => true
  | .combined (.pre _) false => true
  | _ => false

def wfState : State → Bool
  | .hunkHeader dt hh _ _ _ => dtOK dt && !hh.coords.isEmpty
  | .hunkZero dt | .hunkMinus dt | .hunkPlus dt => dtOK dt
  | .mergeConflict mp _ => mp != .unknown
  | .diffHeader dt => dt == .unified || dt == .combined .unknown false
  | _ => true

/-- a handler result that is not an error and keeps the state well formed -/
def OkWF (r : Except String (Bool × M)) : Prop := ∃ b m', r = .ok (b, m') ∧ wfState m'.st = true

theorem OkWF.mk {b : Bool} {m' : M} (h : wfState m'.st = true) : OkWF (.ok (b, m')) := ⟨b, m', rfl, h⟩

@[simp] theorem emit_st' (m : M) : (emit m).st = m.st := rfl
@[simp] theorem flushMP_st' (m : M) : (flushMP m).st = m.st := by unfold flushMP; split <;> rfl
@[simp] theorem direct_st' (m : M) (rows : List Row) : (direct m rows).st = m.st := by
  unfold direct; split <;> rfl
@[simp] theorem writeGeneric_st' (cfg : Cfg) (m : M) (t r : Str) : (writeGeneric cfg m t r).st = m.st := by
  unfold writeGeneric; split <;> simp
@[simp] theorem handleHeaderLine_st' (cfg : Cfg) (m : M) (c : Bool) : (handleHeaderLine cfg m c).st = m.st := by
  unfold handleHeaderLine; simp
@[simp] theorem emitLineUnchanged_st' (m : M) (l : L) : (emitLineUnchanged m l).st = m.st := by
  unfold emitLineUnchanged; simp
@[simp] theorem pendingDiffName_st' (cfg : Cfg) (m : M) : (pendingDiffName cfg m).st = m.st := by
  unfold pendingDiffName
  repeat' split
  all_goals simp
@[simp] theorem shouldWriteGeneric_st' (cfg : Cfg) (m : M) (l : L) : (shouldWriteGeneric cfg m l).2.st = m.st := by
  unfold shouldWriteGeneric; split <;> simp
@[simp] theorem fileOpUpdate_st' (m : M) (ev : FileEvent) (nm : Str) : (fileOpUpdate m ev nm).st = m.st := by
  unfold fileOpUpdate; split <;> rfl
@[simp] theorem diffLineFields_st' (m : M) (l : L) : (diffLineFields m l).st = m.st := rfl

@[simp] theorem fileOpFinish_st' (cfg : Cfg) (m : M) (l : L) : (fileOpFinish cfg m l).2.st = m.st := by
  unfold fileOpFinish; split <;> simp
@[simp] theorem plusLineFinish_st' (cfg : Cfg) (m : M) (l : L) : (plusLineFinish cfg m l).2.st = m.st := by
  unfold plusLineFinish
  repeat' split
  all_goals simp

theorem OkWF.pair {r : Bool × M} (h : wfState r.2.st = true) : OkWF (.ok r) := ⟨r.1, r.2, rfl, h⟩

theorem wf_diffLineState (l : L) : wfState (diffLineState l) = true := by
  unfold diffLineState; split <;> rfl

theorem handleCommitMeta_total (cfg : Cfg) (m : M) (l : L) (w : wfState m.st = true) :
    OkWF (handleCommitMeta cfg m l) := by
  unfold handleCommitMeta
  repeat' split
  all_goals first | exact OkWF.mk w | exact OkWF.mk (by simp [wfState])

theorem handleDiffStat_total (cfg : Cfg) (m : M) (l : L) (w : wfState m.st = true) :
    OkWF (handleDiffStat cfg m l) := OkWF.mk w

theorem handleDiffHeaderDiff_total (cfg : Cfg) (m : M) (l : L) (w : wfState m.st = true) :
    OkWF (handleDiffHeaderDiff cfg m l) := by
  unfold handleDiffHeaderDiff
  repeat' split
  all_goals first | exact OkWF.mk w | exact OkWF.mk (by simp [wf_diffLineState])

theorem handleFileOperation_total (cfg : Cfg) (m : M) (l : L) (w : wfState m.st = true) :
    OkWF (handleFileOperation cfg m l) := by
  unfold handleFileOperation
  split
  · exact OkWF.mk w
  · exact OkWF.pair (by simp [w])

theorem handleMinusLine_total (cfg : Cfg) (m : M) (l : L) (w : wfState m.st = true) :
    OkWF (handleMinusLine cfg m l) := by
  unfold handleMinusLine
  split
  · exact OkWF.mk w
  · refine OkWF.pair ?_
    simp only [shouldWriteGeneric_st', flushMP_st']
    split
    · rfl
    · exact w

theorem handlePlusLine_total (cfg : Cfg) (m : M) (l : L) (w : wfState m.st = true) :
    OkWF (handlePlusLine cfg m l) := by
  unfold handlePlusLine
  split
  · exact OkWF.mk w
  · exact OkWF.pair (by simp [w])

theorem coordinates_nonempty_of_parse {line : Str} {hh : HunkHeader} (h : parseHunkHeader line = some hh) :
    hh.coords.isEmpty = false := by
  unfold parseHunkHeader at h
  split at h
  · cases h
  · split at h
    · cases h
    · cases h
    · cases h; rfl


theorem dtOK_hunkHeaderDiffType (m : M) (l : L) (w : wfState m.st = true) : dtOK (hunkHeaderDiffType m l) = true := by
  unfold hunkHeaderDiffType
  split
  · rfl
  · rename_i _ dt hne hst
    rw [hst] at w
    simp only [wfState, Bool.or_eq_true, beq_iff_eq] at w
    rcases w with h | h
    · subst h; rfl
    · exact absurd h hne
  · rename_i dt hst; rw [hst] at w; simpa [wfState] using w
  · rename_i dt hst; rw [hst] at w; simpa [wfState] using w
  · rename_i dt hst; rw [hst] at w; simpa [wfState] using w
  · rfl

theorem handleHunkHeader_total (cfg : Cfg) (m : M) (l : L) (w : wfState m.st = true) :
    OkWF (handleHunkHeader cfg m l) := by
  unfold handleHunkHeader
  split
  · exact OkWF.mk w
  · split
    · exact OkWF.mk w
    · rename_i hh hp
      exact OkWF.mk (by simp [wfState, dtOK_hunkHeaderDiffType m l w, coordinates_nonempty_of_parse hp])

theorem handleModeLine_total (cfg : Cfg) (m : M) (l : L) (w : wfState m.st = true) :
    OkWF (handleModeLine cfg m l) := by
  unfold handleModeLine
  repeat' split
  all_goals first | exact OkWF.mk w | exact OkWF.mk rfl

theorem handleAdditionalCases_total (cfg : Cfg) (m : M) (l : L) (to : State) (w : wfState to = true) :
    OkWF (handleAdditionalCases cfg m l to) := by
  unfold handleAdditionalCases
  split <;> exact OkWF.mk (by simp [w])

theorem handleMisc_total (cfg : Cfg) (m : M) (l : L) (w : wfState m.st = true) :
    OkWF (handleMisc cfg m l) := by
  unfold handleMisc
  simp only
  split
  · exact OkWF.mk w
  · split
    · split
      · exact OkWF.mk (by simp [w])
      · exact OkWF.mk w
    · apply handleAdditionalCases_total
      split
      · exact w
      · rfl

theorem handleSubmoduleLog_total (cfg : Cfg) (m : M) (l : L) (w : wfState m.st = true) :
    OkWF (handleSubmoduleLog cfg m l) := by
  unfold handleSubmoduleLog
  split
  · exact OkWF.mk w
  · exact handleAdditionalCases_total cfg _ l _ rfl

theorem handleSubmoduleShort_total (cfg : Cfg) (m : M) (l : L) (w : wfState m.st = true) :
    OkWF (handleSubmoduleShort cfg m l) := by
  unfold handleSubmoduleShort
  repeat' split
  all_goals first | exact OkWF.mk w | exact OkWF.mk rfl | exact OkWF.mk (by simp [w])

-- hunk lines ------------------------------------------------------------------

theorem hunkHeaderText_ok (cfg : Cfg) (m : M) (hh : HunkHeader) (line : Str) (hc : hh.coords.isEmpty = false) :
    ∃ t, hunkHeaderText cfg m hh line = .ok t := by
  unfold hunkHeaderText
  cases hg : hh.coords.getLast? with
  | none =>
    have : hh.coords = [] := by simpa using hg
    simp [this] at hc
  | some p => exact ⟨_, rfl⟩

theorem emitHunkHeader_ok (cfg : Cfg) (m : M) (hh : HunkHeader) (line raw : Str) (src : Nat)
    (hc : hh.coords.isEmpty = false) : ∃ m', emitHunkHeader cfg m hh line raw src = .ok m' ∧ m'.st = m.st := by
  unfold emitHunkHeader hunkHeaderRows
  simp only
  split
  · rename_i e he
    exfalso
    split at he
    · cases he
    · split at he
      · cases he
      · obtain ⟨t, ht⟩ := hunkHeaderText_ok cfg (emit (flushMP m)) hh line hc
        rw [ht] at he
        cases t <;> simp at he
  · exact ⟨_, rfl, by simp⟩

theorem hunkLinePre_ok (cfg : Cfg) (m : M) (w : wfState m.st = true) :
    ∃ m', hunkLinePre cfg m = .ok m' ∧ m'.st = m.st := by
  unfold hunkLinePre
  simp only
  have hs : (if m.minus.length > cfg.bufSize ∨ m.plus.length > cfg.bufSize then flushMP m else m).st = m.st := by
    split <;> simp
  split
  · rename_i dt hh line raw src hst
    rw [hs] at hst
    rw [hst] at w
    have hc : hh.coords.isEmpty = false := by
      simp only [wfState, Bool.and_eq_true, Bool.not_eq_true'] at w; exact w.2
    obtain ⟨m', hm', hst'⟩ := emitHunkHeader_ok cfg
      (if m.minus.length > cfg.bufSize ∨ m.plus.length > cfg.bufSize then flushMP m else m) hh line raw src hc
    exact ⟨m', hm', hst'.trans hs⟩
  · exact ⟨_, rfl, hs⟩

theorem dtOK_cases {dt : DiffType} (h : dtOK dt = true) :
    dt = .unified ∨ (∃ n, dt = .combined (.number n) false) ∨ (∃ p, dt = .combined (.pre p) false) := by
  cases dt with
  | unified => exact Or.inl rfl
  | combined mp c =>
    cases mp <;> cases c <;> simp [dtOK] at h ⊢

theorem nParents_ok {dt : DiffType} (h : dtOK dt = true) : ∃ n, nParents dt = .ok n := by
  rcases dtOK_cases h with rfl | ⟨n, rfl⟩ | ⟨p, rfl⟩ <;> exact ⟨_, rfl⟩

theorem classifyUnified_ok (l : L) : ∀ k dt, classifyUnified l = some (k, dt) → dtOK dt = true := by
  intro k dt h
  unfold classifyUnified at h
  split at h <;> first | (cases h; rfl) | cases h

theorem classifyCombined_ok (n : Nat) (l : L) : ∀ k dt, classifyCombined n false l = some (k, dt) → dtOK dt = true := by
  intro k dt h
  unfold classifyCombined at h
  simp only at h
  split at h <;> first | (cases h; rfl) | cases h

/-- in a well-formed hunk state `new_line_state` never reaches its `delta_unreachable` arms, and
the diff type it returns is well formed -/
theorem newLineState_ok (st : State) (l : L) (hs : isHunkState st = true) (w : wfState st = true) :
    ∃ r, newLineState st l = .ok r ∧ ∀ k dt, r = some (k, dt) → dtOK dt = true := by
  have key : ∀ dt, dtOK dt = true →
      (st = .hunkZero dt ∨ st = .hunkMinus dt ∨ st = .hunkPlus dt ∨ ∃ hh line raw src, st = .hunkHeader dt hh line raw src) →
      ∃ r, newLineState st l = .ok r ∧ ∀ k dt, r = some (k, dt) → dtOK dt = true := by
    intro dt hd hst
    rcases dtOK_cases hd with rfl | ⟨n, rfl⟩ | ⟨p, rfl⟩
    · rcases hst with h | h | h | ⟨hh, line, raw, src, h⟩ <;> subst h <;>
        exact ⟨_, rfl, classifyUnified_ok l⟩
    · rcases hst with h | h | h | ⟨hh, line, raw, src, h⟩ <;> subst h <;>
        exact ⟨_, rfl, classifyCombined_ok n l⟩
    · rcases hst with h | h | h | ⟨hh, line, raw, src, h⟩ <;> subst h <;>
        exact ⟨_, rfl, classifyCombined_ok _ l⟩
  cases st with
  | hunkHeader dt hh line raw src =>
    exact key dt (by simp only [wfState, Bool.and_eq_true] at w; exact w.1) (Or.inr (Or.inr (Or.inr ⟨hh, line, raw, src, rfl⟩)))
  | hunkZero dt => exact key dt (by simpa [wfState] using w) (Or.inl rfl)
  | hunkMinus dt => exact key dt (by simpa [wfState] using w) (Or.inr (Or.inl rfl))
  | hunkPlus dt => exact key dt (by simpa [wfState] using w) (Or.inr (Or.inr (Or.inl rfl)))
  | _ => simp [isHunkState] at hs

theorem hunkLinePush_ok (cfg : Cfg) (m : M) (l : L) (hs : isHunkState m.st = true) (w : wfState m.st = true) :
    ∃ m', hunkLinePush cfg m l = .ok m' ∧ wfState m'.st = true := by
  obtain ⟨r, hr, hdt⟩ := newLineState_ok m.st l hs w
  unfold hunkLinePush
  rw [hr]
  cases r with
  | none =>
    refine ⟨_, rfl, ?_⟩
    show wfState (.hunkZero (stateDiffType m.st)) = true
    cases hst : m.st <;> simp_all [isHunkState, stateDiffType, wfState]
  | some p =>
    obtain ⟨k, dt⟩ := p
    have hd := hdt k dt rfl
    obtain ⟨n, hn⟩ := nParents_ok hd
    cases k <;> simp only [hn] <;> exact ⟨_, rfl, by simpa [wfState] using hd⟩

theorem handleHunkLine_total (cfg : Cfg) (m : M) (l : L) (w : wfState m.st = true) :
    OkWF (handleHunkLine cfg m l) := by
  unfold handleHunkLine
  split
  · exact OkWF.mk w
  · rename_i hs
    have hs' : isHunkState m.st = true := by simpa using hs
    obtain ⟨m2, h2, hst2⟩ := hunkLinePre_ok cfg m w
    rw [h2]
    obtain ⟨m3, h3, w3⟩ := hunkLinePush_ok cfg m2 l (by rw [hst2]; exact hs') (by rw [hst2]; exact w)
    simp only [h3]
    exact OkWF.mk (by simpa using w3)

-- merge conflicts --------------------------------------------------------------

@[simp] theorem mcPaintOne_st' (cfg : Cfg) (m : M) (n : Option Str) (d : List HLine) : (mcPaintOne cfg m n d).st = m.st := by
  unfold mcPaintOne; simp

theorem storeLine_ok (cfg : Cfg) (m : M) (l : L) (c : MCCommit) (mp : MergeParents) (k : RowKind)
    (hmp : mp ≠ .unknown) : ∃ m', storeLine cfg m l c mp k = .ok m' ∧ m'.st = m.st := by
  unfold storeLine
  cases mp with
  | unknown => exact absurd rfl hmp
  | number n => simp only [nParents]; cases c <;> exact ⟨_, rfl, rfl⟩
  | pre p => simp only [nParents]; cases c <;> exact ⟨_, rfl, rfl⟩

theorem storeOr_total {o : Option M} {alt : Except String M}
    (ho : ∀ x, o = some x → wfState x.st = true) (ha : ∃ x, alt = .ok x ∧ wfState x.st = true) :
    OkWF (storeOr o alt) := by
  unfold storeOr
  cases o with
  | some x => exact OkWF.mk (ho x rfl)
  | none =>
    obtain ⟨x, hx, wx⟩ := ha
    simp only [hx]
    exact OkWF.mk wx

theorem orElse_some' {α : Type} {a b : Option α} {x : α} (h : (a <|> b) = some x) : a = some x ∨ b = some x := by
  cases a with
  | some v => left; simpa using h
  | none => right; simpa using h

theorem enterAncestral_wf {m x : M} {l : L} {mp : MergeParents} (hmp : mp ≠ .unknown)
    (e : enterAncestral m l mp = some x) : wfState x.st = true := by
  unfold enterAncestral at e
  simp only [Option.map_eq_some_iff] at e
  obtain ⟨_, _, rfl⟩ := e
  simpa [wfState] using hmp

theorem enterTheirs_wf {m x : M} {l : L} {mp : MergeParents} (hmp : mp ≠ .unknown)
    (e : enterTheirs m l mp = some x) : wfState x.st = true := by
  unfold enterTheirs at e
  split at e
  · cases e; simpa [wfState] using hmp
  · cases e

theorem exitMergeConflict_wf {cfg : Cfg} {m x : M} {l : L} {mp : MergeParents} (hmp : mp ≠ .unknown)
    (e : exitMergeConflict cfg m l mp = some x) : wfState x.st = true := by
  unfold exitMergeConflict at e
  simp only [Option.map_eq_some_iff] at e
  obtain ⟨_, _, rfl⟩ := e
  unfold paintMergeConflict
  simp only [wfState]
  cases mp with
  | unknown => exact absurd rfl hmp
  | number n => rfl
  | pre p => rfl

theorem hunkCombinedParents_known {st : State} {mp : MergeParents} (h : hunkCombinedParents st = some mp)
    (w : wfState st = true) : mp ≠ .unknown := by
  intro hu
  subst hu
  unfold hunkCombinedParents at h
  split at h
  all_goals first
    | (cases h; simp [wfState, dtOK] at w)
    | cases h

theorem handleMergeConflict_total (cfg : Cfg) (m : M) (l : L) (w : wfState m.st = true) :
    OkWF (handleMergeConflict cfg m l) := by
  unfold handleMergeConflict
  split
  · exact OkWF.mk w
  · split
    · rename_i mp hcp
      have hmp := hunkCombinedParents_known hcp w
      split
      · have hp : ∃ m1, mcPendingHeader cfg m = .ok m1 := by
          unfold mcPendingHeader
          split
          · rename_i dt hh line raw src hst
            rw [hst] at w
            have hc : hh.coords.isEmpty = false := by
              simp only [wfState, Bool.and_eq_true, Bool.not_eq_true'] at w; exact w.2
            obtain ⟨m', hm', _⟩ := emitHunkHeader_ok cfg m hh line raw src hc
            exact ⟨m', hm'⟩
          · exact ⟨_, rfl⟩
        obtain ⟨m1, hm1⟩ := hp
        rw [hm1]
        exact OkWF.mk (by simpa [wfState] using hmp)
      · exact OkWF.mk w
    · split
      all_goals first
        | (rename_i mp hst
           have hmp : mp ≠ MergeParents.unknown := by
             rw [hst] at w; simpa [wfState] using w
           refine storeOr_total ?_ ?_
           · intro x hx
             first
               | (rcases orElse_some' hx with h1 | h2
                  · exact enterAncestral_wf hmp h1
                  · rcases orElse_some' h2 with h3 | h4
                    · exact enterTheirs_wf hmp h3
                    · exact exitMergeConflict_wf hmp h4)
               | (rcases orElse_some' hx with h3 | h4
                  · exact enterTheirs_wf hmp h3
                  · exact exitMergeConflict_wf hmp h4)
               | exact exitMergeConflict_wf hmp hx
           · obtain ⟨x, hx, hst'⟩ := storeLine_ok cfg m l _ _ _ hmp
             exact ⟨x, hx, by rw [hst']; exact w⟩)
        | exact OkWF.mk w

-- the rest of the chain -----------------------------------------------------------

theorem handleGitShowFile_total (cfg : Cfg) (m : M) (l : L) (w : wfState m.st = true) :
    OkWF (handleGitShowFile cfg m l) := OkWF.mk (by simpa using w)

theorem handleBlame_total (cfg : Cfg) (m : M) (l : L) (w : wfState m.st = true) :
    OkWF (handleBlame cfg m l) := by
  unfold handleBlame
  simp only
  split
  · exact OkWF.mk rfl
  · exact OkWF.mk (by simpa using w)

theorem handleGrep_total (cfg : Cfg) (m : M) (l : L) (w : wfState m.st = true) :
    OkWF (handleGrep cfg m l) := by
  unfold handleGrep
  simp only
  repeat' split
  all_goals first | exact OkWF.mk rfl | exact OkWF.mk (by simpa using w)

theorem handleShouldSkip_total (cfg : Cfg) (m : M) (l : L) (w : wfState m.st = true) :
    OkWF (handleShouldSkip cfg m l) := OkWF.mk w

theorem handleEmitUnchanged_total (cfg : Cfg) (m : M) (l : L) (w : wfState m.st = true) :
    OkWF (handleEmitUnchanged cfg m l) := OkWF.mk (by simpa using w)

theorem handlerOf_total {name : String} {hd : Handler} (hn : handlerOf name = some hd)
    (cfg : Cfg) (m : M) (l : L) (w : wfState m.st = true) : OkWF (hd cfg m l) := by
  unfold handlerOf at hn
  split at hn <;> first
    | (cases hn
       first
         | exact handleCommitMeta_total cfg m l w | exact handleDiffStat_total cfg m l w
         | exact handleDiffHeaderDiff_total cfg m l w | exact handleFileOperation_total cfg m l w
         | exact handleMinusLine_total cfg m l w | exact handlePlusLine_total cfg m l w
         | exact handleHunkHeader_total cfg m l w | exact handleModeLine_total cfg m l w
         | exact handleMisc_total cfg m l w | exact handleSubmoduleLog_total cfg m l w
         | exact handleSubmoduleShort_total cfg m l w | exact handleMergeConflict_total cfg m l w
         | exact handleHunkLine_total cfg m l w | exact handleGitShowFile_total cfg m l w
         | exact handleBlame_total cfg m l w | exact handleGrep_total cfg m l w
         | exact handleShouldSkip_total cfg m l w | exact handleEmitUnchanged_total cfg m l w)
    | cases hn

theorem chain_total (cfg : Cfg) (l : L) : ∀ (names : List String),
    (∀ n ∈ names, (handlerOf n).isSome = true) → ∀ m, wfState m.st = true →
    ∃ m', chain cfg l names m = .ok m' ∧ wfState m'.st = true
  | [], _, m, w => ⟨m, rfl, w⟩
  | name :: rest, hk, m, w => by
    have hsome := hk name (by simp)
    cases hh : handlerOf name with
    | none => simp [hh] at hsome
    | some hd =>
      obtain ⟨b, m1, e1, w1⟩ := handlerOf_total hh cfg m l w
      simp only [chain, hh, e1]
      cases b with
      | true => exact ⟨m1, rfl, w1⟩
      | false => exact chain_total cfg l rest (fun n hn => hk n (by simp [hn])) m1 w1

theorem stepInit_st (m : M) (l : L) : (stepInit m l).st = m.st := by
  unfold stepInit armCounter
  repeat' split
  all_goals rfl

theorem handlers_known : ∀ n ∈ Generated.handlerOrder, (handlerOf n).isSome = true := by decide

theorem step_total (cfg : Cfg) (m : M) (l : L) (w : wfState m.st = true) :
    ∃ m', step cfg m l = .ok m' ∧ wfState m'.st = true := by
  obtain ⟨m2, e2, w2⟩ := chain_total cfg l Generated.handlerOrder handlers_known (stepInit m l)
    (by rw [stepInit_st]; exact w)
  exact ⟨{ m2 with n := m2.n + 1 }, by simp only [step, e2], w2⟩

theorem runFrom_total (cfg : Cfg) : ∀ (ls : List L) (m : M), wfState m.st = true →
    ∃ m', runFrom cfg m ls = .ok m' ∧ wfState m'.st = true
  | [], m, w => ⟨m, rfl, w⟩
  | l :: ls, m, w => by
    obtain ⟨m1, e1, w1⟩ := step_total cfg m l w
    obtain ⟨m2, e2, w2⟩ := runFrom_total cfg ls m1 w1
    exact ⟨m2, by simp only [runFrom, e1, e2], w2⟩

theorem finish_total (cfg : Cfg) (m : M) : ∃ m', finish cfg m = .ok m' := by
  unfold finish
  simp only [Generated.Markers.consumeTail, tailOps, tailOp]
  exact ⟨_, rfl⟩

/-- The model never takes an error branch: for every configuration and every input the run
completes. (The error branches are the Rust panics and `delta_unreachable` exits.) -/
theorem run_total (cfg : Cfg) (ls : List L) : ∃ m, run cfg ls = .ok m := by
  obtain ⟨m1, e1, _⟩ := runFrom_total cfg ls {} rfl
  obtain ⟨m2, e2⟩ := finish_total cfg m1
  exact ⟨m2, by simp only [run, e1, e2]⟩

end Machine
