import Proofs.Machine.PlainHeaders
import Proofs.Machine.NoPendingEx
/-!
Examples for `Proofs/Machine/PlainHeaders.lean` (C14, plain `diff -u`): a `--- x` line inside a hunk while old-file lines are
outstanding is a hunk line of the reference reading and adds no file-header row; the same text after the announced number of
old-file lines starts the next section (no row yet), whose `+++ ` line adds exactly one. Imported only by `Props/C14.lean`.
-/
set_option linter.unusedVariables false
namespace Machine.PlainHeadersEx
open Machine Machine.Plain Machine.CommitBlocksEx Machine.NoPendingEx

/-- a plain section whose hunk announces two old-file lines; one of them read -/
def inHunk : List L := ["--- old/x.txt\t2026-09-28", "+++ new/x.txt\t2026-09-29", "@@ -1,2 +1,2 @@", "-a"].map mkL

/-- the reference reading and the machine agree on where the lines stand (`Sim`, decided field by field) -/
def simb (s : PS) (m : M) : Bool :=
  m.source == .diffUnified &&
  match s with
  | .top => m.counter == 0 && (m.st == .unknown || m.st == .diffHeader .unified)
  | .afterMinus => m.counter == 0 && m.st == .diffHeader .unified
  | .hunk rem => m.counter == (rem : Int) && uniHunk m.st

def simAfter (ls : List L) : Bool :=
  match runFrom {} {} ls, plainAfter .top ls with
  | .ok m, some s => simb s m
  | _, _ => false

theorem dashes_in_hunk :
    plainAfter .top inHunk = some (.hunk 1) ∧ simAfter inHunk = true ∧
    plainNext (.hunk 1) (mkL "--- x") = some (.hunk 0, true) ∧ added {} inHunk (mkL "--- x") = some (true, 0) ∧
    plainNext (.hunk 1) (mkL "+++ x") = some (.hunk 1, true) ∧ added {} inHunk (mkL "+++ x") = some (true, 0) ∧
    -- after the second old-file line the same text starts the next section: still no row, then one at its `+++ ` line
    plainNext (.hunk 0) (mkL "--- old/y") = some (.afterMinus, false) ∧
    added {} (inHunk ++ [mkL " b"]) (mkL "--- old/y") = some (true, 0) ∧
    added {} (inHunk ++ [mkL " b", mkL "--- old/y"]) (mkL "+++ new/y") = some (false, 1) := by decide +kernel

end Machine.PlainHeadersEx
