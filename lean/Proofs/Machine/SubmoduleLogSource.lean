import DeltaModel.SubmoduleLogSrc
/-!
The source of `handle_submodule_log_line`, as extracted (`Generated.SubmoduleLog`), computes
`Machine.handleSubmoduleLog` (`handleSubmoduleLogSrc_eq`); at a `Submodule …` line it first paints the buffered lines
and writes the file header that is still owed, then hands the line to `handle_additional_cases`
(`submodule_log_line_writes_pending_header_first`).
-/
set_option linter.unusedSimpArgs false
namespace SubmoduleLogSrc
open Headers Machine Generated Generated.SubmoduleLog

theorem testPrefix_eq : testPrefix = Markers.submoduleLog := by decide

theorem handleSubmoduleLogSrc_eq (cfg : Cfg) (m : M) (l : L) :
    handleSubmoduleLogSrc cfg m l = some (handleSubmoduleLog cfg m l) := by
  unfold handleSubmoduleLogSrc handleSubmoduleLog
  simp only [body, exec, testName, if_true, stateOf, testPrefix_eq]
  split <;> rfl

theorem submodule_log_line_writes_pending_header_first (cfg : Cfg) (m : M) (l : L)
    (h : startsWith l.text Markers.submoduleLog = true) :
    handleSubmoduleLogSrc cfg m l =
      some (handleAdditionalCases cfg (pendingDiffName cfg (flushMP m)) l .submoduleLog) := by
  rw [handleSubmoduleLogSrc_eq]
  unfold handleSubmoduleLog
  simp [h]

end SubmoduleLogSrc
