import Proofs.Machine.CommitBlocks
/-!
C14: **no file header pending ⇒ a step writes no file-header row** — for every configuration, in every state
outside a conflict region, for every line that is not a header-naming line.

"Nothing pending" (`NPend m`): `modeInfo = []` and `handledPair = currentPair` — the two fields
`handle_pending_line_with_diff_name` looks at. "Not a header-naming line" (`NotNaming l`, decidable `notNamingb`): the
line begins with none of the nine literals of the handlers that name a file or open a section (`diff `, `new file mode ` /
`deleted file mode `, `--- ` / `rename from ` / `copy from `, `+++ ` / `rename to ` / `copy to `, `old mode `, `new mode `,
`Only in `, `Binary files `, `Submodule `); `@@` lines, commit lines, hunk lines, anything else are allowed.

One lemma per handler (`…_nf`: the file-header rows and the three pending fields are what they were; when the handler
passes the line on the machine is still outside a conflict region), lifted through `chain` and `step` — the technique of
`Filtered.lean` / `HunkRows.lean` (`step_rq`). The `_fs` lemmas of `Filtered.lean` cannot be used for file rows
(`Minor p` demands `p .file = false`); here the argument is the other one: with nothing pending
`handle_pending_line_with_diff_name` is the identity, and every other writer of a `file` row sits behind one of the nine
literals.

Inside a conflict region the rows come out of the `mc*` buffers, which the timeline does not account for: excluded
(`isMergeConflict m.st = false`), as in `step_rq`.
-/
set_option linter.unusedSimpArgs false
set_option linter.unusedVariables false
namespace Machine
open Headers Generated

/-- no file header is owed: nothing for `handle_pending_line_with_diff_name` to write -/
def NPend (m : M) : Prop := m.modeInfo = [] ∧ m.handledPair = m.currentPair

/-- the line begins with none of the literals of a handler that names a file or opens a section -/
def notNamingb (l : L) : Bool :=
  !startsWith l.text Markers.diffLine && !startsWithAny l.text Markers.fileOperationLine &&
  !startsWithAny l.text Markers.minusLine && !startsWithAny l.text Markers.plusLine &&
  !startsWith l.text Markers.oldMode &&
  !startsWith l.text Markers.newMode && !startsWith l.text Markers.onlyIn &&
  !startsWith l.text Markers.binaryFiles && !startsWith l.text Markers.submoduleLog

structure NotNaming (l : L) : Prop where
  diff : startsWith l.text Markers.diffLine = false
  fileOp : startsWithAny l.text Markers.fileOperationLine = false
  minus : startsWithAny l.text Markers.minusLine = false
  plus : startsWithAny l.text Markers.plusLine = false
  oldMode : startsWith l.text Markers.oldMode = false
  newMode : startsWith l.text Markers.newMode = false
  onlyIn : startsWith l.text Markers.onlyIn = false
  binary : startsWith l.text Markers.binaryFiles = false
  sublog : startsWith l.text Markers.submoduleLog = false

theorem notNaming_of_b {l : L} (h : notNamingb l = true) : NotNaming l := by
  unfold notNamingb at h
  simp only [Bool.and_eq_true, Bool.not_eq_true'] at h
  obtain ⟨⟨⟨⟨⟨⟨⟨⟨a, b⟩, c⟩, d⟩, f⟩, g⟩, i⟩, j⟩, k⟩ := h
  exact ⟨a, b, c, d, f, g, i, j, k⟩

theorem NoPrefix.notNaming {l : L} (h : NoPrefix l) : NotNaming l :=
  ⟨h.diff, h.fileOp, h.minus, h.plus, h.oldMode, h.newMode, h.onlyIn, h.binary, h.sublog⟩

/-- the file-header rows and the pending fields are what they were -/
structure NK (m m' : M) : Prop where
  rows : fileTL m' = fileTL m
  mode : m'.modeInfo = m.modeInfo
  hp : m'.handledPair = m.handledPair
  cp : m'.currentPair = m.currentPair

theorem NK.refl (m : M) : NK m m := ⟨rfl, rfl, rfl, rfl⟩

theorem NK.trans {a b c : M} (h1 : NK a b) (h2 : NK b c) : NK a c :=
  ⟨h2.rows.trans h1.rows, h2.mode.trans h1.mode, h2.hp.trans h1.hp, h2.cp.trans h1.cp⟩

theorem NK.npend {m m' : M} (h : NK m m') (hp : NPend m) : NPend m' :=
  ⟨h.mode.trans hp.1, by rw [h.hp, h.cp]; exact hp.2⟩

theorem NK.of_eq {m x x' : M} (h : NK m x) (ht : timeline x' = timeline x) (h1 : x'.modeInfo = x.modeInfo)
    (h2 : x'.handledPair = x.handledPair) (h3 : x'.currentPair = x.currentPair) : NK m x' :=
  ⟨(fileTL_congr ht).trans h.rows, h1.trans h.mode, h2.trans h.hp, h3.trans h.cp⟩

theorem NK.emit {m x : M} (h : NK m x) : NK m (emit x) := h.of_eq (timeline_emit x) rfl rfl rfl

theorem NK.flushMP {m x : M} (h : NK m x) : NK m (flushMP x) := by
  obtain ⟨_, k2, k3, _, _, _⟩ := flushMP_keeps x
  exact h.of_eq (timeline_flushMP x) (flushMP_modeInfo x) k2 k3

theorem fileTL_direct (m : M) {rows : List Row} (h : ∀ r ∈ rows, r.kind ≠ .file) :
    fileTL (direct m rows) = fileTL m := by
  have := ftl_direct (p := fun k => k == RowKind.file) m (rows := rows) (fun r hr => by simpa using h r hr)
  exact this

theorem NK.direct {m x : M} (h : NK m x) {rows : List Row} (hr : ∀ r ∈ rows, r.kind ≠ .file) :
    NK m (direct x rows) := by
  obtain ⟨_, k2, k3, _, _, _⟩ := direct_keeps x rows
  exact ⟨(fileTL_direct x hr).trans h.rows, (direct_modeInfo x rows).trans h.mode, k2.trans h.hp, k3.trans h.cp⟩

theorem NK.emitLineUnchanged {m x : M} (h : NK m x) (l : L) : NK m (emitLineUnchanged x l) := by
  unfold Machine.emitLineUnchanged
  refine h.flushMP.emit.direct ?_
  intro r hr; simp at hr; subst hr; simp

theorem drawRows_nofile (st : ElemStyle) {k : RowKind} (hk : k ≠ .file) (t r a : Str) (src : Nat) :
    ∀ x ∈ drawRows st k t r a src, x.kind ≠ .file := by
  intro x hx
  unfold drawRows at hx
  cases hdeco : st.deco <;> cases hraw : st.isRaw <;> simp [hdeco, hraw] at hx
  all_goals first
    | (rcases hx with h | h | h <;> subst h <;> first | exact hk | simp)
    | (rcases hx with h | h <;> subst h <;> first | exact hk | simp)
    | (subst hx; first | exact hk | simp)

/-- with nothing pending `handle_pending_line_with_diff_name` does nothing, in any state and configuration -/
theorem pendingDiffName_np (cfg : Cfg) {x : M} (h : NPend x) : pendingDiffName cfg x = x := by
  unfold pendingDiffName
  simp [h.1, h.2]

theorem NPend.flushMP {m : M} (h : NPend m) : NPend (flushMP m) := ((NK.refl m).flushMP).npend h

/-- what a handler delivers from a machine with nothing pending -/
structure NF (m m' : M) (b : Bool) : Prop where
  k : NK m m'
  nomc : b = false → isMergeConflict m'.st = false

theorem NF.pass {m : M} {b : Bool} (hs : isMergeConflict m.st = false) : NF m m b := ⟨NK.refl m, fun _ => hs⟩

theorem NF.of_not_mine {m m' : M} {b : Bool} {r : Except String (Bool × M)} (hs : isMergeConflict m.st = false)
    (hr : r = .ok (false, m)) (e : r = .ok (b, m')) : NF m m' b := by
  rw [hr] at e; cases e; exact NF.pass hs

-- handlers ------------------------------------------------------------------

theorem handleCommitMeta_nf {cfg : Cfg} {m m' : M} {l : L} {b : Bool} (hp : NPend m) (hs : isMergeConflict m.st = false)
    (e : handleCommitMeta cfg m l = .ok (b, m')) : NF m m' b := by
  unfold handleCommitMeta at e
  rw [pendingDiffName_np cfg hp.flushMP] at e
  have c : NK m { flushMP m with st := State.commitMeta } := (NK.refl m).flushMP.of_eq rfl rfl rfl rfl
  split at e
  · cases e; exact NF.pass hs
  · split at e
    · split at e
      · cases e; exact ⟨c.emit, fun h => by cases h⟩
      · cases e
        exact ⟨c.emit.direct (drawRows_nofile _ (by simp) _ _ _ _), fun h => by cases h⟩
    · cases e; exact ⟨c, fun _ => rfl⟩

theorem handleHunkHeader_nf {cfg : Cfg} {m m' : M} {l : L} {b : Bool} (hs : isMergeConflict m.st = false)
    (e : handleHunkHeader cfg m l = .ok (b, m')) : NF m m' b := by
  unfold handleHunkHeader at e
  split at e
  · cases e; exact NF.pass hs
  · split at e
    · cases e; exact NF.pass hs
    · cases e; exact ⟨(NK.refl m).of_eq rfl rfl rfl rfl, fun h => by cases h⟩

theorem handleSubmoduleShort_nf {cfg : Cfg} {m m' : M} {l : L} {b : Bool} (hs : isMergeConflict m.st = false)
    (e : handleSubmoduleShort cfg m l = .ok (b, m')) : NF m m' b := by
  unfold handleSubmoduleShort at e
  split at e
  · cases e; exact NF.pass hs
  · split at e
    · cases e; exact NF.pass hs
    · split at e
      · cases e; exact ⟨(NK.refl m).of_eq rfl rfl rfl rfl, fun h => by cases h⟩
      · cases e
        refine ⟨(NK.refl m).flushMP.emit.direct ?_, fun h => by cases h⟩
        intro r hr; simp at hr; subst hr; simp
      · cases e; exact NF.pass hs

theorem emitHunkHeader_nk {cfg : Cfg} {m m' : M} {hh : HunkHeader} {line raw : Str} {src : Nat}
    (e : emitHunkHeader cfg m hh line raw src = .ok m') : NK m m' := by
  unfold emitHunkHeader at e
  split at e
  · cases e
  · rename_i rows hr
    cases e
    exact (NK.refl m).flushMP.emit.direct (hunkHeaderRows_nofile hr)

theorem mcPendingHeader_nk {cfg : Cfg} {m m' : M} (e : mcPendingHeader cfg m = .ok m') : NK m m' := by
  unfold mcPendingHeader at e
  split at e
  · exact emitHunkHeader_nk e
  · cases e; exact NK.refl m

/-- `handle_merge_conflict_line` outside a conflict region: it may write a pending hunk header and open a region;
no file row -/
theorem handleMergeConflict_nf {cfg : Cfg} {m m' : M} {l : L} {b : Bool} (hs : isMergeConflict m.st = false)
    (e : handleMergeConflict cfg m l = .ok (b, m')) : NF m m' b := by
  unfold handleMergeConflict at e
  split at e
  · cases e; exact NF.pass hs
  · split at e
    · split at e
      · split at e
        · cases e
        · rename_i m1 e1
          cases e
          exact ⟨(mcPendingHeader_nk e1).flushMP.of_eq rfl rfl rfl rfl, fun h => by cases h⟩
      · cases e; exact NF.pass hs
    · split at e <;> first
        | (rename_i hst; rw [hst] at hs; simp [isMergeConflict] at hs)
        | (cases e; exact NF.pass hs)

theorem fileTL_pushMinus (x : M) (h : HLine) (hk : h.kind ≠ .file) (c : Int) (s : State) :
    fileTL { x with minus := x.minus ++ [h], counter := c, st := s } = fileTL x := by
  simp [fileTL, timeline, List.filter_append, HLine.row, hk]

theorem fileTL_pushPlus (x : M) (h : HLine) (hk : h.kind ≠ .file) (s : State) :
    fileTL { x with plus := x.plus ++ [h], st := s } = fileTL x := by
  simp [fileTL, timeline, List.filter_append, HLine.row, hk]

theorem fileTL_pushBuf (x : M) (r : Row) (hk : r.kind ≠ .file) (c : Int) (s : State) :
    fileTL { x with buf := x.buf ++ [r], counter := c, st := s } = fileTL x := by
  simp [fileTL, timeline, List.filter_append, hk]

theorem fileTL_pushBuf' (x : M) (r : Row) (hk : r.kind ≠ .file) (s : State) :
    fileTL { x with buf := x.buf ++ [r], st := s } = fileTL x := by
  simp [fileTL, timeline, List.filter_append, hk]

/-- the second part of `handle_hunk_line`, any state: the line's row is not a file row -/
theorem hunkLinePush_nk {cfg : Cfg} {m m' : M} {l : L} (e : hunkLinePush cfg m l = .ok m') : NK m m' := by
  have hx : NK m (if isHunkPlus m.st then Machine.flushMP m else m) := by
    split
    · exact (NK.refl m).flushMP
    · exact NK.refl m
  have hf : NK m (Machine.flushMP m) := (NK.refl m).flushMP
  unfold hunkLinePush at e
  split at e
  · cases e
  · split at e
    · cases e
    · cases e
      exact ⟨(fileTL_pushMinus _ _ (by simp) _ _).trans hx.rows, hx.mode, hx.hp, hx.cp⟩
  · split at e
    · cases e
    · cases e
      exact ⟨(fileTL_pushPlus _ _ (by simp) _).trans (NK.refl m).rows, rfl, rfl, rfl⟩
  · split at e
    · cases e
    · cases e
      exact ⟨(fileTL_pushBuf _ _ (by simp) _ _).trans hf.rows, hf.mode, hf.hp, hf.cp⟩
  · cases e
    exact ⟨(fileTL_pushBuf' _ _ (by simp) _).trans hf.rows, hf.mode, hf.hp, hf.cp⟩

/-- `handle_hunk_line`, any state: a pending hunk header and the line's own row, no file row -/
theorem handleHunkLine_nf {cfg : Cfg} {m m' : M} {l : L} {b : Bool} (hs : isMergeConflict m.st = false)
    (e : handleHunkLine cfg m l = .ok (b, m')) : NF m m' b := by
  unfold handleHunkLine at e
  split at e
  · cases e; exact NF.pass hs
  · split at e
    · cases e
    · rename_i m2 e2
      split at e
      · cases e
      · rename_i m3 e3
        cases e
        obtain ⟨k2, pre, htl2, hnf⟩ := hunkLinePre_keep e2
        have n2 : NK m m2 := by
          refine ⟨?_, k2.mode, k2.hp, k2.cp⟩
          unfold fileTL
          rw [htl2, List.filter_append]
          have : pre.filter (fun r => r.kind == RowKind.file) = [] := by
            rw [List.filter_eq_nil_iff]
            intro r hr; simpa using hnf r hr
          rw [this, List.append_nil]
        exact ⟨(n2.trans (hunkLinePush_nk e3)).emit, fun h => by cases h⟩

theorem handleBlame_nf {cfg : Cfg} {m m' : M} {l : L} {b : Bool} (hs : isMergeConflict m.st = false)
    (e : handleBlame cfg m l = .ok (b, m')) : NF m m' b := by
  unfold handleBlame at e
  simp only at e
  split at e
  · cases e
    refine ⟨((NK.refl m).emit.direct ?_).of_eq rfl rfl rfl rfl, fun h => by cases h⟩
    intro r hr; simp at hr; subst hr; simp
  · cases e; exact ⟨(NK.refl m).emit, fun _ => hs⟩

theorem handleGrep_nf {cfg : Cfg} {m m' : M} {l : L} {b : Bool} (hs : isMergeConflict m.st = false)
    (e : handleGrep cfg m l = .ok (b, m')) : NF m m' b := by
  unfold handleGrep at e
  simp only at e
  split at e
  · split at e
    · cases e; exact ⟨(NK.refl m).emit, fun h => by cases h⟩
    · cases e
      refine ⟨((NK.refl m).emit.direct ?_).of_eq rfl rfl rfl rfl, fun h => by cases h⟩
      intro r hr; simp at hr; subst hr; simp
  · cases e; exact ⟨(NK.refl m).emit, fun _ => hs⟩

theorem handlerOf_nf {name : String} {hd : Handler} (hn : handlerOf name = some hd)
    {cfg : Cfg} {m m' : M} {l : L} {b : Bool} (hl : NotNaming l) (hp : NPend m)
    (hs : isMergeConflict m.st = false) (e : hd cfg m l = .ok (b, m')) : NF m m' b := by
  unfold handlerOf at hn
  split at hn <;> first
    | (cases hn
       first
         | exact handleCommitMeta_nf hp hs e
         | (unfold handleDiffStat at e; cases e; exact NF.pass hs)
         | exact NF.of_not_mine hs (handleDiffHeaderDiff_not_mine cfg m l hl.diff) e
         | exact NF.of_not_mine hs (handleFileOperation_not_mine cfg m l (by simp [hl.fileOp])) e
         | exact NF.of_not_mine hs (handleMinusLine_not_mine cfg m l (minusLineTest_false m hl.minus)) e
         | exact NF.of_not_mine hs (handlePlusLine_not_mine cfg m l (by unfold plusLineTest; simp [hl.plus])) e
         | exact handleHunkHeader_nf hs e
         | exact NF.of_not_mine hs (handleModeLine_not_mine cfg m l hl.oldMode hl.newMode) e
         | exact NF.of_not_mine hs (handleMisc_not_mine cfg m l hl.onlyIn hl.binary) e
         | exact NF.of_not_mine hs (handleSubmoduleLog_not_mine cfg m l hl.sublog) e
         | exact handleSubmoduleShort_nf hs e
         | exact handleMergeConflict_nf hs e
         | exact handleHunkLine_nf hs e
         | (unfold handleGitShowFile at e; cases e; exact ⟨(NK.refl m).emit, fun _ => hs⟩)
         | exact handleBlame_nf hs e
         | exact handleGrep_nf hs e
         | (unfold handleShouldSkip at e; cases e; exact NF.pass hs)
         | (unfold handleEmitUnchanged at e; cases e
            exact ⟨(NK.refl m).emitLineUnchanged l, fun h => by cases h⟩))
    | cases hn

theorem chain_nf {cfg : Cfg} {l : L} (hl : NotNaming l) : ∀ (ns : List String) {m m' : M},
    chain cfg l ns m = .ok m' → NPend m → isMergeConflict m.st = false → NK m m'
  | [], m, m', e, _, _ => by simp only [chain] at e; cases e; exact NK.refl m
  | name :: rest, m, m', e, hp, hs => by
    simp only [chain] at e
    split at e
    · cases e
    · rename_i hd hn
      split at e
      · cases e
      · rename_i m1 e1
        cases e
        exact (handlerOf_nf hn hl hp hs e1).k
      · rename_i m1 e1
        have c := handlerOf_nf hn hl hp hs e1
        exact c.k.trans (chain_nf hl rest e (c.k.npend hp) (c.nomc rfl))

theorem stepInit_nk (m : M) (l : L) : NK m (stepInit m l) ∧ (stepInit m l).st = m.st := by
  unfold stepInit armCounter
  repeat' split
  all_goals exact ⟨⟨rfl, rfl, rfl, rfl⟩, rfl⟩

/-- **no file header pending, no file-header row** (whole step): from a machine that owes no file header, outside a
conflict region, a line that is not a header-naming line leaves the file-header rows alone and nothing is owed
afterwards — every configuration, every state, every such line. -/
theorem step_nf {cfg : Cfg} {m m' : M} {l : L} (e : step cfg m l = .ok m') (hl : NotNaming l) (hp : NPend m)
    (hs : isMergeConflict m.st = false) : fileTL m' = fileTL m ∧ NPend m' := by
  unfold step at e
  split at e
  · cases e
  · rename_i m2 e2
    cases e
    obtain ⟨k0, hst⟩ := stepInit_nk m l
    have k := k0.trans (chain_nf hl _ e2 (k0.npend hp) (by rw [hst]; exact hs))
    exact ⟨(fileTL_congr rfl).trans k.rows, (k.of_eq rfl rfl rfl rfl).npend hp⟩

/-- a run of such lines that opens no conflict region (no line begins `++<<<<<<<`): no file-header row, nothing owed
afterwards — hunk bodies of unified, combined (outside conflict regions) and plain diffs, commit messages, anything -/
theorem runFrom_nf {cfg : Cfg} : ∀ (ls : List L) {m m' : M}, runFrom cfg m ls = .ok m' →
    (∀ l ∈ ls, NotNaming l ∧ startsWith l.text Generated.Markers.mcBegin = false) → NPend m →
    isMergeConflict m.st = false → Good m →
    fileTL m' = fileTL m ∧ NPend m' ∧ isMergeConflict m'.st = false ∧ Good m'
  | [], m, m', e, _, hp, hs, g => by simp only [runFrom] at e; cases e; exact ⟨rfl, hp, hs, g⟩
  | l :: ls, m, m', e, hl, hp, hs, g => by
    simp only [runFrom] at e
    split at e
    · cases e
    · rename_i m1 e1
      obtain ⟨hl1, hmc⟩ := hl l (List.mem_cons_self ..)
      obtain ⟨r1, p1⟩ := step_nf e1 hl1 hp hs
      have s1 := (step_bs hmc hs g e1).1
      have g1 := (step_spec e1 g).1
      obtain ⟨r2, p2, s2, g2⟩ := runFrom_nf ls e (fun x hx => hl x (List.mem_cons_of_mem _ hx)) p1 s1 g1
      exact ⟨r2.trans r1, p2, s2, g2⟩

end Machine
