import DeltaModel.CommitMetaSrc
/-!
The statement list of `handle_commit_meta_header_line` regenerated from the Rust source (`Generated.CommitMeta`), run by
the interpreter of `DeltaModel/CommitMetaSrc.lean`, is the model's `Machine.handleCommitMeta` — for every
configuration, state and line (`handleCommitMetaSrc_eq`). One lemma per statement kind (`e_*`), then the generated
list is walked through.
-/
set_option linter.unusedSimpArgs false
namespace CommitMetaSrc
open Headers Machine Generated Generated.CommitMeta

theorem e_decl (cfg : Cfg) (l : L) (n : Nat) (rest : List Stmt) (m : M) (h : Bool) :
    exec cfg l n (.declineUnless testName :: rest) m h =
      if !l.commitRe then some (.ok (false, m)) else exec cfg l n rest m h := by
  rw [exec]; simp [testIsCommitRegex]
theorem e_let (cfg : Cfg) (l : L) (n : Nat) (b : Bool) (rest : List Stmt) (m : M) (h : Bool) :
    exec cfg l n (.letHandled b :: rest) m h = exec cfg l n rest m b := by rw [exec]
theorem e_paint (cfg : Cfg) (l : L) (n : Nat) (rest : List Stmt) (m : M) (h : Bool) :
    exec cfg l n (.paintBuffered :: rest) m h = exec cfg l n rest (flushMP m) h := by rw [exec]
theorem e_pend (cfg : Cfg) (l : L) (n : Nat) (rest : List Stmt) (m : M) (h : Bool) :
    exec cfg l n (.pendingDiffName :: rest) m h = exec cfg l n rest (pendingDiffName cfg m) h := by rw [exec]
theorem e_state (cfg : Cfg) (l : L) (n : Nat) (rest : List Stmt) (m : M) (h : Bool) :
    exec cfg l n (.setState "CommitMeta" :: rest) m h = exec cfg l n rest { m with st := .commitMeta } h := by
  rw [exec]; rfl
theorem e_ret (cfg : Cfg) (l : L) (n : Nat) (m : M) (h : Bool) :
    exec cfg l n [.returnHandled] m h = some (.ok (h, m)) := by rw [exec]; rfl

theorem e_inner (cfg : Cfg) (l : L) (n : Nat) (m : M) (h : Bool) :
    execInner cfg l n [.emit, .call innerName, .setHandled true] m h =
      some (if cfg.commitStyle.isOmitted ∧ ¬ cfg.colorOnly then Machine.emit m
            else direct (Machine.emit m) (drawRows cfg.commitStyle .commit l.text l.raw [] n), true) := by
  simp only [execInner, if_true, inner, execDraw]
  by_cases ho : cfg.commitStyle.isOmitted = true ∧ ¬ cfg.colorOnly = true
  · rw [if_pos ho, if_pos ho]
  · rw [if_neg ho, if_neg ho]

theorem e_if (cfg : Cfg) (l : L) (n : Nat) (blk : List Inner) (rest : List Stmt) (m : M) (h : Bool) :
    exec cfg l n (.ifShouldHandle blk :: rest) m h =
      if shouldHandle cfg m then
        match execInner cfg l n blk m h with
        | some (m', h') => exec cfg l n rest m' h'
        | none => none
      else exec cfg l n rest m h := by rw [exec]; rfl

theorem body_eq : body = [.declineUnless testName, .letHandled false, .paintBuffered, .pendingDiffName,
    .setState "CommitMeta", .ifShouldHandle [.emit, .call innerName, .setHandled true], .returnHandled] := by decide

theorem handleCommitMetaSrc_eq (cfg : Cfg) (m : M) (l : L) :
    handleCommitMetaSrc cfg m l = some (handleCommitMeta cfg m l) := by
  unfold handleCommitMetaSrc handleCommitMeta
  rw [body_eq, e_decl]
  cases hcr : l.commitRe
  · rfl
  · simp only [Bool.not_true, Bool.false_eq_true, if_false]
    rw [e_let, e_paint, e_pend, e_state, e_if, e_inner]
    cases hsh : shouldHandle cfg { pendingDiffName cfg (flushMP m) with st := .commitMeta }
    · simp only [Bool.false_eq_true, if_false, e_ret]
    · simp only [if_true, e_ret]
      split <;> rfl

/-- at a line the commit regex matches: first the buffered lines are painted and the file header still owed is
written, then the state becomes `CommitMeta` — whether or not delta draws the commit line itself — and only then the
commit style decides (`should_handle`) whether the line is claimed -/
theorem commit_line_sets_state_after_pending_header (cfg : Cfg) (m : M) (l : L) (hre : l.commitRe = true) :
    ∃ b z, handleCommitMetaSrc cfg m l = some (.ok (b, z)) ∧ z.st = .commitMeta ∧
      b = shouldHandle cfg { pendingDiffName cfg (flushMP m) with st := .commitMeta } := by
  rw [handleCommitMetaSrc_eq]
  unfold handleCommitMeta
  simp only [hre, Bool.not_true, Bool.false_eq_true, if_false]
  cases hsh : shouldHandle cfg { pendingDiffName cfg (flushMP m) with st := .commitMeta }
  · exact ⟨_, _, rfl, rfl, rfl⟩
  · simp only [if_true]
    split
    · exact ⟨_, _, rfl, rfl, rfl⟩
    · refine ⟨_, _, rfl, ?_, rfl⟩
      unfold direct; split <;> rfl

end CommitMetaSrc
