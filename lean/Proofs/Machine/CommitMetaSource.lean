import DeltaModel.CommitMetaSrc
/-!
The statement list of `handle_commit_meta_header_line` regenerated from the Rust source, run by the interpreter of
`DeltaModel/CommitMetaSrc.lean`, is the model's `Machine.handleCommitMeta` — for every configuration, state and line.
-/
namespace CommitMetaSrc
open Headers Machine Generated Generated.CommitMeta

theorem handleCommitMetaSrc_eq (cfg : Cfg) (m : M) (l : L) :
    handleCommitMetaSrc cfg m l = some (handleCommitMeta cfg m l) := by
  unfold handleCommitMetaSrc handleCommitMeta
  simp only [body, inner, exec, execInner, execDraw, testName, innerName, testIsCommitRegex, stateOf, and_self, if_true]
  cases hcr : l.commitRe
  · simp
  · simp only [Bool.not_true, Bool.false_eq_true, if_false]
    cases hsh : shouldHandle cfg { pendingDiffName cfg (flushMP m) with st := .commitMeta }
    · simp
    · simp only [if_true]
      by_cases ho : cfg.commitStyle.isOmitted = true ∧ ¬ cfg.colorOnly = true
      · simp [ho]
      · simp [ho]

/-- with the two calls dropped or reordered the interpreter computes something else: see the examples of
`Props/C14.lean` -/
theorem exec_nil (cfg : Cfg) (l : L) (n : Nat) (m : M) (h : Bool) : exec cfg l n [] m h = none := rfl

end CommitMetaSrc
