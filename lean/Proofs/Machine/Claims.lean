import Proofs.Machine.Run
/-!
Which handler claims a line. "Not mine" lemmas: a handler whose test fails returns the machine
unchanged (or only emitted). They let the generated handler chain be evaluated for classes of
lines: hunk body lines of a git unified diff are claimed by `handle_hunk_line`; lines that open no
construct are passed through by `emit_line_unchanged`.
-/
set_option linter.unusedSimpArgs false
set_option linter.unusedVariables false
namespace Machine
open Headers Generated

/-- first character of the line -/
def firstIs (l : L) (p : Char → Bool) : Prop := ∃ c rest, l.text = c :: rest ∧ p c = true

theorem startsWith_false_of_head {s lit : Str} {c d : Char} {rest rest' : Str}
    (hs : s = c :: rest) (hl : lit = d :: rest') (hne : c ≠ d) : startsWith s lit = false := by
  subst hs; subst hl
  simp [startsWith, List.isPrefixOf, hne.symm]

/-- a hunk body line: marker column `+`, `-` or blank -/
def isMarker (c : Char) : Bool := c = '+' || c = '-' || c = ' '

theorem body_not_startsWith {l : L} (hb : firstIs l isMarker) {lit : Str} {d : Char} {rest' : Str}
    (hl : lit = d :: rest') (hd : isMarker d = false) : startsWith l.text lit = false := by
  obtain ⟨c, rest, ht, hc⟩ := hb
  refine startsWith_false_of_head ht hl ?_
  intro h; subst h; simp [hc] at hd

theorem handleCommitMeta_not_mine (cfg : Cfg) (m : M) (l : L) (h : l.commitRe = false) :
    handleCommitMeta cfg m l = .ok (false, m) := by
  unfold handleCommitMeta; simp [h]

theorem handleDiffHeaderDiff_not_mine (cfg : Cfg) (m : M) (l : L) (h : startsWith l.text Markers.diffLine = false) :
    handleDiffHeaderDiff cfg m l = .ok (false, m) := by
  unfold handleDiffHeaderDiff; simp [h]

theorem handleFileOperation_not_mine (cfg : Cfg) (m : M) (l : L)
    (h : (headerLineTest m && startsWithAny l.text Markers.fileOperationLine) = false) :
    handleFileOperation cfg m l = .ok (false, m) := by
  unfold handleFileOperation; simp [h]

theorem handleMinusLine_not_mine (cfg : Cfg) (m : M) (l : L) (h : minusLineTest m l = false) :
    handleMinusLine cfg m l = .ok (false, m) := by
  unfold handleMinusLine; simp [h]

theorem handlePlusLine_not_mine (cfg : Cfg) (m : M) (l : L) (h : plusLineTest m l = false) :
    handlePlusLine cfg m l = .ok (false, m) := by
  unfold handlePlusLine; simp [h]

theorem handleHunkHeader_not_mine (cfg : Cfg) (m : M) (l : L) (h : startsWith l.text Markers.hunkHeader = false) :
    handleHunkHeader cfg m l = .ok (false, m) := by
  unfold handleHunkHeader; simp [h]

theorem handleModeLine_not_mine (cfg : Cfg) (m : M) (l : L) (h1 : startsWith l.text Markers.oldMode = false)
    (h2 : startsWith l.text Markers.newMode = false) : handleModeLine cfg m l = .ok (false, m) := by
  unfold handleModeLine stripPrefix; simp [h1, h2]

theorem handleMisc_not_mine (cfg : Cfg) (m : M) (l : L) (h1 : startsWith l.text Markers.onlyIn = false)
    (h2 : startsWith l.text Markers.binaryFiles = false) : handleMisc cfg m l = .ok (false, m) := by
  unfold handleMisc; simp [h1, h2]

theorem handleSubmoduleLog_not_mine (cfg : Cfg) (m : M) (l : L) (h : startsWith l.text Markers.submoduleLog = false) :
    handleSubmoduleLog cfg m l = .ok (false, m) := by
  unfold handleSubmoduleLog; simp [h]

theorem handleSubmoduleShort_not_mine (cfg : Cfg) (m : M) (l : L) (h : l.submodule = none) :
    handleSubmoduleShort cfg m l = .ok (false, m) := by
  unfold handleSubmoduleShort
  split
  · rfl
  · simp [h]

theorem handleMergeConflict_not_mine (cfg : Cfg) (m : M) (l : L) (h1 : hunkCombinedParents m.st = none)
    (h2 : isMergeConflict m.st = false) : handleMergeConflict cfg m l = .ok (false, m) := by
  unfold handleMergeConflict
  split
  · rfl
  · simp only [h1]
    split <;> first | rfl | (rename_i hst; rw [hst] at h2; simp [isMergeConflict] at h2)

/-- `hunk_body_line_claimed`. In a git diff (`Source::GitDiff`), in any unified hunk state, a line
whose first column is `+`, `-` or blank — whatever follows: `-- `, `++`, `@@`, `\`, anything — that
is not a commit line and not a 40-hex `Subproject commit` line is claimed by `handle_hunk_line`
and by no handler before it: the step is exactly `handle_hunk_line`. -/
theorem hunk_body_line_claimed (cfg : Cfg) (m : M) (l : L)
    (hsrc : m.source = .gitDiff) (hst : isHunkState m.st = true) (hun : hunkCombinedParents m.st = none)
    (hb : firstIs l isMarker) (hc : l.commitRe = false) (hsub : l.submodule = none) :
    chain cfg l Generated.handlerOrder m =
      (match handleHunkLine cfg m l with
       | .ok (_, m') => .ok m'
       | .error e => .error e) := by
  have hnd : isDiffHeader m.st = false := by
    cases hs : m.st <;> simp [hs, isHunkState, isDiffHeader] at hst ⊢
  have hnm : isMergeConflict m.st = false := by
    cases hs : m.st <;> simp [hs, isHunkState, isMergeConflict] at hst ⊢
  have hlt : headerLineTest m = false := by simp [headerLineTest, hnd, hsrc]
  have e1 := handleCommitMeta_not_mine cfg m l hc
  have e3 := handleDiffHeaderDiff_not_mine cfg m l (body_not_startsWith hb (d := 'd') rfl rfl)
  have e4 := handleFileOperation_not_mine cfg m l (by simp [hlt])
  have e5 := handleMinusLine_not_mine cfg m l (by simp [minusLineTest, hlt])
  have e6 := handlePlusLine_not_mine cfg m l (by simp [plusLineTest, hnd])
  have e7 := handleHunkHeader_not_mine cfg m l (body_not_startsWith hb (d := '@') rfl rfl)
  have e8 := handleModeLine_not_mine cfg m l (body_not_startsWith hb (d := 'o') rfl rfl)
    (body_not_startsWith hb (d := 'n') rfl rfl)
  have e9 := handleMisc_not_mine cfg m l (body_not_startsWith hb (d := 'O') rfl rfl)
    (body_not_startsWith hb (d := 'B') rfl rfl)
  have e10 := handleSubmoduleLog_not_mine cfg m l (body_not_startsWith hb (d := 'S') rfl rfl)
  have e11 := handleSubmoduleShort_not_mine cfg m l hsub
  have e12 := handleMergeConflict_not_mine cfg m l hun hnm
  have ehl : ∃ r, handleHunkLine cfg m l = r := ⟨_, rfl⟩
  simp only [Generated.handlerOrder, chain, handlerOf, e1, handleDiffStat, e3, e4, e5, e6, e7, e8, e9, e10, e11, e12]
  unfold handleHunkLine
  simp only [hst, Bool.not_true, Bool.false_eq_true, if_false]
  cases hunkLinePre cfg m with
  | error e => rfl
  | ok m2 =>
    simp only
    cases hunkLinePush cfg m2 l with
    | error e => rfl
    | ok m3 => rfl

/-- the line opens none of the constructs delta renders (as seen from a state outside any diff) -/
structure NotOpener (l : L) : Prop where
  commit : l.commitRe = false
  diff : startsWith l.text Markers.diffLine = false
  hunkHeader : startsWith l.text Markers.hunkHeader = false
  oldMode : startsWith l.text Markers.oldMode = false
  newMode : startsWith l.text Markers.newMode = false
  onlyIn : startsWith l.text Markers.onlyIn = false
  binary : startsWith l.text Markers.binaryFiles = false
  submodule : startsWith l.text Markers.submoduleLog = false
  blame : l.blame = false
  grep : l.grep = 0

/-- `passthrough_exact`. Outside any diff section (state Unknown or CommitMeta, input not a plain
`diff -u` stream) a line that opens no construct is claimed by no handler: the chain ends in
`emit_line_unchanged`, which writes the raw line unchanged — one new row at the end of the
timeline, carrying exactly the bytes received — and leaves the state as it was. -/
theorem passthrough_exact (cfg : Cfg) (m : M) (l : L)
    (hst : m.st = .unknown ∨ m.st = .commitMeta) (hsrc : m.source ≠ .diffUnified) (no : NotOpener l) :
    ∃ m', chain cfg l Generated.handlerOrder m = .ok m' ∧ m'.st = m.st ∧
      timeline m' = timeline m ++ [{ kind := .raw, text := l.raw, src := m.n }] := by
  have hnd : isDiffHeader m.st = false := by rcases hst with h | h <;> simp [h, isDiffHeader]
  have hnm : isMergeConflict m.st = false := by rcases hst with h | h <;> simp [h, isMergeConflict]
  have hnh : isHunkState m.st = false := by rcases hst with h | h <;> simp [h, isHunkState]
  have hnc : hunkCombinedParents m.st = none := by rcases hst with h | h <;> simp [h, hunkCombinedParents]
  have hlt : headerLineTest m = false := by simp [headerLineTest, hnd, hsrc]
  have e1 := handleCommitMeta_not_mine cfg m l no.commit
  have e3 := handleDiffHeaderDiff_not_mine cfg m l no.diff
  have e4 := handleFileOperation_not_mine cfg m l (by simp [hlt])
  have e5 := handleMinusLine_not_mine cfg m l (by simp [minusLineTest, hlt])
  have e6 := handlePlusLine_not_mine cfg m l (by simp [plusLineTest, hnd])
  have e7 := handleHunkHeader_not_mine cfg m l no.hunkHeader
  have e8 := handleModeLine_not_mine cfg m l no.oldMode no.newMode
  have e9 := handleMisc_not_mine cfg m l no.onlyIn no.binary
  have e10 := handleSubmoduleLog_not_mine cfg m l no.submodule
  have e11 : handleSubmoduleShort cfg m l = .ok (false, m) := by
    unfold handleSubmoduleShort submoduleShortTest
    rcases hst with h | h <;> simp [h, isHunkHeader, pairableHunkHeader]
  have e12 := handleMergeConflict_not_mine cfg m l hnc hnm
  have e13 : handleHunkLine cfg m l = .ok (false, m) := by unfold handleHunkLine; simp [hnh]
  have e15 : handleBlame cfg (emit m) l = .ok (false, emit (emit m)) := by
    unfold handleBlame; simp [no.blame]
  have e16 : handleGrep cfg (emit (emit m)) l = .ok (false, emit (emit (emit m))) := by
    unfold handleGrep; simp [no.grep]
  have e17 : handleShouldSkip cfg (emit (emit (emit m))) l = .ok (false, emit (emit (emit m))) := by
    unfold handleShouldSkip shouldSkipLine; simp [hnd]
  refine ⟨emitLineUnchanged (emit (emit (emit m))) l, ?_, by simp, ?_⟩
  · simp only [Generated.handlerOrder, chain, handlerOf, e1, handleDiffStat, e3, e4, e5, e6, e7, e8, e9, e10, e11,
      e12, e13, handleGitShowFile, e15, e16, e17, handleEmitUnchanged]
  · unfold emitLineUnchanged
    rw [timeline_direct_flushed]
    simp [timeline_emit]

end Machine
