import DeltaModel.Machine
/-! Lemmas about the painter primitives of the machine model. -/
namespace Machine
open Headers

/-- states in which no removed/added line may be waiting in the line buffers -/
def quietState : State → Bool
  | .unknown | .blame | .grep | .gitShowFile | .mergeConflict .. => true
  | _ => false

/-- The ordering invariant: every write so far was in order, and in the states from which
rows are written without flushing the line buffers, those buffers are empty. -/
structure Inv (m : M) : Prop where
  order : m.orderOk = true
  quiet : quietState m.st = true → m.minus = [] ∧ m.plus = []

@[simp] theorem emit_orderOk (m : M) : (emit m).orderOk = m.orderOk := rfl
@[simp] theorem emit_minus (m : M) : (emit m).minus = m.minus := rfl
@[simp] theorem emit_plus (m : M) : (emit m).plus = m.plus := rfl
@[simp] theorem emit_buf (m : M) : (emit m).buf = [] := rfl
@[simp] theorem emit_st (m : M) : (emit m).st = m.st := rfl
@[simp] theorem emit_n (m : M) : (emit m).n = m.n := rfl
@[simp] theorem emit_out (m : M) : (emit m).out = m.out ++ m.buf := rfl

@[simp] theorem flushMP_orderOk (m : M) : (flushMP m).orderOk = m.orderOk := by
  unfold flushMP; split <;> rfl
@[simp] theorem flushMP_minus (m : M) : (flushMP m).minus = [] := by
  unfold flushMP; split <;> simp_all
@[simp] theorem flushMP_plus (m : M) : (flushMP m).plus = [] := by
  unfold flushMP; split <;> simp_all
@[simp] theorem flushMP_st (m : M) : (flushMP m).st = m.st := by
  unfold flushMP; split <;> rfl
@[simp] theorem flushMP_n (m : M) : (flushMP m).n = m.n := by
  unfold flushMP; split <;> rfl
@[simp] theorem flushMP_out (m : M) : (flushMP m).out = m.out := by
  unfold flushMP; split <;> rfl

@[simp] theorem direct_minus (m : M) (rows : List Row) : (direct m rows).minus = m.minus := by
  unfold direct; split <;> rfl
@[simp] theorem direct_plus (m : M) (rows : List Row) : (direct m rows).plus = m.plus := by
  unfold direct; split <;> rfl
@[simp] theorem direct_buf (m : M) (rows : List Row) : (direct m rows).buf = m.buf := by
  unfold direct; split <;> rfl
@[simp] theorem direct_st (m : M) (rows : List Row) : (direct m rows).st = m.st := by
  unfold direct; split <;> rfl
@[simp] theorem direct_n (m : M) (rows : List Row) : (direct m rows).n = m.n := by
  unfold direct; split <;> rfl

/-- a direct write is in order when nothing is held back -/
theorem direct_orderOk (m : M) (rows : List Row) (hb : m.buf = []) (hm : m.minus = [])
    (hp : m.plus = []) : (direct m rows).orderOk = m.orderOk := by
  unfold direct; split <;> simp [hb, hm, hp]

end Machine
